(* C16: the codec functions AS TRANSLATED from the Go source of /repo on this run (Gen/CodecGo.v, by tools/goextract) mean,
   under the semantics of Gen/CodecIR.v, exactly the model's codec - for every input.  The statements are about the
   generated values themselves, so a change to message.go / burn_message.go that alters a guard, an offset, a width, a
   reader or the order of the fields on the wire breaks these proofs even if no test input shows a difference. *)
From Coq Require Import List String ZArith Bool Arith.
Import ListNotations.
From Cctp Require Import Lib.Bytes Model.Codec Gen.CodecIR Gen.CodecGo.
Open Scope string_scope.

Definition message_fields (m : message) : list (string * value) :=
  [("Version", VN (m_version m)); ("SourceDomain", VN (m_src m)); ("DestinationDomain", VN (m_dst m)); ("Nonce", VN (m_nonce m));
   ("Sender", VB (m_sender m)); ("Recipient", VB (m_recipient m)); ("DestinationCaller", VB (m_caller m));
   ("MessageBody", VB (m_body m))].
Definition burn_fields (m : burn_message) : list (string * value) :=
  [("Version", VN (bm_version m)); ("BurnToken", VB (bm_token m)); ("MintRecipient", VB (bm_recipient m));
   ("Amount", VZ (bm_amount m)); ("MessageSender", VB (bm_sender m))].

Fixpoint env_of (l : list (string * value)) (f : string) : value :=
  match l with [] => VB [] | (k, v) :: r => if String.eqb f k then v else env_of r f end.

Lemma translated_codecs_wellformed :
  dec_wellformed go_message_parse = true /\ enc_wellformed go_message_bytes = true /\
  dec_wellformed go_burn_parse = true /\ enc_wellformed go_burn_bytes = true.
Proof. vm_compute. repeat split; reflexivity. Qed.

Theorem go_message_parse_is_model bs :
  interp_dec go_message_parse bs = option_map message_fields (decode_message bs).
Proof.
  unfold interp_dec, go_message_parse, decode_message. cbn [d_guards d_fields existsb guard_rejects orb].
  rewrite orb_false_r. destruct (Nat.ltb (length bs) 116); reflexivity.
Qed.

Theorem go_burn_parse_is_model bs :
  interp_dec go_burn_parse bs = option_map burn_fields (decode_burn bs).
Proof.
  unfold interp_dec, go_burn_parse, decode_burn. cbn [d_guards d_fields existsb guard_rejects orb].
  rewrite orb_false_r. destruct (negb (Nat.eqb (length bs) 132)); reflexivity.
Qed.

Theorem go_message_bytes_is_model m :
  interp_enc go_message_bytes (env_of (message_fields m)) = encode_message m.
Proof.
  unfold interp_enc, go_message_bytes, encode_message.
  cbn [e_guards e_writes existsb guard_fails fst snd env_of message_fields String.eqb Ascii.eqb Bool.eqb orb].
  rewrite orb_false_r.
  destruct (negb (Nat.eqb (length (m_sender m)) 32)); [reflexivity|].
  destruct (negb (Nat.eqb (length (m_recipient m)) 32)); [reflexivity|].
  destruct (negb (Nat.eqb (length (m_caller m)) 32)); [reflexivity|].
  cbn [orb map concat eval_src w_src env_of message_fields String.eqb Ascii.eqb Bool.eqb]. rewrite app_nil_r. reflexivity.
Qed.

Theorem go_burn_bytes_is_model m :
  interp_enc go_burn_bytes (env_of (burn_fields m)) = encode_burn m.
Proof.
  unfold interp_enc, go_burn_bytes, encode_burn.
  cbn [e_guards e_writes existsb guard_fails fst snd env_of burn_fields String.eqb Ascii.eqb Bool.eqb orb].
  rewrite orb_false_r.
  destruct (negb (Nat.eqb (length (bm_token m)) 32)); [reflexivity|].
  destruct (negb (Nat.eqb (length (bm_recipient m)) 32)); [reflexivity|].
  destruct (negb (Nat.eqb (length (bm_sender m)) 32)); [reflexivity|].
  cbn [orb map concat eval_src w_src env_of burn_fields String.eqb Ascii.eqb Bool.eqb]. rewrite app_nil_r. reflexivity.
Qed.
