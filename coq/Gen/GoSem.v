(* The meaning, in terms of the model, of the Go constructs that tools/goextract/handlers.go accepts when it TRANSLATES the
   administrative message handlers of /repo into Gallina on every run (Gen/HandlersGo.v).  The generated definitions are
   monadic programs over exactly these primitives; Gen/HandlersGo.v also carries, for every translated handler, the proof
   that the generated program equals the hand-written model handler on every request and every state.

   What is trusted here (the translator's part of the trusted base): that each keeper storage method does to the store
   what its go_ counterpart below does to the model store (the keys they use are checked separately against the Go
   constants by Gen/CheckKeys.v and the write sets by Gen/CheckWrites.v, and the whole is exercised differentially), and
   the translator's reading of the statement forms listed in tools/goextract/handlers.go. *)
From Coq Require Import List ZArith Bool Arith Lia ZifyBool ZifyN ZifyNat.
Import ListNotations.
From Cctp Require Import Lib.Bytes Lib.SMap Lib.Text Lib.Hex Lib.Keccak Lib.Bech32.
From Cctp Require Import Model.Codec Model.State Model.Attest Model.Ledger Model.Handlers Spec.Roles Proofs.MonadFacts.

(* ---- struct types of x/cctp/types as the model represents them; constructor parameters in .pb.go field order ---- *)
Definition go_mk_Attester (Attester : bytes) : bytes := Attester.
Definition go_f_Attester_Attester (a : bytes) : bytes := a.
Definition go_mk_RemoteTokenMessenger (DomainId : N) (Address : bytes) : messenger := {| tm_domain := DomainId; tm_address := Address |}.
Definition go_f_RemoteTokenMessenger_DomainId := tm_domain.
Definition go_f_RemoteTokenMessenger_Address := tm_address.
Definition go_mk_TokenPair (RemoteDomain : N) (RemoteToken LocalToken : bytes) : token_pair :=
  {| tp_domain := RemoteDomain; tp_token := RemoteToken; tp_local := LocalToken |}.
Definition go_f_TokenPair_RemoteDomain := tp_domain.
Definition go_f_TokenPair_RemoteToken := tp_token.
Definition go_f_TokenPair_LocalToken := tp_local.
Definition go_mk_PerMessageBurnLimit (Denom : bytes) (Amount : Z) : limit := {| lim_denom := Denom; lim_amount := Amount |}.
Definition go_f_PerMessageBurnLimit_Denom := lim_denom.
Definition go_f_PerMessageBurnLimit_Amount := lim_amount.
Definition go_mk_MaxMessageBodySize (Amount : N) : N := Amount.
Definition go_f_MaxMessageBodySize_Amount (a : N) : N := a.
Definition go_mk_SignatureThreshold (Amount : N) : N := Amount.
Definition go_f_SignatureThreshold_Amount (a : N) : N := a.
Definition go_mk_BurningAndMintingPaused (Paused : bool) : bool := Paused.
Definition go_f_BurningAndMintingPaused_Paused (b : bool) : bool := b.
Definition go_mk_SendingAndReceivingMessagesPaused (Paused : bool) : bool := Paused.
Definition go_f_SendingAndReceivingMessagesPaused_Paused (b : bool) : bool := b.

Definition go_mk_Nonce (SourceDomain Nonce : N) : used_nonce := {| un_domain := SourceDomain; un_nonce := Nonce |}.
Definition go_f_Nonce_SourceDomain := un_domain.
Definition go_f_Nonce_Nonce := un_nonce.
Definition go_set_Nonce_Nonce (x : used_nonce) (n : N) : used_nonce := {| un_domain := un_domain x; un_nonce := n |}.
Definition go_mk_Message (Version SourceDomain DestinationDomain Nonce : N) (Sender Recipient DestinationCaller MessageBody : bytes) : message :=
  {| m_version := Version; m_src := SourceDomain; m_dst := DestinationDomain; m_nonce := Nonce; m_sender := Sender;
     m_recipient := Recipient; m_caller := DestinationCaller; m_body := MessageBody |}.
Definition go_f_Message_Version := m_version.
Definition go_f_Message_SourceDomain := m_src.
Definition go_f_Message_DestinationDomain := m_dst.
Definition go_f_Message_Nonce := m_nonce.
Definition go_f_Message_Sender := m_sender.
Definition go_f_Message_Recipient := m_recipient.
Definition go_f_Message_DestinationCaller := m_caller.
Definition go_f_Message_MessageBody := m_body.
Definition go_mk_BurnMessage (Version : N) (BurnToken MintRecipient : bytes) (Amount : Z) (MessageSender : bytes) : burn_message :=
  {| bm_version := Version; bm_token := BurnToken; bm_recipient := MintRecipient; bm_amount := Amount; bm_sender := MessageSender |}.
Definition go_f_BurnMessage_Version := bm_version.
Definition go_f_BurnMessage_BurnToken := bm_token.
Definition go_f_BurnMessage_MintRecipient := bm_recipient.
Definition go_f_BurnMessage_Amount := bm_amount.
Definition go_f_BurnMessage_MessageSender := bm_sender.

(* ---- typed events, parameters in events.pb.go field order ---- *)
Definition go_ev_DepositForBurn (Nonce : N) (BurnToken : bytes) (Amount : Z) (Depositor MintRecipient : bytes) (DestinationDomain : N)
           (DestinationTokenMessenger DestinationCaller : bytes) :=
  EvDepositForBurn Nonce BurnToken Amount Depositor MintRecipient DestinationDomain DestinationTokenMessenger DestinationCaller.
Definition go_ev_MintAndWithdraw (MintRecipient : bytes) (Amount : Z) (MintToken : bytes) := EvMintAndWithdraw MintRecipient Amount MintToken.
Definition go_ev_MessageSent (Message : bytes) := EvMessageSent Message.
Definition go_ev_MessageReceived (Caller : bytes) (SourceDomain Nonce : N) (Sender MessageBody : bytes) :=
  EvMessageReceived Caller SourceDomain Nonce Sender MessageBody.
Definition go_ev_AttesterEnabled (Attester : bytes) := EvAttesterEnabled Attester.
Definition go_ev_AttesterDisabled (Attester : bytes) := EvAttesterDisabled Attester.
Definition go_ev_SignatureThresholdUpdated (Old New : N) := EvSignatureThresholdUpdated Old New.
Definition go_ev_OwnerUpdated (Previous New : bytes) := EvOwnerUpdated Previous New.
Definition go_ev_OwnershipTransferStarted (Previous New : bytes) := EvOwnershipTransferStarted Previous New.
Definition go_ev_PauserUpdated (Previous New : bytes) := EvPauserUpdated Previous New.
Definition go_ev_AttesterManagerUpdated (Previous New : bytes) := EvAttesterManagerUpdated Previous New.
Definition go_ev_TokenControllerUpdated (Previous New : bytes) := EvTokenControllerUpdated Previous New.
Definition go_ev_BurningAndMintingPausedEvent := EvBurningAndMintingPaused.
Definition go_ev_BurningAndMintingUnpausedEvent := EvBurningAndMintingUnpaused.
Definition go_ev_SendingAndReceivingPausedEvent := EvSendingAndReceivingPaused.
Definition go_ev_SendingAndReceivingUnpausedEvent := EvSendingAndReceivingUnpaused.
Definition go_ev_TokenPairLinked (LocalToken : bytes) (RemoteDomain : N) (RemoteToken : bytes) := EvTokenPairLinked LocalToken RemoteDomain RemoteToken.
Definition go_ev_TokenPairUnlinked (LocalToken : bytes) (RemoteDomain : N) (RemoteToken : bytes) := EvTokenPairUnlinked LocalToken RemoteDomain RemoteToken.
Definition go_ev_MaxMessageBodySizeUpdated (n : N) := EvMaxMessageBodySizeUpdated n.
Definition go_ev_RemoteTokenMessengerAdded (Domain : N) (Addr : bytes) := EvRemoteTokenMessengerAdded Domain Addr.
Definition go_ev_RemoteTokenMessengerRemoved (Domain : N) (Addr : bytes) := EvRemoteTokenMessengerRemoved Domain Addr.
Definition go_ev_SetBurnLimitPerMessage (Token : bytes) (Amount : Z) := EvSetBurnLimitPerMessage Token Amount.

(* ---- expressions ---- *)
(* a math.Int field of a request: absent (nil) marshals as 0 *)
Definition go_int (o : option Z) : Z := match o with Some a => a | None => 0%Z end.
(* resp.Nonce of a send response *)
Definition go_resp_nonce (r : resp) : N := match r with RNonce n => n | _ => 0%N end.
(* amount.IsNil() *)
Definition go_is_nil (o : option Z) : bool := match o with Some _ => false | None => true end.
(* x == nil on a byte-slice field of a request.  The model has no nil: a request's byte fields are byte lists, and the harness
   hands the handlers non-nil slices (an empty field is []byte{}).  On a chain an absent field decodes to nil and the one
   handler that asks (depositForBurn, of the mint recipient) then rejects a little earlier than it would reject the empty
   slice anyway (BurnMessage.Bytes refuses a recipient that is not 32 bytes): same outcome, fewer dependency calls. *)
Definition go_is_nil_slice (b : bytes) : bool := false.
(* copy(dst[off:], src) *)
Definition go_copy_into (off : nat) (dst src : bytes) : bytes :=
  firstn off dst ++ firstn (length dst - off) src ++ skipn (off + Nat.min (length dst - off) (length src)) dst.
(* uint32(len(x)) *)
Definition go_len32 {A} (l : list A) : N := len32 l.

(* The model reports requests whose denominations contain characters it does not fold the way Go does as "unmodelled"
   (require_modelled); the translation makes no such report.  The tie is therefore: wherever the model gives a verdict at
   all, the translated program gives the same result and the same state. *)
Definition eq_or_unmodelled {A} (go model : res A * hstate) : Prop :=
  match fst model with RUnmodelled => True | _ => go = model end.

(* ---- statements ---- *)
(* if cond { return nil, <error> } *)
Definition go_fail_if (cond : bool) : M unit := guard (negb cond).
(* ctx.EventManager().EmitTypedEvent(&ev)  (its error is nil for these events: they always marshal) *)
Definition go_emit (ev : event) : M unit := emit ev.
(* strings.ToLower(x): the model covers ASCII plus the two code points Go folds into it; anything else is reported unmodelled *)
Definition go_tolower_guard (x : bytes) : M unit := require_modelled (text_ok x).

(* VerifyAttestationSignatures(message, attestation, attesters, threshold) *)
Definition go_verify (e : env) (msg att : bytes) (atts : smap bytes) (thr : N) : M unit :=
  match verify (recover e) msg att (values atts) thr with VAccept => ret tt | VReject => fail | VPanic => panic end.

(* ---- keeper storage methods ---- *)
Definition go_ReserveAndIncrementNonce : M used_nonce := n <- reserve_nonce ;; ret {| un_domain := 0; un_nonce := n |}.
Definition go_GetUsedNonce (n : used_nonce) : M bool := s <- get_st ;; ret (mem (nonce_key (un_domain n) (un_nonce n)) (nonces s)).
Definition go_SetUsedNonce (n : used_nonce) : M unit :=
  mod_st (fun s => set_nonces (insert (nonce_key (un_domain n) (un_nonce n)) n (nonces s)) s).
Definition go_GetOwner : M bytes := role owner.
Definition go_GetAttesterManager : M bytes := role attester_manager.
Definition go_GetPauser : M bytes := role pauser.
Definition go_GetTokenController : M bytes := role token_controller.
Definition go_GetPendingOwner : M (bytes * bool) :=
  s <- get_st ;; ret (match pending_owner s with Some p => (p, true) | None => ([], false) end).
Definition go_SetOwner (v : bytes) : M unit := mod_st (set_owner (Some v)).
Definition go_SetPendingOwner (v : bytes) : M unit := mod_st (set_pending_owner (Some v)).
Definition go_DeletePendingOwner : M unit := mod_st (set_pending_owner None).
Definition go_SetAttesterManager (v : bytes) : M unit := mod_st (set_attester_manager (Some v)).
Definition go_SetPauser (v : bytes) : M unit := mod_st (set_pauser (Some v)).
Definition go_SetTokenController (v : bytes) : M unit := mod_st (set_token_controller (Some v)).

Definition go_SetMaxMessageBodySize (v : N) : M unit := mod_st (set_max_body (Some v)).
Definition go_SetBurningAndMintingPaused (v : bool) : M unit := mod_st (set_bm_paused (Some v)).
Definition go_SetSendingAndReceivingMessagesPaused (v : bool) : M unit := mod_st (set_sr_paused (Some v)).
Definition go_GetBurningAndMintingPaused : M (bool * bool) :=
  s <- get_st ;; ret (match bm_paused s with Some b => (b, true) | None => (false, false) end).
Definition go_GetSendingAndReceivingMessagesPaused : M (bool * bool) :=
  s <- get_st ;; ret (match sr_paused s with Some b => (b, true) | None => (false, false) end).
Definition go_GetMaxMessageBodySize : M (N * bool) :=
  s <- get_st ;; ret (match max_body s with Some n => (n, true) | None => (0%N, false) end).
Definition go_GetPerMessageBurnLimit (d : bytes) : M (limit * bool) :=
  s <- get_st ;; ret (match lookup (limit_key d) (limits s) with
                      | Some l => (l, true) | None => ({| lim_denom := []; lim_amount := 0 |}, false) end).
Definition go_GetSignatureThreshold : M (N * bool) :=
  s <- get_st ;; ret (thr_or0 s, match threshold s with Some _ => true | None => false end).
Definition go_SetSignatureThreshold (v : N) : M unit := mod_st (set_threshold (Some v)).

Definition go_GetRemoteTokenMessenger (d : N) : M (messenger * bool) :=
  s <- get_st ;; ret (match lookup (messenger_key d) (messengers s) with
                      | Some m => (m, true) | None => ({| tm_domain := 0; tm_address := [] |}, false) end).
Definition go_SetRemoteTokenMessenger (m : messenger) : M unit :=
  mod_st (fun s => set_messengers (insert (messenger_key (tm_domain m)) m (messengers s)) s).
Definition go_DeleteRemoteTokenMessenger (d : N) : M unit :=
  mod_st (fun s => set_messengers (remove (messenger_key d) (messengers s)) s).

Definition go_GetAttester (a : bytes) : M (bytes * bool) :=
  s <- get_st ;; ret (match lookup (attester_key a) (attesters s) with Some v => (v, true) | None => ([], false) end).
Definition go_SetAttester (a : bytes) : M unit := mod_st (fun s => set_attesters (insert (attester_key a) a (attesters s)) s).
Definition go_DeleteAttester (a : bytes) : M unit := mod_st (fun s => set_attesters (remove (attester_key a) (attesters s)) s).
(* GetAllAttesters is only ever measured by the translated handlers: the collection itself stands for the slice *)
Definition go_GetAllAttesters : M (smap bytes) := s <- get_st ;; ret (attesters s).

Definition go_GetTokenPair (d : N) (t : bytes) : M (token_pair * bool) :=
  s <- get_st ;; ret (match lookup (pair_key d t) (pairs s) with
                      | Some p => (p, true) | None => ({| tp_domain := 0; tp_token := []; tp_local := [] |}, false) end).
Definition go_SetTokenPair (p : token_pair) : M unit :=
  mod_st (fun s => set_pairs (insert (pair_key (tp_domain p) (tp_token p)) p (pairs s)) s).
Definition go_DeleteTokenPair (d : N) (t : bytes) : M unit := mod_st (fun s => set_pairs (remove (pair_key d t) (pairs s)) s).

Definition go_SetPerMessageBurnLimit (l : limit) : M unit :=
  mod_st (fun s => set_limits (insert (limit_key (lim_denom l)) l (limits s)) s).

(* ---- the equality tactic: unfold both programs to matches over the start state and decide by case analysis ---- *)
Ltac go_unfold :=
  unfold go_fail_if, go_emit, go_tolower_guard,
         go_GetOwner, go_GetAttesterManager, go_GetPauser, go_GetTokenController, go_GetPendingOwner,
         go_SetOwner, go_SetPendingOwner, go_DeletePendingOwner, go_SetAttesterManager, go_SetPauser, go_SetTokenController,
         go_SetMaxMessageBodySize, go_SetBurningAndMintingPaused, go_SetSendingAndReceivingMessagesPaused,
         go_GetSignatureThreshold, go_SetSignatureThreshold, go_GetBurningAndMintingPaused, go_GetSendingAndReceivingMessagesPaused,
         go_GetMaxMessageBodySize, go_GetPerMessageBurnLimit,
         go_GetRemoteTokenMessenger, go_SetRemoteTokenMessenger, go_DeleteRemoteTokenMessenger,
         go_GetAttester, go_SetAttester, go_DeleteAttester, go_GetAllAttesters,
         go_GetTokenPair, go_SetTokenPair, go_DeleteTokenPair, go_SetPerMessageBurnLimit,
         go_mk_Attester, go_f_Attester_Attester, go_mk_RemoteTokenMessenger, go_f_RemoteTokenMessenger_DomainId,
         go_f_RemoteTokenMessenger_Address, go_mk_TokenPair, go_f_TokenPair_RemoteDomain, go_f_TokenPair_RemoteToken,
         go_f_TokenPair_LocalToken, go_mk_PerMessageBurnLimit, go_f_PerMessageBurnLimit_Denom, go_f_PerMessageBurnLimit_Amount,
         go_mk_MaxMessageBodySize, go_f_MaxMessageBodySize_Amount, go_mk_SignatureThreshold, go_f_SignatureThreshold_Amount,
         go_mk_BurningAndMintingPaused, go_f_BurningAndMintingPaused_Paused, go_mk_SendingAndReceivingMessagesPaused,
         go_f_SendingAndReceivingMessagesPaused_Paused,
         go_ev_AttesterEnabled, go_ev_AttesterDisabled, go_ev_SignatureThresholdUpdated, go_ev_OwnerUpdated,
         go_ev_OwnershipTransferStarted, go_ev_PauserUpdated, go_ev_AttesterManagerUpdated, go_ev_TokenControllerUpdated,
         go_ev_BurningAndMintingPausedEvent, go_ev_BurningAndMintingUnpausedEvent, go_ev_SendingAndReceivingPausedEvent,
         go_ev_SendingAndReceivingUnpausedEvent, go_ev_TokenPairLinked, go_ev_TokenPairUnlinked, go_ev_MaxMessageBodySizeUpdated,
         go_ev_RemoteTokenMessengerAdded, go_ev_RemoteTokenMessengerRemoved, go_ev_SetBurnLimitPerMessage,
         go_mk_Nonce, go_f_Nonce_SourceDomain, go_f_Nonce_Nonce, go_set_Nonce_Nonce, go_mk_Message, go_f_Message_Version,
         go_f_Message_SourceDomain, go_f_Message_DestinationDomain, go_f_Message_Nonce, go_f_Message_Sender, go_f_Message_Recipient,
         go_f_Message_DestinationCaller, go_f_Message_MessageBody, go_mk_BurnMessage, go_f_BurnMessage_Version,
         go_f_BurnMessage_BurnToken, go_f_BurnMessage_MintRecipient, go_f_BurnMessage_Amount, go_f_BurnMessage_MessageSender,
         go_ev_DepositForBurn, go_ev_MintAndWithdraw, go_ev_MessageSent, go_ev_MessageReceived,
         go_is_nil, go_is_nil_slice, go_resp_nonce, go_verify, go_ReserveAndIncrementNonce, go_GetUsedNonce, go_SetUsedNonce,
         go_int, go_len32, mem, thr_or0, reserve_nonce.

(* the model side: the handlers and the helpers they are written with *)
Ltac go_model_unfold :=
  cbn [handler];
  unfold h_update_owner, h_accept_owner, h_update_attester_manager, h_update_pauser, h_update_token_controller, h_update_max_body,
         h_add_messenger, h_remove_messenger, h_enable_attester, h_disable_attester, h_update_threshold, h_set_bm, h_set_sr,
         h_link_pair, h_unlink_pair, h_set_limit,
         lift_nonce, h_deposit_with_caller, deposit_for_burn, h_replace_deposit, h_replace_message, h_receive, mint_branch,
         h_send_message, h_send_message_with_caller, send_message, reserve_nonce, verify_now, caller_ok, body_fits, limit_ok,
         valid_addr, flag_on.

(* ---- facts that relate the translator's reading of Go idioms to the helpers the model is written with ---- *)
Lemma skipn_zeros n m : skipn n (zeros m) = zeros (m - n).
Proof. revert m; induction n as [|n IH]; intros [|m]; cbn; try reflexivity. apply IH. Qed.
Lemma go_copy_into_12_zeros32 a : go_copy_into 12 (zeros 32) a = copy12 a.
Proof.
  unfold go_copy_into, copy12. rewrite zeros_length. change (32 - 12) with 20.
  change (firstn 12 (zeros 32)) with (zeros 12). f_equal. f_equal.
  rewrite skipn_zeros. f_equal. lia.
Qed.
Lemma beqb_zeros_is_zeros r : beqb r (zeros (length r)) = is_zeros r.
Proof.
  destruct (is_zeros r) eqn:Z.
  - apply is_zeros_spec in Z. rewrite <- Z. apply beqb_refl.
  - destruct (beqb r (zeros (length r))) eqn:B; [|reflexivity].
    apply beqb_eq in B. apply is_zeros_spec in B. congruence.
Qed.
Lemma beqb_zeros32_is_zeros c : Nat.eqb (length c) 32 = true -> beqb c (zeros 32) = is_zeros c.
Proof. intros L. apply Nat.eqb_eq in L. rewrite <- L. apply beqb_zeros_is_zeros. Qed.
Lemma beqb_sym a b : beqb a b = beqb b a.
Proof.
  destruct (beqb a b) eqn:E1, (beqb b a) eqn:E2; try reflexivity.
  - apply beqb_eq in E1. subst. rewrite beqb_refl in E2. discriminate.
  - apply beqb_eq in E2. subst. rewrite beqb_refl in E1. discriminate.
Qed.

(* a decoded message has a 32-byte destination caller *)
Lemma decoded_caller_len bs m : decode_message bs = Some m -> Nat.eqb (length (m_caller m)) 32 = true.
Proof.
  unfold decode_message. destruct (Nat.ltb_spec (length bs) 116) as [|L]; [discriminate|]. intros [= <-]. cbn [m_caller].
  apply Nat.eqb_eq. rewrite slice_length by lia. reflexivity.
Qed.

(* case analysis on the innermost boolean atom of a scrutinee, so that both programs split on the same facts *)
Ltac go_scrut b :=
  lazymatch b with
  | negb ?x => go_scrut x
  | andb ?x _ => go_scrut x
  | orb ?x _ => go_scrut x
  | _ => destruct b eqn:?
  end.
Ltac go_crunch1 := match goal with |- context [match ?b with _ => _ end] => atom_scrut b; go_scrut b end.
Ltac go_red :=
  cbn beta iota zeta delta [fst snd andb orb negb h_st h_lg h_plan h_ev h_dc
    set_nonces owner pending_owner attester_manager pauser token_controller bm_paused sr_paused max_body next_nonce threshold
    attesters limits pairs messengers nonces
    un_domain un_nonce tm_domain tm_address tp_domain tp_token tp_local lim_denom lim_amount
    m_version m_src m_dst m_nonce m_sender m_recipient m_caller m_body bm_version bm_token bm_recipient bm_amount bm_sender].
Ltac go_norm := rewrite ?go_copy_into_12_zeros32, ?beqb_zeros_is_zeros.
(* contradictory branches that case analysis alone does not see: a 32-byte value equals zeros 32 iff it is all zero *)
Ltac go_fin :=
  match goal with
  | L : Nat.eqb (length ?c) 32 = true, B : beqb ?c (zeros 32) = _, Z : is_zeros ?c = _ |- _ =>
      rewrite (beqb_zeros32_is_zeros c L) in B; congruence
  | D : decode_message ?bs = Some ?m, B : beqb (m_caller ?m) (zeros 32) = _, Z : is_zeros (m_caller ?m) = _ |- _ =>
      rewrite (beqb_zeros32_is_zeros _ (decoded_caller_len _ _ D)) in B; congruence
  end.
Ltac go_eq :=
  unfold eq_or_unmodelled; go_unfold; unfold_m; go_red; go_norm; repeat (go_crunch1; go_red; go_norm);
  try exact I; try reflexivity; try congruence; try go_fin; try (exfalso; lia).

(* the translated administrative handler rejects a submitter who does not hold the role, before touching anything *)
Ltac go_unauth :=
  let R1 := fresh "R" in let R2 := fresh "R" in let R3 := fresh "R" in let R4 := fresh "R" in
  let Hr := fresh "Hr" in let Hh := fresh "Hh" in
  intros (R1 & R2 & R3 & R4) Hr Hh; cbn [role_of] in Hr; injection Hr as <-; cbn [holder] in Hh;
  go_unfold; unfold_m; go_red;
  repeat match goal with
         | |- context [match owner ?s with _ => _ end] => destruct (owner s) eqn:?; [|contradiction]
         | |- context [match attester_manager ?s with _ => _ end] => destruct (attester_manager s) eqn:?; [|contradiction]
         | |- context [match pauser ?s with _ => _ end] => destruct (pauser s) eqn:?; [|contradiction]
         | |- context [match token_controller ?s with _ => _ end] => destruct (token_controller s) eqn:?; [|contradiction]
         | |- context [match pending_owner ?s with _ => _ end] => destruct (pending_owner s) eqn:?
         end; go_red;
  try reflexivity;
  match goal with
  | |- context [beqb ?a ?b] =>
      destruct (beqb a b) eqn:B; go_red; [apply beqb_eq in B; subst; exfalso; apply Hh; reflexivity || congruence | reflexivity]
  end.
