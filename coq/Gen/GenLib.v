(* Helpers for the checks of the generated facts. *)
From Coq Require Import List String ZArith Bool Ascii.
Import ListNotations.
Open Scope string_scope.

(* shared helpers for the checks over generated tables *)
Fixpoint assoc {A} (k : string) (l : list (string * A)) : option A :=
  match l with [] => None | (k', v) :: r => if String.eqb k k' then Some v else assoc k r end.
Fixpoint prefixb (a b : string) : bool :=
  match a, b with
  | EmptyString, _ => true
  | String x a', String y b' => Ascii.eqb x y && prefixb a' b'
  | _, _ => false
  end.
Fixpoint pairwise {A} (f : A -> A -> bool) (l : list A) : bool :=
  match l with [] => true | x :: r => forallb (fun y => f x y && f y x) r && pairwise f r end.
Definition mem_str (x : string) (l : list string) : bool := existsb (String.eqb x) l.
