(* Checked by computation over a table regenerated from the Go source of /repo on every run (tools/goextract):
   a genuine proof, the domain being the finite generated list. *)
From Coq Require Import List String ZArith Bool Ascii.
Import ListNotations.
Open Scope string_scope.
From Cctp Require Import Gen.GenLib Gen.Scan.

(* ---------- C18: no source of nondeterminism in the state machine ---------- *)
Definition known_readonly_vars : list string :=
  ["AttesterManagerKey"; "ModuleAddress"; "OwnerKey"; "PaddedModuleAddress"; "PauserKey"; "PendingOwnerKey"; "TokenControllerKey";
   "remoteTokenNumBytes"; "zeroByteArray"].

Lemma scan_clean :
  go_nondeterministic_imports = [] /\ go_goroutines_and_selects = [] /\ go_ranges_over_maps = [] /\ go_package_var_writes = [] /\
  forallb (fun v => mem_str v known_readonly_vars) go_package_vars = true.
Proof. vm_compute. repeat split; reflexivity. Qed.
