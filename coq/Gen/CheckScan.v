(* Checked by computation over a table regenerated from the Go source of /repo on every run (tools/goextract):
   a genuine proof, the domain being the finite generated list. *)
From Coq Require Import List String ZArith Bool Ascii.
Import ListNotations.
Open Scope string_scope.
From Cctp Require Import Gen.GenLib Gen.Scan.

(* ---------- C18: no source of nondeterminism in the state machine ---------- *)
Definition known_readonly_vars : list string :=
  ["AttesterManagerKey"; "ModuleAddress"; "OwnerKey"; "PaddedModuleAddress"; "PauserKey"; "PendingOwnerKey"; "TokenControllerKey";
   "zeroByteArray"].
(* package-level variables of a basic value type (remoteTokenNumBytes) are not listed: they change only through an assignment,
   ++/-- or a pointer, and every such write to any package-level variable is listed in go_package_var_writes *)

(* the keeper carries only its codec, logger, store service and the two dependency keepers: no memory of its own that could
   outlive a dropped branch or differ between validators *)
Definition known_keeper_fields : list string :=
  ["Keeper.bank"; "Keeper.cdc"; "Keeper.fiattokenfactory"; "Keeper.logger"; "Keeper.storeService"; "msgServer.Keeper"].

Lemma scan_clean :
  go_nondeterministic_imports = [] /\ go_goroutines_and_selects = [] /\ go_ranges_over_maps = [] /\ go_package_var_writes = [] /\
  forallb (fun v => mem_str v known_readonly_vars) go_package_vars = true /\
  forallb (fun v => mem_str v known_keeper_fields) go_keeper_reference_fields = true /\
  go_context_liveness_uses = [].
Proof. vm_compute. repeat split; reflexivity. Qed.
