(* Checked by computation over a table regenerated from the Go source of /repo on every run (tools/goextract):
   a genuine proof, the domain being the finite generated list. *)
From Coq Require Import List String ZArith Bool Ascii.
Import ListNotations.
Open Scope string_scope.
From Cctp Require Import Gen.GenLib Gen.Consts.

(* ---------- C02 / C15 / C17 / C19: the store prefixes partition the flat store ---------- *)
Definition collection_prefixes : list string :=
  ["AttesterKeyPrefix"; "PerMessageBurnLimitKeyPrefix"; "RemoteTokenMessengerKeyPrefix"; "TokenPairKeyPrefix"; "UsedNonceKeyPrefix"].
Definition scalar_keys : list string :=
  ["BurningAndMintingPausedKey"; "MaxMessageBodySizeKey"; "NextAvailableNonceKey"; "SendingAndReceivingMessagesPausedKey"; "SignatureThresholdKey"].
Definition role_keys : list string := ["OwnerKey"; "PendingOwnerKey"; "AttesterManagerKey"; "PauserKey"; "TokenControllerKey"].

Definition val (n : string) : string := match assoc n go_string_consts with Some v => v | None => "" end.
(* the full key of a scalar: prefix store under K holding key K *)
Definition full_keys : list string :=
  map val collection_prefixes ++ map (fun k => val k ++ val k) scalar_keys ++ map val role_keys.

(* no collection prefix, scalar key or role key is empty or a prefix of another: the flat store is a disjoint union *)
Lemma store_keys_prefix_free :
  forallb (fun k => negb (String.eqb k "")) full_keys && pairwise (fun a b => negb (prefixb a b)) full_keys = true.
Proof. vm_compute. reflexivity. Qed.

Lemma expected_key_strings :
  (val "AttesterKeyPrefix", val "PerMessageBurnLimitKeyPrefix", val "RemoteTokenMessengerKeyPrefix", val "TokenPairKeyPrefix", val "UsedNonceKeyPrefix",
   val "OwnerKey", val "PendingOwnerKey") =
  ("Attester/value/", "PerMessageBurnLimit/value/", "RemoteTokenMessenger/value/", "TokenPair/value/", "UsedNonce/value/", "owner", "pending-owner").
Proof. vm_compute. reflexivity. Qed.

