(* A small intermediate representation of the four wire codecs (Message.Parse / Message.Bytes / BurnMessage.Parse /
   BurnMessage.Bytes).  tools/goextract TRANSLATES the Go functions of /repo into values of these types on every run
   (Gen/CodecGo.v); this file gives the representation its meaning, and Gen/CheckCodec.v proves that the meaning of what
   was generated is the model's codec, for every input.

   Meaning given to the Go statements the translator accepts (the translator's part of the trusted base):
   - Parse:  one length guard (len(bz) < n or len(bz) != n, returning an error) followed by field assignments
             msg.F = binary.BigEndian.UintK(bz[a:b]) | bz[a:b] | bz[a:] | math.NewIntFromBigInt(new(big.Int).SetBytes(bz[a:b]));
   - Bytes:  guards len(msg.F) != n (returning an error), a result buffer make([]byte, total), and writes into it:
             PutUintK / FillBytes / copy, directly or through a temporary buffer of constant length; the writes are emitted
             sorted by offset.  When the writes TILE the buffer (each starts where the previous one ends, the first at 0, the
             last up to the end, every source exactly as long as its slot) the result is the concatenation of the sources -
             `tiles` below checks exactly that, and a representation that does not tile has no meaning here (the check fails).
   Any statement outside these forms is reported in the `unknown` list, which the check requires to be empty. *)
From Coq Require Import List String ZArith Bool Arith.
Import ListNotations.
From Cctp Require Import Lib.Bytes.

Inductive value := VN (n : N) | VZ (z : Z) | VB (b : bytes).

(* ---------------- Parse ---------------- *)
Inductive guard := GLt (n : nat) | GNe (n : nat) | GOther (s : string).
Inductive rd := RUint | RBytes | RBig.
Record fld := { f_name : string; f_lo : nat; f_hi : option nat; f_rd : rd }.
Record dec_ir := { d_guards : list guard; d_fields : list fld; d_unknown : list string }.

Definition guard_rejects (g : guard) (bs : bytes) : bool :=
  match g with GLt n => Nat.ltb (length bs) n | GNe n => negb (Nat.eqb (length bs) n) | GOther _ => true end.

Definition read (f : fld) (bs : bytes) : value :=
  let s := match f_hi f with Some hi => slice (f_lo f) hi bs | None => skipn (f_lo f) bs end in
  match f_rd f with RUint => VN (be_dec s) | RBytes => VB s | RBig => VZ (Z.of_N (be_dec s)) end.

Definition interp_dec (ir : dec_ir) (bs : bytes) : option (list (string * value)) :=
  if existsb (fun g => guard_rejects g bs) (d_guards ir) then None
  else Some (map (fun f => (f_name f, read f bs)) (d_fields ir)).

(* ---------------- Bytes ---------------- *)
Inductive src := SUint (f : string) (w : nat) | SBytes (f : string) | SBig (f : string) (w : nat).
Record wr := { w_lo : nat; w_len : option nat; w_src : src }.   (* w_len = None: the slot is as long as its source *)
Record enc_ir := { e_guards : list (string * nat); e_base : nat; e_rest : option string;   (* total = base + len(rest) *)
                   e_writes : list wr; e_unknown : list string }.

Fixpoint lookup (k : string) (l : list (string * nat)) : option nat :=
  match l with [] => None | (k', v) :: r => if String.eqb k k' then Some v else lookup k r end.

(* the length a source is known to have *)
Definition src_len (g : list (string * nat)) (s : src) : option nat :=
  match s with SUint _ w => Some w | SBig _ w => Some w | SBytes f => lookup f g end.

(* the writes tile [0, base) with sources of exactly the slot length, and the last write (if there is a rest field) puts the
   rest field at base, open-ended *)
Fixpoint tiles (g : list (string * nat)) (base : nat) (rest : option string) (pos : nat) (ws : list wr) : bool :=
  match ws with
  | [] => Nat.eqb pos base && match rest with None => true | Some _ => false end
  | w :: ws' =>
      Nat.eqb (w_lo w) pos &&
      match w_src w, rest, ws' with
      | SBytes f, Some r, [] =>
          (* the open-ended tail: the rest field at base *)
          String.eqb f r && Nat.eqb pos base && match lookup f g with None => true | Some _ => false end &&
          match w_len w with None => true | Some _ => false end
      | s, _, _ =>
          match src_len g s with
          | Some n => match w_len w with Some m => Nat.eqb m n | None => true end && tiles g base rest (pos + n) ws'
          | None => false
          end
      end
  end.

Definition eval_src (env : string -> value) (s : src) : bytes :=
  match s with
  | SUint f w => match env f with VN n => be_enc w n | _ => [] end
  | SBytes f => match env f with VB b => b | _ => [] end
  | SBig f w => match env f with VZ z => be_enc w (Z.abs_N z) | _ => [] end
  end.

Definition guard_fails (env : string -> value) (g : string * nat) : bool :=
  match env (fst g) with VB b => negb (Nat.eqb (length b) (snd g)) | _ => true end.

Definition interp_enc (ir : enc_ir) (env : string -> value) : option bytes :=
  if existsb (guard_fails env) (e_guards ir) then None
  else Some (concat (map (fun w => eval_src env (w_src w)) (e_writes ir))).

Definition enc_wellformed (ir : enc_ir) : bool :=
  tiles (e_guards ir) (e_base ir) (e_rest ir) 0 (e_writes ir) && match e_unknown ir with [] => true | _ => false end.
Definition dec_wellformed (ir : dec_ir) : bool :=
  match d_unknown ir with [] => true | _ => false end &&
  forallb (fun g => match g with GOther _ => false | _ => true end) (d_guards ir).
