(* Meaning of the further Go constructs that the translation of x/cctp/genesis.go (InitGenesis, ExportGenesis) uses:
   the GenesisState value and its fields, loops over its lists, pointer fields, panic, and the whole-collection getters. *)
From Coq Require Import List ZArith Bool Arith Lia.
Import ListNotations.
From Cctp Require Import Lib.Bytes Lib.SMap Lib.Bech32.
From Cctp Require Import Model.Codec Model.State Model.Attest Model.Ledger Model.Handlers Model.Genesis Proofs.MonadFacts Gen.GoSem.

(* ---- types.GenesisState is the model's genesis record; *T fields are options, a Nonce{Nonce: n} stands for n ---- *)
Definition go_f_GenesisState_Owner := g_owner.
Definition go_f_GenesisState_AttesterManager := g_attester_manager.
Definition go_f_GenesisState_Pauser := g_pauser.
Definition go_f_GenesisState_TokenController := g_token_controller.
Definition go_f_GenesisState_AttesterList := g_attesters.
Definition go_f_GenesisState_PerMessageBurnLimitList := g_limits.
Definition go_f_GenesisState_BurningAndMintingPaused := g_bm_paused.
Definition go_f_GenesisState_SendingAndReceivingMessagesPaused := g_sr_paused.
Definition go_f_GenesisState_MaxMessageBodySize := g_max_body.
Definition go_f_GenesisState_NextAvailableNonce (g : genesis) : option used_nonce :=
  option_map (fun n => {| un_domain := 0; un_nonce := n |}) (g_next_nonce g).
Definition go_f_GenesisState_SignatureThreshold := g_threshold.
Definition go_f_GenesisState_TokenPairList := g_pairs.
Definition go_f_GenesisState_UsedNoncesList := g_nonces.
Definition go_f_GenesisState_TokenMessengerList := g_messengers.

Definition go_set_GenesisState_Owner (g : genesis) (v : bytes) : genesis :=
  {| g_owner := v; g_attester_manager := g_attester_manager g; g_pauser := g_pauser g; g_token_controller := g_token_controller g; g_attesters := g_attesters g; g_limits := g_limits g; g_bm_paused := g_bm_paused g; g_sr_paused := g_sr_paused g; g_max_body := g_max_body g; g_next_nonce := g_next_nonce g; g_threshold := g_threshold g; g_pairs := g_pairs g; g_nonces := g_nonces g; g_messengers := g_messengers g |}.
Definition go_set_GenesisState_AttesterManager (g : genesis) (v : bytes) : genesis :=
  {| g_owner := g_owner g; g_attester_manager := v; g_pauser := g_pauser g; g_token_controller := g_token_controller g; g_attesters := g_attesters g; g_limits := g_limits g; g_bm_paused := g_bm_paused g; g_sr_paused := g_sr_paused g; g_max_body := g_max_body g; g_next_nonce := g_next_nonce g; g_threshold := g_threshold g; g_pairs := g_pairs g; g_nonces := g_nonces g; g_messengers := g_messengers g |}.
Definition go_set_GenesisState_Pauser (g : genesis) (v : bytes) : genesis :=
  {| g_owner := g_owner g; g_attester_manager := g_attester_manager g; g_pauser := v; g_token_controller := g_token_controller g; g_attesters := g_attesters g; g_limits := g_limits g; g_bm_paused := g_bm_paused g; g_sr_paused := g_sr_paused g; g_max_body := g_max_body g; g_next_nonce := g_next_nonce g; g_threshold := g_threshold g; g_pairs := g_pairs g; g_nonces := g_nonces g; g_messengers := g_messengers g |}.
Definition go_set_GenesisState_TokenController (g : genesis) (v : bytes) : genesis :=
  {| g_owner := g_owner g; g_attester_manager := g_attester_manager g; g_pauser := g_pauser g; g_token_controller := v; g_attesters := g_attesters g; g_limits := g_limits g; g_bm_paused := g_bm_paused g; g_sr_paused := g_sr_paused g; g_max_body := g_max_body g; g_next_nonce := g_next_nonce g; g_threshold := g_threshold g; g_pairs := g_pairs g; g_nonces := g_nonces g; g_messengers := g_messengers g |}.
Definition go_set_GenesisState_AttesterList (g : genesis) (v : list bytes) : genesis :=
  {| g_owner := g_owner g; g_attester_manager := g_attester_manager g; g_pauser := g_pauser g; g_token_controller := g_token_controller g; g_attesters := v; g_limits := g_limits g; g_bm_paused := g_bm_paused g; g_sr_paused := g_sr_paused g; g_max_body := g_max_body g; g_next_nonce := g_next_nonce g; g_threshold := g_threshold g; g_pairs := g_pairs g; g_nonces := g_nonces g; g_messengers := g_messengers g |}.
Definition go_set_GenesisState_PerMessageBurnLimitList (g : genesis) (v : list limit) : genesis :=
  {| g_owner := g_owner g; g_attester_manager := g_attester_manager g; g_pauser := g_pauser g; g_token_controller := g_token_controller g; g_attesters := g_attesters g; g_limits := v; g_bm_paused := g_bm_paused g; g_sr_paused := g_sr_paused g; g_max_body := g_max_body g; g_next_nonce := g_next_nonce g; g_threshold := g_threshold g; g_pairs := g_pairs g; g_nonces := g_nonces g; g_messengers := g_messengers g |}.
Definition go_set_GenesisState_BurningAndMintingPaused (g : genesis) (v : option bool) : genesis :=
  {| g_owner := g_owner g; g_attester_manager := g_attester_manager g; g_pauser := g_pauser g; g_token_controller := g_token_controller g; g_attesters := g_attesters g; g_limits := g_limits g; g_bm_paused := v; g_sr_paused := g_sr_paused g; g_max_body := g_max_body g; g_next_nonce := g_next_nonce g; g_threshold := g_threshold g; g_pairs := g_pairs g; g_nonces := g_nonces g; g_messengers := g_messengers g |}.
Definition go_set_GenesisState_SendingAndReceivingMessagesPaused (g : genesis) (v : option bool) : genesis :=
  {| g_owner := g_owner g; g_attester_manager := g_attester_manager g; g_pauser := g_pauser g; g_token_controller := g_token_controller g; g_attesters := g_attesters g; g_limits := g_limits g; g_bm_paused := g_bm_paused g; g_sr_paused := v; g_max_body := g_max_body g; g_next_nonce := g_next_nonce g; g_threshold := g_threshold g; g_pairs := g_pairs g; g_nonces := g_nonces g; g_messengers := g_messengers g |}.
Definition go_set_GenesisState_MaxMessageBodySize (g : genesis) (v : option N) : genesis :=
  {| g_owner := g_owner g; g_attester_manager := g_attester_manager g; g_pauser := g_pauser g; g_token_controller := g_token_controller g; g_attesters := g_attesters g; g_limits := g_limits g; g_bm_paused := g_bm_paused g; g_sr_paused := g_sr_paused g; g_max_body := v; g_next_nonce := g_next_nonce g; g_threshold := g_threshold g; g_pairs := g_pairs g; g_nonces := g_nonces g; g_messengers := g_messengers g |}.
Definition go_set_GenesisState_NextAvailableNonce (g : genesis) (v : option used_nonce) : genesis :=
  {| g_owner := g_owner g; g_attester_manager := g_attester_manager g; g_pauser := g_pauser g; g_token_controller := g_token_controller g; g_attesters := g_attesters g; g_limits := g_limits g; g_bm_paused := g_bm_paused g; g_sr_paused := g_sr_paused g; g_max_body := g_max_body g; g_next_nonce := option_map un_nonce v; g_threshold := g_threshold g; g_pairs := g_pairs g; g_nonces := g_nonces g; g_messengers := g_messengers g |}.
Definition go_set_GenesisState_SignatureThreshold (g : genesis) (v : option N) : genesis :=
  {| g_owner := g_owner g; g_attester_manager := g_attester_manager g; g_pauser := g_pauser g; g_token_controller := g_token_controller g; g_attesters := g_attesters g; g_limits := g_limits g; g_bm_paused := g_bm_paused g; g_sr_paused := g_sr_paused g; g_max_body := g_max_body g; g_next_nonce := g_next_nonce g; g_threshold := v; g_pairs := g_pairs g; g_nonces := g_nonces g; g_messengers := g_messengers g |}.
Definition go_set_GenesisState_TokenPairList (g : genesis) (v : list token_pair) : genesis :=
  {| g_owner := g_owner g; g_attester_manager := g_attester_manager g; g_pauser := g_pauser g; g_token_controller := g_token_controller g; g_attesters := g_attesters g; g_limits := g_limits g; g_bm_paused := g_bm_paused g; g_sr_paused := g_sr_paused g; g_max_body := g_max_body g; g_next_nonce := g_next_nonce g; g_threshold := g_threshold g; g_pairs := v; g_nonces := g_nonces g; g_messengers := g_messengers g |}.
Definition go_set_GenesisState_UsedNoncesList (g : genesis) (v : list used_nonce) : genesis :=
  {| g_owner := g_owner g; g_attester_manager := g_attester_manager g; g_pauser := g_pauser g; g_token_controller := g_token_controller g; g_attesters := g_attesters g; g_limits := g_limits g; g_bm_paused := g_bm_paused g; g_sr_paused := g_sr_paused g; g_max_body := g_max_body g; g_next_nonce := g_next_nonce g; g_threshold := g_threshold g; g_pairs := g_pairs g; g_nonces := v; g_messengers := g_messengers g |}.
Definition go_set_GenesisState_TokenMessengerList (g : genesis) (v : list messenger) : genesis :=
  {| g_owner := g_owner g; g_attester_manager := g_attester_manager g; g_pauser := g_pauser g; g_token_controller := g_token_controller g; g_attesters := g_attesters g; g_limits := g_limits g; g_bm_paused := g_bm_paused g; g_sr_paused := g_sr_paused g; g_max_body := g_max_body g; g_next_nonce := g_next_nonce g; g_threshold := g_threshold g; g_pairs := g_pairs g; g_nonces := g_nonces g; g_messengers := v |}.

(* types.DefaultGenesis(): empty roles and lists, both pause flags present and false, the other pointers nil *)
Definition go_DefaultGenesis : genesis :=
  {| g_owner := []; g_attester_manager := []; g_pauser := []; g_token_controller := []; g_attesters := []; g_limits := [];
     g_bm_paused := Some false; g_sr_paused := Some false; g_max_body := None; g_next_nonce := None; g_threshold := None;
     g_pairs := []; g_nonces := []; g_messengers := [] |}.

(* ---- statements ---- *)
Definition go_is_some {A} (o : option A) : bool := match o with Some _ => true | None => false end.
Definition go_panic_if (c : bool) : M unit := if c then panic else ret tt.
(* for _, elem := range l { body } *)
Fixpoint go_for_each {A} (body : A -> M unit) (l : list A) : M unit :=
  match l with [] => ret tt | a :: r => body a ;;; go_for_each body r end.
Definition go_with_st (h : hstate) (s : store) : hstate :=
  {| h_st := s; h_lg := h_lg h; h_plan := h_plan h; h_ev := h_ev h; h_dc := h_dc h |}.

(* ---- further keeper storage methods ---- *)
Definition go_SetNextAvailableNonce (n : used_nonce) : M unit := mod_st (set_next_nonce (Some (un_nonce n))).
Definition go_GetNextAvailableNonce : M (used_nonce * bool) :=
  s <- get_st ;; ret (match next_nonce s with Some n => ({| un_domain := 0; un_nonce := n |}, true)
                                            | None => ({| un_domain := 0; un_nonce := 0 |}, false) end).
Definition go_GetAllPerMessageBurnLimits : M (list limit) := s <- get_st ;; ret (values (limits s)).
Definition go_GetAllTokenPairs : M (list token_pair) := s <- get_st ;; ret (values (pairs s)).
Definition go_GetAllUsedNonces : M (list used_nonce) := s <- get_st ;; ret (values (nonces s)).
Definition go_GetRemoteTokenMessengers : M (list messenger) := s <- get_st ;; ret (values (messengers s)).

(* ---- a loop of store updates is one store update ---- *)
Lemma for_each_mod_st {A} (f : A -> store -> store) (l : list A) : forall h,
  go_for_each (fun a => mod_st (f a) ;;; ret tt) l h = (ROk tt, go_with_st h (fold_left (fun s a => f a s) l (h_st h))).
Proof.
  induction l as [|a l IH]; intros h; cbn [go_for_each fold_left].
  - destruct h; reflexivity.
  - unfold bind at 1. unfold bind at 1. unfold mod_st at 1. unfold ret at 1. cbn beta iota. rewrite IH. reflexivity.
Qed.

Lemma fold_attesters l : forall s, fold_left (fun s a => set_attesters (insert (attester_key a) a (attesters s)) s) l s
  = set_attesters (insert_all attester_key l (attesters s)) s.
Proof. induction l as [|a l IH]; intros s; cbn [fold_left insert_all]; [destruct s; reflexivity|]. rewrite IH. unfold insert_all. reflexivity. Qed.
Lemma fold_limits l : forall s, fold_left (fun s a => set_limits (insert (limit_key (lim_denom a)) a (limits s)) s) l s
  = set_limits (insert_all (fun l => limit_key (lim_denom l)) l (limits s)) s.
Proof. induction l as [|a l IH]; intros s; cbn [fold_left insert_all]; [destruct s; reflexivity|]. rewrite IH. unfold insert_all. reflexivity. Qed.
Lemma fold_pairs l : forall s, fold_left (fun s a => set_pairs (insert (pair_key (tp_domain a) (tp_token a)) a (pairs s)) s) l s
  = set_pairs (insert_all (fun p => pair_key (tp_domain p) (tp_token p)) l (pairs s)) s.
Proof. induction l as [|a l IH]; intros s; cbn [fold_left insert_all]; [destruct s; reflexivity|]. rewrite IH. unfold insert_all. reflexivity. Qed.
Lemma fold_nonces l : forall s, fold_left (fun s a => set_nonces (insert (nonce_key (un_domain a) (un_nonce a)) a (nonces s)) s) l s
  = set_nonces (insert_all (fun n => nonce_key (un_domain n) (un_nonce n)) l (nonces s)) s.
Proof. induction l as [|a l IH]; intros s; cbn [fold_left insert_all]; [destruct s; reflexivity|]. rewrite IH. unfold insert_all. reflexivity. Qed.
Lemma fold_messengers l : forall s, fold_left (fun s a => set_messengers (insert (messenger_key (tm_domain a)) a (messengers s)) s) l s
  = set_messengers (insert_all (fun m => messenger_key (tm_domain m)) l (messengers s)) s.
Proof. induction l as [|a l IH]; intros s; cbn [fold_left insert_all]; [destruct s; reflexivity|]. rewrite IH. unfold insert_all. reflexivity. Qed.

(* ---- stepping a straight-line program of store updates, loops and panic tests ---- *)
Lemma step_mod_st {B} (f : store -> store) (kf : unit -> M B) h :
  bind (mod_st f) kf h = kf tt (go_with_st h (f (h_st h))).
Proof. reflexivity. Qed.
Lemma step_unit_block {B} (m : M unit) (kf : unit -> M B) h :
  bind (bind m (fun _ => ret tt)) kf h = bind m (fun _ => kf tt) h.
Proof. unfold bind, ret. destruct (m h) as [[[]| | |] h']; reflexivity. Qed.
Lemma step_for_each {A B} (f : A -> store -> store) (l : list A) (kf : unit -> M B) h :
  bind (go_for_each (fun a => bind (mod_st (f a)) (fun _ => ret tt)) l) kf h
  = kf tt (go_with_st h (fold_left (fun s a => f a s) l (h_st h))).
Proof. unfold bind at 1. rewrite (for_each_mod_st f l h). reflexivity. Qed.
Lemma step_panic_if {B} (c : bool) (kf : unit -> M B) h :
  bind (go_panic_if c) kf h = if c then (RPanic, h) else kf tt h.
Proof. destruct c; reflexivity. Qed.
Lemma step_assoc {A B C} (m : M A) (k1 : A -> M B) (k2 : B -> M C) h :
  bind (bind m k1) k2 h = bind m (fun a => bind (k1 a) k2) h.
Proof. unfold bind. destruct (m h) as [[a| | |] h']; reflexivity. Qed.
Lemma step_get {B} (kf : store -> M B) h : bind get_st kf h = kf (h_st h) h.
Proof. reflexivity. Qed.
Lemma step_ret {A B} (a : A) (kf : A -> M B) h : bind (ret a) kf h = kf a h.
Proof. reflexivity. Qed.

Ltac go_genesis_unfold :=
  unfold go_f_GenesisState_Owner, go_f_GenesisState_AttesterManager, go_f_GenesisState_Pauser, go_f_GenesisState_TokenController,
    go_f_GenesisState_AttesterList, go_f_GenesisState_PerMessageBurnLimitList, go_f_GenesisState_BurningAndMintingPaused,
    go_f_GenesisState_SendingAndReceivingMessagesPaused, go_f_GenesisState_MaxMessageBodySize, go_f_GenesisState_NextAvailableNonce,
    go_f_GenesisState_SignatureThreshold, go_f_GenesisState_TokenPairList, go_f_GenesisState_UsedNoncesList, go_f_GenesisState_TokenMessengerList,
    go_set_GenesisState_Owner, go_set_GenesisState_AttesterManager, go_set_GenesisState_Pauser, go_set_GenesisState_TokenController,
    go_set_GenesisState_AttesterList, go_set_GenesisState_PerMessageBurnLimitList, go_set_GenesisState_BurningAndMintingPaused,
    go_set_GenesisState_SendingAndReceivingMessagesPaused, go_set_GenesisState_MaxMessageBodySize, go_set_GenesisState_NextAvailableNonce,
    go_set_GenesisState_SignatureThreshold, go_set_GenesisState_TokenPairList, go_set_GenesisState_UsedNoncesList, go_set_GenesisState_TokenMessengerList,
    go_DefaultGenesis, go_SetNextAvailableNonce, go_GetNextAvailableNonce, go_GetAllPerMessageBurnLimits, go_GetAllTokenPairs,
    go_GetAllUsedNonces, go_GetRemoteTokenMessengers, go_is_some.

Ltac go_genesis_steps :=
  repeat (progress (
    repeat first [ rewrite step_mod_st | rewrite step_unit_block | rewrite step_for_each | rewrite step_panic_if
                 | rewrite step_get | rewrite step_ret | rewrite step_assoc ];
    cbn beta iota zeta delta [h_st h_lg h_plan h_ev h_dc go_with_st un_nonce un_domain fst snd option_map N.eqb])).

Ltac go_genesis_init :=
  let g := fresh "g" in let h := fresh "h" in let E := fresh "E" in
  intros g h E; go_genesis_unfold; go_unfold; unfold init_genesis, role;
  destruct g as [o am p tc atts lims bm sr mb nn thr prs nns ms];
  cbn [g_owner g_attester_manager g_pauser g_token_controller g_attesters g_limits g_bm_paused g_sr_paused g_max_body
       g_next_nonce g_threshold g_pairs g_nonces g_messengers option_map];
  destruct h as [st lg pl ev dc]; cbn [h_st] in E; subst st;
  destruct bm, sr, mb, nn, thr as [[|thr]|]; cbn [dflt];
  go_genesis_steps;
  rewrite ?fold_attesters, ?fold_limits, ?fold_pairs, ?fold_nonces, ?fold_messengers;
  try reflexivity.

(* a read-only program over a store whose nine optional slots are each set or unset: decide every case by evaluation
   (the collections stay variables; nothing but record projections and matches is computed) *)
Ltac go_genesis_export :=
  let h := fresh "h" in let Hb := fresh "Hb" in let Hs := fresh "Hs" in
  intros h Hb Hs;
  destruct h as [st lg pl ev dc];
  destruct st as [o po am p tc bm sr mb nn thr atts lims prs msgs nns];
  cbn [h_st bm_paused sr_paused] in Hb, Hs;
  destruct bm; [|exfalso; apply Hb; reflexivity]; destruct sr; [|exfalso; apply Hs; reflexivity];
  destruct o, am, p, tc, mb, nn, thr; vm_compute; reflexivity.

(* ---- a loop that carries a value: for _, a := range l { s = body(a, s) } ---- *)
Fixpoint go_loop {A S} (body : A -> S -> M S) (l : list A) (s : S) : M S :=
  match l with [] => ret s | a :: r => s' <- body a s ;; go_loop body r s' end.

(* the duplicate check of Validate: each key is looked up among the keys seen so far *)
Fixpoint dupL (seen ks : list bytes) : bool :=
  match ks with [] => false | k :: r => existsb (beqb k) seen || dupL (k :: seen) r end.

Lemma existsb_beqb_sym k l : existsb (beqb k) l = existsb (fun x => beqb x k) l.
Proof. induction l as [|x l IH]; cbn; [reflexivity|]. rewrite IH, (beqb_sym k x). reflexivity. Qed.

Lemma dupL_spec ks : forall seen, dupL seen ks = existsb (fun k => existsb (beqb k) seen) ks || has_dup ks.
Proof.
  induction ks as [|k r IH]; intros seen; cbn [dupL existsb has_dup]; [reflexivity|].
  rewrite IH. cbn [existsb].
  assert (E : existsb (fun k0 => beqb k0 k || existsb (beqb k0) seen) r
              = existsb (beqb k) r || existsb (fun k0 => existsb (beqb k0) seen) r).
  { clear IH. induction r as [|x r IHr]; cbn; [reflexivity|]. rewrite IHr, (beqb_sym k x).
    destruct (beqb x k), (existsb (beqb x) seen), (existsb (beqb k) r); reflexivity. }
  rewrite E.
  destruct (existsb (beqb k) seen), (existsb (beqb k) r), (existsb (fun k0 => existsb (beqb k0) seen) r), (has_dup r); reflexivity.
Qed.
Lemma dupL_nil ks : dupL [] ks = has_dup ks.
Proof. rewrite dupL_spec. assert (existsb (fun k => existsb (beqb k) []) ks = false) as -> by (induction ks; auto). reflexivity. Qed.

Lemma dup_loop {A} (key : A -> bytes) (l : list A) : forall seen h,
  go_loop (fun a m => go_fail_if (existsb (beqb (key a)) m) ;;; ret (key a :: m)) l seen h
  = if dupL seen (map key l) then (RErr, h) else (ROk (rev (map key l) ++ seen), h).
Proof.
  induction l as [|a l IH]; intros seen h; cbn [go_loop map dupL rev app]; [reflexivity|].
  unfold bind at 1. unfold bind at 1. unfold go_fail_if, guard. destruct (existsb (beqb (key a)) seen); cbn [negb orb].
  - reflexivity.
  - unfold ret at 1 2. cbn beta iota. rewrite IH. destruct (dupL (key a :: seen) (map key l)); [reflexivity|].
    rewrite <- app_assoc. reflexivity.
Qed.
Lemma step_dup_loop {A B} (key : A -> bytes) (l : list A) (kf : list bytes -> M B) h :
  bind (go_loop (fun a m => go_fail_if (existsb (beqb (key a)) m) ;;; ret (key a :: m)) l []) kf h
  = if has_dup (map key l) then (RErr, h) else kf (rev (map key l) ++ []) h.
Proof. unfold bind at 1. rewrite dup_loop, dupL_nil. destruct (has_dup (map key l)); reflexivity. Qed.

Lemma step_fail_if {B} (c : bool) (kf : unit -> M B) h : bind (go_fail_if c) kf h = if c then (RErr, h) else kf tt h.
Proof. destruct c; reflexivity. Qed.
Lemma step_lift_opt {A B} (o : option A) (kf : A -> M B) h :
  bind (lift_opt o) kf h = match o with Some a => kf a h | None => (RErr, h) end.
Proof. destruct o; reflexivity. Qed.
Lemma step_if_unit {B} (c : bool) (m : M unit) (kf : unit -> M B) h :
  bind (if c then m else ret tt) kf h = if c then bind m kf h else kf tt h.
Proof. destruct c; reflexivity. Qed.

Ltac go_genesis_validate :=
  let e := fresh "e" in let g := fresh "g" in let h := fresh "h" in
  intros e g h; go_genesis_unfold;
  unfold go_f_Attester_Attester, go_f_PerMessageBurnLimit_Denom, go_f_TokenPair_RemoteDomain, go_f_TokenPair_RemoteToken,
         go_f_Nonce_SourceDomain, go_f_Nonce_Nonce, go_f_RemoteTokenMessenger_DomainId, validate, role_ok, valid_addr;
  destruct g as [o am p tc atts lims bm sr mb nn thr prs nns ms];
  cbn [g_owner g_attester_manager g_pauser g_token_controller g_attesters g_limits g_bm_paused g_sr_paused g_max_body
       g_next_nonce g_threshold g_pairs g_nonces g_messengers];
  cbv zeta;
  repeat (progress (
    repeat first [ rewrite step_if_unit | rewrite step_dup_loop | rewrite step_fail_if | rewrite step_lift_opt
                 | rewrite step_unit_block | rewrite step_ret | rewrite step_assoc ];
    cbn beta iota));
  destruct o as [|? ?], am as [|? ?], p as [|? ?], tc as [|? ?]; cbn [beqb negb andb];
  repeat match goal with |- context [acc_address ?a ?b] => destruct (acc_address a b) end;
  cbn [negb andb];
  repeat match goal with |- context [has_dup ?l] => destruct (has_dup l) end;
  destruct bm, sr; cbn [negb andb]; reflexivity.
