(* Checked by computation over a table regenerated from the Go source of /repo on every run (tools/goextract):
   a genuine proof, the domain being the finite generated list. *)
From Coq Require Import List String ZArith Bool Ascii.
Import ListNotations.
Open Scope string_scope.
From Cctp Require Import Gen.GenLib Gen.Consts.

(* ---------- C16: the offset constants are the CCTP numbers ---------- *)
(* the layout itself (offsets, widths, guards) is no longer compared by constant NAME: Gen/CheckCodec.v proves it about the
   translated Parse / Bytes functions, with the constants resolved by value; here only the protocol numbers the handlers use *)
Definition expected_ints : list (string * Z) := [
  ("NobleMessageVersion", 0); ("MessageBodyVersion", 0); ("NobleDomainId", 4); ("SignatureLength", 65)]%Z.

Lemma constants_are_the_cctp_layout :
  forallb (fun kv => match assoc (fst kv) go_int_consts with Some v => Z.eqb v (snd kv) | None => false end) expected_ints = true.
Proof. vm_compute. reflexivity. Qed.

