(* Checked by computation over a table regenerated from the Go source of /repo on every run (tools/goextract):
   a genuine proof, the domain being the finite generated list. *)
From Coq Require Import List String ZArith Bool Ascii.
Import ListNotations.
Open Scope string_scope.
From Cctp Require Import Gen.GenLib Gen.Consts.

(* ---------- C16: the offset constants are the CCTP numbers ---------- *)
Definition expected_ints : list (string * Z) := [
  ("VersionIndex", 0); ("SourceDomainIndex", 4); ("DestinationDomainIndex", 8); ("NonceIndex", 12); ("SenderIndex", 20);
  ("RecipientIndex", 52); ("DestinationCallerIndex", 84); ("MessageBodyIndex", 116);
  ("BurnMsgVersionIndex", 0); ("VersionLen", 4); ("BurnTokenIndex", 4); ("BurnTokenLen", 32); ("MintRecipientIndex", 36);
  ("MintRecipientLen", 32); ("AmountIndex", 68); ("AmountLen", 32); ("MsgSenderIndex", 100); ("MsgSenderLen", 32);
  ("BurnMessageLen", 132); ("NobleMessageVersion", 0); ("MessageBodyVersion", 0); ("NobleDomainId", 4);
  ("DomainBytesLen", 4); ("UsedNonceLen", 8); ("SignatureLength", 65)]%Z.

Lemma constants_are_the_cctp_layout :
  forallb (fun kv => match assoc (fst kv) go_int_consts with Some v => Z.eqb v (snd kv) | None => false end) expected_ints = true.
Proof. vm_compute. reflexivity. Qed.

