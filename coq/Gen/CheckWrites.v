(* Checked by computation over a table regenerated from the Go source of /repo on every run (tools/goextract):
   a genuine proof, the domain being the finite generated list. *)
From Coq Require Import List String ZArith Bool Ascii.
Import ListNotations.
Open Scope string_scope.
From Cctp Require Import Gen.GenLib Gen.WriteSets.

(* ---------- C15: statically, for every code path: write primitives reachable from each entry point ---------- *)
(* which stored collection a key constant / key function addresses; helper names that address nothing map to "" *)
Definition collection_of (c : string) : string :=
  if String.eqb c "KeyPrefix" then ""
  else if String.eqb c "OwnerKey" then "owner" else if String.eqb c "PendingOwnerKey" then "pending"
  else if String.eqb c "AttesterManagerKey" then "attmgr" else if String.eqb c "PauserKey" then "pauser"
  else if String.eqb c "TokenControllerKey" then "tokctl"
  else if String.eqb c "BurningAndMintingPausedKey" then "bm" else if String.eqb c "SendingAndReceivingMessagesPausedKey" then "sr"
  else if String.eqb c "MaxMessageBodySizeKey" then "maxbody" else if String.eqb c "NextAvailableNonceKey" then "nextnonce"
  else if String.eqb c "SignatureThresholdKey" then "threshold"
  else if String.eqb c "AttesterKey" || String.eqb c "AttesterKeyPrefix" then "attester"
  else if String.eqb c "PerMessageBurnLimitKey" || String.eqb c "PerMessageBurnLimitKeyPrefix" then "limit"
  else if String.eqb c "TokenPairKey" || String.eqb c "TokenPairKeyPrefix" then "pair"
  else if String.eqb c "RemoteTokenMessengerKey" || String.eqb c "RemoteTokenMessengerKeyPrefix" then "messenger"
  else if String.eqb c "UsedNonceKey" || String.eqb c "UsedNonceKeyPrefix" then "nonce"
  else "UNKNOWN:" ++ c.

(* the documented write sets (x/cctp/spec/02_messages.md and the property text), by collection *)
Definition documented : list (string * list string) := [
  ("AcceptOwner", ["owner"; "pending"]); ("AddRemoteTokenMessenger", ["messenger"]); ("RemoveRemoteTokenMessenger", ["messenger"]);
  ("DepositForBurn", ["nextnonce"]); ("DepositForBurnWithCaller", ["nextnonce"]); ("SendMessage", ["nextnonce"]); ("SendMessageWithCaller", ["nextnonce"]);
  ("DisableAttester", ["attester"]); ("EnableAttester", ["attester"]); ("LinkTokenPair", ["pair"]); ("UnlinkTokenPair", ["pair"]);
  ("PauseBurningAndMinting", ["bm"]); ("UnpauseBurningAndMinting", ["bm"]);
  ("PauseSendingAndReceivingMessages", ["sr"]); ("UnpauseSendingAndReceivingMessages", ["sr"]);
  ("ReceiveMessage", ["nonce"]); ("ReplaceDepositForBurn", []); ("ReplaceMessage", []);
  ("UpdateOwner", ["pending"]); ("UpdateAttesterManager", ["attmgr"]); ("UpdatePauser", ["pauser"]); ("UpdateTokenController", ["tokctl"]);
  ("UpdateMaxMessageBodySize", ["maxbody"]); ("SetMaxBurnAmountPerMessage", ["limit"]); ("UpdateSignatureThreshold", ["threshold"]);
  ("InitGenesis", ["owner"; "attmgr"; "pauser"; "tokctl"; "bm"; "sr"; "maxbody"; "nextnonce"; "threshold"; "attester"; "limit"; "pair"; "messenger"; "nonce"])].

(* every entry point: the collections its reachable write primitives address are documented for it;
   entry points without a row (the 19 queries, ExportGenesis, Validate) must reach no write primitive *)
Lemma static_write_sets_within_documentation :
  forallb (fun ew =>
    let doc := match assoc (fst ew) documented with Some d => d | None => [] end in
    forallb (fun c => let col := collection_of c in String.eqb col "" || mem_str col doc) (snd ew)) go_write_sets = true.
Proof. vm_compute. reflexivity. Qed.

(* all 25 handlers, 19 queries and the genesis entry points were found *)
Lemma all_entry_points_present :
  forallb (fun n => match assoc n go_write_sets with Some _ => true | None => false end)
    (map fst documented ++ ["ExportGenesis"; "Validate"; "Attester"; "Attesters"; "BurnMessageVersion"; "BurningAndMintingPaused"; "LocalDomain";
       "LocalMessageVersion"; "MaxMessageBodySize"; "NextAvailableNonce"; "PerMessageBurnLimit"; "PerMessageBurnLimits"; "RemoteTokenMessenger";
       "RemoteTokenMessengers"; "Roles"; "SendingAndReceivingMessagesPaused"; "SignatureThreshold"; "TokenPair"; "TokenPairs"; "UsedNonce"; "UsedNonces"]) = true.
Proof. vm_compute. reflexivity. Qed.

