(* Meaning of the Go constructs particular to the translation of the single-answer gRPC queries (keeper/grpc_query_*.go):
   the response structs as the model's qresp values, and the one storage method only queries use. *)
From Coq Require Import List ZArith Bool Arith.
Import ListNotations.
From Cctp Require Import Lib.Bytes Lib.SMap Lib.Hex Lib.Paginate.
From Cctp Require Import Model.Codec Model.State Model.Attest Model.Ledger Model.Handlers Model.Genesis Model.Queries Proofs.MonadFacts Gen.GoSem Gen.GoSemGenesis.

(* response structs, parameters in query.pb.go field order *)
Definition go_qr_QueryRolesResponse (o a p t : bytes) : qresp := QRolesResp o a p t.
Definition go_qr_QueryGetAttesterResponse (a : bytes) : qresp := QAttesterResp a.
Definition go_qr_QueryGetPerMessageBurnLimitResponse (l : limit) : qresp := QLimitResp l.
Definition go_qr_QueryGetBurningAndMintingPausedResponse (b : bool) : qresp := QFlag b.
Definition go_qr_QueryGetSendingAndReceivingMessagesPausedResponse (b : bool) : qresp := QFlag b.
Definition go_qr_QueryGetMaxMessageBodySizeResponse (n : N) : qresp := QNum n.
Definition go_qr_QueryGetNextAvailableNonceResponse (n : used_nonce) : qresp := QNum (un_nonce n).
Definition go_qr_QueryGetSignatureThresholdResponse (n : N) : qresp := QNum n.
Definition go_qr_QueryGetTokenPairResponse (p : token_pair) : qresp := QPairResp p.
Definition go_qr_QueryGetUsedNonceResponse (n : used_nonce) : qresp := QNonceResp n.
Definition go_qr_QueryRemoteTokenMessengerResponse (m : messenger) : qresp := QMessengerResp m.
Definition go_qr_QueryBurnMessageVersionResponse (n : N) : qresp := QNum n.
Definition go_qr_QueryLocalMessageVersionResponse (n : N) : qresp := QNum n.
Definition go_qr_QueryLocalDomainResponse (n : N) : qresp := QNum n.

(* GetTokenPairHex(domain, hex): types.RemoteTokenPadded of the hex string, then the lookup *)
Definition go_GetTokenPairHex (d : N) (hexs : bytes) : M (token_pair * bool) :=
  s <- get_st ;; ret (match remote_token_padded hexs with
                      | Some t => match lookup (pair_key d t) (pairs s) with
                                  | Some p => (p, true) | None => ({| tp_domain := 0; tp_token := []; tp_local := [] |}, false) end
                      | None => ({| tp_domain := 0; tp_token := []; tp_local := [] |}, false)
                      end).

Ltac go_query_eq :=
  intros;
  unfold go_qr_QueryRolesResponse, go_qr_QueryGetAttesterResponse, go_qr_QueryGetPerMessageBurnLimitResponse,
         go_qr_QueryGetBurningAndMintingPausedResponse, go_qr_QueryGetSendingAndReceivingMessagesPausedResponse,
         go_qr_QueryGetMaxMessageBodySizeResponse, go_qr_QueryGetNextAvailableNonceResponse, go_qr_QueryGetSignatureThresholdResponse,
         go_qr_QueryGetTokenPairResponse, go_qr_QueryGetUsedNonceResponse, go_qr_QueryRemoteTokenMessengerResponse,
         go_qr_QueryBurnMessageVersionResponse, go_qr_QueryLocalMessageVersionResponse, go_qr_QueryLocalDomainResponse,
         go_GetTokenPairHex, go_GetNextAvailableNonce, run_query, of_opt;
  go_unfold; unfold_m; go_red;
  repeat (go_crunch1; go_red); try reflexivity; try congruence.
