(* C06 - Outbound messages carry exactly the requested content. *)
From Cctp Require Import Lib.Bytes Lib.SMap Lib.Text Lib.Bech32 Lib.Hex Lib.Keccak.
From Cctp Require Import Model.Codec Model.State Model.Attest Model.Ledger Model.Handlers Model.Chain.
From Cctp Require Import Spec.Layout Proofs.MonadFacts Proofs.FlowFacts Proofs.MoneyFacts Proofs.CodecFacts Proofs.HistoryFacts Proofs.KeccakFacts.
From Cctp Require Import Gen.GoF_sendMessage Gen.GoH_SendMessage Gen.GoH_SendMessageWithCaller.

(* the CCTP message a producer is asked to emit, in the independent reference layout of Spec/Layout.v *)
Definition ref_msg (dest nonce : N) (sender rcp caller body : bytes) : ref_message :=
  {| r_version := 0; r_src := 4; r_dst := dest; r_nonce := nonce; r_sender := sender; r_recipient := rcp;
     r_caller := caller; r_body := body |}.

Lemma msg_of_layout dest rcp caller sender n body :
  encode_message (msg_of dest rcp caller sender n body) = ref_encode_message (ref_msg dest n sender rcp caller body).
Proof. rewrite encode_message_layout. reflexivity. Qed.

(* SendMessage / SendMessageWithCaller: the one event is MessageSent with exactly version 0, source
   domain 4, the requested destination, the nonce returned to the caller (the counter), the submitter's
   address left-padded to 32 bytes, the requested recipient, the requested caller (all-zero when none)
   and the requested body - byte for byte in the reference layout. *)
Theorem C06_send_message_exact : forall e c plan from dest rcp body,
  is_ok (deliver e c plan (SendMessage from dest rcp body)) = true ->
  exists addr bz, acc_address (hrp e) from = Some addr /\
    r_out (deliver e c plan (SendMessage from dest rcp body)) = OOk (RNonce (nn (c_st c))) /\
    r_events (deliver e c plan (SendMessage from dest rcp body)) = [EvMessageSent bz] /\
    ref_encode_message (ref_msg dest (nn (c_st c)) (copy12 addr) rcp (zeros 32) body) = Some bz.
Proof.
  intros e c plan from dest rcp body O. pose proof (producer_ok e c plan _ O eq_refl) as (Ho&_&_).
  apply ok_inv in O as (a&h'&H&E). rewrite E in *. cbn [r_events r_out] in *. cbn [handler] in H. unfold lift_nonce in H. inv_ok H. injection H as <- <-.
  match goal with Hd : h_send_message _ _ _ _ _ _ = _ |- _ => apply send_inv in Hd as (addr&bz&A&N&S&St&Lg&Ev&Dc&Pl) end.
  cbn [start h_st h_ev] in *. destruct S. exists addr, bz. rewrite Ev, <- msg_of_layout. subst. auto.
Qed.

Theorem C06_send_message_with_caller_exact : forall e c plan from dest rcp body caller,
  is_ok (deliver e c plan (SendMessageWithCaller from dest rcp body caller)) = true ->
  exists addr bz, acc_address (hrp e) from = Some addr /\
    r_out (deliver e c plan (SendMessageWithCaller from dest rcp body caller)) = OOk (RNonce (nn (c_st c))) /\
    r_events (deliver e c plan (SendMessageWithCaller from dest rcp body caller)) = [EvMessageSent bz] /\
    ref_encode_message (ref_msg dest (nn (c_st c)) (copy12 addr) rcp caller body) = Some bz.
Proof.
  intros e c plan from dest rcp body caller O. pose proof (producer_ok e c plan _ O eq_refl) as (Ho&_&_).
  apply ok_inv in O as (a&h'&H&E). rewrite E in *. cbn [r_events r_out] in *. cbn [handler] in H. unfold lift_nonce in H. inv_ok H. injection H as <- <-.
  match goal with Hd : h_send_message_with_caller _ _ _ _ _ _ _ = _ |- _ =>
    apply send_wc_inv in Hd as (addr&bz&A&N&L1&L2&S&St&Lg&Ev&Dc&Pl) end.
  cbn [start h_st h_ev] in *. destruct S. exists addr, bz. rewrite Ev, <- msg_of_layout. subst. auto.
Qed.

(* the burn body of a deposit, in the reference layout *)
Definition ref_burn_body (bt mr : bytes) (a : Z) (addr : bytes) : ref_burn :=
  {| rb_version := 0; rb_token := keccak256 (to_lower bt); rb_recipient := mr; rb_amount := Z.to_N a; rb_sender := copy12 addr |}.

Lemma abs_to_N z : (0 < z)%Z -> Z.abs_N z = Z.to_N z.
Proof. destruct z; intros H; try reflexivity; discriminate H. Qed.

(* Deposits: MessageSent carries sender = the module, recipient = the token messenger registered for the
   destination, caller = the requested one (all-zero for the plain variant), body = the version-0 burn
   message with burn token keccak256(lower-cased denom), the requested mint recipient, the deposited
   amount and the depositor as message sender; the DepositForBurn event alongside reports the same
   nonce, amount, depositor, mint recipient, destination, messenger and the requested caller. *)
Theorem C06_deposit_exact : forall e c plan t from amount dest mr bt caller,
  (t = DepositForBurn from amount dest mr bt /\ caller = []) \/ t = DepositForBurnWithCaller from amount dest mr bt caller ->
  is_ok (deliver e c plan t) = true ->
  exists addr a tm maddr body bz,
    acc_address (hrp e) from = Some addr /\ amount = Some a /\ (0 < a)%Z /\
    lookup (messenger_key dest) (messengers (c_st c)) = Some tm /\ acc_address (hrp e) (module_str e) = Some maddr /\
    r_out (deliver e c plan t) = OOk (RNonce (nn (c_st c))) /\
    ref_encode_burn (ref_burn_body bt mr a addr) = Some body /\
    ref_encode_message (ref_msg dest (nn (c_st c)) (copy12 maddr) (tm_address tm)
                                (if Nat.eqb (length caller) 0 then zeros 32 else caller) body) = Some bz /\
    r_events (deliver e c plan t) =
      [EvMessageSent bz;
       EvDepositForBurn (nn (c_st c)) (hex_encode (keccak256 (to_lower bt))) a from mr dest (tm_address tm) caller].
Proof.
  intros e c plan t from amount dest mr bt caller T O.
  destruct (deposit_ok_effects e c plan t from amount dest mr bt caller T O) as (F&Ho&Hev&Hdc&Hlg&Hst).
  destruct_deposit F. cbn [start h_st h_lg h_ev h_dc] in *. destruct Dsent.
  exists daddr, damt, dtm, dmaddr, dbody, dbz. rewrite Hev, Dev, <- msg_of_layout. cbn [app].
  assert (ref_encode_burn (ref_burn_body bt mr damt daddr) = Some dbody) as RB.
  { rewrite <- Denc, encode_burn_layout. unfold to_ref_burn, ref_burn_body, burn_body.
    cbn [bm_version bm_token bm_recipient bm_amount bm_sender]. do 2 f_equal. symmetry. apply abs_to_N. exact Dpos. }
  auto 12.
Qed.

(* A replacement's event names the same burn token as the original deposit's event: the deposit reports
   hex(keccak256(lower-cased denom)), which is the burn-token field of the message it emitted, and the
   replacement reports hex(burn-token field of the original message). *)
Theorem C06_replace_event_same_token : forall e c plan from orig att caller rcp bt mr a addr body,
  is_ok (deliver e c plan (ReplaceDepositForBurn from orig att caller rcp)) = true ->
  (forall m, decode_message orig = Some m -> m_body m = body) ->
  encode_burn (burn_body bt mr a addr) = Some body -> (0 < a < 2 ^ 256)%Z ->
  exists bz n amt dst msgr,
    r_events (deliver e c plan (ReplaceDepositForBurn from orig att caller rcp)) =
      [EvMessageSent bz; EvDepositForBurn n (hex_encode (keccak256 (to_lower bt))) amt from rcp dst msgr caller] /\ amt = a.
Proof.
  intros e c plan from orig att caller rcp bt mr a addr body O HB EB R.
  destruct (replace_deposit_reuses_nonce e c plan from orig att caller rcp O) as (m&b&body'&bz&D&DB&EB'&Ev&EM).
  rewrite (HB m D) in DB. assert (decode_burn body = Some (burn_body bt mr a addr)) as DB'.
  { apply burn_encode_decode; [exact EB|]. split; cbn; lia. }
  rewrite DB' in DB. injection DB as <-. cbn [bm_token bm_amount burn_body] in Ev. eauto 10.
Qed.

(* sendMessage, SendMessage and SendMessageWithCaller as translated from the Go source are the model functions (go_X_ok: forall e request h, eq_or_unmodelled (go_X e request h) (handler e (X request) h): same result and same state wherever the model gives a verdict at all, i.e. except on denominations outside the character set the model folds; for the two helpers the right-hand side is send_message / deposit_for_burn). The statement is about the Gallina program that tools/goextract TRANSLATED from the Go source of /repo on this run (Gen/GoH_*.v, Gen/GoF_*.v; meaning of the Go constructs: Gen/GoSem.v). For a function the translator could not read the conjunct is True (Gen/<file> names the reason, the evidence lists it) and the tie for it is the differential execution alone. *)
Theorem C06_go_send_handlers_are_the_model :
  go_fn_sendMessage_ok /\
  go_SendMessage_ok /\
  go_SendMessageWithCaller_ok.
Proof. split; [exact go_fn_sendMessage_ok_proof|]. split; [exact go_SendMessage_ok_proof|]. exact go_SendMessageWithCaller_ok_proof. Qed.

Print Assumptions C06_send_message_exact.
Print Assumptions C06_send_message_with_caller_exact.
Print Assumptions C06_deposit_exact.
Print Assumptions C06_replace_event_same_token.
Print Assumptions C06_go_send_handlers_are_the_model.
