(* C01 - Inbound messages need a quorum of distinct enabled attesters. *)
From Cctp Require Import Lib.Bytes Lib.SMap Lib.Hex Lib.Keccak.
From Cctp Require Import Model.Codec Model.State Model.Attest Model.Ledger Model.Handlers Model.Chain.
From Cctp Require Import Proofs.MonadFacts Proofs.FlowFacts Proofs.MoneyFacts Proofs.AttestFacts.

(* All theorems hold for EVERY recovery function [recover] (go-ethereum's Ecrecover in the running system):
   no fact about elliptic curves is assumed.  [accepted recover digest att A pks 0 None] says: the i-th
   65-byte chunk of [att], after v-normalisation, recovers to the 65-byte key pks[i] over [digest]; every
   pks[i] is the hex decoding of some enabled attester string in A; and the Ethereum-style addresses
   (last 20 bytes of keccak256 of the key without its first byte) are strictly increasing. *)

(* Accepted exactly when: threshold non-zero, the attestation is exactly threshold-many 65-byte
   signatures, each recovering (over the Keccak-256 digest of the exact message bytes) to an enabled
   attester, in strictly increasing signer-address order.  Both directions: nothing else gets through, and
   every attestation built that way is accepted. *)
Theorem C01_accept_iff : forall recover msg att A thr,
  verify recover msg att A thr = VAccept <->
  thr <> 0%N /\ N.of_nat (length att) = (65 * thr)%N /\
  exists pks, length pks = N.to_nat thr /\ accepted recover (keccak256 msg) att A pks 0 None.
Proof. exact verify_accept_iff. Qed.

(* Quorum: an accepted attestation carries threshold-many pairwise DISTINCT keys, each enabled.  Hence a
   repeated signature, the high-s twin of a signature (whatever key it recovers to: the same key is a
   duplicate, another key must itself be enabled and in order), or any reordering that breaks the strict
   order cannot reach the threshold with fewer distinct enabled signers. *)
Theorem C01_quorum : forall recover msg att A thr,
  verify recover msg att A thr = VAccept ->
  exists pks, length pks = N.to_nat thr /\ NoDup pks /\ Forall (fun pk => is_attester A pk = true) pks /\
    forall k pk, nth_error pks k = Some pk ->
      recover65 recover (keccak256 msg) (norm_v (chunk k att)) = Some pk.
Proof.
  intros recover msg att A thr H. apply verify_accept_iff in H as (_&_&pks&L&Acc). exists pks.
  destruct (accepted_nodup recover _ _ _ _ _ _ Acc) as [ND F]. repeat split; auto.
  intros k pk N. exact (accepted_nth recover _ _ _ _ 0 None k pk Acc N).
Qed.

(* No two chunks of an accepted attestation recover to the same key. *)
Theorem C01_no_duplicate_signer : forall recover msg att A thr i j pk,
  verify recover msg att A thr = VAccept -> i < N.to_nat thr -> j < N.to_nat thr -> i <> j ->
  recover65 recover (keccak256 msg) (norm_v (chunk i att)) = Some pk ->
  recover65 recover (keccak256 msg) (norm_v (chunk j att)) = Some pk -> False.
Proof.
  intros recover msg att A thr i j pk H Li Lj NE Ri Rj. destruct (C01_quorum _ _ _ _ _ H) as (pks&L&ND&_&Nth).
  rewrite <- L in Li, Lj. destruct (nth_error pks i) as [pi|] eqn:Ei; [|apply nth_error_None in Ei; lia].
  destruct (nth_error pks j) as [pj|] eqn:Ej; [|apply nth_error_None in Ej; lia].
  pose proof (Nth _ _ Ei) as Ri'. pose proof (Nth _ _ Ej) as Rj'.
  assert (pi = pj) by congruence. subst pj. apply NE. rewrite NoDup_nth_error in ND. apply ND; [exact Li|congruence].
Qed.

(* Truncated, padded, extra or missing signatures: any other length is rejected; threshold 0 is rejected. *)
Theorem C01_exact_length : forall recover msg att A thr,
  N.of_nat (length att) <> (65 * thr)%N \/ thr = 0%N -> verify recover msg att A thr = VReject.
Proof.
  intros recover msg att A thr H. unfold verify. destruct (N.eqb_spec (N.of_nat (length att)) (65 * thr)); cbn [negb]; [|reflexivity].
  destruct H as [H| ->]; [contradiction|reflexivity].
Qed.

(* A signer that is disabled or unknown, at ANY position, makes the attestation fail. *)
Theorem C01_disabled_or_unknown_signer_rejected : forall recover msg att A thr k pk,
  k < N.to_nat thr -> recover65 recover (keccak256 msg) (norm_v (chunk k att)) = Some pk -> is_attester A pk = false ->
  verify recover msg att A thr <> VAccept.
Proof.
  intros recover msg att A thr k pk Lk R NI H. destruct (C01_quorum _ _ _ _ _ H) as (pks&L&_&F&Nth).
  rewrite <- L in Lk. destruct (nth_error pks k) as [p|] eqn:E; [|apply nth_error_None in E; lia].
  pose proof (Nth _ _ E) as R'. assert (p = pk) by congruence. subst p.
  rewrite Forall_forall in F. apply nth_error_In in E. specialize (F _ E). congruence.
Qed.

(* Acceptance depends on the message only through the Keccak-256 digest of its exact bytes: a signature
   over other bytes counts only if the digests coincide. *)
Theorem C01_depends_on_digest_only : forall recover m1 m2 att A thr,
  keccak256 m1 = keccak256 m2 -> verify recover m1 att A thr = verify recover m2 att A thr.
Proof. intros recover m1 m2 att A thr E. unfold verify. now rewrite E. Qed.

(* recovery id 0/1 or legacy 27/28: the legacy encodings are normalised to 0/1 before recovery, any other
   value is passed on unchanged (and fails in the recovery function) *)
Theorem C01_v_normalisation : forall r v, length r = 64 ->
  ((bN v = 27 \/ bN v = 28)%N -> norm_v (r ++ [v]) = r ++ [byte_of_N (bN v - 27)]) /\
  (bN v <> 27%N -> bN v <> 28%N -> norm_v (r ++ [v]) = r ++ [v]).
Proof. intros r v L. split; [apply norm_v_legacy|apply norm_v_other]; exact L. Qed.

(* The verifier never panics (the length comparison is done without uint32 wrap-around). *)
Theorem C01_never_panics : forall recover msg att A thr, verify recover msg att A thr <> VPanic.
Proof. exact verify_no_panic. Qed.

(* Handler level: receive and both replacements succeed only if the verifier accepts the exact message
   bytes with the attesters and threshold READ FROM THE CURRENT STORE. *)
Theorem C01_receive_requires_current_quorum : forall e c plan from msg att,
  is_ok (deliver e c plan (ReceiveMessage from msg att)) = true ->
  exists thr, threshold (c_st c) = Some thr /\ verify (recover e) msg att (values (attesters (c_st c))) thr = VAccept.
Proof.
  intros e c plan from msg att O. apply ok_inv in O as (a&h'&H&_). cbn [handler] in H. apply receive_inv in H.
  destruct_receive H. cbn [start h_st] in *. eauto.
Qed.
Theorem C01_replace_requires_current_quorum : forall e c plan t orig att,
  (exists from b cl, t = ReplaceMessage from orig att b cl) \/ (exists from cl r, t = ReplaceDepositForBurn from orig att cl r) ->
  is_ok (deliver e c plan t) = true ->
  exists thr, threshold (c_st c) = Some thr /\ verify (recover e) orig att (values (attesters (c_st c))) thr = VAccept.
Proof.
  intros e c plan t orig att T O. apply ok_inv in O as (a&h'&H&_).
  destruct T as [(from&b&cl&->)|(from&cl&r&->)]; cbn [handler] in H.
  - apply replace_message_inv in H as [_ F]. destruct_replace_message F. cbn [start h_st] in *. eauto.
  - apply replace_deposit_inv in H as [_ F]. destruct_replace_deposit F. destruct_replace_message Qinner. cbn [start h_st] in *. eauto.
Qed.

Print Assumptions C01_accept_iff.
Print Assumptions C01_quorum.
Print Assumptions C01_no_duplicate_signer.
Print Assumptions C01_exact_length.
Print Assumptions C01_disabled_or_unknown_signer_rejected.
Print Assumptions C01_depends_on_digest_only.
Print Assumptions C01_v_normalisation.
Print Assumptions C01_never_panics.
Print Assumptions C01_receive_requires_current_quorum.
Print Assumptions C01_replace_requires_current_quorum.
