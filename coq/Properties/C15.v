(* C15 - Each transaction touches only the state it is documented to change. *)
From Cctp Require Import Lib.Bytes Lib.SMap.
From Cctp Require Import Model.State Model.Ledger Model.Handlers Model.Chain Model.Queries Model.Genesis.
From Cctp Require Import Spec.WriteDoc Proofs.MonadFacts Proofs.WriteFacts Proofs.FrameFacts.

(* For every transaction type, every input, every state and every dependency plan: the store after
   the transaction agrees with the store before on every entry outside the documented write set
   (Spec/WriteDoc.v: receive -> the one used-nonce key of its message; the four producers -> the
   next-nonce counter; replacements -> nothing; each administrative action -> its own slot, flag, limit or
   the one registry key it names; accept-owner -> owner and pending owner). *)
Theorem C15_write_set : forall e c plan t,
  agree_except (doc_writes t (c_st c)) (c_st c) (c_st (r_chain (deliver e c plan t))).
Proof. exact deliver_writes. Qed.

(* A transaction that is not accepted writes nothing at all: store, ledger and event stream are as before. *)
Theorem C15_failed_transactions_write_nothing : forall e c plan t,
  is_ok (deliver e c plan t) = false ->
  r_chain (deliver e c plan t) = c /\ r_events (deliver e c plan t) = [].
Proof. exact deliver_not_ok. Qed.

(* Collections that a transaction type does not write are unchanged as whole lists (not only
   lookup-equal), so iteration order, pagination and export cannot be disturbed either. *)
Theorem C15_collections_frame : forall e c plan t,
  (touches_attesters t = false -> attesters (c_st (r_chain (deliver e c plan t))) = attesters (c_st c)) /\
  (touches_limits t = false -> limits (c_st (r_chain (deliver e c plan t))) = limits (c_st c)) /\
  (touches_pairs t = false -> pairs (c_st (r_chain (deliver e c plan t))) = pairs (c_st c)) /\
  (touches_messengers t = false -> messengers (c_st (r_chain (deliver e c plan t))) = messengers (c_st c)) /\
  (touches_nonces t = false -> nonces (c_st (r_chain (deliver e c plan t))) = nonces (c_st c)).
Proof.
  intros e c plan t. repeat split; intros T; symmetry.
  - apply (deliver_frame attesters). intros; eapply frame_attesters; eauto.
  - apply (deliver_frame limits). intros; eapply frame_limits; eauto.
  - apply (deliver_frame pairs). intros; eapply frame_pairs; eauto.
  - apply (deliver_frame messengers). intros; eapply frame_messengers; eauto.
  - apply (deliver_frame nonces). intros; eapply frame_nonces; eauto.
Qed.

(* Queries, genesis validation and genesis export are functions of the store that return no store
   (Model/Queries.v, Model/Genesis.v): in the model they cannot write by construction, so there is nothing
   to prove; for the implementation this is what the tracing store service observes on every run
   (no Set/Delete during any query or export), and what Gen/WriteSets.v re-derives from the source. *)

Print Assumptions C15_write_set.
Print Assumptions C15_failed_transactions_write_nothing.
Print Assumptions C15_collections_frame.
