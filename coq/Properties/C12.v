(* C12 - Pausing stops exactly the flows it names. *)
From Cctp Require Import Lib.Bytes Lib.SMap Lib.Text Lib.Bech32.
From Cctp Require Import Model.Codec Model.State Model.Attest Model.Ledger Model.Handlers Model.Chain.
From Cctp Require Import Vectors.Examples.
From Cctp Require Import Spec.Roles Proofs.MonadFacts Proofs.FrameFacts Proofs.FlowFacts Proofs.AdminFacts Proofs.PauseFacts.
From Cctp Require Import Gen.GoH_PauseBurningAndMinting Gen.GoH_UnpauseBurningAndMinting Gen.GoH_PauseSendingAndReceivingMessages Gen.GoH_UnpauseSendingAndReceivingMessages.

(* While sending-and-receiving is paused, none of the eight user-facing flows succeeds: send,
   send-with-caller, replace-message, replace-deposit-for-burn, deposit, deposit-with-caller, and receive
   of any message (addressed to the module or not). *)
Theorem C12_sr_paused_blocks_all_flows : forall e c plan t,
  is_flow t = true -> flag_on (sr_paused (c_st c)) = true ->
  is_ok (deliver e c plan t) = false /\ r_chain (deliver e c plan t) = c.
Proof. intros e c plan t F P. pose proof (sr_blocks e c plan t F P) as O. split; [exact O|]. now apply deliver_not_ok. Qed.

(* While burning-and-minting is paused, no deposit, deposit replacement or mint (receive of a message
   addressed to the module) succeeds. *)
Theorem C12_bm_paused_blocks_deposits_and_mints : forall e c plan t,
  bm_named e t = true -> flag_on (bm_paused (c_st c)) = true ->
  is_ok (deliver e c plan t) = false /\ r_chain (deliver e c plan t) = c.
Proof. intros e c plan t F P. pose proof (bm_blocks e c plan t F P) as O. split; [exact O|]. now apply deliver_not_ok. Qed.

(* ... though messages not addressed to the module can still be received, and sends and message
   replacements still work: for those flows the burning-and-minting flag is not consulted at all -
   running them with any other value of the flag gives the same outcome, events, dependency calls and
   the same state up to that flag (non-interference). *)
Theorem C12_bm_flag_does_not_affect_other_flows : forall e t v h,
  bm_free e t = true ->
  handler e t (with_bm v h) = let '(r, h') := handler e t h in (r, with_bm v h').
Proof. intros e t v h F. exact (bm_noninterference e t v h F). Qed.

(* Administrative actions stay available while paused: all 18 privileged handlers give the same outcome
   and the same events whatever the two flags are. *)
Theorem C12_admin_available_while_paused : forall e t bm sr h,
  privileged t = true ->
  fst (handler e t (with_flags bm sr h)) = fst (handler e t h) /\
  h_ev (snd (handler e t (with_flags bm sr h))) = h_ev (snd (handler e t h)).
Proof. intros e t bm sr h P. exact (admin_ignores_flags e t bm sr h P). Qed.

(* Each flag changes only by the pause/unpause of that flag - and then only by the pauser (C10). *)
Theorem C12_flag_frame : forall e c plan t,
  (touches_bm t = false -> bm_paused (c_st (r_chain (deliver e c plan t))) = bm_paused (c_st c)) /\
  (touches_sr t = false -> sr_paused (c_st (r_chain (deliver e c plan t))) = sr_paused (c_st c)).
Proof.
  intros e c plan t. split; intros T; symmetry.
  - apply (deliver_frame bm_paused). intros; eapply frame_bm; eauto.
  - apply (deliver_frame sr_paused). intros; eapply frame_sr; eauto.
Qed.

Theorem C12_only_the_pauser_moves_a_flag : forall e c plan t,
  roles_set (c_st c) -> pause_tx t = true -> pauser (c_st c) <> Some (submitter t) ->
  r_chain (deliver e c plan t) = c.
Proof.
  intros e c plan t R T NP. unfold deliver.
  rewrite (wrong_role e t (start c plan) RPauser R); [reflexivity| |exact NP].
  destruct t; try discriminate T; reflexivity.
Qed.

(* Pausing (and unpausing) is idempotent: doing it twice leaves the chain as after doing it once. *)
Theorem C12_idempotent : forall e c p p' t, pause_tx t = true ->
  r_chain (deliver e (r_chain (deliver e c p t)) p' t) = r_chain (deliver e c p t).
Proof. intros e c p p' t T. exact (pause_idempotent e c p p' t T). Qed.

(* what pause / unpause by the pauser do: they set exactly that flag *)
Theorem C12_pause_sets_the_flag : forall e c plan from,
  pauser (c_st c) = Some from ->
  c_st (r_chain (deliver e c plan (PauseBurningAndMinting from))) = set_bm_paused (Some true) (c_st c) /\
  c_st (r_chain (deliver e c plan (UnpauseBurningAndMinting from))) = set_bm_paused (Some false) (c_st c) /\
  c_st (r_chain (deliver e c plan (PauseSendingAndReceivingMessages from))) = set_sr_paused (Some true) (c_st c) /\
  c_st (r_chain (deliver e c plan (UnpauseSendingAndReceivingMessages from))) = set_sr_paused (Some false) (c_st c).
Proof.
  intros e c plan from P. unfold deliver. cbn [handler]. unfold h_set_bm, h_set_sr. unfold_m. red_m.
  rewrite P. red_m. rewrite beqb_refl. red_m. auto.
Qed.

(* Unpausing restores the previous behaviour: unpause after pause gives back the very same store when the
   flag was off, so every later transaction behaves identically. *)
Theorem C12_unpause_restores : forall s,
  (bm_paused s = Some false -> set_bm_paused (Some false) (set_bm_paused (Some true) s) = s) /\
  (sr_paused s = Some false -> set_sr_paused (Some false) (set_sr_paused (Some true) s) = s).
Proof. intros s. destruct s. cbn. split; intros ->; reflexivity. Qed.

(* The four pause handlers as translated from the Go source are the model handlers (go_X_ok: forall e request h, eq_or_unmodelled (go_X e request h) (handler e (X request) h): same result and same state wherever the model gives a verdict at all, i.e. except on denominations outside the character set the model folds; for the two helpers the right-hand side is send_message / deposit_for_burn). The statement is about the Gallina program that tools/goextract TRANSLATED from the Go source of /repo on this run (Gen/GoH_*.v, Gen/GoF_*.v; meaning of the Go constructs: Gen/GoSem.v). For a function the translator could not read the conjunct is True (Gen/<file> names the reason, the evidence lists it) and the tie for it is the differential execution alone. *)
Theorem C12_go_pause_handlers_are_the_model :
  go_PauseBurningAndMinting_ok /\
  go_UnpauseBurningAndMinting_ok /\
  go_PauseSendingAndReceivingMessages_ok /\
  go_UnpauseSendingAndReceivingMessages_ok.
Proof. split; [exact go_PauseBurningAndMinting_ok_proof|]. split; [exact go_UnpauseBurningAndMinting_ok_proof|]. split; [exact go_PauseSendingAndReceivingMessages_ok_proof|]. exact go_UnpauseSendingAndReceivingMessages_ok_proof. Qed.

(* A paused period: from a chain where sending/receiving is paused, along any history that contains no pause or
   unpause of that flag (whatever else it contains, by whomever), the flag stays as it is and not one flow of the
   history succeeds ([ok_flows]: the number of flows of the history that succeeded); likewise for burning/minting
   and the deposits, deposit replacements and mints it names. *)
Theorem C12_nothing_flows_during_a_sending_and_receiving_pause : forall e h c, flag_on (sr_paused (c_st c)) = true ->
  (forall s, In s h -> touches_sr (snd s) = false) ->
  sr_paused (c_st (run e c h)) = sr_paused (c_st c) /\ ok_flows e c h = 0.
Proof. intros e h. exact (sr_paused_period e h). Qed.

Theorem C12_nothing_burns_or_mints_during_a_burning_and_minting_pause : forall e h c, flag_on (bm_paused (c_st c)) = true ->
  (forall s, In s h -> touches_bm (snd s) = false) ->
  bm_paused (c_st (run e c h)) = bm_paused (c_st c) /\ ok_bm_named e c h = 0.
Proof. intros e h. exact (bm_paused_period e h). Qed.

(* non-vacuity: the pauser pauses; the deposit that succeeded before now fails, with a role update in between, and
   succeeds again after the unpause *)
Example C12_paused_period_example :
  let paused := r_chain (deliver ex_env ex_chain [] (PauseSendingAndReceivingMessages ex_bob)) in
  let h := [([], ex_deposit); ([], UpdatePauser ex_alice ex_carol); ([], ex_deposit)] in
  flag_on (sr_paused (c_st paused)) = true /\ forallb (fun s => negb (touches_sr (snd s))) h = true /\
  ok_flows ex_env paused h = 0 /\ ok_flows ex_env ex_chain h = 2 /\
  ok_flows ex_env paused (h ++ [([], UnpauseSendingAndReceivingMessages ex_carol); ([], ex_deposit)]) = 1.
Proof. vm_compute. repeat split; reflexivity. Qed.

Print Assumptions C12_sr_paused_blocks_all_flows.
Print Assumptions C12_bm_paused_blocks_deposits_and_mints.
Print Assumptions C12_bm_flag_does_not_affect_other_flows.
Print Assumptions C12_admin_available_while_paused.
Print Assumptions C12_flag_frame.
Print Assumptions C12_only_the_pauser_moves_a_flag.
Print Assumptions C12_idempotent.
Print Assumptions C12_pause_sets_the_flag.
Print Assumptions C12_unpause_restores.
Print Assumptions C12_go_pause_handlers_are_the_model.
Print Assumptions C12_nothing_flows_during_a_sending_and_receiving_pause.
Print Assumptions C12_nothing_burns_or_mints_during_a_burning_and_minting_pause.
