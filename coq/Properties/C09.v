(* C09 - Replacement can only re-target the submitter's own attested message. *)
From Cctp Require Import Lib.Bytes Lib.SMap Lib.Text Lib.Bech32 Lib.Hex Lib.Keccak.
From Cctp Require Import Model.Codec Model.State Model.Attest Model.Ledger Model.Handlers Model.Chain.
From Cctp Require Import Proofs.MonadFacts Proofs.FlowFacts Proofs.CallFacts Proofs.MoneyFacts Proofs.CodecFacts Proofs.FrameFacts.
From Cctp Require Import Gen.GoH_ReplaceMessage Gen.GoH_ReplaceDepositForBurn.

(* Replace-message succeeds only for an original that is validly attested under the attester set and
   threshold stored NOW (so an attestation by a since-rotated set is rejected), originated on Noble
   (source domain 4), and whose sender is the submitter; sending must not be paused.  The replacement
   keeps the original's nonce, source and destination domains, sender and recipient and changes only body
   and destination caller. *)
Theorem C09_replace_message_only_if_and_output : forall e c plan from orig att body caller,
  is_ok (deliver e c plan (ReplaceMessage from orig att body caller)) = true ->
  exists thr m addr bz,
    flag_on (sr_paused (c_st c)) = false /\
    threshold (c_st c) = Some thr /\ verify (recover e) orig att (values (attesters (c_st c))) thr = VAccept /\
    decode_message orig = Some m /\ m_src m = 4%N /\
    acc_address (hrp e) from = Some addr /\ m_sender m = copy12 addr /\
    r_events (deliver e c plan (ReplaceMessage from orig att body caller)) = [EvMessageSent bz] /\
    encode_message {| m_version := 0; m_src := 4; m_dst := m_dst m; m_nonce := m_nonce m; m_sender := m_sender m;
                      m_recipient := m_recipient m; m_caller := caller; m_body := body |} = Some bz.
Proof.
  intros e c plan from orig att body caller O. apply ok_inv in O as (a&h'&H&->). cbn [r_events handler] in *.
  apply replace_message_inv in H as [-> F]. destruct_replace_message F. cbn [start h_st h_ev] in *. destruct Psent.
  exists pthr, pmsg, paddr, pbz. rewrite Pev. cbn [app]. auto 12.
Qed.

(* Replace-deposit-for-burn succeeds only for an original whose body is a 132-byte burn message whose
   depositor (message sender) is the submitter, with a non-zero new mint recipient, minting not paused, and
   for which replace-message succeeds when speaking as the module - hence the original's sender is the
   module, its source domain 4, and it is attested under the current set.  The replacement keeps burn
   token, amount, depositor and burn-message version; only mint recipient and destination caller differ. *)
Theorem C09_replace_deposit_only_if_and_output : forall e c plan from orig att caller rcp,
  is_ok (deliver e c plan (ReplaceDepositForBurn from orig att caller rcp)) = true ->
  exists thr m b addr maddr body bz,
    flag_on (bm_paused (c_st c)) = false /\ flag_on (sr_paused (c_st c)) = false /\
    threshold (c_st c) = Some thr /\ verify (recover e) orig att (values (attesters (c_st c))) thr = VAccept /\
    decode_message orig = Some m /\ m_src m = 4%N /\ decode_burn (m_body m) = Some b /\
    acc_address (hrp e) from = Some addr /\ bm_sender b = copy12 addr /\
    acc_address (hrp e) (module_str e) = Some maddr /\ m_sender m = copy12 maddr /\
    rcp <> zeros 32 /\
    encode_burn {| bm_version := bm_version b; bm_token := bm_token b; bm_recipient := rcp;
                   bm_amount := bm_amount b; bm_sender := bm_sender b |} = Some body /\
    encode_message {| m_version := 0; m_src := 4; m_dst := m_dst m; m_nonce := m_nonce m; m_sender := m_sender m;
                      m_recipient := m_recipient m; m_caller := caller; m_body := body |} = Some bz /\
    r_events (deliver e c plan (ReplaceDepositForBurn from orig att caller rcp)) =
      [EvMessageSent bz; EvDepositForBurn (m_nonce m) (hex_encode (bm_token b)) (bm_amount b) from rcp (m_dst m) (m_recipient m) caller].
Proof.
  intros e c plan from orig att caller rcp O. apply ok_inv in O as (a&h'&H&->). cbn [r_events handler] in *.
  apply replace_deposit_inv in H as [-> F]. destruct_replace_deposit F. destruct_replace_message Qinner.
  cbn [start h_st h_ev] in *. assert (pmsg = qmsg) by congruence. subst pmsg. destruct Psent.
  exists pthr, qmsg, qburn, qaddr, paddr, qbody, pbz. rewrite Qev, Pev. cbn [app]. auto 20.
Qed.

(* Neither replacement moves funds, consumes a nonce or changes any stored state, accepted or not:
   store and ledger after the transaction are exactly those before, and no dependency call is made. *)
Theorem C09_replacements_change_nothing : forall e c plan t,
  (match t with ReplaceMessage _ _ _ _ _ | ReplaceDepositForBurn _ _ _ _ _ => True | _ => False end) ->
  r_calls (deliver e c plan t) = [] /\ c_lg (r_chain (deliver e c plan t)) = c_lg c /\
  c_st (r_chain (deliver e c plan t)) = c_st c.
Proof.
  intros e c plan t T. assert (is_money t = false) as M by (destruct t; try contradiction; reflexivity).
  destruct (deliver_no_calls e c plan t M) as [C L]. split; [exact C|]. split; [exact L|].
  destruct (is_ok (deliver e c plan t)) eqn:O.
  - apply ok_inv in O as (a&h'&H&->). cbn [r_chain c_st]. destruct t; try contradiction; cbn [handler] in H.
    + apply replace_deposit_inv in H as [-> F]. destruct_replace_deposit F. exact Qst.
    + apply replace_message_inv in H as [-> F]. destruct_replace_message F. exact Pst.
  - apply deliver_not_ok in O as [-> _]. reflexivity.
Qed.

(* ReplaceMessage and ReplaceDepositForBurn as translated from the Go source are the model handlers (go_X_ok: forall e request h, eq_or_unmodelled (go_X e request h) (handler e (X request) h): same result and same state wherever the model gives a verdict at all, i.e. except on denominations outside the character set the model folds; for the two helpers the right-hand side is send_message / deposit_for_burn). The statement is about the Gallina program that tools/goextract TRANSLATED from the Go source of /repo on this run (Gen/GoH_*.v, Gen/GoF_*.v; meaning of the Go constructs: Gen/GoSem.v). For a function the translator could not read the conjunct is True (Gen/<file> names the reason, the evidence lists it) and the tie for it is the differential execution alone. *)
Theorem C09_go_replace_handlers_are_the_model :
  go_ReplaceMessage_ok /\
  go_ReplaceDepositForBurn_ok.
Proof. split; [exact go_ReplaceMessage_ok_proof|]. exact go_ReplaceDepositForBurn_ok_proof. Qed.

(* ... and so does any number of them: a history made of replacement attempts only (successful or not, by anyone,
   of any original) leaves store and ledger exactly as they were. *)
Theorem C09_any_number_of_replacements_changes_nothing : forall e h c,
  (forall s, In s h -> match snd s with ReplaceMessage _ _ _ _ _ | ReplaceDepositForBurn _ _ _ _ _ => True | _ => False end) ->
  run e c h = c.
Proof.
  intros e h. induction h as [|s h IH]; intros c A; cbn [run fold_left]; [reflexivity|].
  fold (run e (run_step e c s) h). unfold run_step.
  destruct (C09_replacements_change_nothing e c (fst s) (snd s) (A s (or_introl eq_refl))) as (_&L&S).
  assert (r_chain (deliver e c (fst s) (snd s)) = c) as ->.
  { destruct (r_chain (deliver e c (fst s) (snd s))), c. cbn in L, S. now subst. }
  apply IH. intros s' I. apply A. now right.
Qed.

Print Assumptions C09_replace_message_only_if_and_output.
Print Assumptions C09_replace_deposit_only_if_and_output.
Print Assumptions C09_replacements_change_nothing.
Print Assumptions C09_go_replace_handlers_are_the_model.
Print Assumptions C09_any_number_of_replacements_changes_nothing.
