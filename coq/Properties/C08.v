(* C08 - Deposits are accepted exactly under the documented preconditions. *)
From Cctp Require Import Lib.Bytes Lib.SMap Lib.Text Lib.Bech32 Lib.Keccak.
From Cctp Require Import Model.Codec Model.State Model.Attest Model.Ledger Model.Handlers Model.Chain.
From Cctp Require Import Proofs.MonadFacts Proofs.FlowFacts Proofs.DecisionFacts Proofs.KeccakFacts Proofs.CodecFacts.
From Coq Require Import ZifyN ZifyNat ZifyBool.
From Cctp Require Import Vectors.Examples.
From Cctp Require Import Gen.GoF_depositForBurn Gen.GoH_DepositForBurn Gen.GoH_DepositForBurnWithCaller.

(* the documented preconditions; [caller] is [] for the plain variant *)
Definition deposit_conditions (e : env) (c : chain) (plan : list directive) (from : bytes) (amount : option Z)
           (dest : N) (mr bt caller : bytes) : Prop :=
  let s := c_st c in
  exists addr a tm,
    acc_address (hrp e) from = Some addr /\                                   (* the depositor is a valid account *)
    amount = Some a /\ (0 < a)%Z /\                                            (* the amount is present and strictly positive *)
    limit_ok s (to_lower bt) a = true /\                                       (* ... and at most the per-message limit, if any *)
    text_ok bt = true /\ equal_fold (mint_denom e) bt = true /\ valid_denom bt = true /\   (* the burn token is the minting denom *)
    length mr = 32 /\ mr <> zeros 32 /\                                        (* the mint recipient is a non-zero 32-byte value *)
    lookup (messenger_key dest) (messengers s) = Some tm /\                    (* a token messenger is registered for the destination *)
    length (tm_address tm) = 32 /\ is_zeros (tm_address tm) = false /\         (* ... and is a non-zero 32-byte value *)
    flag_on (bm_paused s) = false /\ flag_on (sr_paused s) = false /\          (* neither pause flag is set *)
    (match max_body s with Some mx => (132 <= mx)%N | None => True end) /\     (* the 132-byte body fits the maximum body size *)
    decide (next_directive plan) (transfer_rule e (c_lg c) addr bt a) = true /\          (* the depositor can pay *)
    decide (next_directive (tl plan))
           (burn_rule e (transfer_effect e (c_lg c) addr bt a) (module_str e) bt a) = true /\   (* the burn succeeds *)
    (caller = [] \/ (length caller = 32 /\ is_zeros caller = false)).          (* with-caller: a non-zero 32-byte caller *)

Lemma encode_burn_some_iff m : (exists bz, encode_burn m = Some bz) <->
  length (bm_token m) = 32 /\ length (bm_recipient m) = 32 /\ length (bm_sender m) = 32.
Proof.
  split.
  - intros [bz H]. now apply encode_burn_some in H.
  - intros (A&B&C). unfold encode_burn. rewrite A, B, C. cbn. eauto.
Qed.
Lemma encode_message_some_iff m : (exists bz, encode_message m = Some bz) <->
  length (m_sender m) = 32 /\ length (m_recipient m) = 32 /\ length (m_caller m) = 32.
Proof.
  split.
  - intros [bz H]. now apply encode_message_some in H.
  - intros (A&B&C). unfold encode_message. rewrite A, B, C. cbn. eauto.
Qed.

Lemma body_fits_132 s body : length body = 132 ->
  (body_fits s body = true <-> match max_body s with Some mx => (132 <= mx)%N | None => True end).
Proof. intros L. unfold body_fits. rewrite L. destruct (max_body s); [|tauto]. rewrite negb_true_iff, N.ltb_ge. lia. Qed.

(* environment assumption: the module account's own address string is a valid address (checked by
   computation for the concrete environment of every correspondence run: env_ok) *)
Definition module_ok (e : env) : Prop := exists maddr, acc_address (hrp e) (module_str e) = Some maddr.

Theorem C08_deposit_iff_core : forall e c plan from amount dest mr bt caller, module_ok e ->
  deposit_okb e c plan from amount dest mr bt caller = true <-> deposit_conditions e c plan from amount dest mr bt caller.
Proof.
  intros e c plan from amount dest mr bt caller [maddr M]. unfold deposit_okb, deposit_conditions. cbv zeta. rewrite M. split.
  - intros H. destruct (acc_address (hrp e) from) as [addr|]; [|discriminate]. destruct amount as [a|]; [|discriminate].
    apply andb_true_iff in H as [H1 H]. apply andb_true_iff in H as [H2 H].
    destruct (lookup (messenger_key dest) _) as [tm|] eqn:L; [|discriminate].
    apply andb_true_iff in H as [H3 H]. apply andb_true_iff in H as [H4 H]. apply andb_true_iff in H as [H5 H].
    apply andb_true_iff in H as [H6 H]. apply andb_true_iff in H as [H7 H]. apply andb_true_iff in H as [H8 H].
    apply andb_true_iff in H as [H9 H].
    destruct (encode_burn _) as [body|] eqn:EB; [|discriminate].
    apply andb_true_iff in H as [H10 H]. apply andb_true_iff in H as [H11 H]. apply andb_true_iff in H as [H12 H].
    apply andb_true_iff in H as [H13 H]. destruct (encode_message _) as [bz|] eqn:EM; [|discriminate].
    pose proof (encode_burn_length _ _ EB) as LB. apply encode_burn_some in EB as (_&LR&_). cbn in LR.
    apply encode_message_some in EM as (_&LT&LC). cbn in LT, LC.
    apply negb_true_iff in H2, H5, H11, H13. apply orb_false_iff in H13 as [_ H13]. apply beqb_neq in H2. apply Z.ltb_lt in H1.
    exists addr, a, tm. repeat split; auto.
    + now apply (body_fits_132 (bump (c_st c)) body LB).
    + destruct (Nat.eqb_spec (length caller) 0) as [Z0|NZ].
      * left. now destruct caller.
      * right. apply andb_true_iff in H10 as [A B]. apply Nat.eqb_eq in A. apply negb_true_iff in B. auto.
  - intros (addr&a&tm&A1&A2&A3&A4&A5&A6&A7&A8&A9&A10&A11&A12&A13&A14&A15&A16&A17&A18).
    rewrite A1. subst amount. rewrite A10, A4, A5, A6, A7, A13, A16, A17.
    apply Z.ltb_lt in A3. rewrite A3. apply beqb_neq in A9. rewrite A9. cbn [negb andb].
    destruct (proj2 (encode_burn_some_iff (burn_body bt mr a addr))) as [body EB].
    { unfold burn_body; cbn [bm_token bm_recipient bm_sender]. rewrite keccak256_length, copy12_length. auto. }
    rewrite EB. pose proof (encode_burn_length _ _ EB) as LB.
    assert (flag_on (sr_paused (bump (c_st c))) = false) as -> by exact A14.
    rewrite (proj2 (body_fits_132 (bump (c_st c)) body LB)) by exact A15.
    rewrite A11, A12. cbn [negb andb Nat.eqb orb].
    destruct (proj2 (encode_message_some_iff (msg_of dest (tm_address tm) (if Nat.eqb (length caller) 0 then zeros 32 else caller)
                                                     (copy12 maddr) (nn (c_st c)) body))) as [bz EM].
    { unfold msg_of; cbn [m_sender m_recipient m_caller]. rewrite copy12_length. repeat split; auto. destruct A18 as [->|[L _]]; [reflexivity|].
      rewrite L. cbn [Nat.eqb]. exact L. }
    rewrite EM. destruct A18 as [->|[L Z]]; [reflexivity|]. rewrite L, Z. reflexivity.
Qed.

(* A deposit-for-burn succeeds exactly when the documented preconditions hold: for all inputs, states,
   ledgers and dependency plans. *)
Theorem C08_deposit_iff : forall e c plan from amount dest mr bt, module_ok e ->
  is_ok (deliver e c plan (DepositForBurn from amount dest mr bt)) = true <-> deposit_conditions e c plan from amount dest mr bt [].
Proof. intros. rewrite deposit_okb_correct. now apply C08_deposit_iff_core. Qed.

Theorem C08_deposit_with_caller_iff : forall e c plan from amount dest mr bt caller, module_ok e ->
  is_ok (deliver e c plan (DepositForBurnWithCaller from amount dest mr bt caller)) = true <->
  caller <> [] /\ caller <> zeros 32 /\ deposit_conditions e c plan from amount dest mr bt caller.
Proof.
  intros. rewrite deposit_wc_okb_correct, andb_true_iff, negb_true_iff, orb_false_iff, C08_deposit_iff_core by assumption.
  rewrite Nat.eqb_neq, beqb_neq. split; intros ((A&B)&C) || intros (A&B&C); repeat split; auto.
  - destruct caller; [contradiction|discriminate].
  - destruct caller; [contradiction|]. cbn. discriminate.
Qed.

(* the limit boundary, for every limit L: amount = L passes the limit check, L + 1 does not *)
Theorem C08_limit_boundary : forall s denom L, lookup (limit_key denom) (limits s) = Some L ->
  limit_ok s denom (lim_amount L) = true /\ limit_ok s denom (lim_amount L + 1) = false /\
  (forall a, limit_ok s denom a = true <-> (a <= lim_amount L)%Z).
Proof.
  intros s denom L H. unfold limit_ok. rewrite H. repeat split; rewrite ?negb_true_iff, ?negb_false_iff; lia.
Qed.

(* no limit configured for the (lower-cased) token: every amount passes the limit check *)
Theorem C08_no_limit : forall s denom a, lookup (limit_key denom) (limits s) = None -> limit_ok s denom a = true.
Proof. intros s denom a H. unfold limit_ok. now rewrite H. Qed.

(* the body-size boundary: max = 132 accepts the burn body, 131 rejects it *)
Theorem C08_body_size_boundary : forall s body, length body = 132 ->
  (max_body s = Some 132%N -> body_fits s body = true) /\ (max_body s = Some 131%N -> body_fits s body = false).
Proof. intros s body L. unfold body_fits. rewrite L. split; intros ->; reflexivity. Qed.

(* non-vacuity: the preconditions are satisfiable - a concrete deposit in a concrete chain *)
Example C08_conditions_satisfiable :
  deposit_conditions ex_env ex_chain [] ex_alice (Some 100%Z) 0 (repeat x07 32) (B "uusdc") [].
Proof.
  apply C08_deposit_iff; [|exact ex_deposit_ok]. exists ex_module. vm_compute. reflexivity.
Qed.

(* depositForBurn, DepositForBurn and DepositForBurnWithCaller as translated from the Go source (dependency calls included) are the model functions (go_X_ok: forall e request h, eq_or_unmodelled (go_X e request h) (handler e (X request) h): same result and same state wherever the model gives a verdict at all, i.e. except on denominations outside the character set the model folds; for the two helpers the right-hand side is send_message / deposit_for_burn). The statement is about the Gallina program that tools/goextract TRANSLATED from the Go source of /repo on this run (Gen/GoH_*.v, Gen/GoF_*.v; meaning of the Go constructs: Gen/GoSem.v). For a function the translator could not read the conjunct is True (Gen/<file> names the reason, the evidence lists it) and the tie for it is the differential execution alone. *)
Theorem C08_go_deposit_handlers_are_the_model :
  go_fn_depositForBurn_ok /\
  go_DepositForBurn_ok /\
  go_DepositForBurnWithCaller_ok.
Proof. split; [exact go_fn_depositForBurn_ok_proof|]. split; [exact go_DepositForBurn_ok_proof|]. exact go_DepositForBurnWithCaller_ok_proof. Qed.

Print Assumptions C08_deposit_iff_core.
Print Assumptions C08_deposit_iff.
Print Assumptions C08_deposit_with_caller_iff.
Print Assumptions C08_limit_boundary.
Print Assumptions C08_no_limit.
Print Assumptions C08_body_size_boundary.
Print Assumptions C08_go_deposit_handlers_are_the_model.
