(* C07 - Outbound nonces are unique, consecutive and never reused. *)
From Cctp Require Import Lib.Bytes Lib.SMap.
From Cctp Require Import Model.Codec Model.State Model.Ledger Model.Handlers Model.Chain Model.Queries.
From Cctp Require Import Proofs.MonadFacts Proofs.FrameFacts Proofs.FlowFacts Proofs.HistoryFacts.
From Cctp Require Import Vectors.Examples.

(* [nn s] is the next-available nonce (0 when unset); [producer t]: send, send-with-caller, deposit,
   deposit-with-caller; [ok_producers e c h]: the number of successful producers in history h. *)

(* A successful producing transaction returns the counter value it found, emits a MessageSent whose
   message carries that same nonce, and advances the counter by one (uint64 arithmetic). *)
Theorem C07_response_nonce_is_counter_and_is_in_the_message : forall e c plan t,
  is_ok (deliver e c plan t) = true -> producer t = true ->
  let r := deliver e c plan t in
  r_out r = OOk (RNonce (nn (c_st c))) /\ c_st (r_chain r) = bump (c_st c) /\
  exists dest rcp caller sender body bz,
    In (EvMessageSent bz) (r_events r) /\ encode_message (msg_of dest rcp caller sender (nn (c_st c)) body) = Some bz.
Proof. exact producer_ok. Qed.

(* Every transaction: the counter moves by one exactly when a producer succeeds; failed attempts and all
   other transaction types (replacements included) consume none. *)
Theorem C07_counter_step : forall e c plan t,
  nn (c_st (r_chain (deliver e c plan t))) =
  if is_ok (deliver e c plan t) && producer t then ((nn (c_st c) + 1) mod two64)%N else nn (c_st c).
Proof. exact nn_step. Qed.

(* Along every history: next-available nonce = start + number of successes (mod 2^64), so the k-th
   successful producer carries start + k - 1. *)
Theorem C07_counter_tracks_successes : forall e h c, (nn (c_st c) < two64)%N ->
  nn (c_st (run e c h)) = ((nn (c_st c) + ok_producers e c h) mod two64)%N.
Proof. intros e h. exact (nn_run e h). Qed.

(* ... and the next-available-nonce query returns that counter *)
Theorem C07_query_returns_counter : forall s n, next_nonce s = Some n -> run_query s QNextAvailableNonce = QOk (QNum (nn s)).
Proof. intros s n H. cbn. unfold nn. now rewrite H. Qed.

(* Replacements never consume a nonce and always reuse the original message's nonce. *)
Theorem C07_replacements_keep_the_counter : forall e c plan t,
  (match t with ReplaceMessage _ _ _ _ _ | ReplaceDepositForBurn _ _ _ _ _ => true | _ => false end) = true ->
  next_nonce (c_st (r_chain (deliver e c plan t))) = next_nonce (c_st c).
Proof. exact replace_keeps_counter. Qed.

Theorem C07_replace_message_reuses_original_nonce : forall e c plan from orig att body caller,
  is_ok (deliver e c plan (ReplaceMessage from orig att body caller)) = true ->
  exists m bz, decode_message orig = Some m /\
    r_events (deliver e c plan (ReplaceMessage from orig att body caller)) = [EvMessageSent bz] /\
    encode_message (msg_of (m_dst m) (m_recipient m) caller (m_sender m) (m_nonce m) body) = Some bz.
Proof. exact replace_message_reuses_nonce. Qed.

Theorem C07_replace_deposit_reuses_original_nonce : forall e c plan from orig att caller rcp,
  is_ok (deliver e c plan (ReplaceDepositForBurn from orig att caller rcp)) = true ->
  exists m b body bz, decode_message orig = Some m /\ decode_burn (m_body m) = Some b /\
    encode_burn {| bm_version := bm_version b; bm_token := bm_token b; bm_recipient := rcp;
                   bm_amount := bm_amount b; bm_sender := bm_sender b |} = Some body /\
    r_events (deliver e c plan (ReplaceDepositForBurn from orig att caller rcp)) =
      [EvMessageSent bz; EvDepositForBurn (m_nonce m) (Hex.hex_encode (bm_token b)) (bm_amount b) from rcp (m_dst m) (m_recipient m) caller] /\
    encode_message (msg_of (m_dst m) (m_recipient m) caller (m_sender m) (m_nonce m) body) = Some bz.
Proof. exact replace_deposit_reuses_nonce. Qed.

(* Over a whole history: the nonces answered by the successful producing transactions, in order, are the
   consecutive uint64 values starting at the counter the history began with ([produced e c h] collects the
   nonce of every producing transaction's response; failed ones answer none) ... *)
Theorem C07_nonces_over_a_history_are_consecutive : forall e h c, (nn (c_st c) < two64)%N ->
  produced e c h = map (fun i : nat => ((nn (c_st c) + N.of_nat i) mod two64)%N) (seq 0 (length (produced e c h))).
Proof. intros e h. exact (produced_consecutive e h). Qed.

(* ... there are exactly as many of them as successful producers ... *)
Theorem C07_one_nonce_per_successful_producer : forall e h c, N.of_nat (length (produced e c h)) = ok_producers e c h.
Proof. intros e h. exact (produced_length e h). Qed.

(* ... and none is handed out twice until 2^64 of them have been handed out. *)
Theorem C07_nonces_over_a_history_are_distinct : forall e h c, (nn (c_st c) < two64)%N ->
  (N.of_nat (length (produced e c h)) <= two64)%N -> NoDup (produced e c h).
Proof. intros e h c. exact (produced_nodup e h c). Qed.

(* the statements are about something: two deposits, a failing one between them *)
Example C07_example :
  produced ex_env ex_chain [([], ex_deposit); ([], DepositForBurn ex_bob (Some 1%Z) 0 (repeat Byte.x07 32) (B "uusdc")); ([], ex_deposit)]
  = [nn (c_st ex_chain); (nn (c_st ex_chain) + 1)%N].
Proof. vm_compute. reflexivity. Qed.

Print Assumptions C07_response_nonce_is_counter_and_is_in_the_message.
Print Assumptions C07_counter_step.
Print Assumptions C07_counter_tracks_successes.
Print Assumptions C07_query_returns_counter.
Print Assumptions C07_replacements_keep_the_counter.
Print Assumptions C07_replace_message_reuses_original_nonce.
Print Assumptions C07_replace_deposit_reuses_original_nonce.
Print Assumptions C07_nonces_over_a_history_are_consecutive.
Print Assumptions C07_one_nonce_per_successful_producer.
Print Assumptions C07_nonces_over_a_history_are_distinct.
