(* C14 - Transfers are all-or-nothing under dependency failures. *)
From Cctp Require Import Lib.Bytes Lib.SMap Lib.Text Lib.Bech32 Lib.Hex Lib.Keccak.
From Cctp Require Import Model.Codec Model.State Model.Attest Model.Ledger Model.Handlers Model.Chain.
From Cctp Require Import Proofs.MonadFacts Proofs.FlowFacts Proofs.CallFacts Proofs.MoneyFacts Proofs.CodecFacts Proofs.SimFacts.
From Cctp Require Import Vectors.Examples.

Definition is_deposit_of (t : tx) from amount dest mr bt caller : Prop :=
  (t = DepositForBurn from amount dest mr bt /\ caller = []) \/ t = DepositForBurnWithCaller from amount dest mr bt caller.

(* A deposit never succeeds without the debit and the burn both having succeeded, a message having been
   emitted and the nonce reserved - for every state, request and dependency plan. *)
Theorem C14_deposit_ok_implies_all : forall e c plan t from amount dest mr bt caller,
  is_deposit_of t from amount dest mr bt caller -> is_ok (deliver e c plan t) = true ->
  let r := deliver e c plan t in
  (exists addr a, r_calls r = [DTransfer addr bt a true; DBurn (module_str e) bt a true]) /\
  (exists bz ev, r_events r = [EvMessageSent bz; ev]) /\
  c_st (r_chain r) = bump (c_st c) /\
  decide (next_directive plan) true = true /\ decide (next_directive (tl plan)) true = true.
Proof.
  intros e c plan t from amount dest mr bt caller T O.
  destruct (deposit_ok_effects e c plan t from amount dest mr bt caller T O) as (F&Ho&Hev&Hdc&Hlg&Hst).
  destruct_deposit F. cbn [start h_st h_lg h_ev h_dc h_plan] in *. cbv zeta. rewrite Hdc, Hev, Hst, Ddc, Dev, Dst. cbn [app].
  split; [eauto|]. split; [eauto|]. split; [reflexivity|].
  split.
  - destruct (next_directive plan); try reflexivity. discriminate Dtr.
  - destruct (next_directive (tl plan)); try reflexivity. discriminate Dbu.
Qed.

(* If the plan fails the transfer (first dependency call) or the burn (second), the deposit is an error. *)
Theorem C14_deposit_fault_implies_error : forall e c plan t from amount dest mr bt caller,
  is_deposit_of t from amount dest mr bt caller ->
  next_directive plan = DFail \/ next_directive (tl plan) = DFail ->
  is_ok (deliver e c plan t) = false.
Proof.
  intros e c plan t from amount dest mr bt caller T Fl. destruct (is_ok (deliver e c plan t)) eqn:O; [|reflexivity].
  destruct (C14_deposit_ok_implies_all e c plan t from amount dest mr bt caller T O) as (_&_&_&D1&D2).
  destruct Fl as [Fl|Fl]; rewrite Fl in *; discriminate.
Qed.

(* A receive addressed to the module never succeeds (consuming its nonce) unless the mint succeeded. *)
Theorem C14_receive_ok_implies_mint : forall e c plan from msg att m,
  decode_message msg = Some m -> to_module e m = true ->
  is_ok (deliver e c plan (ReceiveMessage from msg att)) = true ->
  (exists to denom amt, r_calls (deliver e c plan (ReceiveMessage from msg att)) = [DMint (module_str e) to denom amt true]) /\
  next_directive plan <> DFail.
Proof.
  intros e c plan from msg att m D T O. pose proof O as O'. apply ok_inv in O as (a&h'&H&E). rewrite E. cbn [r_calls handler] in *.
  apply receive_inv in H. destruct_receive H. assert (rmsg = m) by congruence. subst rmsg. rewrite T in Rbranch.
  destruct Rbranch as (b&p&tm&to&B1&B2&B3&B4&B5&B6&B7&B8&B9&B10&B11). cbn [start h_dc h_plan] in *. rewrite B10. cbn [app].
  split; [eauto|]. intros Fl. rewrite Fl in B8. discriminate.
Qed.

(* Validation failures that the code detects only AFTER the funds were moved - sending paused, oversized
   body, malformed destination caller, zero or short token messenger, mint recipient of the wrong size -
   are all errors: a successful deposit satisfies every one of them. *)
Theorem C14_late_failure_is_error : forall e c plan t from amount dest mr bt caller,
  is_deposit_of t from amount dest mr bt caller -> is_ok (deliver e c plan t) = true ->
  flag_on (sr_paused (c_st c)) = false /\
  (match max_body (c_st c) with Some mx => (132 <= mx)%N | None => True end) /\
  (caller = [] \/ (length caller = 32 /\ is_zeros caller = false)) /\
  (exists tm, lookup (messenger_key dest) (messengers (c_st c)) = Some tm /\ length (tm_address tm) = 32 /\ is_zeros (tm_address tm) = false) /\
  length mr = 32.
Proof.
  intros e c plan t from amount dest mr bt caller T O.
  destruct (deposit_ok_effects e c plan t from amount dest mr bt caller T O) as (F&_).
  destruct_deposit F. cbn [start h_st] in *. destruct Dsent as [S1 S2 S3 S4].
  pose proof (encode_burn_length _ _ Denc) as LB. apply encode_burn_some in Denc as (_&LR&_).
  apply encode_message_some in S4 as (_&LT&_). cbn in LR, LT.
  unfold nonzero in S3. apply negb_true_iff, orb_false_iff in S3 as [_ S3].
  split; [exact S1|]. split.
  - unfold body_fits in S2. cbn in S2. destruct (max_body (c_st c)); [|exact I]. rewrite LB in S2.
    apply negb_true_iff, N.ltb_ge in S2. exact S2.
  - split; [exact Dcal|]. split; [eauto|exact LR].
Qed.

(* After a transaction that is not accepted, the chain (store: counters, used nonces, registries; ledger:
   balances) and the event stream are exactly as before - whatever the handler did to its own branch. *)
Theorem C14_rollback_restores : forall e c plan t,
  is_ok (deliver e c plan t) = false -> r_chain (deliver e c plan t) = c /\ r_events (deliver e c plan t) = [].
Proof. exact deliver_not_ok. Qed.

(* ... and the handler's own branch really is dirty in those cases, so correctness does rest on the error
   being returned: with sending paused the deposit handler has already debited and burnt (its ledger
   differs, two successful dependency calls were made) when it fails. *)
Example C14_dirty_state_exists :
  let c := {| c_st := set_sr_paused (Some true) ex_store; c_lg := ex_ledger |} in
  let r := deliver ex_env c [] ex_deposit in
  r_out r = OErr /\ r_chain r = c /\
  r_calls r = [DTransfer (ex_acct x11) (B "uusdc") 100 true; DBurn (module_str ex_env) (B "uusdc") 100 true] /\
  balance (h_lg (r_dirty r)) (ex_acct x11) (B "uusdc") = 4900%Z /\ balance (c_lg (r_chain r)) (ex_acct x11) (B "uusdc") = 5000%Z /\
  nn (h_st (r_dirty r)) = 8%N /\ nn (c_st (r_chain r)) = 7%N.
Proof. vm_compute. repeat split; reflexivity. Qed.

(* The same holds for executions whose branch is dropped although the handlers succeeded (simulation, CheckTx, the early
   messages of a transaction whose later message failed - any number of messages sharing one branch): the chain reached
   by a history with such branches interleaved is the chain reached by the delivered steps alone, and later results do
   not see them. *)
Theorem C14_discarded_executions_leave_no_trace : forall e c h1 b h2,
  run_modes e c (h1 ++ Dropped b :: h2) = run_modes e c (h1 ++ h2) /\
  trace e (run_modes e c (h1 ++ [Dropped b])) (delivered h2) = trace e (run_modes e c h1) (delivered h2).
Proof. intros. split; [apply discarded_step_is_invisible|apply later_results_ignore_discarded]. Qed.

Print Assumptions C14_deposit_ok_implies_all.
Print Assumptions C14_deposit_fault_implies_error.
Print Assumptions C14_receive_ok_implies_mint.
Print Assumptions C14_late_failure_is_error.
Print Assumptions C14_rollback_restores.
Print Assumptions C14_discarded_executions_leave_no_trace.
