(* C03 - A message is received only when every acceptance condition holds. *)
From Cctp Require Import Lib.Bytes Lib.SMap Lib.Text Lib.Bech32.
From Cctp Require Import Model.Codec Model.State Model.Attest Model.Ledger Model.Handlers Model.Chain.
From Cctp Require Import Proofs.MonadFacts Proofs.FlowFacts Proofs.HistoryFacts Proofs.DecisionFacts.
From Cctp Require Import Vectors.Examples.
From Cctp Require Import Gen.GoH_ReceiveMessage.

(* the mint-side conditions, consulted only for messages addressed to the CCTP module *)
Definition mint_conditions (e : env) (c : chain) (plan : list directive) (m : message) : Prop :=
  flag_on (bm_paused (c_st c)) = false /\                                              (* minting is not paused *)
  exists b p tm to,
    decode_burn (m_body m) = Some b /\                                                 (* the body is a 132-byte burn message *)
    bm_version b = 0%N /\                                                              (* ... of version 0 *)
    lookup (pair_key (m_src m) (bm_token b)) (pairs (c_st c)) = Some p /\              (* a local token is linked to (source, burn token) *)
    lookup (messenger_key (m_src m)) (messengers (c_st c)) = Some tm /\                (* a token messenger is registered for the source *)
    m_sender m = tm_address tm /\                                                      (* ... and is the sender *)
    bech32_of e (skipn 12 (bm_recipient b)) = Some to /\
    text_ok (tp_local p) = true /\                                                     (* modelled alphabet, DESIGN 3.4 *)
    decide (next_directive plan) (mint_rule e (c_lg c) to (to_lower (tp_local p)) (bm_amount b)) = true.   (* the mint succeeds *)

Definition receive_conditions (e : env) (c : chain) (plan : list directive) (from msg att : bytes) : Prop :=
  flag_on (sr_paused (c_st c)) = false /\                                              (* receiving is not paused *)
  attesters (c_st c) <> [] /\
  (exists thr, threshold (c_st c) = Some thr /\
               verify (recover e) msg att (values (attesters (c_st c))) thr = VAccept) /\   (* the attestation is valid (C01) *)
  exists m,
    decode_message msg = Some m /\                                                     (* a full 116-byte header *)
    m_dst m = 4%N /\                                                                   (* destination domain is Noble's *)
    m_version m = 0%N /\                                                               (* version 0 *)
    used c (m_src m) (m_nonce m) = false /\                                            (* the nonce is unused *)
    caller_ok e (m_caller m) from = true /\                                            (* caller all-zero or the submitter *)
    (to_module e m = true -> mint_conditions e c plan m).

(* A receive succeeds exactly when every acceptance condition holds: for all messages, attestations,
   submitters, states, ledgers and dependency plans. *)
Theorem C03_receive_iff : forall e c plan from msg att,
  is_ok (deliver e c plan (ReceiveMessage from msg att)) = true <-> receive_conditions e c plan from msg att.
Proof.
  intros. rewrite receive_okb_correct. unfold receive_okb, receive_conditions, mint_conditions, mint_okb, used. cbv zeta. split.
  - intros H. apply andb_true_iff in H as [H1 H]. apply andb_true_iff in H as [H2 H].
    apply negb_true_iff in H1. apply negb_true_iff in H2. apply Nat.eqb_neq in H2.
    destruct (threshold (c_st c)) as [thr|]; [|discriminate]. apply andb_true_iff in H as [H3 H].
    destruct (verify _ _ _ _ _) eqn:V; try discriminate.
    destruct (decode_message msg) as [m|]; [|discriminate].
    apply andb_true_iff in H as [H4 H]. apply andb_true_iff in H as [H5 H]. apply andb_true_iff in H as [H6 H].
    apply andb_true_iff in H as [H7 H]. apply N.eqb_eq in H4, H6. apply negb_true_iff in H7.
    split; [exact H1|]. split; [destruct (attesters (c_st c)); [contradiction|discriminate]|].
    split; [eauto|]. exists m. do 5 (split; [auto|]).
    intros T. rewrite T in H. apply andb_true_iff in H as [B H]. split; [now apply negb_true_iff in B|].
      destruct (decode_burn (m_body m)) as [b|]; [|discriminate]. apply andb_true_iff in H as [Hv H]. apply N.eqb_eq in Hv.
      destruct (lookup (pair_key _ _) _) as [p|] eqn:Ep; [|discriminate]. destruct (lookup (messenger_key _) _) as [tm|] eqn:Em; [|discriminate].
      apply andb_true_iff in H as [Hs H]. apply beqb_eq in Hs. destruct (bech32_of _ _) as [to|] eqn:Eb; [|discriminate].
      apply andb_true_iff in H as [Ht H]. exists b, p, tm, to. auto 10.
  - intros (H1&H2&(thr&T&V)&m&D&H4&H6&H7&H5&HM).
    rewrite H1, T, V, D, H4, H6, H5. unfold mem in *. cbn [negb andb vaccept].
    assert (Nat.eqb (length (attesters (c_st c))) 0 = false) as -> by (destruct (attesters (c_st c)); [contradiction|reflexivity]).
    destruct (lookup (nonce_key _ _) _); [discriminate|]. cbn [negb andb].
    destruct (to_module e m); [|reflexivity]. destruct (HM eq_refl) as (B&b&p&tm&to&E1&E2&E3&E4&E5&E6&E7&E8).
    rewrite B, E1. cbn beta iota. rewrite E2, E3. cbn beta iota. rewrite E4. cbn beta iota. rewrite E5, beqb_refl, E6. cbn beta iota. rewrite E7, E8. reflexivity.
Qed.

(* Violating any one condition, in any combination with the others, makes the receive fail with no mint,
   no nonce consumed, no event: the chain is exactly as before. *)
Theorem C03_receive_fail_no_effect : forall e c plan from msg att,
  ~ receive_conditions e c plan from msg att ->
  let r := deliver e c plan (ReceiveMessage from msg att) in
  is_ok r = false /\ r_chain r = c /\ r_events r = [].
Proof.
  intros e c plan from msg att N r. assert (is_ok r = false) as O.
  { destruct (is_ok r) eqn:O; auto. apply C03_receive_iff in O. contradiction. }
  split; [exact O|]. now apply deliver_not_ok.
Qed.

(* For messages not addressed to the module the mint-side conditions are not consulted. *)
Theorem C03_non_module_receive_ignores_mint_side : forall e c plan from msg att m,
  decode_message msg = Some m -> to_module e m = false ->
  (is_ok (deliver e c plan (ReceiveMessage from msg att)) = true <->
   flag_on (sr_paused (c_st c)) = false /\ attesters (c_st c) <> [] /\
   (exists thr, threshold (c_st c) = Some thr /\ verify (recover e) msg att (values (attesters (c_st c))) thr = VAccept) /\
   m_dst m = 4%N /\ m_version m = 0%N /\ used c (m_src m) (m_nonce m) = false /\ caller_ok e (m_caller m) from = true).
Proof.
  intros e c plan from msg att m D T. rewrite C03_receive_iff. unfold receive_conditions. split.
  - intros (H1&H2&H3&m'&D'&H4&H5&H6&H7&_). assert (m' = m) by congruence. subst. auto 10.
  - intros (H1&H2&H3&H4&H5&H6&H7). split; [auto|]. split; [auto|]. split; [auto|]. exists m. do 5 (split; [auto|]). congruence.
Qed.

(* what the caller condition means *)
Theorem C03_caller_condition : forall e caller from,
  caller_ok e caller from = true <-> is_zeros caller = true \/ bech32_of e (skipn 12 caller) = Some from.
Proof.
  intros. unfold caller_ok. destruct (is_zeros caller); [tauto|].
  destruct (bech32_of e (skipn 12 caller)) as [x|]; split; intros H; try discriminate.
  - apply beqb_eq in H. subst. now right.
  - destruct H as [H|H]; [discriminate|]. injection H as ->. apply beqb_refl.
  - destruct H; discriminate.
Qed.

(* non-vacuity: the acceptance conditions are satisfiable - a concrete attested burn message in a concrete chain *)
Example C03_conditions_satisfiable : receive_conditions ex_env2 ex_chain2 [] ex_alice (ex_message 6) (repeat x00 65).
Proof. apply C03_receive_iff. exact (proj1 ex_receive_ok). Qed.

(* ReceiveMessage as translated from the Go source (attestation check, decoding, nonce marking, mint branch, events) is the model handler the acceptance theorem is about (go_X_ok: forall e request h, eq_or_unmodelled (go_X e request h) (handler e (X request) h): same result and same state wherever the model gives a verdict at all, i.e. except on denominations outside the character set the model folds; for the two helpers the right-hand side is send_message / deposit_for_burn). The statement is about the Gallina program that tools/goextract TRANSLATED from the Go source of /repo on this run (Gen/GoH_*.v, Gen/GoF_*.v; meaning of the Go constructs: Gen/GoSem.v). For a function the translator could not read the conjunct is True (Gen/<file> names the reason, the evidence lists it) and the tie for it is the differential execution alone. *)
Theorem C03_go_receive_handler_is_the_model :
  go_ReceiveMessage_ok.
Proof. exact go_ReceiveMessage_ok_proof. Qed.

Print Assumptions C03_receive_iff.
Print Assumptions C03_receive_fail_no_effect.
Print Assumptions C03_non_module_receive_ignores_mint_side.
Print Assumptions C03_caller_condition.
Print Assumptions C03_go_receive_handler_is_the_model.
