(* C17 - Genesis import/export preserves state; validation rejects ambiguity. *)
From Coq Require Import Permutation.
From Cctp Require Import Lib.Bytes Lib.SMap Lib.Bech32.
From Cctp Require Import Model.Codec Model.State Model.Ledger Model.Handlers Model.Chain Model.Genesis.
From Cctp Require Import Proofs.MonadFacts Proofs.StoreFacts Proofs.GenesisFacts Proofs.ExportFacts.
From Cctp Require Import Gen.GoSem Gen.GoSemGenesis Gen.GoG_InitGenesis Gen.GoG_ExportGenesis Gen.GoG_Validate.

(* Validation rejects any genesis in which two entries of a keyed list would occupy the same store key:
   an accepted genesis has pairwise distinct keys in each of the five lists, so initialisation never
   silently overwrites an entry. *)
Theorem C17_validation_rejects_colliding_keys : forall e g, validate e g = true ->
  NoDup (map k_attester (g_attesters g)) /\ NoDup (map k_limit (g_limits g)) /\ NoDup (map k_pair (g_pairs g)) /\
  NoDup (map k_nonce (g_nonces g)) /\ NoDup (map k_messenger (g_messengers g)).
Proof. exact validate_no_dup. Qed.

(* For every genesis accepted by validation and by initialisation, exporting after initialising yields
   the same roles and flags, the counters with absent optional fields replaced by their documented
   defaults (max body 8000, next nonce 0, threshold 1), and the same multiset of attesters, burn limits,
   token pairs, used nonces and token messengers. *)
Theorem C17_export_after_init : forall e g s, validate e g = true -> init_genesis g = Some s ->
  exists g', export_genesis s = Some g' /\
    g_owner g' = g_owner g /\ g_attester_manager g' = g_attester_manager g /\ g_pauser g' = g_pauser g /\
    g_token_controller g' = g_token_controller g /\
    g_bm_paused g' = g_bm_paused g /\ g_sr_paused g' = g_sr_paused g /\
    g_max_body g' = Some (dflt (g_max_body g) 8000%N) /\ g_next_nonce g' = Some (dflt (g_next_nonce g) 0%N) /\
    g_threshold g' = Some (dflt (g_threshold g) 1%N) /\
    Permutation (g_attesters g') (g_attesters g) /\ Permutation (g_limits g') (g_limits g) /\
    Permutation (g_pairs g') (g_pairs g) /\ Permutation (g_nonces g') (g_nonces g) /\
    Permutation (g_messengers g') (g_messengers g).
Proof. exact export_init. Qed.

(* Full statement wanted by the property: exporting any reachable state and importing it into an empty
   chain reproduces EVERY stored entry:
       forall s reachable, exists g, export_genesis s = Some g /\ init_genesis g = Some s.
   It is FALSE of the code as it stands (C17_pending_owner_is_lost below): the pending-owner slot has no
   genesis field.  What holds is the same statement up to that one slot: *)
Theorem C17_import_of_export_partial : forall s, store_wf s -> exportable s ->
  exists g, export_genesis s = Some g /\ init_genesis g = Some (set_pending_owner None s).
Proof. exact init_export. Qed.

(* ... for every state reachable from an initialised genesis by any history (store_wf and exportable are
   invariants established by InitGenesis and preserved by every transaction) *)
Theorem C17_import_of_export_reachable : forall e g s0 h lg,
  init_genesis g = Some s0 ->
  let s := c_st (run e {| c_st := s0; c_lg := lg |} h) in
  exists g', export_genesis s = Some g' /\ init_genesis g' = Some (set_pending_owner None s).
Proof.
  intros e g s0 h lg I s. apply init_export.
  - subst s. apply wf_run. cbn. exact (wf_init g s0 I).
  - subst s. apply exportable_run. cbn. exact (exportable_init g s0 I).
Qed.

(* Every export of a state reachable from a validated, initialised genesis passes validation again: the role slots
   only ever receive syntactically valid addresses, and a well-formed store exports lists with pairwise distinct keys. *)
Theorem C17_exports_validate : forall e g s0 h lg,
  validate e g = true -> init_genesis g = Some s0 ->
  let s := c_st (run e {| c_st := s0; c_lg := lg |} h) in
  exists g', export_genesis s = Some g' /\ validate e g' = true.
Proof.
  intros e g s0 h lg V I s.
  assert (store_wf s) as W by (subst s; apply wf_run; cbn; exact (wf_init g s0 I)).
  assert (exportable s) as X by (subst s; apply exportable_run; cbn; exact (exportable_init g s0 I)).
  assert (roles_valid e s) as R by (subst s; apply valid_run; cbn; exact (valid_init e g s0 V I)).
  destruct (init_export s W X) as (g'&E&_). exists g'. split; [exact E|]. exact (export_validates e s g' W X R E).
Qed.

(* the counterexample to the full statement (known finding: pending owner not exported) *)
Definition tiny_store : store :=
  {| owner := Some [x61]; pending_owner := Some [x62]; attester_manager := Some [x61]; pauser := Some [x61];
     token_controller := Some [x61]; bm_paused := Some false; sr_paused := Some false; max_body := Some 8000%N;
     next_nonce := Some 0%N; threshold := Some 1%N; attesters := []; limits := []; pairs := []; messengers := []; nonces := [] |}.

Theorem C17_pending_owner_is_lost_refuted :
  exists s, store_wf s /\ exportable s /\
    exists g, export_genesis s = Some g /\ init_genesis g <> Some s.
Proof.
  assert (store_wf tiny_store) as Ws by (unfold store_wf, tiny_store; cbn [attesters limits pairs messengers nonces]; repeat split; constructor).
  assert (exportable tiny_store) as Xs by (unfold exportable, tiny_store; cbn; repeat split; discriminate).
  exists tiny_store. split; [exact Ws|]. split; [exact Xs|].
  destruct (init_export tiny_store Ws Xs) as (g&E&I'). exists g. split; [exact E|]. rewrite I'. intros H. injection H as H. discriminate H.
Qed.

(* InitGenesis and ExportGenesis of x/cctp/genesis.go and GenesisState.Validate of x/cctp/types/genesis.go AS TRANSLATED from
   /repo on this run (tools/goextract -> Gen/GoG_InitGenesis.v, Gen/GoG_ExportGenesis.v, Gen/GoG_Validate.v; loops over the
   genesis lists, pointer fields, the threshold panic, the index maps of the duplicate checks): the translated Validate
   accepts exactly the genesis states the model's validate accepts (go_Validate e g h = (if validate e g then ROk tt else
   RErr, h): each of the five duplicate loops rejects exactly when two entries share a store key);
   run on an empty store the translated InitGenesis leaves exactly the model's init_genesis store (and panics exactly when
   the model does); on a chain whose pause flags are set the translated ExportGenesis returns exactly the model's
   export_genesis, changes nothing, and panics exactly when a role slot is unset.  For a function the translator could
   not read the conjunct is True (the generated file names the reason, the evidence lists it). *)
Theorem C17_go_genesis_functions_are_the_model : go_InitGenesis_ok /\ go_ExportGenesis_ok /\ go_Validate_ok.
Proof. split; [exact go_InitGenesis_ok_proof|split; [exact go_ExportGenesis_ok_proof|exact go_Validate_ok_proof]]. Qed.

Print Assumptions C17_validation_rejects_colliding_keys.
Print Assumptions C17_export_after_init.
Print Assumptions C17_import_of_export_partial.
Print Assumptions C17_import_of_export_reachable.
Print Assumptions C17_exports_validate.
Print Assumptions C17_pending_owner_is_lost_refuted.
Print Assumptions C17_go_genesis_functions_are_the_model.
