(* C16 - The wire encodings are the CCTP formats and round-trip exactly. *)
From Cctp Require Import Lib.Bytes Model.Codec Spec.Layout Proofs.CodecFacts.
From Cctp Require Import Gen.GenLib Gen.Consts Gen.CheckConsts Gen.CodecIR Gen.CodecGo Gen.CheckCodec.

(* The model's codec is the independent reference layout (literal offsets 0/4/8/12/20/52/84/116 and
   0/4/36/68/100/132, big-endian), on every byte string and every value. *)
Theorem C16_message_decode_is_layout : forall bs, option_map to_ref (decode_message bs) = ref_decode_message bs.
Proof. exact decode_message_layout. Qed.
Theorem C16_message_encode_is_layout : forall m, encode_message m = ref_encode_message (to_ref m).
Proof. exact encode_message_layout. Qed.
Theorem C16_burn_decode_is_layout : forall bs, option_map to_ref_burn (decode_burn bs) = ref_decode_burn bs.
Proof. exact decode_burn_layout. Qed.
Theorem C16_burn_encode_is_layout : forall m, encode_burn m = ref_encode_burn (to_ref_burn m).
Proof. exact encode_burn_layout. Qed.

(* Decoding then encoding any byte string of valid length returns the same bytes. *)
Theorem C16_message_decode_encode : forall bs, 116 <= length bs ->
  exists m, decode_message bs = Some m /\ encode_message m = Some bs.
Proof.
  intros bs H. destruct (decode_message bs) as [m|] eqn:E.
  - exists m. split; [reflexivity|]. now apply message_decode_encode.
  - unfold decode_message in E. destruct (Nat.ltb_spec (length bs) 116); [lia|discriminate].
Qed.
Theorem C16_burn_decode_encode : forall bs, length bs = 132 ->
  exists m, decode_burn bs = Some m /\ encode_burn m = Some bs.
Proof.
  intros bs H. destruct (decode_burn bs) as [m|] eqn:E.
  - exists m. split; [reflexivity|]. now apply burn_decode_encode.
  - unfold decode_burn in E. destruct (Nat.eqb_spec (length bs) 132); [discriminate|contradiction].
Qed.

(* Encoding then decoding any well-formed value returns the same value. *)
Theorem C16_message_encode_decode : forall m,
  length (m_sender m) = 32 -> length (m_recipient m) = 32 -> length (m_caller m) = 32 -> message_wf m ->
  exists bs, encode_message m = Some bs /\ decode_message bs = Some m /\ length bs = 116 + length (m_body m).
Proof.
  intros m Hs Hr Hc W. destruct (encode_message m) as [bs|] eqn:E.
  - exists bs. split; [reflexivity|]. split; [now apply message_encode_decode|now apply encode_message_length].
  - unfold encode_message in E. rewrite Hs, Hr, Hc in E. discriminate.
Qed.
Theorem C16_burn_encode_decode : forall m,
  length (bm_token m) = 32 -> length (bm_recipient m) = 32 -> length (bm_sender m) = 32 -> burn_wf m ->
  exists bs, encode_burn m = Some bs /\ decode_burn bs = Some m /\ length bs = 132.
Proof.
  intros m Ht Hr Hs W. destruct (encode_burn m) as [bs|] eqn:E.
  - exists bs. split; [reflexivity|]. split; [now apply burn_encode_decode|now apply (encode_burn_length m)].
  - unfold encode_burn in E. rewrite Ht, Hr, Hs in E. discriminate.
Qed.

(* Wrong lengths or field sizes are rejected with an error rather than misparsed. *)
Theorem C16_rejects :
  (forall bs, length bs < 116 -> decode_message bs = None) /\
  (forall bs, length bs <> 132 -> decode_burn bs = None) /\
  (forall m, (length (m_sender m) <> 32 \/ length (m_recipient m) <> 32 \/ length (m_caller m) <> 32) -> encode_message m = None) /\
  (forall m, (length (bm_token m) <> 32 \/ length (bm_recipient m) <> 32 \/ length (bm_sender m) <> 32) -> encode_burn m = None).
Proof.
  split; [exact decode_message_short|]. split; [exact decode_burn_wrong_length|]. split.
  - intros m H. destruct (encode_message m) eqn:E; [|reflexivity].
    apply encode_message_some in E. destruct E as (?&?&?). destruct H as [H|[H|H]]; contradiction.
  - intros m H. destruct (encode_burn m) eqn:E; [|reflexivity].
    apply encode_burn_some in E. destruct E as (?&?&?). destruct H as [H|[H|H]]; contradiction.
Qed.

(* non-vacuity: a concrete burn message inside a concrete message round-trips by computation *)
Example C16_example :
  let b := {| bm_version := 0; bm_token := repeat x11 32; bm_recipient := repeat x22 32; bm_amount := 9876; bm_sender := repeat x33 32 |} in
  match encode_burn b with
  | Some body =>
      let m := {| m_version := 0; m_src := 0; m_dst := 4; m_nonce := 18446744073709551615; m_sender := repeat x44 32;
                  m_recipient := repeat x55 32; m_caller := repeat x00 32; m_body := body |} in
      match encode_message m with
      | Some bs => length bs = 248 /\ decode_message bs = Some m /\ decode_burn (m_body m) = Some b
      | None => False end
  | None => False end.
Proof. vm_compute. repeat split. Qed.

(* The protocol numbers of the Go source as it is now (x/cctp/types/constants.go, regenerated on every run): message and
   body version 0, Noble's domain 4, 65-byte signatures. *)
Theorem C16_go_constants_are_the_layout :
  forallb (fun kv => match assoc (fst kv) go_int_consts with Some v => Z.eqb v (snd kv) | None => false end) expected_ints = true.
Proof. exact constants_are_the_cctp_layout. Qed.

(* The four codec functions of the Go source as it is now - translated on every run by tools/goextract into the
   representation of Gen/CodecIR.v (guards, field offsets and widths with the constants resolved by value, readers and
   writers, temporaries resolved) - are well-formed (nothing the translator could not read; the writes tile the buffer) and
   mean exactly the model's decoders and encoders, for every byte string and every value.  Together with the layout and
   round-trip theorems above this ties message.go and burn_message.go to the CCTP formats without going through a test
   input. *)
Theorem C16_go_source_translates_to_the_model :
  (dec_wellformed go_message_parse = true /\ enc_wellformed go_message_bytes = true /\
   dec_wellformed go_burn_parse = true /\ enc_wellformed go_burn_bytes = true) /\
  (forall bs, interp_dec go_message_parse bs = option_map message_fields (decode_message bs)) /\
  (forall m, interp_enc go_message_bytes (env_of (message_fields m)) = encode_message m) /\
  (forall bs, interp_dec go_burn_parse bs = option_map burn_fields (decode_burn bs)) /\
  (forall m, interp_enc go_burn_bytes (env_of (burn_fields m)) = encode_burn m).
Proof.
  split; [exact translated_codecs_wellformed|].
  split; [exact go_message_parse_is_model|]. split; [exact go_message_bytes_is_model|].
  split; [exact go_burn_parse_is_model|exact go_burn_bytes_is_model].
Qed.

Print Assumptions C16_message_decode_is_layout.
Print Assumptions C16_go_constants_are_the_layout.
Print Assumptions C16_message_encode_is_layout.
Print Assumptions C16_burn_decode_is_layout.
Print Assumptions C16_burn_encode_is_layout.
Print Assumptions C16_message_decode_encode.
Print Assumptions C16_burn_decode_encode.
Print Assumptions C16_message_encode_decode.
Print Assumptions C16_burn_encode_decode.
Print Assumptions C16_rejects.
Print Assumptions C16_go_source_translates_to_the_model.
