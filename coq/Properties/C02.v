(* C02 - An attested message is consumed at most once. *)
From Cctp Require Import Lib.Bytes Lib.SMap.
From Cctp Require Import Model.Codec Model.State Model.Ledger Model.Handlers Model.Chain Model.Queries.
From Cctp Require Import Proofs.MonadFacts Proofs.FlowFacts Proofs.HistoryFacts.
From Cctp Require Import Vectors.Examples.

(* For every history of any length from any chain, and every pair (source domain, nonce): at most one
   receive of that pair ever succeeds - whatever the body, recipient, attestation encoding, submitter or
   the administrative actions in between - and none succeeds if the pair was already used (e.g. listed
   in genesis).  [receives t d n]: t is a receive whose message header names (d, n). *)
Theorem C02_at_most_once : forall e h c d n,
  ok_receives e c h d n <= 1 /\ (used c d n = true -> ok_receives e c h d n = 0).
Proof. intros e h c d n. destruct (at_most_once_aux e h d n c). auto. Qed.

(* A pair reported as used stays used for the rest of the chain's history: no transaction of any type,
   accepted or rejected, deletes or overwrites a used-nonce entry. *)
Theorem C02_used_stays_used : forall e h c d n, used c d n = true -> used (run e c h) d n = true.
Proof. intros e h. exact (used_monotone_run e h). Qed.

(* A pair is reported as used only if the starting state (genesis) listed it or a receive for it
   succeeded earlier in the history; in particular a failed receive leaves it free. *)
Theorem C02_used_only_if : forall e h c d n, (d < 2 ^ 32)%N -> (n < 2 ^ 64)%N ->
  used (run e c h) d n = true -> used c d n = true \/ 1 <= ok_receives e c h d n.
Proof. intros e h c d n D N. exact (used_only_if_run e h d n D N c). Qed.

(* A successful receive found its pair unused and leaves it used. *)
Theorem C02_successful_receive_consumes_its_pair : forall e c plan t d n,
  is_ok (deliver e c plan t) = true -> receives t d n = true ->
  used c d n = false /\ used (r_chain (deliver e c plan t)) d n = true.
Proof. exact ok_receive_marks. Qed.

(* The store key of a pair is injective on uint32 x uint64 (fixed-width big-endian), so distinct pairs
   never share an entry; decoded headers are always in that range. *)
Theorem C02_nonce_key_injective : forall d1 n1 d2 n2,
  (d1 < 2 ^ 32)%N -> (d2 < 2 ^ 32)%N -> (n1 < 2 ^ 64)%N -> (n2 < 2 ^ 64)%N ->
  nonce_key d1 n1 = nonce_key d2 n2 -> d1 = d2 /\ n1 = n2.
Proof. exact nonce_key_injective. Qed.
Theorem C02_decoded_pairs_in_range : forall bs m,
  decode_message bs = Some m -> (m_src m < 2 ^ 32)%N /\ (m_nonce m < 2 ^ 64)%N.
Proof. exact decode_message_ranges. Qed.

(* The used-nonce query reports exactly that set. *)
Theorem C02_query_reflects_used_set : forall c d n,
  (exists r, run_query (c_st c) (QUsedNonce d n) = QOk r) <-> used c d n = true.
Proof.
  intros c d n. unfold used. cbn. destruct (mem _ _); split; intros H; try discriminate; eauto.
  destruct H as [r H]. discriminate.
Qed.

(* non-vacuity: in a concrete chain the same attested message submitted twice is received exactly once *)
Example C02_example : ok_receives ex_env2 ex_chain2 [([], ex_receive 6); ([], ex_receive 6)] 0 6 = 1.
Proof. vm_compute. reflexivity. Qed.

(* Over a whole history: the (source domain, nonce) pairs of the receives that succeeded ([accepted e c h], in
   order) are pairwise distinct - this is the "distinct accepted burn messages" over which C04 sums -, each was
   free when the history began and each is used when it ends. *)
Theorem C02_accepted_messages_are_pairwise_distinct : forall e h c, NoDup (accepted e c h).
Proof. intros e h c. exact (proj1 (accepted_fresh_nodup e h c)). Qed.

Theorem C02_accepted_pairs_were_free_and_end_up_used : forall e h c d n, In (d, n) (accepted e c h) ->
  used c d n = false /\ used (run e c h) d n = true.
Proof. intros e h c d n I. split; [exact (proj2 (accepted_fresh_nodup e h c) d n I)|exact (accepted_used e h c d n I)]. Qed.

Example C02_accepted_example : accepted ex_env2 ex_chain2 [([], ex_receive 6); ([], ex_receive 6); ([], ex_receive 7)] = [(0, 6); (0, 7)]%N.
Proof. vm_compute. reflexivity. Qed.

Print Assumptions C02_at_most_once.
Print Assumptions C02_used_stays_used.
Print Assumptions C02_used_only_if.
Print Assumptions C02_successful_receive_consumes_its_pair.
Print Assumptions C02_nonce_key_injective.
Print Assumptions C02_decoded_pairs_in_range.
Print Assumptions C02_query_reflects_used_set.
Print Assumptions C02_accepted_messages_are_pairwise_distinct.
Print Assumptions C02_accepted_pairs_were_free_and_end_up_used.
