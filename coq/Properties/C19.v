(* C19 - Registries behave as exact maps and queries reflect them. *)
From Cctp Require Import Lib.Bytes Lib.SMap Lib.Text Lib.Keccak Lib.Paginate.
From Cctp Require Import Model.Codec Model.State Model.Ledger Model.Handlers Model.Chain Model.Queries.
From Cctp Require Import Proofs.MonadFacts Proofs.StoreFacts Proofs.PaginateFacts Proofs.RegistryFacts Proofs.AdminFacts.
From Cctp Require Import Gen.GenLib Gen.Consts Gen.CheckKeys.
From Cctp Require Import Gen.GoH_LinkTokenPair Gen.GoH_UnlinkTokenPair Gen.GoH_AddRemoteTokenMessenger Gen.GoH_RemoveRemoteTokenMessenger Gen.GoH_SetMaxBurnAmountPerMessage Gen.GoH_UpdateMaxMessageBodySize.
From Cctp Require Import Gen.GoQ_LocalDomain Gen.GoQ_LocalMessageVersion Gen.GoQ_BurnMessageVersion Gen.GoQ_Roles Gen.GoQ_BurningAndMintingPaused Gen.GoQ_SendingAndReceivingMessagesPaused Gen.GoQ_MaxMessageBodySize Gen.GoQ_NextAvailableNonce Gen.GoQ_SignatureThreshold Gen.GoQ_Attester Gen.GoQ_PerMessageBurnLimit Gen.GoQ_TokenPair Gen.GoQ_UsedNonce Gen.GoQ_RemoteTokenMessenger.

(* ---- the map laws: adding creates exactly one entry, removal deletes exactly that entry, distinct keys
   never interfere (for the ordered map that stands for each collection) ---- *)
Theorem C19_map_laws : forall (V : Type) (m : smap V) k k' v,
  lookup k (insert k v m) = Some v /\
  (k <> k' -> lookup k' (insert k v m) = lookup k' m) /\
  (sorted m -> lookup k (remove k m) = None) /\
  (k <> k' -> lookup k' (remove k m) = lookup k' m) /\
  (lookup k m = None -> length (insert k v m) = S (length m)) /\
  (forall v0, lookup k m = Some v0 -> length (remove k m) = pred (length m)).
Proof.
  intros. repeat split.
  - apply lookup_insert_eq.
  - apply lookup_insert_ne.
  - apply lookup_remove_eq.
  - apply lookup_remove_ne.
  - apply length_insert_new.
  - intros v0. apply length_remove_old.
Qed.

(* ---- every registry transaction is exactly one such map operation on its own collection, on the key it
   names; duplicates and unknown removals are rejected (a rejected transaction changes nothing, C15) ---- *)
Theorem C19_enable_attester : forall e c plan from a, is_ok (deliver e c plan (EnableAttester from a)) = true ->
  lookup (attester_key a) (attesters (c_st c)) = None /\
  c_st (r_chain (deliver e c plan (EnableAttester from a))) = set_attesters (insert (attester_key a) a (attesters (c_st c))) (c_st c).
Proof. exact enable_attester_ok. Qed.
Theorem C19_disable_attester : forall e c plan from a, is_ok (deliver e c plan (DisableAttester from a)) = true ->
  lookup (attester_key a) (attesters (c_st c)) <> None /\
  c_st (r_chain (deliver e c plan (DisableAttester from a))) = set_attesters (remove (attester_key a) (attesters (c_st c))) (c_st c).
Proof. exact disable_attester_ok. Qed.
Theorem C19_link_token_pair : forall e c plan from d t l, is_ok (deliver e c plan (LinkTokenPair from d t l)) = true ->
  length t = 32 /\ lookup (pair_key d t) (pairs (c_st c)) = None /\
  c_st (r_chain (deliver e c plan (LinkTokenPair from d t l))) =
    set_pairs (insert (pair_key d t) {| tp_domain := d; tp_token := t; tp_local := to_lower l |} (pairs (c_st c))) (c_st c).
Proof. exact link_pair_ok. Qed.
Theorem C19_unlink_token_pair : forall e c plan from d t l, is_ok (deliver e c plan (UnlinkTokenPair from d t l)) = true ->
  exists p, lookup (pair_key d t) (pairs (c_st c)) = Some p /\
  c_st (r_chain (deliver e c plan (UnlinkTokenPair from d t l))) = set_pairs (remove (pair_key d (tp_token p)) (pairs (c_st c))) (c_st c).
Proof. exact unlink_pair_ok. Qed.
Theorem C19_add_remote_token_messenger : forall e c plan from d a, is_ok (deliver e c plan (AddRemoteTokenMessenger from d a)) = true ->
  length a = 32 /\ lookup (messenger_key d) (messengers (c_st c)) = None /\
  c_st (r_chain (deliver e c plan (AddRemoteTokenMessenger from d a))) =
    set_messengers (insert (messenger_key d) {| tm_domain := d; tm_address := a |} (messengers (c_st c))) (c_st c).
Proof. exact add_messenger_ok. Qed.
Theorem C19_remove_remote_token_messenger : forall e c plan from d, is_ok (deliver e c plan (RemoveRemoteTokenMessenger from d)) = true ->
  lookup (messenger_key d) (messengers (c_st c)) <> None /\
  c_st (r_chain (deliver e c plan (RemoveRemoteTokenMessenger from d))) = set_messengers (remove (messenger_key d) (messengers (c_st c))) (c_st c).
Proof. exact remove_messenger_ok. Qed.
Theorem C19_set_burn_limit : forall e c plan from l a, is_ok (deliver e c plan (SetMaxBurnAmountPerMessage from l a)) = true ->
  c_st (r_chain (deliver e c plan (SetMaxBurnAmountPerMessage from l a))) =
    set_limits (insert (limit_key (to_lower l)) {| lim_denom := to_lower l; lim_amount := match a with Some z => z | None => 0%Z end |}
                       (limits (c_st c))) (c_st c).
Proof. exact set_limit_ok. Qed.

(* ---- distinct logical keys have distinct store keys (for token pairs: unless Keccak-256 collides) ---- *)
Theorem C19_keys_injective :
  (forall a b, attester_key a = attester_key b -> a = b) /\
  (forall a b, limit_key a = limit_key b -> a = b) /\
  (forall a b, (a < 2 ^ 32)%N -> (b < 2 ^ 32)%N -> messenger_key a = messenger_key b -> a = b) /\
  (forall d1 n1 d2 n2, (d1 < 2 ^ 32)%N -> (d2 < 2 ^ 32)%N -> (n1 < 2 ^ 64)%N -> (n2 < 2 ^ 64)%N ->
                       nonce_key d1 n1 = nonce_key d2 n2 -> d1 = d2 /\ n1 = n2) /\
  (forall d t d' t', (d < 2 ^ 32)%N -> (d' < 2 ^ 32)%N -> pair_key d t = pair_key d' t' -> (d = d' /\ t = t') \/ keccak_collision).
Proof.
  split; [exact attester_key_inj|]. split; [exact limit_key_inj|]. split; [exact messenger_key_inj|].
  split; [exact HistoryFacts.nonce_key_injective|exact pair_key_inj].
Qed.

(* ---- single-item queries find an entry iff it exists, and return the entry stored for that key ---- *)
Theorem C19_single_item_queries : forall s,
  (forall a, (exists r, run_query s (QAttester a) = QOk r) <-> lookup (attester_key a) (attesters s) <> None) /\
  (forall d, (exists r, run_query s (QBurnLimit d) = QOk r) <-> lookup (limit_key d) (limits s) <> None) /\
  (forall d, (exists r, run_query s (QMessenger d) = QOk r) <-> lookup (messenger_key d) (messengers s) <> None) /\
  (forall d n, (exists r, run_query s (QUsedNonce d n) = QOk r) <-> lookup (nonce_key d n) (nonces s) <> None) /\
  (forall d th t, remote_token_padded th = Some t ->
     ((exists r, run_query s (QTokenPair d th) = QOk r) <-> lookup (pair_key d t) (pairs s) <> None)).
Proof.
  assert (forall (A : Type) (f : A -> qresp) (o : option A), (exists r, of_opt f o = QOk r) <-> o <> None) as OO.
  { intros A f o. destruct o; cbn; split; intros H; try congruence; eauto. destruct H; discriminate. }
  intros s. split; [|split; [|split; [|split]]]; intros; cbn [run_query].
  - apply OO.
  - apply OO.
  - apply OO.
  - unfold mem. destruct (lookup _ _); split; intros H; try congruence; eauto. destruct H; discriminate.
  - rewrite H. apply OO.
Qed.

Theorem C19_found_entry_is_the_one_stored : forall s, store_wf s ->
  (forall a v, lookup (attester_key a) (attesters s) = Some v -> v = a) /\
  (forall d v, lookup (limit_key d) (limits s) = Some v -> lim_denom v = d).
Proof.
  intros s ((_&C1)&(_&C2)&_). split; intros x v L.
  - apply (wf_keys_consistent k_attester) in L; [|exact C1]. symmetry. now apply attester_key_inj.
  - apply (wf_keys_consistent k_limit) in L; [|exact C2]. symmetry. now apply limit_key_inj.
Qed.

(* ---- scalar queries return the current values ---- *)
Theorem C19_scalar_queries : forall s,
  run_query s QLocalDomain = QOk (QNum 4) /\ run_query s QMessageVersion = QOk (QNum 0) /\ run_query s QBurnMessageVersion = QOk (QNum 0) /\
  (forall v, bm_paused s = Some v -> run_query s QBurningAndMintingPaused = QOk (QFlag v)) /\
  (forall v, sr_paused s = Some v -> run_query s QSendingAndReceivingPaused = QOk (QFlag v)) /\
  (forall v, max_body s = Some v -> run_query s QMaxMessageBodySize = QOk (QNum v)) /\
  (forall v, next_nonce s = Some v -> run_query s QNextAvailableNonce = QOk (QNum v)) /\
  (forall v, threshold s = Some v -> run_query s QSignatureThreshold = QOk (QNum v)) /\
  (forall o a p t, owner s = Some o -> attester_manager s = Some a -> pauser s = Some p -> token_controller s = Some t ->
                   run_query s QRoles = QOk (QRolesResp o a p t)).
Proof. intros s. repeat split; intros; cbn [run_query]; unfold of_opt; repeat match goal with H : _ = Some _ |- _ => rewrite H; clear H end; reflexivity. Qed.

(* ---- paginated list queries: every entry exactly once, in key order, for every page size ---- *)
(* what one page holds *)
Theorem C19_offset_page : forall (V : Type) (l : smap V) offset limit ct,
  limit <> 0%N -> (offset + limit < two64)%N ->
  paginate l {| pg_key := []; pg_offset := offset; pg_limit := limit; pg_count_total := ct; pg_reverse := false |} =
  POk (map snd (firstn (N.to_nat limit) (skipn (N.to_nat offset) l))) (key_at l (N.to_nat (offset + limit)))
      (if ct then Some (N.of_nat (length l)) else None).
Proof. intros V. exact offset_page. Qed.
(* ... and in reverse: the same page over the collection in descending key order *)
Theorem C19_offset_page_reverse : forall (V : Type) (l : smap V) offset limit ct,
  limit <> 0%N -> (offset + limit < two64)%N ->
  paginate l {| pg_key := []; pg_offset := offset; pg_limit := limit; pg_count_total := ct; pg_reverse := true |} =
  POk (map snd (firstn (N.to_nat limit) (skipn (N.to_nat offset) (rev l)))) (key_at (rev l) (N.to_nat (offset + limit)))
      (if ct then Some (N.of_nat (length l)) else None).
Proof. intros V. exact offset_page_reverse. Qed.
Theorem C19_key_page : forall (V : Type) (l : smap V) key limit ct,
  limit <> 0%N -> key <> [] ->
  paginate l {| pg_key := key; pg_offset := 0; pg_limit := limit; pg_count_total := ct; pg_reverse := false |} =
  POk (map snd (firstn (N.to_nat limit) (from_key key l))) (key_at (from_key key l) (N.to_nat limit)) None.
Proof. intros V. exact key_page. Qed.

(* key mode: fetching the first page and following next_key until it is empty returns exactly the values of the
   collection, each once, in key order - for every page size >= 1 and every collection of every reachable store *)
Theorem C19_pages_cover_key_mode : forall (V : Type) (l : smap V) limit,
  sorted l -> keys_nonempty l -> limit <> 0%N -> (limit < two64)%N -> all_pages_by_key l limit = Some (values l).
Proof. intros V. exact pages_cover_key_mode. Qed.

(* offset mode: pages at offsets 0, L, 2L, ... concatenate to the values of the collection and each reports the
   correct total *)
Theorem C19_pages_cover_offset_mode : forall (V : Type) (l : smap V) limit k,
  limit <> 0%N -> ((N.of_nat k + 1) * limit < two64)%N -> length l <= k * N.to_nat limit ->
  concat (map (fun i => items_of (page_by_offset l limit i)) (seq 0 k)) = values l /\
  forall i, i < k -> exists items next, page_by_offset l limit i = POk items next (Some (N.of_nat (length l))).
Proof. intros V. exact pages_cover_offset_mode. Qed.

(* the hypotheses of the coverage theorems hold for the five collections of every reachable store *)
Theorem C19_collections_are_sorted_with_nonempty_keys : forall e g s0 h lg, Genesis.init_genesis g = Some s0 ->
  let s := c_st (run e {| c_st := s0; c_lg := lg |} h) in
  store_wf s /\ keys_nonempty (attesters s) /\ keys_nonempty (limits s) /\ keys_nonempty (pairs s) /\
  keys_nonempty (messengers s) /\ keys_nonempty (nonces s).
Proof.
  intros e g s0 h lg I s. assert (store_wf s) as W by (subst s; apply wf_run; cbn; exact (wf_init g s0 I)).
  split; [exact W|]. now apply store_keys_nonempty.
Qed.

(* The five collections and the ten single slots really are disjoint parts of the one flat store: in the Go source
   as it is now (constants regenerated on every run) no collection prefix, scalar key or role key is empty or a prefix
   of another, so an entry of one collection can never be read or overwritten through another. *)
Theorem C19_store_keys_prefix_free :
  (forallb (fun k => negb (String.eqb k "")) full_keys && pairwise (fun a b => negb (prefixb a b)) full_keys)%bool = true.
Proof. exact store_keys_prefix_free. Qed.

(* The registry and scalar handlers as translated from the Go source are the model handlers (go_X_ok: forall e request h, eq_or_unmodelled (go_X e request h) (handler e (X request) h): same result and same state wherever the model gives a verdict at all, i.e. except on denominations outside the character set the model folds; for the two helpers the right-hand side is send_message / deposit_for_burn). The statement is about the Gallina program that tools/goextract TRANSLATED from the Go source of /repo on this run (Gen/GoH_*.v, Gen/GoF_*.v; meaning of the Go constructs: Gen/GoSem.v). For a function the translator could not read the conjunct is True (Gen/<file> names the reason, the evidence lists it) and the tie for it is the differential execution alone. *)
Theorem C19_go_registry_handlers_are_the_model :
  go_LinkTokenPair_ok /\
  go_UnlinkTokenPair_ok /\
  go_AddRemoteTokenMessenger_ok /\
  go_RemoveRemoteTokenMessenger_ok /\
  go_SetMaxBurnAmountPerMessage_ok /\
  go_UpdateMaxMessageBodySize_ok.
Proof. split; [exact go_LinkTokenPair_ok_proof|]. split; [exact go_UnlinkTokenPair_ok_proof|]. split; [exact go_AddRemoteTokenMessenger_ok_proof|]. split; [exact go_RemoveRemoteTokenMessenger_ok_proof|]. split; [exact go_SetMaxBurnAmountPerMessage_ok_proof|]. exact go_UpdateMaxMessageBodySize_ok_proof. Qed.

(* The fourteen single-answer gRPC queries of keeper/grpc_query_*.go AS TRANSLATED from /repo on this run (tools/goextract ->
   Gen/GoQ_*.v): each answers exactly what the model's run_query answers, fails where it fails (not found), panics where it
   panics (Roles with an unset slot) and changes nothing (go_q_X_ok: forall request h, go_q_X request h = (match run_query
   (h_st h) (QX request) with QOk r => ROk r | QErr => RErr | QPanic => RPanic end, h)).  The five paginated queries hand a
   closure to the SDK's query.Paginate and are not translated (they are tied by differential execution; their model is
   Lib/Paginate.v).  For a query the translator could not read the conjunct is True (the generated file names the reason). *)
Theorem C19_go_queries_are_the_model :
  go_q_LocalDomain_ok /\
  go_q_LocalMessageVersion_ok /\
  go_q_BurnMessageVersion_ok /\
  go_q_Roles_ok /\
  go_q_BurningAndMintingPaused_ok /\
  go_q_SendingAndReceivingMessagesPaused_ok /\
  go_q_MaxMessageBodySize_ok /\
  go_q_NextAvailableNonce_ok /\
  go_q_SignatureThreshold_ok /\
  go_q_Attester_ok /\
  go_q_PerMessageBurnLimit_ok /\
  go_q_TokenPair_ok /\
  go_q_UsedNonce_ok /\
  go_q_RemoteTokenMessenger_ok.
Proof. split; [exact go_q_LocalDomain_ok_proof|]. split; [exact go_q_LocalMessageVersion_ok_proof|]. split; [exact go_q_BurnMessageVersion_ok_proof|]. split; [exact go_q_Roles_ok_proof|]. split; [exact go_q_BurningAndMintingPaused_ok_proof|]. split; [exact go_q_SendingAndReceivingMessagesPaused_ok_proof|]. split; [exact go_q_MaxMessageBodySize_ok_proof|]. split; [exact go_q_NextAvailableNonce_ok_proof|]. split; [exact go_q_SignatureThreshold_ok_proof|]. split; [exact go_q_Attester_ok_proof|]. split; [exact go_q_PerMessageBurnLimit_ok_proof|]. split; [exact go_q_TokenPair_ok_proof|]. split; [exact go_q_UsedNonce_ok_proof|]. exact go_q_RemoteTokenMessenger_ok_proof. Qed.

Print Assumptions C19_map_laws.
Print Assumptions C19_store_keys_prefix_free.
Print Assumptions C19_enable_attester.
Print Assumptions C19_disable_attester.
Print Assumptions C19_link_token_pair.
Print Assumptions C19_unlink_token_pair.
Print Assumptions C19_add_remote_token_messenger.
Print Assumptions C19_remove_remote_token_messenger.
Print Assumptions C19_set_burn_limit.
Print Assumptions C19_keys_injective.
Print Assumptions C19_single_item_queries.
Print Assumptions C19_found_entry_is_the_one_stored.
Print Assumptions C19_scalar_queries.
Print Assumptions C19_offset_page.
Print Assumptions C19_offset_page_reverse.
Print Assumptions C19_key_page.
Print Assumptions C19_pages_cover_key_mode.
Print Assumptions C19_pages_cover_offset_mode.
Print Assumptions C19_collections_are_sorted_with_nonempty_keys.
Print Assumptions C19_go_registry_handlers_are_the_model.
Print Assumptions C19_go_queries_are_the_model.
