(* C11 - Role changes follow the documented lifecycle. *)
From Cctp Require Import Lib.Bytes Lib.SMap Lib.Bech32.
From Cctp Require Import Model.State Model.Ledger Model.Handlers Model.Chain.
From Cctp Require Import Spec.Roles Spec.Lifecycle Proofs.MonadFacts Proofs.AdminFacts Proofs.LifecycleFacts.
From Cctp Require Import Gen.GoH_UpdateOwner Gen.GoH_AcceptOwner Gen.GoH_UpdateAttesterManager Gen.GoH_UpdatePauser Gen.GoH_UpdateTokenController.

(* Every transaction of every type, by every submitter, accepted or rejected, moves the five role slots
   exactly as the automaton of Spec/Lifecycle.v says: update-owner by the owner with a valid address
   sets the pending slot; accept by the pending owner makes them owner and clears the pending slot; the
   three other updates by the owner with a valid address set their slot; every other transaction is the
   identity on all five slots. *)
Theorem C11_roles_refine_lifecycle : forall e c plan t,
  roles_set (c_st c) ->
  roles_of (c_st (r_chain (deliver e c plan t))) = lifecycle_step (valid_addr e) (roles_of (c_st c)) t.
Proof. exact lifecycle_deliver. Qed.

(* ... and therefore over every history *)
Theorem C11_roles_refine_lifecycle_history : forall e h c,
  roles_set (c_st c) ->
  roles_of (c_st (run e c h)) = fold_left (fun r s => lifecycle_step (valid_addr e) r (snd s)) h (roles_of (c_st c)).
Proof. exact lifecycle_run. Qed.

(* Supersession: once the owner has named [b] after [a] (a <> b), [a] can no longer accept,
   whatever unrelated transactions happen in between. *)
Theorem C11_superseded_nominee_cannot_accept : forall valid r a b h,
  r_pending r = Some b -> a <> b -> (forall s, In s h -> touches_roles s = false) ->
  let r' := fold_left (lifecycle_step valid) h r in
  lifecycle_step valid r' (AcceptOwner a) = r'.
Proof. exact superseded_cannot_accept. Qed.

(* No replay: immediately after an acceptance the pending slot is empty, so no second acceptance
   (by anyone) has any effect until the owner names somebody again. *)
Theorem C11_acceptance_cannot_be_replayed : forall valid r from x,
  is_holder from (r_pending r) = true ->
  let r' := lifecycle_step valid r (AcceptOwner from) in
  r_pending r' = None /\ r_owner r' = r_pending r /\ lifecycle_step valid r' (AcceptOwner x) = r'.
Proof. exact accept_no_replay. Qed.

(* Ownership moves only by acceptance by the pending owner: the owner slot after any transaction is
   the old owner, or the old pending owner when that very account accepted. *)
Theorem C11_owner_changes_only_by_acceptance : forall valid r t,
  r_owner (lifecycle_step valid r t) = r_owner r \/
  (exists from, t = AcceptOwner from /\ r_pending r = Some from /\ r_owner (lifecycle_step valid r t) = Some from).
Proof. exact owner_only_by_accept. Qed.

(* The other slots change only through the owner's corresponding update, only to valid addresses. *)
Theorem C11_slots_change_only_by_owner_update_to_valid_address : forall valid r t,
  let r' := lifecycle_step valid r t in
  (r_attmgr r' = r_attmgr r \/ exists from new, t = UpdateAttesterManager from new /\ r_owner r = Some from /\ valid new = true /\ r_attmgr r' = Some new) /\
  (r_pauser r' = r_pauser r \/ exists from new, t = UpdatePauser from new /\ r_owner r = Some from /\ valid new = true /\ r_pauser r' = Some new) /\
  (r_tokctl r' = r_tokctl r \/ exists from new, t = UpdateTokenController from new /\ r_owner r = Some from /\ valid new = true /\ r_tokctl r' = Some new) /\
  (r_pending r' = r_pending r \/ (exists from, t = AcceptOwner from /\ r_pending r = Some from /\ r_pending r' = None) \/
   exists from new, t = UpdateOwner from new /\ r_owner r = Some from /\ valid new = true /\ r_pending r' = Some new).
Proof. exact slots_only_by_owner_update. Qed.

(* The five role handlers as translated from the Go source are, as functions of the request and the state, the model handlers the lifecycle theorems are about (go_X_ok: forall e request h, eq_or_unmodelled (go_X e request h) (handler e (X request) h): same result and same state wherever the model gives a verdict at all, i.e. except on denominations outside the character set the model folds; for the two helpers the right-hand side is send_message / deposit_for_burn). The statement is about the Gallina program that tools/goextract TRANSLATED from the Go source of /repo on this run (Gen/GoH_*.v, Gen/GoF_*.v; meaning of the Go constructs: Gen/GoSem.v). For a function the translator could not read the conjunct is True (Gen/<file> names the reason, the evidence lists it) and the tie for it is the differential execution alone. *)
Theorem C11_go_role_handlers_are_the_model :
  go_UpdateOwner_ok /\
  go_AcceptOwner_ok /\
  go_UpdateAttesterManager_ok /\
  go_UpdatePauser_ok /\
  go_UpdateTokenController_ok.
Proof. split; [exact go_UpdateOwner_ok_proof|]. split; [exact go_AcceptOwner_ok_proof|]. split; [exact go_UpdateAttesterManager_ok_proof|]. split; [exact go_UpdatePauser_ok_proof|]. exact go_UpdateTokenController_ok_proof. Qed.

Print Assumptions C11_roles_refine_lifecycle.
Print Assumptions C11_roles_refine_lifecycle_history.
Print Assumptions C11_superseded_nominee_cannot_accept.
Print Assumptions C11_acceptance_cannot_be_replayed.
Print Assumptions C11_owner_changes_only_by_acceptance.
Print Assumptions C11_slots_change_only_by_owner_update_to_valid_address.
Print Assumptions C11_go_role_handlers_are_the_model.
