(* C05 - Every outbound burn message is backed by an equal burn. *)
From Cctp Require Import Lib.Bytes Lib.SMap Lib.Text Lib.Bech32 Lib.Hex Lib.Keccak.
From Cctp Require Import Model.Codec Model.State Model.Attest Model.Ledger Model.Handlers Model.Chain.
From Cctp Require Import Proofs.MonadFacts Proofs.FlowFacts Proofs.CallFacts Proofs.MoneyFacts Proofs.CodecFacts Proofs.KeccakFacts.
From Cctp Require Import Spec.Roles.

(* [caller] is [] for the plain variant *)
Definition is_deposit_of (t : tx) from amount dest mr bt caller : Prop :=
  (t = DepositForBurn from amount dest mr bt /\ caller = []) \/ t = DepositForBurnWithCaller from amount dest mr bt caller.

(* A successful deposit made exactly two dependency calls - the transfer of exactly the stated amount of
   the burn token from the depositor to the module, then the burn of exactly that amount from the module -
   both successful; it emitted one MessageSent whose sender is the module and whose body is the burn
   message stating that very amount with the depositor as message sender; the ledger afterwards is the
   ledger before with the transfer and the burn applied, nothing else. *)
Theorem C05_deposit_effects : forall e c plan t from amount dest mr bt caller,
  is_deposit_of t from amount dest mr bt caller -> is_ok (deliver e c plan t) = true ->
  exists addr a tm body maddr bz,
    acc_address (hrp e) from = Some addr /\ amount = Some a /\ (0 < a)%Z /\
    lookup (messenger_key dest) (messengers (c_st c)) = Some tm /\
    acc_address (hrp e) (module_str e) = Some maddr /\
    let r := deliver e c plan t in
    r_calls r = [DTransfer addr bt a true; DBurn (module_str e) bt a true] /\
    c_lg (r_chain r) = burn_effect e (transfer_effect e (c_lg c) addr bt a) (module_str e) bt a /\
    encode_burn (burn_body bt mr a addr) = Some body /\
    encode_message (msg_of dest (tm_address tm) (if Nat.eqb (length caller) 0 then zeros 32 else caller)
                           (copy12 maddr) (nn (c_st c)) body) = Some bz /\
    r_events r = [EvMessageSent bz;
                  EvDepositForBurn (nn (c_st c)) (hex_encode (keccak256 (to_lower bt))) a from mr dest (tm_address tm) caller].
Proof.
  intros e c plan t from amount dest mr bt caller T O.
  destruct (deposit_ok_effects e c plan t from amount dest mr bt caller T O) as (F&Ho&Hev&Hdc&Hlg&Hst).
  destruct_deposit F. cbn [start h_st h_lg h_ev h_dc] in *. destruct Dsent.
  exists daddr, damt, dtm, dbody, dmaddr, dbz. cbv zeta. rewrite Hdc, Hlg, Hev, Ddc, Dlg, Dev. cbn [app]. auto 12.
Qed.

(* the burn message inside states exactly the burnt amount (math.Int values are at most 256 bits wide) *)
Theorem C05_message_states_the_burnt_amount : forall bt mr a addr body,
  (0 < a < 2 ^ 256)%Z -> encode_burn (burn_body bt mr a addr) = Some body ->
  exists b, decode_burn body = Some b /\ bm_amount b = a /\ bm_sender b = copy12 addr /\ bm_recipient b = mr /\
            bm_token b = keccak256 (to_lower bt) /\ bm_version b = 0%N.
Proof.
  intros bt mr a addr body R E. exists (burn_body bt mr a addr). split; [|cbn; auto].
  apply burn_encode_decode; [exact E|]. split; cbn; lia.
Qed.

(* Nothing else burns or transfers: every other transaction type, and every transaction that is not
   accepted, makes no transfer and no burn that persists. *)
Definition burns_of (r : result) : list depcall := if is_ok r then filter (fun d => negb (is_mint d)) (r_calls r) else [].

Theorem C05_only_deposits_debit_and_burn : forall e c plan t,
  is_deposit t = false -> burns_of (deliver e c plan t) = [].
Proof.
  intros e c plan t D. unfold burns_of. destruct (is_ok _) eqn:O; [|reflexivity].
  destruct (is_money t) eqn:M.
  - destruct t; try discriminate M; try discriminate D.
    pose proof (deliver_receive_calls e c plan from message attestation) as F.
    induction F as [|d l Hd F IH]; cbn; auto. now rewrite Hd.
  - now rewrite (proj1 (deliver_no_calls e c plan t M)).
Qed.

(* Who speaks as whom: the sender field of every message emitted by a successful transaction is
   - the module, for deposits;
   - the submitter's own 20-byte address left-padded, for sends;
   - the original message's sender, for replacements - which replace-message checked to be the submitter,
     and replace-deposit-for-burn (speaking as the module) checked to be the module. *)
Theorem C05_sender_of_sends_is_submitter : forall e c plan t from dest rcp body caller,
  (t = SendMessage from dest rcp body /\ caller = zeros 32) \/ t = SendMessageWithCaller from dest rcp body caller ->
  is_ok (deliver e c plan t) = true ->
  exists addr bz, acc_address (hrp e) from = Some addr /\
    r_events (deliver e c plan t) = [EvMessageSent bz] /\
    encode_message (msg_of dest rcp caller (copy12 addr) (nn (c_st c)) body) = Some bz.
Proof.
  intros e c plan t from dest rcp body caller T O. apply ok_inv in O as (a&h'&H&->). cbn [r_events].
  destruct T as [[-> ->]| ->]; cbn [handler] in H; unfold lift_nonce in H; inv_ok H; injection H as <- <-.
  - match goal with Hd : h_send_message _ _ _ _ _ _ = _ |- _ => apply send_inv in Hd as (addr&bz&A&N&S&St&Lg&Ev&Dc&Pl) end.
    cbn [start h_st h_ev] in *. subst. destruct S. exists addr, bz. rewrite Ev. auto.
  - match goal with Hd : h_send_message_with_caller _ _ _ _ _ _ _ = _ |- _ =>
      apply send_wc_inv in Hd as (addr&bz&A&N&L1&L2&S&St&Lg&Ev&Dc&Pl) end.
    cbn [start h_st h_ev] in *. subst. destruct S. exists addr, bz. rewrite Ev. auto.
Qed.

Theorem C05_replacement_keeps_sender_and_checks_it : forall e c plan from orig att body caller,
  is_ok (deliver e c plan (ReplaceMessage from orig att body caller)) = true ->
  exists m addr bz, decode_message orig = Some m /\ acc_address (hrp e) from = Some addr /\
    m_sender m = copy12 addr /\ m_src m = 4%N /\
    r_events (deliver e c plan (ReplaceMessage from orig att body caller)) = [EvMessageSent bz] /\
    encode_message (msg_of (m_dst m) (m_recipient m) caller (m_sender m) (m_nonce m) body) = Some bz.
Proof.
  intros e c plan from orig att body caller O. apply ok_inv in O as (a&h'&H&->). cbn [r_events handler] in *.
  apply replace_message_inv in H as [-> F]. destruct_replace_message F. cbn [start h_ev] in *. destruct Psent.
  exists pmsg, paddr, pbz. rewrite Pev. auto 10.
Qed.

(* the 20-byte address inside the padded sender determines the account *)
Theorem C05_padded_sender_injective : forall a b, length a = 20 -> length b = 20 -> copy12 a = copy12 b -> a = b.
Proof. intros a b La Lb E. rewrite !copy12_20 in E by assumption. now apply app_inv_head in E. Qed.

Print Assumptions C05_deposit_effects.
Print Assumptions C05_message_states_the_burnt_amount.
Print Assumptions C05_only_deposits_debit_and_burn.
Print Assumptions C05_sender_of_sends_is_submitter.
Print Assumptions C05_replacement_keeps_sender_and_checks_it.
Print Assumptions C05_padded_sender_injective.
