(* C05 - Every outbound burn message is backed by an equal burn. *)
From Cctp Require Import Lib.Bytes Lib.SMap Lib.Text Lib.Bech32 Lib.Hex Lib.Keccak.
From Cctp Require Import Model.Codec Model.State Model.Attest Model.Ledger Model.Handlers Model.Chain.
From Cctp Require Import Proofs.MonadFacts Proofs.FlowFacts Proofs.CallFacts Proofs.MoneyFacts Proofs.CodecFacts Proofs.KeccakFacts.
From Cctp Require Import Spec.Roles Proofs.LedgerFacts Proofs.AdminFacts.

(* [caller] is [] for the plain variant *)
Definition is_deposit_of (t : tx) from amount dest mr bt caller : Prop :=
  (t = DepositForBurn from amount dest mr bt /\ caller = []) \/ t = DepositForBurnWithCaller from amount dest mr bt caller.

(* A successful deposit made exactly two dependency calls - the transfer of exactly the stated amount of
   the burn token from the depositor to the module, then the burn of exactly that amount from the module -
   both successful; it emitted one MessageSent whose sender is the module and whose body is the burn
   message stating that very amount with the depositor as message sender; the ledger afterwards is the
   ledger before with the transfer and the burn applied, nothing else. *)
Theorem C05_deposit_effects : forall e c plan t from amount dest mr bt caller,
  is_deposit_of t from amount dest mr bt caller -> is_ok (deliver e c plan t) = true ->
  exists addr a tm body maddr bz,
    acc_address (hrp e) from = Some addr /\ amount = Some a /\ (0 < a)%Z /\
    lookup (messenger_key dest) (messengers (c_st c)) = Some tm /\
    acc_address (hrp e) (module_str e) = Some maddr /\
    let r := deliver e c plan t in
    r_calls r = [DTransfer addr bt a true; DBurn (module_str e) bt a true] /\
    c_lg (r_chain r) = burn_effect e (transfer_effect e (c_lg c) addr bt a) (module_str e) bt a /\
    encode_burn (burn_body bt mr a addr) = Some body /\
    encode_message (msg_of dest (tm_address tm) (if Nat.eqb (length caller) 0 then zeros 32 else caller)
                           (copy12 maddr) (nn (c_st c)) body) = Some bz /\
    r_events r = [EvMessageSent bz;
                  EvDepositForBurn (nn (c_st c)) (hex_encode (keccak256 (to_lower bt))) a from mr dest (tm_address tm) caller].
Proof.
  intros e c plan t from amount dest mr bt caller T O.
  destruct (deposit_ok_effects e c plan t from amount dest mr bt caller T O) as (F&Ho&Hev&Hdc&Hlg&Hst).
  destruct_deposit F. cbn [start h_st h_lg h_ev h_dc] in *. destruct Dsent.
  exists daddr, damt, dtm, dbody, dmaddr, dbz. cbv zeta. rewrite Hdc, Hlg, Hev, Ddc, Dlg, Dev. cbn [app]. auto 12.
Qed.

(* the burn message inside states exactly the burnt amount (math.Int values are at most 256 bits wide) *)
Theorem C05_message_states_the_burnt_amount : forall bt mr a addr body,
  (0 < a < 2 ^ 256)%Z -> encode_burn (burn_body bt mr a addr) = Some body ->
  exists b, decode_burn body = Some b /\ bm_amount b = a /\ bm_sender b = copy12 addr /\ bm_recipient b = mr /\
            bm_token b = keccak256 (to_lower bt) /\ bm_version b = 0%N.
Proof.
  intros bt mr a addr body R E. exists (burn_body bt mr a addr). split; [|cbn; auto].
  apply burn_encode_decode; [exact E|]. split; cbn; lia.
Qed.

(* Nothing else burns or transfers: every other transaction type, and every transaction that is not
   accepted, makes no transfer and no burn that persists. *)
Definition burns_of (r : result) : list depcall := if is_ok r then filter (fun d => negb (is_mint d)) (r_calls r) else [].

Theorem C05_only_deposits_debit_and_burn : forall e c plan t,
  is_deposit t = false -> burns_of (deliver e c plan t) = [].
Proof.
  intros e c plan t D. unfold burns_of. destruct (is_ok _) eqn:O; [|reflexivity].
  destruct (is_money t) eqn:M.
  - destruct t; try discriminate M; try discriminate D.
    pose proof (deliver_receive_calls e c plan from message attestation) as F.
    induction F as [|d l Hd F IH]; cbn; auto. now rewrite Hd.
  - now rewrite (proj1 (deliver_no_calls e c plan t M)).
Qed.

(* Who speaks as whom: the sender field of every message emitted by a successful transaction is
   - the module, for deposits;
   - the submitter's own 20-byte address left-padded, for sends;
   - the original message's sender, for replacements - which replace-message checked to be the submitter,
     and replace-deposit-for-burn (speaking as the module) checked to be the module. *)
Theorem C05_sender_of_sends_is_submitter : forall e c plan t from dest rcp body caller,
  (t = SendMessage from dest rcp body /\ caller = zeros 32) \/ t = SendMessageWithCaller from dest rcp body caller ->
  is_ok (deliver e c plan t) = true ->
  exists addr bz, acc_address (hrp e) from = Some addr /\
    r_events (deliver e c plan t) = [EvMessageSent bz] /\
    encode_message (msg_of dest rcp caller (copy12 addr) (nn (c_st c)) body) = Some bz.
Proof.
  intros e c plan t from dest rcp body caller T O. apply ok_inv in O as (a&h'&H&->). cbn [r_events].
  destruct T as [[-> ->]| ->]; cbn [handler] in H; unfold lift_nonce in H; inv_ok H; injection H as <- <-.
  - match goal with Hd : h_send_message _ _ _ _ _ _ = _ |- _ => apply send_inv in Hd as (addr&bz&A&N&S&St&Lg&Ev&Dc&Pl) end.
    cbn [start h_st h_ev] in *. subst. destruct S. exists addr, bz. rewrite Ev. auto.
  - match goal with Hd : h_send_message_with_caller _ _ _ _ _ _ _ = _ |- _ =>
      apply send_wc_inv in Hd as (addr&bz&A&N&L1&L2&S&St&Lg&Ev&Dc&Pl) end.
    cbn [start h_st h_ev] in *. subst. destruct S. exists addr, bz. rewrite Ev. auto.
Qed.

Theorem C05_replacement_keeps_sender_and_checks_it : forall e c plan from orig att body caller,
  is_ok (deliver e c plan (ReplaceMessage from orig att body caller)) = true ->
  exists m addr bz, decode_message orig = Some m /\ acc_address (hrp e) from = Some addr /\
    m_sender m = copy12 addr /\ m_src m = 4%N /\
    r_events (deliver e c plan (ReplaceMessage from orig att body caller)) = [EvMessageSent bz] /\
    encode_message (msg_of (m_dst m) (m_recipient m) caller (m_sender m) (m_nonce m) body) = Some bz.
Proof.
  intros e c plan from orig att body caller O. apply ok_inv in O as (a&h'&H&->). cbn [r_events handler] in *.
  apply replace_message_inv in H as [-> F]. destruct_replace_message F. cbn [start h_ev] in *. destruct Psent.
  exists pmsg, paddr, pbz. rewrite Pev. auto 10.
Qed.

(* the 20-byte address inside the padded sender determines the account *)
Theorem C05_padded_sender_injective : forall a b, length a = 20 -> length b = 20 -> copy12 a = copy12 b -> a = b.
Proof. intros a b La Lb E. rewrite !copy12_20 in E by assumption. now apply app_inv_head in E. Qed.

(* The ledger: after a successful deposit every account's balance in every denom is what it was, except the
   depositor's balance in the burn token, which is lower by exactly the amount.  In particular nobody but
   the depositor is debited and nothing is left in the module account.  (env_ok: the module's own address
   string decodes to the module address - checked by computation for the environment of every run.) *)
Theorem C05_only_the_depositor_is_debited : forall e c plan t from amount dest mr bt caller,
  env_ok e = true -> is_deposit_of t from amount dest mr bt caller -> is_ok (deliver e c plan t) = true ->
  exists addr a, acc_address (hrp e) from = Some addr /\ amount = Some a /\
    forall x d, balance (c_lg (r_chain (deliver e c plan t))) x d =
                (balance (c_lg c) x d - if same_acct addr bt x d then a else 0)%Z.
Proof.
  intros e c plan t from amount dest mr bt caller EO T O.
  destruct (C05_deposit_effects e c plan t from amount dest mr bt caller T O) as (addr&a&tm&body&maddr&bz&A1&A2&A3&A4&A5&H).
  cbv zeta in H. destruct H as (_&Lg&_). exists addr, a. split; [exact A1|]. split; [exact A2|].
  intros x d. rewrite Lg. now apply deposit_ledger.
Qed.

(* Over any history: the supply destroyed through the module equals the sum of the amounts of the successful
   deposits, each of which emitted exactly one burn message stating that amount under its own fresh nonce (C07). *)
Definition burnt_amount (d : depcall) : Z := match d with DBurn _ _ a _ => a | _ => 0%Z end.
Definition burnt (r : result) : Z := fold_right (fun d acc => (burnt_amount d + acc)%Z) 0%Z (burns_of r).
Definition deposited (t : tx) : Z :=
  match t with DepositForBurn _ (Some a) _ _ _ | DepositForBurnWithCaller _ (Some a) _ _ _ _ => a | _ => 0%Z end.

Theorem C05_step_burnt : forall e c plan t,
  burnt (deliver e c plan t) = if is_ok (deliver e c plan t) then deposited t else 0%Z.
Proof.
  intros e c plan t. destruct (is_ok (deliver e c plan t)) eqn:O.
  - destruct (is_deposit t) eqn:D.
    + assert (exists from amount dest mr bt caller, is_deposit_of t from amount dest mr bt caller) as (from&amount&dest&mr&bt&caller&T).
      { destruct t; try discriminate D; [exists from, amount, dest, mint_recipient, burn_token, []; left; auto
                                        |exists from, amount, dest, mint_recipient, burn_token, caller; right; auto]. }
      destruct (C05_deposit_effects e c plan t from amount dest mr bt caller T O) as (addr&a&tm&body&maddr&bz&A1&A2&A3&A4&A5&H).
      cbv zeta in H. destruct H as (Calls&_). unfold burnt, burns_of. rewrite O, Calls. cbn.
      destruct T as [[-> ->]| ->]; cbn; rewrite A2; lia.
    + unfold burnt. rewrite C05_only_deposits_debit_and_burn by exact D. destruct t; try discriminate D; reflexivity.
  - unfold burnt, burns_of. now rewrite O.
Qed.

Fixpoint total_burnt (e : env) (c : chain) (h : list step) : Z :=
  match h with [] => 0%Z | s :: h' => let r := deliver e c (fst s) (snd s) in (burnt r + total_burnt e (r_chain r) h')%Z end.
Fixpoint total_deposited (e : env) (c : chain) (h : list step) : Z :=
  match h with
  | [] => 0%Z
  | s :: h' => let r := deliver e c (fst s) (snd s) in ((if is_ok r then deposited (snd s) else 0) + total_deposited e (r_chain r) h')%Z
  end.
Theorem C05_total_burnt : forall e h c, total_burnt e c h = total_deposited e c h.
Proof. intros e h. induction h as [|s h IH]; intros c; cbn; auto. now rewrite C05_step_burnt, IH. Qed.

(* No user-chosen field makes the module speak: if a successful transaction submitted by a 20-byte account other
   than the module account emits a message whose sender field is the module's padded address, then the transaction
   is a deposit (which the theorems above tie to an equal burn) or a replace-deposit-for-burn (which re-emits a
   module-sent, attested burn message whose depositor is the submitter - C09). *)
Theorem C05_module_speaks_only_through_deposits : forall e c plan t addr bz,
  is_ok (deliver e c plan t) = true -> In (EvMessageSent bz) (r_events (deliver e c plan t)) ->
  slice 20 52 bz = copy12 (module_addr e) ->
  acc_address (hrp e) (submitter t) = Some addr -> length addr = 20 -> length (module_addr e) = 20 -> addr <> module_addr e ->
  is_deposit t = true \/ exists from orig att caller rcp, t = ReplaceDepositForBurn from orig att caller rcp.
Proof.
  intros e c plan t addr bz O I S A La Lm NE.
  destruct t; try (left; reflexivity); try (right; eauto 10; fail); exfalso; cbn [submitter] in A.
  all: try (assert (is_money _ = false) as M by reflexivity).
  (* transactions that emit no MessageSent at all *)
  all: try (apply ok_inv in O as (a&h'&H&E); rewrite E in I; cbn [r_events handler] in I, H;
            unfold_admin_in H; inv_ok H; try (injection H as _ <-); cbn [h_ev start app] in I;
            repeat (destruct I as [I|I]; try discriminate I); contradiction).
  - (* receive *)
    destruct (receive_ok_effects e c plan from message attestation O) as (m&D&H). cbv zeta in H.
    destruct (to_module e m).
    + destruct H as (b&p&to&_&_&_&_&Ev&_). rewrite Ev in I. repeat (destruct I as [I|I]; try discriminate I). contradiction.
    + destruct H as (_&_&Ev). rewrite Ev in I. repeat (destruct I as [I|I]; try discriminate I). contradiction.
  - (* replace message: the sender is the submitter's own padded address *)
    destruct (C05_replacement_keeps_sender_and_checks_it e c plan from orig att new_body new_caller O) as (m&addr'&bz'&D&A'&Sd&_&Ev&En).
    rewrite Ev in I. destruct I as [I|[]]. injection I as <-.
    apply encode_sender_field in En. cbn [m_sender msg_of] in En. rewrite En, Sd in S.
    assert (addr' = addr) by congruence. subst. apply C05_padded_sender_injective in S; auto.
  - (* send *)
    destruct (C05_sender_of_sends_is_submitter e c plan _ from dest recipient body (zeros 32) (or_introl (conj eq_refl eq_refl)) O) as (addr'&bz'&A'&Ev&En).
    rewrite Ev in I. destruct I as [I|[]]. injection I as <-.
    apply encode_sender_field in En. cbn [m_sender msg_of] in En. rewrite En in S.
    assert (addr' = addr) by congruence. subst. apply C05_padded_sender_injective in S; auto.
  - (* send with caller *)
    destruct (C05_sender_of_sends_is_submitter e c plan _ from dest recipient body caller (or_intror eq_refl) O) as (addr'&bz'&A'&Ev&En).
    rewrite Ev in I. destruct I as [I|[]]. injection I as <-.
    apply encode_sender_field in En. cbn [m_sender msg_of] in En. rewrite En in S.
    assert (addr' = addr) by congruence. subst. apply C05_padded_sender_injective in S; auto.
Qed.

Print Assumptions C05_deposit_effects.
Print Assumptions C05_only_the_depositor_is_debited.
Print Assumptions C05_step_burnt.
Print Assumptions C05_total_burnt.
Print Assumptions C05_message_states_the_burnt_amount.
Print Assumptions C05_only_deposits_debit_and_burn.
Print Assumptions C05_sender_of_sends_is_submitter.
Print Assumptions C05_replacement_keeps_sender_and_checks_it.
Print Assumptions C05_padded_sender_injective.
Print Assumptions C05_module_speaks_only_through_deposits.
