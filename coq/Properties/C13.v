(* C13 - The enabled attesters can always meet the threshold. *)
From Cctp Require Import Lib.Bytes Lib.SMap.
From Cctp Require Import Model.State Model.Ledger Model.Handlers Model.Chain.
From Cctp Require Import Proofs.MonadFacts Proofs.AdminFacts.
From Cctp Require Import Gen.GoH_EnableAttester Gen.GoH_DisableAttester Gen.GoH_UpdateSignatureThreshold.

(* 1 <= threshold <= number of enabled attesters (att_inv) is preserved by every transaction of every
   type with any arguments by any submitter, accepted or rejected.  The side condition is the point
   where Go's uint32(len(attesters)) would wrap (2^32 enabled attesters). *)
Theorem C13_inequality_preserved_by_every_transaction : forall e c plan t,
  (N.of_nat (length (attesters (c_st c))) + 1 < two32)%N -> att_inv (c_st c) ->
  att_inv (c_st (r_chain (deliver e c plan t))).
Proof. intros e c plan t B I. exact (proj1 (att_inv_deliver e c plan t B I)). Qed.

(* ... hence by every history (each transaction enables at most one attester) *)
Theorem C13_inequality_holds_along_every_history : forall e h c,
  (N.of_nat (length (attesters (c_st c))) + N.of_nat (length h) < two32)%N -> att_inv (c_st c) ->
  att_inv (c_st (run e c h)).
Proof. exact att_inv_run. Qed.

(* the named rejections, each without effect (a rejected transaction leaves the chain unchanged) *)
Theorem C13_last_attester_cannot_be_disabled : forall e c plan from a,
  length (attesters (c_st c)) = 1 ->
  is_ok (deliver e c plan (DisableAttester from a)) = false /\ r_chain (deliver e c plan (DisableAttester from a)) = c.
Proof. intros. pose proof (disable_last_rejected e c plan from a H) as O. split; [exact O|]. now apply deliver_not_ok. Qed.

Theorem C13_cannot_disable_below_threshold : forall e c plan from a thr,
  threshold (c_st c) = Some thr -> (N.of_nat (length (attesters (c_st c))) <= thr)%N ->
  (N.of_nat (length (attesters (c_st c))) < two32)%N ->
  is_ok (deliver e c plan (DisableAttester from a)) = false /\ r_chain (deliver e c plan (DisableAttester from a)) = c.
Proof. intros. pose proof (disable_below_threshold_rejected e c plan from a thr H H0 H1) as O. split; [exact O|]. now apply deliver_not_ok. Qed.

Theorem C13_threshold_zero_rejected : forall e c plan from,
  is_ok (deliver e c plan (UpdateSignatureThreshold from 0)) = false /\ r_chain (deliver e c plan (UpdateSignatureThreshold from 0)) = c.
Proof. intros. pose proof (threshold_zero_rejected e c plan from) as O. split; [exact O|]. now apply deliver_not_ok. Qed.

Theorem C13_threshold_above_count_rejected : forall e c plan from n,
  (N.of_nat (length (attesters (c_st c))) < n)%N -> (N.of_nat (length (attesters (c_st c))) < two32)%N ->
  is_ok (deliver e c plan (UpdateSignatureThreshold from n)) = false /\ r_chain (deliver e c plan (UpdateSignatureThreshold from n)) = c.
Proof. intros. pose proof (threshold_above_count_rejected e c plan from n H H0) as O. split; [exact O|]. now apply deliver_not_ok. Qed.

Theorem C13_enabling_enabled_attester_rejected : forall e c plan from a v,
  lookup (attester_key a) (attesters (c_st c)) = Some v ->
  is_ok (deliver e c plan (EnableAttester from a)) = false /\ r_chain (deliver e c plan (EnableAttester from a)) = c.
Proof. intros. pose proof (enable_enabled_rejected e c plan from a v H) as O. split; [exact O|]. now apply deliver_not_ok. Qed.

Theorem C13_disabling_unknown_attester_rejected : forall e c plan from a,
  lookup (attester_key a) (attesters (c_st c)) = None ->
  is_ok (deliver e c plan (DisableAttester from a)) = false /\ r_chain (deliver e c plan (DisableAttester from a)) = c.
Proof. intros. pose proof (disable_unknown_rejected e c plan from a H) as O. split; [exact O|]. now apply deliver_not_ok. Qed.

(* non-vacuity: a store with two attesters and threshold 2 satisfies the invariant *)
Example C13_example :
  att_inv (set_threshold (Some 2%N) (set_attesters (insert (B "b/") (B "b") (insert (B "a/") (B "a") [])) empty_store)).
Proof. exists 2%N. cbn. repeat split; lia. Qed.

(* The three attester-set handlers as translated from the Go source are the model handlers the invariant is proved for (go_X_ok: forall e request h, eq_or_unmodelled (go_X e request h) (handler e (X request) h): same result and same state wherever the model gives a verdict at all, i.e. except on denominations outside the character set the model folds; for the two helpers the right-hand side is send_message / deposit_for_burn). The statement is about the Gallina program that tools/goextract TRANSLATED from the Go source of /repo on this run (Gen/GoH_*.v, Gen/GoF_*.v; meaning of the Go constructs: Gen/GoSem.v). For a function the translator could not read the conjunct is True (Gen/<file> names the reason, the evidence lists it) and the tie for it is the differential execution alone. *)
Theorem C13_go_attester_handlers_are_the_model :
  go_EnableAttester_ok /\
  go_DisableAttester_ok /\
  go_UpdateSignatureThreshold_ok.
Proof. split; [exact go_EnableAttester_ok_proof|]. split; [exact go_DisableAttester_ok_proof|]. exact go_UpdateSignatureThreshold_ok_proof. Qed.

Print Assumptions C13_inequality_preserved_by_every_transaction.
Print Assumptions C13_inequality_holds_along_every_history.
Print Assumptions C13_last_attester_cannot_be_disabled.
Print Assumptions C13_cannot_disable_below_threshold.
Print Assumptions C13_threshold_zero_rejected.
Print Assumptions C13_threshold_above_count_rejected.
Print Assumptions C13_enabling_enabled_attester_rejected.
Print Assumptions C13_disabling_unknown_attester_rejected.
Print Assumptions C13_go_attester_handlers_are_the_model.
