(* C10 - Privileged actions require the matching role. *)
From Cctp Require Import Lib.Bytes Lib.SMap Lib.Bech32.
From Cctp Require Import Model.State Model.Ledger Model.Handlers Model.Chain.
From Cctp Require Import Spec.Roles Proofs.MonadFacts Proofs.AdminFacts.
From Cctp Require Import Vectors.Examples.

(* For every chain whose four role slots are set (every chain initialised from a genesis, see
   C10_roles_always_set), every one of the 18 privileged transaction types (Spec/Roles.v: role_of is
   the property's table), and every submitter who is not the current holder of that role - a holder of
   another role, a previous holder, anybody: the transaction returns an error (it does not panic) and
   the chain (store and ledger), the events and the dependency calls are as if it had never been sent. *)
Theorem C10_wrong_role_no_effect : forall e c plan t r,
  roles_set (c_st c) -> role_of t = Some r -> holder r (c_st c) <> Some (submitter t) ->
  let res := deliver e c plan t in
  r_out res = OErr /\ r_chain res = c /\ r_events res = [] /\ r_calls res = [] /\
  h_st (r_dirty res) = c_st c /\ h_lg (r_dirty res) = c_lg c.
Proof.
  intros e c plan t r R Hr Hh res. subst res. unfold deliver.
  rewrite (wrong_role e t (start c plan) r R Hr Hh). cbn. auto 10.
Qed.

(* the 18 privileged types are exactly those with a role *)
Theorem C10_eighteen_privileged_types : forall t,
  privileged t = true <->
  match t with
  | DepositForBurn _ _ _ _ _ | DepositForBurnWithCaller _ _ _ _ _ _ | ReceiveMessage _ _ _
  | ReplaceDepositForBurn _ _ _ _ _ | ReplaceMessage _ _ _ _ _ | SendMessage _ _ _ _ | SendMessageWithCaller _ _ _ _ _ => False
  | _ => True
  end.
Proof. intros t. destruct t; cbn; intuition discriminate. Qed.

(* reachability: the four role slots are set in every state reachable from a state where they are set *)
Theorem C10_roles_always_set : forall e c h, roles_set (c_st c) -> roles_set (c_st (run e c h)).
Proof. intros e c h. exact (roles_set_run e h c). Qed.

(* non-vacuity: the hypotheses hold for a concrete chain, transaction and non-holder *)
Example C10_example : roles_set ex_store /\ role_of (PauseBurningAndMinting ex_alice) = Some RPauser /\
  holder RPauser ex_store <> Some (submitter (PauseBurningAndMinting ex_alice)).
Proof. vm_compute. repeat split; discriminate. Qed.

Print Assumptions C10_wrong_role_no_effect.
Print Assumptions C10_eighteen_privileged_types.
Print Assumptions C10_roles_always_set.
