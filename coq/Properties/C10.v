(* C10 - Privileged actions require the matching role. *)
From Cctp Require Import Lib.Bytes Lib.SMap Lib.Bech32.
From Cctp Require Import Model.State Model.Ledger Model.Handlers Model.Chain.
From Cctp Require Import Spec.Roles Proofs.MonadFacts Proofs.AdminFacts.
From Cctp Require Import Vectors.Examples.
From Cctp Require Import Gen.GoH_AcceptOwner Gen.GoH_AddRemoteTokenMessenger Gen.GoH_DisableAttester Gen.GoH_EnableAttester Gen.GoH_LinkTokenPair Gen.GoH_PauseBurningAndMinting Gen.GoH_PauseSendingAndReceivingMessages Gen.GoH_RemoveRemoteTokenMessenger Gen.GoH_SetMaxBurnAmountPerMessage Gen.GoH_UnlinkTokenPair Gen.GoH_UnpauseBurningAndMinting Gen.GoH_UnpauseSendingAndReceivingMessages Gen.GoH_UpdateAttesterManager Gen.GoH_UpdateMaxMessageBodySize Gen.GoH_UpdateOwner Gen.GoH_UpdatePauser Gen.GoH_UpdateSignatureThreshold Gen.GoH_UpdateTokenController.

(* For every chain whose four role slots are set (every chain initialised from a genesis, see
   C10_roles_always_set), every one of the 18 privileged transaction types (Spec/Roles.v: role_of is
   the property's table), and every submitter who is not the current holder of that role - a holder of
   another role, a previous holder, anybody: the transaction returns an error (it does not panic) and
   the chain (store and ledger), the events and the dependency calls are as if it had never been sent. *)
Theorem C10_wrong_role_no_effect : forall e c plan t r,
  roles_set (c_st c) -> role_of t = Some r -> holder r (c_st c) <> Some (submitter t) ->
  let res := deliver e c plan t in
  r_out res = OErr /\ r_chain res = c /\ r_events res = [] /\ r_calls res = [] /\
  h_st (r_dirty res) = c_st c /\ h_lg (r_dirty res) = c_lg c.
Proof.
  intros e c plan t r R Hr Hh res. subst res. unfold deliver.
  rewrite (wrong_role e t (start c plan) r R Hr Hh). cbn. auto 10.
Qed.

(* the 18 privileged types are exactly those with a role *)
Theorem C10_eighteen_privileged_types : forall t,
  privileged t = true <->
  match t with
  | DepositForBurn _ _ _ _ _ | DepositForBurnWithCaller _ _ _ _ _ _ | ReceiveMessage _ _ _
  | ReplaceDepositForBurn _ _ _ _ _ | ReplaceMessage _ _ _ _ _ | SendMessage _ _ _ _ | SendMessageWithCaller _ _ _ _ _ => False
  | _ => True
  end.
Proof. intros t. destruct t; cbn; intuition discriminate. Qed.

(* reachability: the four role slots are set in every state reachable from a state where they are set *)
Theorem C10_roles_always_set : forall e c h, roles_set (c_st c) -> roles_set (c_st (run e c h)).
Proof. intros e c h. exact (roles_set_run e h c). Qed.

(* non-vacuity: the hypotheses hold for a concrete chain, transaction and non-holder *)
Example C10_example : roles_set ex_store /\ role_of (PauseBurningAndMinting ex_alice) = Some RPauser /\
  holder RPauser ex_store <> Some (submitter (PauseBurningAndMinting ex_alice)).
Proof. vm_compute. repeat split; discriminate. Qed.

(* Each of the 18 privileged handlers AS TRANSLATED FROM THE GO SOURCE rejects, in every state whose role slots are set, every submitter who does not hold the role of the role table, and returns the state exactly as it received it (go_X_auth: forall e request h r, roles_set (h_st h) -> role_of (X request) = Some r -> holder r (h_st h) <> Some from -> go_X e request h = (RErr, h)). The statement is about the Gallina program that tools/goextract TRANSLATED from the Go source of /repo on this run (Gen/GoH_*.v, Gen/GoF_*.v; meaning of the Go constructs: Gen/GoSem.v). For a function the translator could not read the conjunct is True (Gen/<file> names the reason, the evidence lists it) and the tie for it is the differential execution alone. *)
Theorem C10_go_handlers_reject_wrong_role :
  go_AcceptOwner_auth /\
  go_AddRemoteTokenMessenger_auth /\
  go_DisableAttester_auth /\
  go_EnableAttester_auth /\
  go_LinkTokenPair_auth /\
  go_PauseBurningAndMinting_auth /\
  go_PauseSendingAndReceivingMessages_auth /\
  go_RemoveRemoteTokenMessenger_auth /\
  go_SetMaxBurnAmountPerMessage_auth /\
  go_UnlinkTokenPair_auth /\
  go_UnpauseBurningAndMinting_auth /\
  go_UnpauseSendingAndReceivingMessages_auth /\
  go_UpdateAttesterManager_auth /\
  go_UpdateMaxMessageBodySize_auth /\
  go_UpdateOwner_auth /\
  go_UpdatePauser_auth /\
  go_UpdateSignatureThreshold_auth /\
  go_UpdateTokenController_auth.
Proof. split; [exact go_AcceptOwner_auth_proof|]. split; [exact go_AddRemoteTokenMessenger_auth_proof|]. split; [exact go_DisableAttester_auth_proof|]. split; [exact go_EnableAttester_auth_proof|]. split; [exact go_LinkTokenPair_auth_proof|]. split; [exact go_PauseBurningAndMinting_auth_proof|]. split; [exact go_PauseSendingAndReceivingMessages_auth_proof|]. split; [exact go_RemoveRemoteTokenMessenger_auth_proof|]. split; [exact go_SetMaxBurnAmountPerMessage_auth_proof|]. split; [exact go_UnlinkTokenPair_auth_proof|]. split; [exact go_UnpauseBurningAndMinting_auth_proof|]. split; [exact go_UnpauseSendingAndReceivingMessages_auth_proof|]. split; [exact go_UpdateAttesterManager_auth_proof|]. split; [exact go_UpdateMaxMessageBodySize_auth_proof|]. split; [exact go_UpdateOwner_auth_proof|]. split; [exact go_UpdatePauser_auth_proof|]. split; [exact go_UpdateSignatureThreshold_auth_proof|]. exact go_UpdateTokenController_auth_proof. Qed.

(* Over a history: however many privileged transactions accounts that do not hold the matching role submit,
   in whatever order, store and ledger stay exactly as they were (so nobody can work their way into a role). *)
Theorem C10_non_holders_change_nothing_over_a_history : forall e h c, roles_set (c_st c) ->
  (forall s, In s h -> exists r, role_of (snd s) = Some r /\ holder r (c_st c) <> Some (submitter (snd s))) ->
  run e c h = c.
Proof.
  intros e h. induction h as [|s h IH]; intros c R A; cbn [run fold_left]; [reflexivity|].
  fold (run e (run_step e c s) h). unfold run_step.
  destruct (A s (or_introl eq_refl)) as (r&Hr&Hh).
  destruct (C10_wrong_role_no_effect e c (fst s) (snd s) r R Hr Hh) as (_&->&_).
  apply IH; [exact R|]. intros s' I. apply A. now right.
Qed.

Print Assumptions C10_wrong_role_no_effect.
Print Assumptions C10_eighteen_privileged_types.
Print Assumptions C10_roles_always_set.
Print Assumptions C10_go_handlers_reject_wrong_role.
Print Assumptions C10_non_holders_change_nothing_over_a_history.
