(* C20 - No input crashes a handler, query, decoder or CLI address parser. *)
From Cctp Require Import Lib.Bytes Lib.SMap Lib.Paginate.
From Cctp Require Import Model.Codec Model.State Model.Attest Model.Ledger Model.Handlers Model.Chain Model.Queries Model.CLI Model.Genesis.
From Cctp Require Import Spec.Roles Proofs.MonadFacts Proofs.AdminFacts Proofs.AttestFacts Proofs.NoPanicFacts Proofs.GenesisFacts.

(* Every transaction of every type, with every field value the wire format can carry (absent amounts,
   empty / short / long byte fields, malformed addresses, any text of the modelled alphabet), in every state
   whose four role slots are set, under every dependency plan: the outcome is never a panic. *)
Theorem C20_no_transaction_panics : forall e c plan t, roles_set (c_st c) -> r_out (deliver e c plan t) <> OPanic.
Proof. exact deliver_no_panic. Qed.

(* ... and those are all states reachable from an initialised genesis *)
Theorem C20_reachable_states_have_roles_set : forall e g s0 lg h, init_genesis g = Some s0 ->
  roles_set (c_st (run e {| c_st := s0; c_lg := lg |} h)).
Proof.
  intros e g s0 lg h I. apply roles_set_run. cbn. destruct (exportable_init g s0 I) as (E1&E2&E3&E4&_). repeat split; assumption.
Qed.

(* The attestation verifier never panics on any message, attestation, attester list and threshold. *)
Theorem C20_verifier_never_panics : forall recover msg att A thr, verify recover msg att A thr <> VPanic.
Proof. exact verify_no_panic. Qed.

(* The decoders are total functions returning a value or an error. *)
Theorem C20_decoders_total : forall bs,
  (decode_message bs = None \/ exists m, decode_message bs = Some m) /\ (decode_burn bs = None \/ exists b, decode_burn bs = Some b).
Proof. intros bs. split; [destruct (decode_message bs)|destruct (decode_burn bs)]; eauto. Qed.

(* The CLI address parser returns bytes or an error for every argument string. *)
Theorem C20_cli_parser_never_panics : forall s, parse_address s <> APanic.
Proof. exact parse_address_no_panic. Qed.

(* Full statement wanted by the property for queries: no query panics.  It is FALSE of the code as it stands:
   cosmos-sdk's query.Paginate, which the five list queries call, panics for a request in reverse order whose
   cursor is the last key (C20_query_panic_refuted; recorded known finding).  What holds: a query panics
   only there - every other query, and every list query that is not (reverse with a cursor), returns. *)
Theorem C20_queries_panic_only_in_sdk_reverse_pagination_partial : forall s q, roles_set s ->
  run_query s q = QPanic -> exists p, is_list_query q = Some p /\ pg_reverse p = true /\ pg_key p <> [].
Proof. exact query_panics_only_in_sdk_reverse_pagination. Qed.

Theorem C20_query_panic_refuted : exists (s : store) (q : query), roles_set s /\ run_query s q = QPanic.
Proof.
  exists (set_attesters [(B "a/", B "a")] (set_owner (Some []) (set_attester_manager (Some []) (set_pauser (Some [])
            (set_token_controller (Some []) empty_store))))),
         (QAttesters {| pg_key := B "a/"; pg_offset := 0; pg_limit := 1; pg_count_total := false; pg_reverse := true |}).
  split; [cbn; repeat split; discriminate|reflexivity].
Qed.

Print Assumptions C20_no_transaction_panics.
Print Assumptions C20_reachable_states_have_roles_set.
Print Assumptions C20_verifier_never_panics.
Print Assumptions C20_decoders_total.
Print Assumptions C20_cli_parser_never_panics.
Print Assumptions C20_queries_panic_only_in_sdk_reverse_pagination_partial.
Print Assumptions C20_query_panic_refuted.
