(* C04 - Every accepted burn message mints exactly what it says, once. *)
From Cctp Require Import Lib.Bytes Lib.SMap Lib.Text Lib.Bech32.
From Cctp Require Import Model.Codec Model.State Model.Attest Model.Ledger Model.Handlers Model.Chain.
From Cctp Require Import Proofs.MonadFacts Proofs.FlowFacts Proofs.CallFacts Proofs.MoneyFacts Proofs.HistoryFacts Proofs.LedgerFacts.

(* A successful receive of a message addressed to the CCTP module makes exactly one dependency call:
   a mint, requested in the module's own name, of the 256-bit big-endian amount at bytes 68..100 of the
   body, in the lower-cased local denom linked to (source domain, burn token), to the account whose
   address is the low 20 bytes of the mint-recipient field (bytes 36..68 of the body); the two events
   report those same values.  A successful receive of any other message calls nothing and emits only
   MessageReceived. *)
Theorem C04_mint_request_exact : forall e c plan from msg att,
  is_ok (deliver e c plan (ReceiveMessage from msg att)) = true ->
  exists m, decode_message msg = Some m /\
    let r := deliver e c plan (ReceiveMessage from msg att) in
    let body := m_body m in
    if to_module e m
    then exists p to,
           length body = 132 /\
           lookup (pair_key (m_src m) (slice 4 36 body)) (pairs (c_st c)) = Some p /\
           bech32_of e (skipn 12 (slice 36 68 body)) = Some to /\
           let amount := Z.of_N (be_dec (slice 68 100 body)) in
           r_calls r = [DMint (module_str e) to (to_lower (tp_local p)) amount true] /\
           r_events r = [EvMintAndWithdraw (slice 36 68 body) amount (to_lower (tp_local p));
                         EvMessageReceived from (m_src m) (m_nonce m) (m_sender m) body] /\
           c_lg (r_chain r) = mint_effect e (c_lg c) to (to_lower (tp_local p)) amount
    else r_calls r = [] /\ c_lg (r_chain r) = c_lg c /\
         r_events r = [EvMessageReceived from (m_src m) (m_nonce m) (m_sender m) body].
Proof.
  intros e c plan from msg att O. destruct (receive_ok_effects e c plan from msg att O) as (m&D&H).
  exists m. split; [exact D|]. cbv zeta in *. destruct (to_module e m); [|exact H].
  destruct H as (b&p&to&B1&B2&B3&B4&B5&B6). unfold decode_burn in B1.
  destruct (Nat.eqb_spec (length (m_body m)) 132) as [L|]; [|discriminate]. cbn [negb] in B1. injection B1 as <-.
  cbn [bm_token bm_recipient bm_amount] in *. exists p, to. auto 10.
Qed.

(* The ledger after a successful module-addressed receive: the account denoted by the recipient address gains
   exactly the stated amount of the linked denom; every other balance is unchanged. *)
Theorem C04_only_the_recipient_is_credited : forall e c plan from msg att m,
  is_ok (deliver e c plan (ReceiveMessage from msg att)) = true -> decode_message msg = Some m -> to_module e m = true ->
  exists p to, lookup (pair_key (m_src m) (slice 4 36 (m_body m))) (pairs (c_st c)) = Some p /\
    bech32_of e (skipn 12 (slice 36 68 (m_body m))) = Some to /\
    forall a, acc_address (hrp e) to = Some a ->
      forall x d, balance (c_lg (r_chain (deliver e c plan (ReceiveMessage from msg att)))) x d =
                  (balance (c_lg c) x d + if same_acct a (to_lower (tp_local p)) x d then Z.of_N (be_dec (slice 68 100 (m_body m))) else 0)%Z.
Proof.
  intros e c plan from msg att m O D T. destruct (C04_mint_request_exact e c plan from msg att O) as (m'&D'&H).
  assert (m' = m) by congruence. subst m'. cbv zeta in H. rewrite T in H. destruct H as (p&to&_&P&B&_&_&Lg).
  exists p, to. split; [exact P|]. split; [exact B|]. intros a A x d. rewrite Lg. now apply mint_ledger.
Qed.

(* the amount is a full unsigned 256-bit value *)
Theorem C04_amount_range : forall body, (0 <= Z.of_N (be_dec (slice 68 100 body)) < 2 ^ 256)%Z.
Proof.
  intros body. pose proof (be_dec_bound (slice 68 100 body)) as B.
  assert (length (slice 68 100 body) <= 32) as L by (unfold slice; rewrite firstn_length; lia).
  assert (256 ^ N.of_nat (length (slice 68 100 body)) <= 256 ^ 32)%N as P by (apply N.pow_le_mono_r; lia).
  change (2 ^ 256)%Z with (Z.of_N (256 ^ 32)). lia.
Qed.

(* Every other transaction type, and every transaction that is not accepted, mints nothing. *)
Definition mints_of (r : result) : list depcall := if is_ok r then filter is_mint (r_calls r) else [].

Theorem C04_no_other_mint : forall e c plan t,
  (match t with ReceiveMessage _ _ _ => False | _ => True end) -> mints_of (deliver e c plan t) = [].
Proof.
  intros e c plan t NR. unfold mints_of. destruct (is_ok _); [|reflexivity].
  destruct (is_money t) eqn:M.
  - assert (is_deposit t = true) as D by (destruct t; try discriminate M; try contradiction; reflexivity).
    pose proof (deliver_deposit_calls e c plan t D) as F. induction F as [|d l Hd F IH]; cbn; auto. now rewrite Hd.
  - now rewrite (proj1 (deliver_no_calls e c plan t M)).
Qed.

Theorem C04_failed_transactions_mint_nothing : forall e c plan t,
  is_ok (deliver e c plan t) = false -> mints_of (deliver e c plan t) = [] /\ r_chain (deliver e c plan t) = c.
Proof. intros e c plan t O. unfold mints_of. rewrite O. split; [reflexivity|]. now apply deliver_not_ok. Qed.

(* Over any history: total minted = the sum of the amounts stated by the accepted module-addressed burn
   messages, and those have pairwise distinct (source domain, nonce) (C02_at_most_once). *)
Definition amount_of (d : depcall) : Z := match d with DMint _ _ _ a _ => a | _ => 0%Z end.
Definition minted (r : result) : Z := fold_right (fun d acc => (amount_of d + acc)%Z) 0%Z (mints_of r).

(* the amount an accepted message states: bytes 68..100 of the body of a module-addressed message *)
Definition stated_amount (e : env) (t : tx) : Z :=
  match t with
  | ReceiveMessage _ msg _ =>
      match decode_message msg with
      | Some m => if to_module e m then Z.of_N (be_dec (slice 68 100 (m_body m))) else 0%Z
      | None => 0%Z
      end
  | _ => 0%Z
  end.

Theorem C04_step_minted : forall e c plan t,
  minted (deliver e c plan t) = if is_ok (deliver e c plan t) then stated_amount e t else 0%Z.
Proof.
  intros e c plan t. destruct (is_ok (deliver e c plan t)) eqn:O.
  - destruct t; try (unfold minted; rewrite C04_no_other_mint; [reflexivity|exact I]).
    destruct (C04_mint_request_exact e c plan from message attestation O) as (m&D&H). cbn [stated_amount]. rewrite D.
    unfold minted, mints_of. rewrite O. cbv zeta in H. destruct (to_module e m).
    + destruct H as (p&to&_&_&_&H&_). rewrite H. cbn. lia.
    + destruct H as (H&_). rewrite H. reflexivity.
  - unfold minted, mints_of. now rewrite O.
Qed.

Fixpoint total_minted (e : env) (c : chain) (h : list step) : Z :=
  match h with
  | [] => 0%Z
  | s :: h' => let r := deliver e c (fst s) (snd s) in (minted r + total_minted e (r_chain r) h')%Z
  end.
Fixpoint total_stated (e : env) (c : chain) (h : list step) : Z :=
  match h with
  | [] => 0%Z
  | s :: h' => let r := deliver e c (fst s) (snd s) in
               ((if is_ok r then stated_amount e (snd s) else 0) + total_stated e (r_chain r) h')%Z
  end.

Theorem C04_total_minted : forall e h c, total_minted e c h = total_stated e c h.
Proof. intros e h. induction h as [|s h IH]; intros c; cbn; auto. now rewrite C04_step_minted, IH. Qed.

Print Assumptions C04_mint_request_exact.
Print Assumptions C04_only_the_recipient_is_credited.
Print Assumptions C04_amount_range.
Print Assumptions C04_no_other_mint.
Print Assumptions C04_failed_transactions_mint_nothing.
Print Assumptions C04_step_minted.
Print Assumptions C04_total_minted.
