(* genesis.go (InitGenesis / ExportGenesis) and types/genesis.go (Validate). *)
From Cctp Require Import Lib.Bytes Lib.SMap Lib.Bech32.
From Cctp Require Import Model.State Model.Ledger.

Record genesis := {
  g_owner : bytes; g_attester_manager : bytes; g_pauser : bytes; g_token_controller : bytes;
  g_attesters : list bytes; g_limits : list limit;
  g_bm_paused : option bool; g_sr_paused : option bool;
  g_max_body : option N; g_next_nonce : option N; g_threshold : option N;
  g_pairs : list token_pair; g_nonces : list used_nonce; g_messengers : list messenger }.

Fixpoint has_dup (l : list bytes) : bool :=
  match l with
  | [] => false
  | k :: r => existsb (beqb k) r || has_dup r
  end.

Definition role_ok (e : env) (r : bytes) : bool :=
  match r with [] => true | _ => valid_addr e r end.

(* GenesisState.Validate, with the token-pair duplicate check repaired *)
Definition validate (e : env) (g : genesis) : bool :=
  role_ok e (g_owner g) && role_ok e (g_attester_manager g) && role_ok e (g_pauser g) && role_ok e (g_token_controller g)
  && negb (has_dup (map attester_key (g_attesters g)))
  && negb (has_dup (map (fun l => limit_key (lim_denom l)) (g_limits g)))
  && (match g_bm_paused g with Some _ => true | None => false end)
  && (match g_sr_paused g with Some _ => true | None => false end)
  && negb (has_dup (map (fun p => pair_key (tp_domain p) (tp_token p)) (g_pairs g)))
  && negb (has_dup (map (fun n => nonce_key (un_domain n) (un_nonce n)) (g_nonces g)))
  && negb (has_dup (map (fun m => messenger_key (tm_domain m)) (g_messengers g))).

Definition insert_all {V} (key : V -> bytes) (l : list V) (m : smap V) : smap V :=
  fold_left (fun m v => insert (key v) v m) l m.

Definition dflt {A} (o : option A) (d : A) : A := match o with Some a => a | None => d end.

(* InitGenesis into an empty store; None = panic (threshold present and 0) *)
Definition init_genesis (g : genesis) : option store :=
  match g_threshold g with
  | Some 0%N => None
  | _ =>
    Some {| owner := Some (g_owner g); pending_owner := None; attester_manager := Some (g_attester_manager g);
            pauser := Some (g_pauser g); token_controller := Some (g_token_controller g);
            bm_paused := Some (dflt (g_bm_paused g) true); sr_paused := Some (dflt (g_sr_paused g) true);
            max_body := Some (dflt (g_max_body g) 8000%N); next_nonce := Some (dflt (g_next_nonce g) 0%N);
            threshold := Some (dflt (g_threshold g) 1%N);
            attesters := insert_all attester_key (g_attesters g) [];
            limits := insert_all (fun l => limit_key (lim_denom l)) (g_limits g) [];
            pairs := insert_all (fun p => pair_key (tp_domain p) (tp_token p)) (g_pairs g) [];
            messengers := insert_all (fun m => messenger_key (tm_domain m)) (g_messengers g) [];
            nonces := insert_all (fun n => nonce_key (un_domain n) (un_nonce n)) (g_nonces g) [] |}
  end.

(* ExportGenesis; None = panic (a role slot is unset).  The pending owner has no genesis field. *)
Definition export_genesis (s : store) : option genesis :=
  match owner s, attester_manager s, pauser s, token_controller s with
  | Some o, Some a, Some p, Some t =>
    Some {| g_owner := o; g_attester_manager := a; g_pauser := p; g_token_controller := t;
            g_attesters := values (attesters s); g_limits := values (limits s);
            g_bm_paused := bm_paused s; g_sr_paused := sr_paused s;
            g_max_body := max_body s; g_next_nonce := next_nonce s; g_threshold := threshold s;
            g_pairs := values (pairs s); g_nonces := values (nonces s); g_messengers := values (messengers s) |}
  | _, _, _, _ => None
  end.
