(* keeper/attestation.go: VerifyAttestationSignatures (after the length-comparison fix). *)
From Cctp Require Import Lib.Bytes Lib.Hex Lib.Keccak.

Inductive vres := VAccept | VReject | VPanic.

(* Ethereum address of a 65-byte uncompressed public key: last 20 bytes of keccak256(key[1:]) *)
Definition eth_addr (pk : bytes) : bytes := skipn 12 (keccak256 (tl pk)).

(* if sig[64] is 27 or 28, subtract 27 *)
Definition norm_v (sig : bytes) : bytes :=
  match nth_error sig 64 with
  | Some v => if N.eqb (bN v) 27 || N.eqb (bN v) 28 then firstn 64 sig ++ [byte_of_N (bN v - 27)] else sig
  | None => sig
  end.

Section Verify.
  (* crypto.Ecrecover(digest, sig): the uncompressed public key, or failure *)
  Variable recover : bytes -> bytes -> option bytes.

  (* go-ethereum always returns 65 bytes; any other length is treated as a failed recovery *)
  Definition recover65 (digest sig : bytes) : option bytes :=
    match recover digest sig with
    | Some pk => if Nat.eqb (length pk) 65 then Some pk else None
    | None => None
    end.

  Definition is_attester (attesters : list bytes) (pk : bytes) : bool :=
    existsb (fun a => beqb (from_hex a) pk) attesters.

  (* the loop body for signatures i, i+1, ..., i+n-1; prev = address of the previous signer *)
  Fixpoint verify_loop (digest att : bytes) (attesters : list bytes) (n i : nat) (prev : option bytes) : vres :=
    match n with
    | O => VAccept
    | S n' =>
        let sig := slice (65 * i) (65 * i + 65) att in
        if Nat.ltb (length sig) 65 then VPanic else
        match recover65 digest (norm_v sig) with
        | None => VReject
        | Some pk =>
            let a := eth_addr pk in
            if match prev with Some p => negb (bltb p a) | None => false end then VReject else
            if is_attester attesters pk then verify_loop digest att attesters n' (S i) (Some a) else VReject
        end
    end.

  Definition verify (msg att : bytes) (attesters : list bytes) (thr : N) : vres :=
    if negb (N.eqb (N.of_nat (length att)) (65 * thr)) then VReject else
    if N.eqb thr 0 then VReject else
    verify_loop (keccak256 msg) att attesters (N.to_nat thr) 0 None.
End Verify.
