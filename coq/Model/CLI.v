(* client/cli/util.go: parseAddress / leftPadBytes (after the two repairs), with btcutil's base58.Decode. *)
From Cctp Require Import Lib.Bytes Lib.Hex.
Local Open Scope N_scope.

Definition b58_alphabet : bytes := B "123456789ABCDEFGHJKLMNPQRSTUVWXYZabcdefghijkmnopqrstuvwxyz".

Fixpoint b58_index (c : byte) (l : bytes) (i : N) : option N :=
  match l with [] => None | x :: r => if byte_eqb c x then Some i else b58_index c r (i + 1) end.

(* minimal big-endian bytes of a natural number (big.Int.Bytes) *)
Fixpoint N_bytes (fuel : nat) (n : N) (acc : bytes) : bytes :=
  match fuel with
  | O => acc
  | S f => if n =? 0 then acc else N_bytes f (n / 256) (byte_of_N n :: acc)
  end.

Fixpoint leading_ones (s : bytes) : nat :=
  match s with x31 :: r => S (leading_ones r) | _ => O end.

(* base58.Decode on ASCII input: an invalid character yields the empty slice *)
Definition base58_decode (s : bytes) : bytes :=
  match fold_left (fun acc c => match acc, b58_index c b58_alphabet 0 with
                                | Some a, Some d => Some (a * 58 + d)
                                | _, _ => None end) s (Some 0) with
  | None => []
  | Some n => zeros (leading_ones s) ++ N_bytes (S (length s)) n []
  end.

Inductive ares := AOk (bz : bytes) | AErr | APanic.

Definition left_pad_bytes (bz : bytes) : ares :=
  if Nat.ltb 32 (length bz) then AErr else AOk (left_pad32 bz).

Definition has_prefix_0x (s : bytes) : bool :=
  match s with a :: b :: _ => byte_eqb a x30 && byte_eqb b x78 | _ => false end.

Definition parse_address (s : bytes) : ares :=
  if has_prefix_0x s then left_pad_bytes (from_hex s)
  else if negb (forallb (fun c => bN c <? 128) s) then AErr
  else left_pad_bytes (base58_decode s).
