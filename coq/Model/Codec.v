(* types/message.go and types/burn_message.go: Parse / Bytes. *)
From Cctp Require Import Lib.Bytes.

Record message := {
  m_version : N; m_src : N; m_dst : N; m_nonce : N;
  m_sender : bytes; m_recipient : bytes; m_caller : bytes; m_body : bytes }.

(* Message.Parse *)
Definition decode_message (bs : bytes) : option message :=
  if Nat.ltb (length bs) 116 then None else
  Some {| m_version := be_dec (slice 0 4 bs); m_src := be_dec (slice 4 8 bs); m_dst := be_dec (slice 8 12 bs);
          m_nonce := be_dec (slice 12 20 bs); m_sender := slice 20 52 bs; m_recipient := slice 52 84 bs;
          m_caller := slice 84 116 bs; m_body := skipn 116 bs |}.

(* Message.Bytes; integers are uint32/uint64 in Go, so PutUint32/64 of an in-range value *)
Definition encode_message (m : message) : option bytes :=
  if negb (Nat.eqb (length (m_sender m)) 32) then None else
  if negb (Nat.eqb (length (m_recipient m)) 32) then None else
  if negb (Nat.eqb (length (m_caller m)) 32) then None else
  Some (be_enc 4 (m_version m) ++ be_enc 4 (m_src m) ++ be_enc 4 (m_dst m) ++ be_enc 8 (m_nonce m)
        ++ m_sender m ++ m_recipient m ++ m_caller m ++ m_body m).

Record burn_message := {
  bm_version : N; bm_token : bytes; bm_recipient : bytes; bm_amount : Z; bm_sender : bytes }.

(* BurnMessage.Parse *)
Definition decode_burn (bs : bytes) : option burn_message :=
  if negb (Nat.eqb (length bs) 132) then None else
  Some {| bm_version := be_dec (slice 0 4 bs); bm_token := slice 4 36 bs; bm_recipient := slice 36 68 bs;
          bm_amount := Z.of_N (be_dec (slice 68 100 bs)); bm_sender := slice 100 132 bs |}.

(* BurnMessage.Bytes: big.Int.FillBytes writes the absolute value (math.Int is at most 256 bits wide) *)
Definition encode_burn (m : burn_message) : option bytes :=
  if negb (Nat.eqb (length (bm_token m)) 32) then None else
  if negb (Nat.eqb (length (bm_recipient m)) 32) then None else
  if negb (Nat.eqb (length (bm_sender m)) 32) then None else
  Some (be_enc 4 (bm_version m) ++ bm_token m ++ bm_recipient m ++ be_enc 32 (Z.abs_N (bm_amount m)) ++ bm_sender m).
