(* baseapp's message rule: a handler runs on a branch of the state; the branch (store, ledger)
   and the events are kept iff the handler returned no error.  [run] folds [deliver] over a history. *)
From Cctp Require Import Lib.Bytes Lib.SMap.
From Cctp Require Import Model.State Model.Ledger Model.Handlers.

Record chain := { c_st : store; c_lg : ledger }.

Inductive outcome := OOk (r : resp) | OErr | OPanic | OUnmodelled.

Record result := {
  r_out : outcome;
  r_chain : chain;             (* the chain after the message (= before, unless OOk) *)
  r_events : list event;       (* events that reach the block (none unless OOk) *)
  r_calls : list depcall;      (* every dependency call the handler made, with its result *)
  r_dirty : hstate }.          (* the handler's own final state, before the SDK keeps or drops it *)

Definition start (c : chain) (plan : list directive) : hstate :=
  {| h_st := c_st c; h_lg := c_lg c; h_plan := plan; h_ev := []; h_dc := [] |}.

Definition deliver (e : env) (c : chain) (plan : list directive) (t : tx) : result :=
  let '(r, h) := handler e t (start c plan) in
  match r with
  | ROk a => {| r_out := OOk a; r_chain := {| c_st := h_st h; c_lg := h_lg h |}; r_events := h_ev h;
                r_calls := h_dc h; r_dirty := h |}
  | RErr => {| r_out := OErr; r_chain := c; r_events := []; r_calls := h_dc h; r_dirty := h |}
  | RPanic => {| r_out := OPanic; r_chain := c; r_events := []; r_calls := h_dc h; r_dirty := h |}
  | RUnmodelled => {| r_out := OUnmodelled; r_chain := c; r_events := []; r_calls := h_dc h; r_dirty := h |}
  end.

(* a history is a list of (dependency plan, transaction) *)
Definition step := (list directive * tx)%type.

Definition run_step (e : env) (c : chain) (s : step) : chain := r_chain (deliver e c (fst s) (snd s)).
Definition run (e : env) (c : chain) (h : list step) : chain := fold_left (run_step e) h c.

(* the results of every step of a history, in order *)
Fixpoint trace (e : env) (c : chain) (h : list step) : list result :=
  match h with
  | [] => []
  | s :: h' => let r := deliver e c (fst s) (snd s) in r :: trace e (r_chain r) h'
  end.

(* Messages can also be executed without their effects ever reaching the chain: in simulation or CheckTx mode, or as the
   early messages of a transaction whose later message fails.  The SDK runs the handlers, one after the other, on one
   branch of the chain and drops the branch whatever the outcomes; the caller still sees the outcomes. *)
Definition simulate (e : env) (c : chain) (plan : list directive) (t : tx) : outcome := r_out (deliver e c plan t).
(* the outcomes seen along a dropped branch: each message runs on what the previous ones left, up to the first failure *)
Fixpoint branch_outcomes (e : env) (c : chain) (l : list step) : list outcome :=
  match l with
  | [] => []
  | s :: l' => let r := deliver e c (fst s) (snd s) in
               r_out r :: match r_out r with OOk _ => branch_outcomes e (r_chain r) l' | _ => [] end
  end.

Inductive mstep := Delivered (s : step) | Dropped (branch : list step).
Definition run_mstep (e : env) (c : chain) (s : mstep) : chain :=
  match s with Delivered s => run_step e c s | Dropped _ => c end.
Definition run_modes (e : env) (c : chain) (h : list mstep) : chain := fold_left (run_mstep e) h c.
Fixpoint delivered (h : list mstep) : list step :=
  match h with [] => [] | Delivered s :: h' => s :: delivered h' | Dropped _ :: h' => delivered h' end.

Definition is_ok (r : result) : bool := match r_out r with OOk _ => true | _ => false end.
