(* The module's KV store as a typed record: five role slots, five scalars, five keyed collections.
   Collections are keyed by the *encoded key bytes* the Go code derives (types/keys.go), so that key
   collisions are a property of the model, not hidden by it. *)
From Cctp Require Import Lib.Bytes Lib.SMap Lib.Keccak.

Record token_pair := { tp_domain : N; tp_token : bytes; tp_local : bytes }.
Record limit := { lim_denom : bytes; lim_amount : Z }.
Record messenger := { tm_domain : N; tm_address : bytes }.
Record used_nonce := { un_domain : N; un_nonce : N }.

Record store := {
  owner : option bytes;
  pending_owner : option bytes;
  attester_manager : option bytes;
  pauser : option bytes;
  token_controller : option bytes;
  bm_paused : option bool;
  sr_paused : option bool;
  max_body : option N;
  next_nonce : option N;
  threshold : option N;
  attesters : smap bytes;
  limits : smap limit;
  pairs : smap token_pair;
  messengers : smap messenger;
  nonces : smap used_nonce }.

Definition set_owner (v : option bytes) (s : store) : store :=
  {| owner := v; pending_owner := pending_owner s; attester_manager := attester_manager s; pauser := pauser s; token_controller := token_controller s; bm_paused := bm_paused s; sr_paused := sr_paused s; max_body := max_body s; next_nonce := next_nonce s; threshold := threshold s; attesters := attesters s; limits := limits s; pairs := pairs s; messengers := messengers s; nonces := nonces s |}.
Definition set_pending_owner (v : option bytes) (s : store) : store :=
  {| owner := owner s; pending_owner := v; attester_manager := attester_manager s; pauser := pauser s; token_controller := token_controller s; bm_paused := bm_paused s; sr_paused := sr_paused s; max_body := max_body s; next_nonce := next_nonce s; threshold := threshold s; attesters := attesters s; limits := limits s; pairs := pairs s; messengers := messengers s; nonces := nonces s |}.
Definition set_attester_manager (v : option bytes) (s : store) : store :=
  {| owner := owner s; pending_owner := pending_owner s; attester_manager := v; pauser := pauser s; token_controller := token_controller s; bm_paused := bm_paused s; sr_paused := sr_paused s; max_body := max_body s; next_nonce := next_nonce s; threshold := threshold s; attesters := attesters s; limits := limits s; pairs := pairs s; messengers := messengers s; nonces := nonces s |}.
Definition set_pauser (v : option bytes) (s : store) : store :=
  {| owner := owner s; pending_owner := pending_owner s; attester_manager := attester_manager s; pauser := v; token_controller := token_controller s; bm_paused := bm_paused s; sr_paused := sr_paused s; max_body := max_body s; next_nonce := next_nonce s; threshold := threshold s; attesters := attesters s; limits := limits s; pairs := pairs s; messengers := messengers s; nonces := nonces s |}.
Definition set_token_controller (v : option bytes) (s : store) : store :=
  {| owner := owner s; pending_owner := pending_owner s; attester_manager := attester_manager s; pauser := pauser s; token_controller := v; bm_paused := bm_paused s; sr_paused := sr_paused s; max_body := max_body s; next_nonce := next_nonce s; threshold := threshold s; attesters := attesters s; limits := limits s; pairs := pairs s; messengers := messengers s; nonces := nonces s |}.
Definition set_bm_paused (v : option bool) (s : store) : store :=
  {| owner := owner s; pending_owner := pending_owner s; attester_manager := attester_manager s; pauser := pauser s; token_controller := token_controller s; bm_paused := v; sr_paused := sr_paused s; max_body := max_body s; next_nonce := next_nonce s; threshold := threshold s; attesters := attesters s; limits := limits s; pairs := pairs s; messengers := messengers s; nonces := nonces s |}.
Definition set_sr_paused (v : option bool) (s : store) : store :=
  {| owner := owner s; pending_owner := pending_owner s; attester_manager := attester_manager s; pauser := pauser s; token_controller := token_controller s; bm_paused := bm_paused s; sr_paused := v; max_body := max_body s; next_nonce := next_nonce s; threshold := threshold s; attesters := attesters s; limits := limits s; pairs := pairs s; messengers := messengers s; nonces := nonces s |}.
Definition set_max_body (v : option N) (s : store) : store :=
  {| owner := owner s; pending_owner := pending_owner s; attester_manager := attester_manager s; pauser := pauser s; token_controller := token_controller s; bm_paused := bm_paused s; sr_paused := sr_paused s; max_body := v; next_nonce := next_nonce s; threshold := threshold s; attesters := attesters s; limits := limits s; pairs := pairs s; messengers := messengers s; nonces := nonces s |}.
Definition set_next_nonce (v : option N) (s : store) : store :=
  {| owner := owner s; pending_owner := pending_owner s; attester_manager := attester_manager s; pauser := pauser s; token_controller := token_controller s; bm_paused := bm_paused s; sr_paused := sr_paused s; max_body := max_body s; next_nonce := v; threshold := threshold s; attesters := attesters s; limits := limits s; pairs := pairs s; messengers := messengers s; nonces := nonces s |}.
Definition set_threshold (v : option N) (s : store) : store :=
  {| owner := owner s; pending_owner := pending_owner s; attester_manager := attester_manager s; pauser := pauser s; token_controller := token_controller s; bm_paused := bm_paused s; sr_paused := sr_paused s; max_body := max_body s; next_nonce := next_nonce s; threshold := v; attesters := attesters s; limits := limits s; pairs := pairs s; messengers := messengers s; nonces := nonces s |}.
Definition set_attesters (v : smap bytes) (s : store) : store :=
  {| owner := owner s; pending_owner := pending_owner s; attester_manager := attester_manager s; pauser := pauser s; token_controller := token_controller s; bm_paused := bm_paused s; sr_paused := sr_paused s; max_body := max_body s; next_nonce := next_nonce s; threshold := threshold s; attesters := v; limits := limits s; pairs := pairs s; messengers := messengers s; nonces := nonces s |}.
Definition set_limits (v : smap limit) (s : store) : store :=
  {| owner := owner s; pending_owner := pending_owner s; attester_manager := attester_manager s; pauser := pauser s; token_controller := token_controller s; bm_paused := bm_paused s; sr_paused := sr_paused s; max_body := max_body s; next_nonce := next_nonce s; threshold := threshold s; attesters := attesters s; limits := v; pairs := pairs s; messengers := messengers s; nonces := nonces s |}.
Definition set_pairs (v : smap token_pair) (s : store) : store :=
  {| owner := owner s; pending_owner := pending_owner s; attester_manager := attester_manager s; pauser := pauser s; token_controller := token_controller s; bm_paused := bm_paused s; sr_paused := sr_paused s; max_body := max_body s; next_nonce := next_nonce s; threshold := threshold s; attesters := attesters s; limits := limits s; pairs := v; messengers := messengers s; nonces := nonces s |}.
Definition set_messengers (v : smap messenger) (s : store) : store :=
  {| owner := owner s; pending_owner := pending_owner s; attester_manager := attester_manager s; pauser := pauser s; token_controller := token_controller s; bm_paused := bm_paused s; sr_paused := sr_paused s; max_body := max_body s; next_nonce := next_nonce s; threshold := threshold s; attesters := attesters s; limits := limits s; pairs := pairs s; messengers := v; nonces := nonces s |}.
Definition set_nonces (v : smap used_nonce) (s : store) : store :=
  {| owner := owner s; pending_owner := pending_owner s; attester_manager := attester_manager s; pauser := pauser s; token_controller := token_controller s; bm_paused := bm_paused s; sr_paused := sr_paused s; max_body := max_body s; next_nonce := next_nonce s; threshold := threshold s; attesters := attesters s; limits := limits s; pairs := pairs s; messengers := messengers s; nonces := v |}.

Definition empty_store : store :=
  {| owner := None; pending_owner := None; attester_manager := None; pauser := None; token_controller := None;
     bm_paused := None; sr_paused := None; max_body := None; next_nonce := None; threshold := None;
     attesters := []; limits := []; pairs := []; messengers := []; nonces := [] |}.

(* types/keys.go *)
Definition slash : bytes := [x2f].
Definition attester_key (a : bytes) : bytes := a ++ slash.
Definition limit_key (denom : bytes) : bytes := denom ++ slash.
Definition nonce_key (domain nonce : N) : bytes := be_enc 4 domain ++ be_enc 8 nonce ++ slash.
Definition pair_key (domain : N) (token : bytes) : bytes := keccak256 (be_enc 4 domain ++ token) ++ slash.
Definition messenger_key (domain : N) : bytes := be_enc 4 domain ++ slash.

(* "found && paused.Paused" *)
Definition flag_on (f : option bool) : bool := match f with Some true => true | _ => false end.

Definition store_sorted (s : store) : Prop :=
  sorted (attesters s) /\ sorted (limits s) /\ sorted (pairs s) /\ sorted (messengers s) /\ sorted (nonces s).
