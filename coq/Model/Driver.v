(* The script interpreter: reads the same script lines the Go harness executed, runs the model and
   prints its observations in the same canonical line format.  Executed extracted (modelrun) and,
   for a subset of every run, inside Coq by vm_compute. *)
From Cctp Require Import Lib.Bytes Lib.SMap Lib.Hex Lib.Keccak Lib.Bech32 Lib.Text Lib.Paginate.
From Cctp Require Import Model.Codec Model.State Model.Attest Model.Ledger Model.Handlers Model.Chain
     Model.Queries Model.Genesis Model.CLI.
From Cctp Require Import Spec.WriteDoc.

(* ---------- lexing ---------- *)
Fixpoint split_on (c : byte) (s : bytes) (cur : bytes) : list bytes :=
  match s with
  | [] => [rev_append cur []]
  | b :: r => if byte_eqb b c then rev_append cur [] :: split_on c r [] else split_on c r (b :: cur)
  end.
Definition words (s : bytes) : list bytes := filter (fun w => negb (Nat.eqb (length w) 0)) (split_on x20 s []).

Fixpoint split_kv (s : bytes) (cur : bytes) : bytes * bytes :=
  match s with
  | [] => (rev_append cur [], [])
  | b :: r => if byte_eqb b x3d then (rev_append cur [], r) else split_kv r (b :: cur)
  end.
Definition kvs (ws : list bytes) : list (bytes * bytes) := map (fun w => split_kv w []) ws.

Fixpoint find (k : bytes) (l : list (bytes * bytes)) : option bytes :=
  match l with [] => None | (k', v) :: r => if beqb k k' then Some v else find k r end.

Definition get_hex (k : string) (l : list (bytes * bytes)) : option bytes :=
  match find (B k) l with Some v => hex_decode_strict v | None => None end.
Definition get_N (k : string) (l : list (bytes * bytes)) : option N :=
  match find (B k) l with Some v => N_of_dec v | None => None end.
Definition get_Z (k : string) (l : list (bytes * bytes)) : option Z :=
  match find (B k) l with Some v => Z_of_dec v | None => None end.
(* "-" = absent *)
Definition get_optZ (k : string) (l : list (bytes * bytes)) : option (option Z) :=
  match find (B k) l with
  | Some [x2d] => Some None
  | Some v => option_map Some (Z_of_dec v)
  | None => None
  end.
Definition get_optN (k : string) (l : list (bytes * bytes)) : option (option N) :=
  match find (B k) l with
  | Some [x2d] => Some None
  | Some v => option_map Some (N_of_dec v)
  | None => None
  end.
Definition get_bool (k : string) (l : list (bytes * bytes)) : option bool :=
  match get_N k l with Some 0%N => Some false | Some 1%N => Some true | _ => None end.

Definition obind {A C} (o : option A) (f : A -> option C) : option C := match o with Some a => f a | None => None end.
Notation "x <-? o ;; k" := (obind o (fun x => k)) (at level 61, o at next level, right associativity).

(* ---------- printing ---------- *)
Definition sp : bytes := [x20].
Definition kv_hex (k : string) (v : bytes) : bytes := sp ++ B k ++ [x3d] ++ hex_encode v.
Definition kv_N (k : string) (v : N) : bytes := sp ++ B k ++ [x3d] ++ dec_of_N v.
Definition kv_Z (k : string) (v : Z) : bytes := sp ++ B k ++ [x3d] ++ dec_of_Z v.
Definition kv_bool (k : string) (v : bool) : bytes := sp ++ B k ++ [x3d] ++ (if v then [x31] else [x30]).
Definition kv_optN (k : string) (v : option N) : bytes :=
  sp ++ B k ++ [x3d] ++ match v with Some n => dec_of_N n | None => [x2d] end.

Definition print_event (e : event) : bytes :=
  match e with
  | EvAttesterEnabled a => B "AttesterEnabled" ++ kv_hex "attester" a
  | EvAttesterDisabled a => B "AttesterDisabled" ++ kv_hex "attester" a
  | EvSignatureThresholdUpdated o n => B "SignatureThresholdUpdated" ++ kv_N "old" o ++ kv_N "new" n
  | EvOwnerUpdated p n => B "OwnerUpdated" ++ kv_hex "prev" p ++ kv_hex "new" n
  | EvOwnershipTransferStarted p n => B "OwnershipTransferStarted" ++ kv_hex "prev" p ++ kv_hex "new" n
  | EvPauserUpdated p n => B "PauserUpdated" ++ kv_hex "prev" p ++ kv_hex "new" n
  | EvAttesterManagerUpdated p n => B "AttesterManagerUpdated" ++ kv_hex "prev" p ++ kv_hex "new" n
  | EvTokenControllerUpdated p n => B "TokenControllerUpdated" ++ kv_hex "prev" p ++ kv_hex "new" n
  | EvBurningAndMintingPaused => B "BurningAndMintingPausedEvent"
  | EvBurningAndMintingUnpaused => B "BurningAndMintingUnpausedEvent"
  | EvSendingAndReceivingPaused => B "SendingAndReceivingPausedEvent"
  | EvSendingAndReceivingUnpaused => B "SendingAndReceivingUnpausedEvent"
  | EvDepositForBurn n t a d mr dd m c =>
      B "DepositForBurn" ++ kv_N "nonce" n ++ kv_hex "burn_token" t ++ kv_Z "amount" a ++ kv_hex "depositor" d
        ++ kv_hex "mint_recipient" mr ++ kv_N "dest" dd ++ kv_hex "messenger" m ++ kv_hex "caller" c
  | EvMintAndWithdraw mr a t => B "MintAndWithdraw" ++ kv_hex "mint_recipient" mr ++ kv_Z "amount" a ++ kv_hex "token" t
  | EvTokenPairLinked l d t => B "TokenPairLinked" ++ kv_hex "local" l ++ kv_N "domain" d ++ kv_hex "token" t
  | EvTokenPairUnlinked l d t => B "TokenPairUnlinked" ++ kv_hex "local" l ++ kv_N "domain" d ++ kv_hex "token" t
  | EvMessageSent m => B "MessageSent" ++ kv_hex "message" m
  | EvMessageReceived c s n se b =>
      B "MessageReceived" ++ kv_hex "caller" c ++ kv_N "src" s ++ kv_N "nonce" n ++ kv_hex "sender" se ++ kv_hex "body" b
  | EvMaxMessageBodySizeUpdated n => B "MaxMessageBodySizeUpdated" ++ kv_N "size" n
  | EvRemoteTokenMessengerAdded d a => B "RemoteTokenMessengerAdded" ++ kv_N "domain" d ++ kv_hex "addr" a
  | EvRemoteTokenMessengerRemoved d a => B "RemoteTokenMessengerRemoved" ++ kv_N "domain" d ++ kv_hex "addr" a
  | EvSetBurnLimitPerMessage t a => B "SetBurnLimitPerMessage" ++ kv_hex "token" t ++ kv_Z "amount" a
  end.

Definition print_depcall (d : depcall) : bytes :=
  match d with
  | DTransfer f dn a ok => B "Transfer" ++ kv_hex "from" f ++ kv_hex "to" (B "cctp") ++ kv_hex "denom" dn ++ kv_Z "amt" a ++ kv_bool "ok" ok
  | DBurn f dn a ok => B "Burn" ++ kv_hex "from" f ++ kv_hex "denom" dn ++ kv_Z "amt" a ++ kv_bool "ok" ok
  | DMint f t dn a ok => B "Mint" ++ kv_hex "from" f ++ kv_hex "to" t ++ kv_hex "denom" dn ++ kv_Z "amt" a ++ kv_bool "ok" ok
  end.

Definition opt_line (name : string) (field : string) (o : option bytes) : list bytes :=
  match o with Some v => [B name ++ kv_hex "name" (B field) ++ kv_hex "v" v] | None => [] end.

Definition print_state (s : store) (lg : ledger) : list bytes :=
  let role (n : string) (o : option bytes) := match o with Some v => [B "role name=" ++ B n ++ kv_hex "v" v] | None => [] end in
  let flag (n : string) (o : option bool) := match o with Some v => [B "flag name=" ++ B n ++ kv_bool "v" v] | None => [] end in
  let num (n : string) (o : option N) := match o with Some v => [B "num name=" ++ B n ++ kv_N "v" v] | None => [] end in
  role "owner"%string (owner s) ++ role "pending"%string (pending_owner s) ++ role "attmgr"%string (attester_manager s)
  ++ role "pauser"%string (pauser s) ++ role "tokctl"%string (token_controller s)
  ++ flag "bm"%string (bm_paused s) ++ flag "sr"%string (sr_paused s)
  ++ num "maxbody"%string (max_body s) ++ num "nextnonce"%string (next_nonce s) ++ num "threshold"%string (threshold s)
  ++ map (fun kv => B "attester" ++ kv_hex "k" (fst kv) ++ kv_hex "v" (snd kv)) (attesters s)
  ++ map (fun kv => B "limit" ++ kv_hex "k" (fst kv) ++ kv_hex "denom" (lim_denom (snd kv)) ++ kv_Z "amt" (lim_amount (snd kv))) (limits s)
  ++ map (fun kv => B "pair" ++ kv_hex "k" (fst kv) ++ kv_N "domain" (tp_domain (snd kv)) ++ kv_hex "token" (tp_token (snd kv))
                    ++ kv_hex "local" (tp_local (snd kv))) (pairs s)
  ++ map (fun kv => B "messenger" ++ kv_hex "k" (fst kv) ++ kv_N "domain" (tm_domain (snd kv)) ++ kv_hex "addr" (tm_address (snd kv))) (messengers s)
  ++ map (fun kv => B "nonce" ++ kv_hex "k" (fst kv) ++ kv_N "domain" (un_domain (snd kv)) ++ kv_N "nonce" (un_nonce (snd kv))) (nonces s)
  ++ map (fun kv => B "bal" ++ kv_hex "k" (fst kv) ++ kv_Z "amt" (snd kv)) lg.

(* the documented write set of a transaction (Spec/WriteDoc.v), in the harness's names for store entries *)
Definition print_wtarget (w : wtarget) : bytes :=
  match w with
  | WOwner => B "owner" | WPending => B "pending" | WAttMgr => B "attmgr" | WPauser => B "pauser" | WTokCtl => B "tokctl"
  | WBm => B "bm" | WSr => B "sr" | WMaxBody => B "maxbody" | WNextNonce => B "nextnonce" | WThreshold => B "threshold"
  | WAttester k => B "attester" ++ kv_hex "k" k | WLimit k => B "limit" ++ kv_hex "k" k | WPair k => B "pair" ++ kv_hex "k" k
  | WMessenger k => B "messenger" ++ kv_hex "k" k | WNonce k => B "nonce" ++ kv_hex "k" k
  end.

Fixpoint eq_lines (a b : list bytes) : bool :=
  match a, b with
  | [], [] => true
  | x :: a', y :: b' => beqb x y && eq_lines a' b'
  | _, _ => false
  end.

(* ---------- interpreter state ---------- *)
Record dstate := {
  d_hrp : bytes; d_denom : bytes; d_module : bytes;
  d_oracle : list (bytes * bytes * option bytes);
  d_chain : chain;
  d_pending : chain;          (* state lines of the implementation accumulated since the last SYNC *)
  d_gen : genesis;            (* genesis lines accumulated since G-BEGIN *)
  d_sim : option chain }.     (* the dropped branch that consecutive chained SIM steps share, while all of them succeeded *)

Definition empty_chain : chain := {| c_st := empty_store; c_lg := [] |}.
Definition empty_genesis : genesis :=
  {| g_owner := []; g_attester_manager := []; g_pauser := []; g_token_controller := [];
     g_attesters := []; g_limits := []; g_bm_paused := None; g_sr_paused := None;
     g_max_body := None; g_next_nonce := None; g_threshold := None; g_pairs := []; g_nonces := []; g_messengers := [] |}.
Definition init_dstate : dstate :=
  {| d_hrp := B "cosmos"; d_denom := B "uusdc"; d_module := []; d_oracle := [];
     d_chain := empty_chain; d_pending := empty_chain; d_gen := empty_genesis; d_sim := None |}.

Definition oracle_lookup (tbl : list (bytes * bytes * option bytes)) (d s : bytes) : option bytes :=
  match List.find (fun x => beqb (fst (fst x)) d && beqb (snd (fst x)) s) tbl with
  | Some (_, pk) => pk
  | None => None
  end.

Definition env_of (d : dstate) : env :=
  {| hrp := d_hrp d; mint_denom := d_denom d; module_addr := d_module d; recover := oracle_lookup (d_oracle d) |}.

Definition set_chain (c : chain) (d : dstate) : dstate :=
  {| d_hrp := d_hrp d; d_denom := d_denom d; d_module := d_module d; d_oracle := d_oracle d;
     d_chain := c; d_pending := d_pending d; d_gen := d_gen d; d_sim := d_sim d |}.
Definition set_pending (c : chain) (d : dstate) : dstate :=
  {| d_hrp := d_hrp d; d_denom := d_denom d; d_module := d_module d; d_oracle := d_oracle d;
     d_chain := d_chain d; d_pending := c; d_gen := d_gen d; d_sim := d_sim d |}.
Definition set_sim (o : option chain) (d : dstate) : dstate :=
  {| d_hrp := d_hrp d; d_denom := d_denom d; d_module := d_module d; d_oracle := d_oracle d;
     d_chain := d_chain d; d_pending := d_pending d; d_gen := d_gen d; d_sim := o |}.
Definition set_gen (g : genesis) (d : dstate) : dstate :=
  {| d_hrp := d_hrp d; d_denom := d_denom d; d_module := d_module d; d_oracle := d_oracle d;
     d_chain := d_chain d; d_pending := d_pending d; d_gen := g; d_sim := d_sim d |}.

(* ---------- parsing of the pieces ---------- *)
Fixpoint parse_plan (s : bytes) : list directive :=
  match s with
  | [] => []
  | x66 :: r => DFail :: parse_plan r      (* f *)
  | x70 :: r => DFail :: parse_plan r      (* p: the dependency panics; baseapp recovers, the transaction fails like on an error *)
  | x73 :: r => DSucceed :: parse_plan r   (* s *)
  | _ :: r => DDefault :: parse_plan r     (* d *)
  end.

Definition parse_tx (ty : bytes) (a : list (bytes * bytes)) : option tx :=
  from <-? get_hex "from" a ;;
  if beqb ty (B "AcceptOwner") then Some (AcceptOwner from)
  else if beqb ty (B "AddRemoteTokenMessenger") then
    d <-? get_N "domain" a ;; ad <-? get_hex "address" a ;; Some (AddRemoteTokenMessenger from d ad)
  else if beqb ty (B "DepositForBurn") then
    am <-? get_optZ "amount" a ;; d <-? get_N "dest" a ;; mr <-? get_hex "mint_recipient" a ;; bt <-? get_hex "burn_token" a ;;
    Some (DepositForBurn from am d mr bt)
  else if beqb ty (B "DepositForBurnWithCaller") then
    am <-? get_optZ "amount" a ;; d <-? get_N "dest" a ;; mr <-? get_hex "mint_recipient" a ;; bt <-? get_hex "burn_token" a ;;
    c <-? get_hex "caller" a ;; Some (DepositForBurnWithCaller from am d mr bt c)
  else if beqb ty (B "DisableAttester") then at_ <-? get_hex "attester" a ;; Some (DisableAttester from at_)
  else if beqb ty (B "EnableAttester") then at_ <-? get_hex "attester" a ;; Some (EnableAttester from at_)
  else if beqb ty (B "LinkTokenPair") then
    d <-? get_N "domain" a ;; t <-? get_hex "token" a ;; l <-? get_hex "local" a ;; Some (LinkTokenPair from d t l)
  else if beqb ty (B "PauseBurningAndMinting") then Some (PauseBurningAndMinting from)
  else if beqb ty (B "PauseSendingAndReceivingMessages") then Some (PauseSendingAndReceivingMessages from)
  else if beqb ty (B "ReceiveMessage") then
    m <-? get_hex "message" a ;; at_ <-? get_hex "attestation" a ;; Some (ReceiveMessage from m at_)
  else if beqb ty (B "RemoveRemoteTokenMessenger") then d <-? get_N "domain" a ;; Some (RemoveRemoteTokenMessenger from d)
  else if beqb ty (B "ReplaceDepositForBurn") then
    o <-? get_hex "orig" a ;; at_ <-? get_hex "att" a ;; c <-? get_hex "new_caller" a ;; r <-? get_hex "new_recipient" a ;;
    Some (ReplaceDepositForBurn from o at_ c r)
  else if beqb ty (B "ReplaceMessage") then
    o <-? get_hex "orig" a ;; at_ <-? get_hex "att" a ;; b <-? get_hex "new_body" a ;; c <-? get_hex "new_caller" a ;;
    Some (ReplaceMessage from o at_ b c)
  else if beqb ty (B "SendMessage") then
    d <-? get_N "dest" a ;; r <-? get_hex "recipient" a ;; b <-? get_hex "body" a ;; Some (SendMessage from d r b)
  else if beqb ty (B "SendMessageWithCaller") then
    d <-? get_N "dest" a ;; r <-? get_hex "recipient" a ;; b <-? get_hex "body" a ;; c <-? get_hex "caller" a ;;
    Some (SendMessageWithCaller from d r b c)
  else if beqb ty (B "UnlinkTokenPair") then
    d <-? get_N "domain" a ;; t <-? get_hex "token" a ;; l <-? get_hex "local" a ;; Some (UnlinkTokenPair from d t l)
  else if beqb ty (B "UnpauseBurningAndMinting") then Some (UnpauseBurningAndMinting from)
  else if beqb ty (B "UnpauseSendingAndReceivingMessages") then Some (UnpauseSendingAndReceivingMessages from)
  else if beqb ty (B "UpdateOwner") then n <-? get_hex "new" a ;; Some (UpdateOwner from n)
  else if beqb ty (B "UpdateAttesterManager") then n <-? get_hex "new" a ;; Some (UpdateAttesterManager from n)
  else if beqb ty (B "UpdateTokenController") then n <-? get_hex "new" a ;; Some (UpdateTokenController from n)
  else if beqb ty (B "UpdatePauser") then n <-? get_hex "new" a ;; Some (UpdatePauser from n)
  else if beqb ty (B "UpdateMaxMessageBodySize") then n <-? get_N "size" a ;; Some (UpdateMaxMessageBodySize from n)
  else if beqb ty (B "SetMaxBurnAmountPerMessage") then
    l <-? get_hex "local" a ;; am <-? get_optZ "amount" a ;; Some (SetMaxBurnAmountPerMessage from l am)
  else if beqb ty (B "UpdateSignatureThreshold") then n <-? get_N "amount" a ;; Some (UpdateSignatureThreshold from n)
  else None.

Definition parse_page (a : list (bytes * bytes)) : option page_request :=
  k <-? get_hex "key" a ;; o <-? get_N "offset" a ;; l <-? get_N "limit" a ;; ct <-? get_bool "count_total" a ;;
  r <-? get_bool "reverse" a ;;
  Some {| pg_key := k; pg_offset := o; pg_limit := l; pg_count_total := ct; pg_reverse := r |}.

Definition parse_query (ty : bytes) (a : list (bytes * bytes)) : option query :=
  if beqb ty (B "LocalDomain") then Some QLocalDomain
  else if beqb ty (B "LocalMessageVersion") then Some QMessageVersion
  else if beqb ty (B "BurnMessageVersion") then Some QBurnMessageVersion
  else if beqb ty (B "Roles") then Some QRoles
  else if beqb ty (B "BurningAndMintingPaused") then Some QBurningAndMintingPaused
  else if beqb ty (B "SendingAndReceivingMessagesPaused") then Some QSendingAndReceivingPaused
  else if beqb ty (B "MaxMessageBodySize") then Some QMaxMessageBodySize
  else if beqb ty (B "NextAvailableNonce") then Some QNextAvailableNonce
  else if beqb ty (B "SignatureThreshold") then Some QSignatureThreshold
  else if beqb ty (B "Attester") then x <-? get_hex "attester" a ;; Some (QAttester x)
  else if beqb ty (B "Attesters") then p <-? parse_page a ;; Some (QAttesters p)
  else if beqb ty (B "PerMessageBurnLimit") then x <-? get_hex "denom" a ;; Some (QBurnLimit x)
  else if beqb ty (B "PerMessageBurnLimits") then p <-? parse_page a ;; Some (QBurnLimits p)
  else if beqb ty (B "TokenPair") then d <-? get_N "domain" a ;; t <-? get_hex "token" a ;; Some (QTokenPair d t)
  else if beqb ty (B "TokenPairs") then p <-? parse_page a ;; Some (QTokenPairs p)
  else if beqb ty (B "UsedNonce") then d <-? get_N "domain" a ;; n <-? get_N "nonce" a ;; Some (QUsedNonce d n)
  else if beqb ty (B "UsedNonces") then p <-? parse_page a ;; Some (QUsedNonces p)
  else if beqb ty (B "RemoteTokenMessenger") then d <-? get_N "domain" a ;; Some (QMessenger d)
  else if beqb ty (B "RemoteTokenMessengers") then p <-? parse_page a ;; Some (QMessengers p)
  else None.

Definition join (sep : bytes) (l : list bytes) : bytes :=
  match l with [] => [] | x :: r => x ++ flat_map (fun y => sep ++ y) r end.
Definition colon : bytes := [x3a].
Definition semi : bytes := [x3b].

Definition item_limit (l : limit) : bytes := hex_encode (lim_denom l) ++ colon ++ dec_of_Z (lim_amount l).
Definition item_pair (p : token_pair) : bytes := dec_of_N (tp_domain p) ++ colon ++ hex_encode (tp_token p) ++ colon ++ hex_encode (tp_local p).
Definition item_nonce (n : used_nonce) : bytes := dec_of_N (un_domain n) ++ colon ++ dec_of_N (un_nonce n).
Definition item_messenger (m : messenger) : bytes := dec_of_N (tm_domain m) ++ colon ++ hex_encode (tm_address m).

Definition print_list (items : list bytes) (next : bytes) (total : option N) : bytes :=
  B " items=" ++ join semi items ++ kv_hex "next" next ++ kv_optN "total" total.

Definition print_qresp (r : qresp) : bytes :=
  match r with
  | QNum n => kv_N "v" n
  | QFlag b => kv_bool "v" b
  | QRolesResp o a p t => kv_hex "owner" o ++ kv_hex "attmgr" a ++ kv_hex "pauser" p ++ kv_hex "tokctl" t
  | QAttesterResp a => kv_hex "attester" a
  | QLimitResp l => B " item=" ++ item_limit l
  | QPairResp p => B " item=" ++ item_pair p
  | QNonceResp n => B " item=" ++ item_nonce n
  | QMessengerResp m => B " item=" ++ item_messenger m
  | QAttesterList l n t => print_list (map hex_encode l) n t
  | QLimitList l n t => print_list (map item_limit l) n t
  | QPairList l n t => print_list (map item_pair l) n t
  | QNonceList l n t => print_list (map item_nonce l) n t
  | QMessengerList l n t => print_list (map item_messenger l) n t
  end.

(* a state line (of the implementation's dump, or of a genesis block) folded into a chain *)
Definition apply_state_line (kind : bytes) (a : list (bytes * bytes)) (c : chain) : option chain :=
  let s := c_st c in
  let upd f := Some {| c_st := f s; c_lg := c_lg c |} in
  if beqb kind (B "role") then
    n <-? find (B "name") a ;; v <-? get_hex "v" a ;;
    if beqb n (B "owner") then upd (set_owner (Some v))
    else if beqb n (B "pending") then upd (set_pending_owner (Some v))
    else if beqb n (B "attmgr") then upd (set_attester_manager (Some v))
    else if beqb n (B "pauser") then upd (set_pauser (Some v))
    else if beqb n (B "tokctl") then upd (set_token_controller (Some v))
    else None
  else if beqb kind (B "flag") then
    n <-? find (B "name") a ;; v <-? get_bool "v" a ;;
    if beqb n (B "bm") then upd (set_bm_paused (Some v))
    else if beqb n (B "sr") then upd (set_sr_paused (Some v))
    else None
  else if beqb kind (B "num") then
    n <-? find (B "name") a ;; v <-? get_N "v" a ;;
    if beqb n (B "maxbody") then upd (set_max_body (Some v))
    else if beqb n (B "nextnonce") then upd (set_next_nonce (Some v))
    else if beqb n (B "threshold") then upd (set_threshold (Some v))
    else None
  else if beqb kind (B "attester") then
    k <-? get_hex "k" a ;; v <-? get_hex "v" a ;; upd (fun s => set_attesters (insert k v (attesters s)) s)
  else if beqb kind (B "limit") then
    k <-? get_hex "k" a ;; d <-? get_hex "denom" a ;; am <-? get_Z "amt" a ;;
    upd (fun s => set_limits (insert k {| lim_denom := d; lim_amount := am |} (limits s)) s)
  else if beqb kind (B "pair") then
    k <-? get_hex "k" a ;; d <-? get_N "domain" a ;; t <-? get_hex "token" a ;; l <-? get_hex "local" a ;;
    upd (fun s => set_pairs (insert k {| tp_domain := d; tp_token := t; tp_local := l |} (pairs s)) s)
  else if beqb kind (B "messenger") then
    k <-? get_hex "k" a ;; d <-? get_N "domain" a ;; ad <-? get_hex "addr" a ;;
    upd (fun s => set_messengers (insert k {| tm_domain := d; tm_address := ad |} (messengers s)) s)
  else if beqb kind (B "nonce") then
    k <-? get_hex "k" a ;; d <-? get_N "domain" a ;; n <-? get_N "nonce" a ;;
    upd (fun s => set_nonces (insert k {| un_domain := d; un_nonce := n |} (nonces s)) s)
  else if beqb kind (B "bal") then
    k <-? get_hex "k" a ;; am <-? get_Z "amt" a ;; Some {| c_st := s; c_lg := insert k am (c_lg c) |}
  else None.

Definition apply_genesis_line (kind : bytes) (a : list (bytes * bytes)) (g : genesis) : option genesis :=
  let mk o am p t at_ li bm sr mb nn th pa no me :=
    {| g_owner := o; g_attester_manager := am; g_pauser := p; g_token_controller := t; g_attesters := at_;
       g_limits := li; g_bm_paused := bm; g_sr_paused := sr; g_max_body := mb; g_next_nonce := nn; g_threshold := th;
       g_pairs := pa; g_nonces := no; g_messengers := me |} in
  let o := g_owner g in let am := g_attester_manager g in let p := g_pauser g in let t := g_token_controller g in
  let at_ := g_attesters g in let li := g_limits g in let bm := g_bm_paused g in let sr := g_sr_paused g in
  let mb := g_max_body g in let nn := g_next_nonce g in let th := g_threshold g in
  let pa := g_pairs g in let no := g_nonces g in let me := g_messengers g in
  if beqb kind (B "role") then
    n <-? find (B "name") a ;; v <-? get_hex "v" a ;;
    if beqb n (B "owner") then Some (mk v am p t at_ li bm sr mb nn th pa no me)
    else if beqb n (B "attmgr") then Some (mk o v p t at_ li bm sr mb nn th pa no me)
    else if beqb n (B "pauser") then Some (mk o am v t at_ li bm sr mb nn th pa no me)
    else if beqb n (B "tokctl") then Some (mk o am p v at_ li bm sr mb nn th pa no me)
    else None
  else if beqb kind (B "flag") then
    n <-? find (B "name") a ;; v <-? get_bool "v" a ;;
    if beqb n (B "bm") then Some (mk o am p t at_ li (Some v) sr mb nn th pa no me)
    else if beqb n (B "sr") then Some (mk o am p t at_ li bm (Some v) mb nn th pa no me)
    else None
  else if beqb kind (B "num") then
    n <-? find (B "name") a ;; v <-? get_N "v" a ;;
    if beqb n (B "maxbody") then Some (mk o am p t at_ li bm sr (Some v) nn th pa no me)
    else if beqb n (B "nextnonce") then Some (mk o am p t at_ li bm sr mb (Some v) th pa no me)
    else if beqb n (B "threshold") then Some (mk o am p t at_ li bm sr mb nn (Some v) pa no me)
    else None
  else if beqb kind (B "attester") then v <-? get_hex "v" a ;; Some (mk o am p t (at_ ++ [v]) li bm sr mb nn th pa no me)
  else if beqb kind (B "limit") then
    d <-? get_hex "denom" a ;; x <-? get_Z "amt" a ;;
    Some (mk o am p t at_ (li ++ [{| lim_denom := d; lim_amount := x |}]) bm sr mb nn th pa no me)
  else if beqb kind (B "pair") then
    d <-? get_N "domain" a ;; tk <-? get_hex "token" a ;; l <-? get_hex "local" a ;;
    Some (mk o am p t at_ li bm sr mb nn th (pa ++ [{| tp_domain := d; tp_token := tk; tp_local := l |}]) no me)
  else if beqb kind (B "nonce") then
    d <-? get_N "domain" a ;; n <-? get_N "nonce" a ;;
    Some (mk o am p t at_ li bm sr mb nn th pa (no ++ [{| un_domain := d; un_nonce := n |}]) me)
  else if beqb kind (B "messenger") then
    d <-? get_N "domain" a ;; ad <-? get_hex "addr" a ;;
    Some (mk o am p t at_ li bm sr mb nn th pa no (me ++ [{| tm_domain := d; tm_address := ad |}]))
  else None.

Definition print_genesis (g : genesis) : list bytes :=
  [B "role name=owner" ++ kv_hex "v" (g_owner g); B "role name=attmgr" ++ kv_hex "v" (g_attester_manager g);
   B "role name=pauser" ++ kv_hex "v" (g_pauser g); B "role name=tokctl" ++ kv_hex "v" (g_token_controller g)]
  ++ match g_bm_paused g with Some v => [B "flag name=bm" ++ kv_bool "v" v] | None => [] end
  ++ match g_sr_paused g with Some v => [B "flag name=sr" ++ kv_bool "v" v] | None => [] end
  ++ match g_max_body g with Some v => [B "num name=maxbody" ++ kv_N "v" v] | None => [] end
  ++ match g_next_nonce g with Some v => [B "num name=nextnonce" ++ kv_N "v" v] | None => [] end
  ++ match g_threshold g with Some v => [B "num name=threshold" ++ kv_N "v" v] | None => [] end
  ++ map (fun v => B "attester" ++ kv_hex "v" v) (g_attesters g)
  ++ map (fun l => B "limit" ++ kv_hex "denom" (lim_denom l) ++ kv_Z "amt" (lim_amount l)) (g_limits g)
  ++ map (fun p => B "pair" ++ kv_N "domain" (tp_domain p) ++ kv_hex "token" (tp_token p) ++ kv_hex "local" (tp_local p)) (g_pairs g)
  ++ map (fun n => B "nonce" ++ kv_N "domain" (un_domain n) ++ kv_N "nonce" (un_nonce n)) (g_nonces g)
  ++ map (fun m => B "messenger" ++ kv_N "domain" (tm_domain m) ++ kv_hex "addr" (tm_address m)) (g_messengers g).

Definition numbered (tag : string) (n : bytes) (lines : list bytes) : list bytes :=
  map (fun l => B tag ++ sp ++ n ++ sp ++ l) lines.
Fixpoint indexed (tag : string) (n : bytes) (i : N) (lines : list bytes) : list bytes :=
  match lines with
  | [] => []
  | l :: r => (B tag ++ sp ++ n ++ sp ++ dec_of_N i ++ sp ++ l) :: indexed tag n (i + 1) r
  end.

Definition bad (n : bytes) : list bytes := [B "BAD " ++ n].

(* ---------- one line ---------- *)
Definition run_line (d : dstate) (line : bytes) : dstate * list bytes :=
  match words line with
  | [] => (d, [])
  | cmd :: rest =>
    if beqb cmd (B "I") then
      (* implementation observation; only its state lines are read: I S <n> <kind> k=v... *)
      match rest with
      | s :: _ :: kind :: args =>
          if beqb s (B "S") then
            match apply_state_line kind (kvs args) (d_pending d) with
            | Some c => (set_pending c d, [])
            | None => (d, if beqb kind (B "unknown") then [] else [B "BAD state-line " ++ line])
            end
          else (d, [])
      | _ => (d, [])
      end
    else if beqb cmd (B "SYNC") then (set_pending empty_chain (set_chain (d_pending d) d), [])
    else if beqb cmd (B "BEGIN") then
      ({| d_hrp := d_hrp d; d_denom := d_denom d; d_module := d_module d; d_oracle := [];
          d_chain := empty_chain; d_pending := empty_chain; d_gen := empty_genesis; d_sim := None |}, [])
    else if beqb cmd (B "ENV") then
      let a := kvs rest in
      match get_hex "hrp" a, get_hex "denom" a, get_hex "module" a with
      | Some h, Some dn, Some m =>
          ({| d_hrp := h; d_denom := dn; d_module := m; d_oracle := d_oracle d;
              d_chain := d_chain d; d_pending := d_pending d; d_gen := d_gen d; d_sim := d_sim d |}, [])
      | _, _, _ => (d, bad (B "ENV"))
      end
    else if beqb cmd (B "ORACLE") then
      let a := kvs rest in
      match get_hex "d" a, get_hex "s" a, find (B "pk") a with
      | Some dg, Some sg, Some pk =>
          let pk' := match pk with [x2d] => None | _ => hex_decode_strict pk end in
          ({| d_hrp := d_hrp d; d_denom := d_denom d; d_module := d_module d; d_oracle := (dg, sg, pk') :: d_oracle d;
              d_chain := d_chain d; d_pending := d_pending d; d_gen := d_gen d; d_sim := d_sim d |}, [])
      | _, _, _ => (d, bad (B "ORACLE"))
      end
    else if beqb cmd (B "TX") then
      match rest with
      | n :: ty :: args =>
          let a := kvs args in
          match parse_tx ty a with
          | None => (d, bad n)
          | Some t =>
              let plan := match find (B "plan") a with Some p => parse_plan p | None => [] end in
              let r := deliver (env_of d) (d_chain d) plan t in
              let out := match r_out r with
                         | OOk RNone => B "ok"
                         | OOk (RNonce k) => B "ok" ++ kv_N "nonce" k
                         | OOk RSuccess => B "ok success=1"
                         | OErr => B "err"
                         | OPanic => B "panic"
                         | OUnmodelled => B "unmodelled"
                         end in
              (set_sim None (set_chain (r_chain r) d),
               [B "R " ++ n ++ sp ++ out]
               ++ indexed "E" n 0 (map print_event (r_events r))
               ++ indexed "D" n 0 (map print_depcall (r_calls r))
               ++ numbered "DW" n (map print_wtarget (doc_writes t (c_st (d_chain d))))
               ++ (match r_out r with
                   | OOk _ => []
                   | _ => (* did the handler change its own branch before failing? *)
                       [B "WF " ++ n ++ sp ++
                        (if eq_lines (print_state (h_st (r_dirty r)) []) (print_state (c_st (d_chain d)) []) then B "clean" else B "dirty")]
                   end)
               ++ numbered "S" n (print_state (c_st (r_chain r)) (c_lg (r_chain r))))
          end
      | _ => (d, bad (B "TX"))
      end
    else if beqb cmd (B "SIM") then
      (* the message runs on a branch that is dropped whatever the outcome: only the outcome is observable.  A step marked
         chain=1 runs on the branch of the preceding SIM step if that one succeeded (the messages of one transaction, or of
         one simulation, share a branch and stop at the first failure); otherwise the branch starts from the chain. *)
      match rest with
      | n :: ty :: args =>
          let a := kvs args in
          match parse_tx ty a with
          | None => (d, bad n)
          | Some t =>
              let plan := match find (B "plan") a with Some p => parse_plan p | None => [] end in
              let chained := match find (B "chain") a with Some v => beqb v (B "1") | None => false end in
              let base := match d_sim d with Some sc => if chained then sc else d_chain d | None => d_chain d end in
              let r := deliver (env_of d) base plan t in
              let out := match r_out r with
                         | OOk RNone => B "ok"
                         | OOk (RNonce k) => B "ok" ++ kv_N "nonce" k
                         | OOk RSuccess => B "ok success=1"
                         | OErr => B "err"
                         | OPanic => B "panic"
                         | OUnmodelled => B "unmodelled"
                         end in
              (set_sim (match r_out r with OOk _ => Some (r_chain r) | _ => None end) d,
               [B "R " ++ n ++ sp ++ out] ++ numbered "S" n (print_state (c_st (d_chain d)) (c_lg (d_chain d))))
          end
      | _ => (d, bad (B "SIM"))
      end
    else if beqb cmd (B "Q") then
      match rest with
      | n :: ty :: args =>
          match parse_query ty (kvs args) with
          | None => (d, bad n)
          | Some q =>
              (d, [B "QR " ++ n ++ sp ++ match run_query (c_st (d_chain d)) q with
                                          | QOk r => B "ok" ++ print_qresp r
                                          | QErr => B "err"
                                          | QPanic => B "panic"
                                          end])
          end
      | _ => (d, bad (B "Q"))
      end
    else if beqb cmd (B "CODEC") then
      match rest with
      | n :: op :: args =>
          let a := kvs args in
          let out :=
            if beqb op (B "decmsg") then
              match get_hex "bz" a with
              | None => None
              | Some bz => Some (match decode_message bz with
                                 | Some m => B "ok" ++ kv_N "version" (m_version m) ++ kv_N "src" (m_src m) ++ kv_N "dst" (m_dst m)
                                             ++ kv_N "nonce" (m_nonce m) ++ kv_hex "sender" (m_sender m) ++ kv_hex "recipient" (m_recipient m)
                                             ++ kv_hex "caller" (m_caller m) ++ kv_hex "body" (m_body m)
                                 | None => B "err" end)
              end
            else if beqb op (B "encmsg") then
              v <-? get_N "version" a ;; s <-? get_N "src" a ;; ds <-? get_N "dst" a ;; no <-? get_N "nonce" a ;;
              se <-? get_hex "sender" a ;; re <-? get_hex "recipient" a ;; ca <-? get_hex "caller" a ;; bo <-? get_hex "body" a ;;
              Some (match encode_message {| m_version := v; m_src := s; m_dst := ds; m_nonce := no; m_sender := se;
                                            m_recipient := re; m_caller := ca; m_body := bo |} with
                    | Some bz => B "ok" ++ kv_hex "bz" bz | None => B "err" end)
            else if beqb op (B "decburn") then
              match get_hex "bz" a with
              | None => None
              | Some bz => Some (match decode_burn bz with
                                 | Some m => B "ok" ++ kv_N "version" (bm_version m) ++ kv_hex "token" (bm_token m)
                                             ++ kv_hex "recipient" (bm_recipient m) ++ kv_Z "amount" (bm_amount m) ++ kv_hex "sender" (bm_sender m)
                                 | None => B "err" end)
              end
            else if beqb op (B "encburn") then
              v <-? get_N "version" a ;; t <-? get_hex "token" a ;; re <-? get_hex "recipient" a ;; am <-? get_Z "amount" a ;;
              se <-? get_hex "sender" a ;;
              Some (match encode_burn {| bm_version := v; bm_token := t; bm_recipient := re; bm_amount := am; bm_sender := se |} with
                    | Some bz => B "ok" ++ kv_hex "bz" bz | None => B "err" end)
            else if beqb op (B "padtoken") then
              s <-? get_hex "s" a ;;
              Some (match remote_token_padded s with Some bz => B "ok" ++ kv_hex "bz" bz | None => B "err" end)
            else None in
          (d, match out with Some o => [B "C " ++ n ++ sp ++ o] | None => bad n end)
      | _ => (d, bad (B "CODEC"))
      end
    else if beqb cmd (B "VERIFY") then
      match rest with
      | n :: args =>
          let a := kvs args in
          match get_hex "msg" a, get_hex "att" a, get_N "thr" a, find (B "attesters") a with
          | Some m, Some at_, Some thr, Some al =>
              match sequence (map hex_decode_strict (filter (fun w => negb (Nat.eqb (length w) 0)) (split_on x2c al []))) with
              | Some ats =>
                  (d, [B "V " ++ n ++ sp ++ match verify (oracle_lookup (d_oracle d)) m at_ ats thr with
                                             | VAccept => B "accept" | VReject => B "reject" | VPanic => B "panic" end])
              | None => (d, bad n)
              end
          | _, _, _, _ => (d, bad n)
          end
      | _ => (d, bad (B "VERIFY"))
      end
    else if beqb cmd (B "CLIADDR") then
      match rest with
      | n :: args =>
          match get_hex "s" (kvs args) with
          | Some s => (d, [B "A " ++ n ++ sp ++ match parse_address s with
                                                 | AOk bz => B "ok" ++ kv_hex "bz" bz | AErr => B "err" | APanic => B "panic" end])
          | None => (d, bad n)
          end
      | _ => (d, bad (B "CLIADDR"))
      end
    else if beqb cmd (B "G-BEGIN") then (set_gen empty_genesis d, [])
    else if beqb cmd (B "G") then
      match rest with
      | kind :: args =>
          match apply_genesis_line kind (kvs args) (d_gen d) with
          | Some g => (set_gen g d, [])
          | None => (d, [B "BAD genesis-line " ++ line])
          end
      | _ => (d, bad (B "G"))
      end
    else if beqb cmd (B "G-END") then
      (* validate, then initialise a fresh chain from the accumulated genesis *)
      match rest with
      | n :: _ =>
          let g := d_gen d in
          let v := validate (env_of d) g in
          match init_genesis g with
          | Some s =>
              let c := {| c_st := s; c_lg := c_lg (d_chain d) |} in
              (set_chain c d, [B "GV " ++ n ++ sp ++ (if v then B "ok" else B "err"); B "GI " ++ n ++ B " ok"]
                              ++ numbered "S" n (print_state s (c_lg c)))
          | None => (d, [B "GV " ++ n ++ sp ++ (if v then B "ok" else B "err"); B "GI " ++ n ++ B " panic"])
          end
      | _ => (d, bad (B "G-END"))
      end
    else if beqb cmd (B "EXPORT") then
      match rest with
      | n :: _ =>
          match export_genesis (c_st (d_chain d)) with
          | Some g => (d, [B "XR " ++ n ++ B " ok " ++ (if validate (env_of d) g then B "valid" else B "invalid")]
                          ++ numbered "X" n (print_genesis g))
          | None => (d, [B "XR " ++ n ++ B " panic"])
          end
      | _ => (d, bad (B "EXPORT"))
      end
    else (d, [])
  end.

Fixpoint run_lines (d : dstate) (lines : list bytes) : dstate * list bytes :=
  match lines with
  | [] => (d, [])
  | l :: r => let '(d1, o1) := run_line d l in let '(d2, o2) := run_lines d1 r in (d2, o1 ++ o2)
  end.
