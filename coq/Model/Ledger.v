(* Environment, and the reference ledger standing for x/bank and x/fiattokenfactory.
   The harness's Go mocks implement the same rules; the two are compared on every run. *)
From Cctp Require Import Lib.Bytes Lib.SMap Lib.Hex Lib.Bech32.

Record env := {
  hrp : bytes;                  (* bech32 account prefix of the chain *)
  mint_denom : bytes;           (* fiattokenfactory.GetMintingDenom *)
  module_addr : bytes;          (* authtypes.NewModuleAddress("cctp"), 20 bytes *)
  recover : bytes -> bytes -> option bytes }.

Definition bech32_of (e : env) (addr : bytes) : option bytes := encode (hrp e) addr.
Definition module_str (e : env) : bytes := match bech32_of e (module_addr e) with Some s => s | None => [] end.
Definition valid_addr (e : env) (s : bytes) : bool := match acc_address (hrp e) s with Some _ => true | None => false end.

(* what the theorems assume about the environment; checked by computation for the concrete one *)
Definition env_ok (e : env) : bool :=
  Nat.eqb (length (module_addr e)) 20 &&
  match acc_address (hrp e) (module_str e) with Some a => beqb a (module_addr e) | None => false end.

Definition ledger := smap Z.   (* hex(address) ++ "/" ++ denom  |->  balance *)
Definition bal_key (addr denom : bytes) : bytes := hex_encode addr ++ [x2f] ++ denom.
Definition balance (lg : ledger) (addr denom : bytes) : Z :=
  match lookup (bal_key addr denom) lg with Some z => z | None => 0%Z end.
Definition add_balance (lg : ledger) (addr denom : bytes) (d : Z) : ledger :=
  insert (bal_key addr denom) (balance lg addr denom + d)%Z lg.

(* per-call instruction of a dependency plan *)
Inductive directive := DDefault | DFail | DSucceed.

Inductive depcall :=
| DTransfer (from : bytes) (denom : bytes) (amt : Z) (ok : bool)            (* bank: account -> module *)
| DBurn (from : bytes) (denom : bytes) (amt : Z) (ok : bool)                (* fiattokenfactory.Burn *)
| DMint (from to : bytes) (denom : bytes) (amt : Z) (ok : bool).            (* fiattokenfactory.Mint *)

(* reference rules *)
Definition transfer_rule (e : env) (lg : ledger) (from denom : bytes) (amt : Z) : bool :=
  (0 <? amt)%Z && (amt <=? balance lg from denom)%Z.
Definition transfer_effect (e : env) (lg : ledger) (from denom : bytes) (amt : Z) : ledger :=
  add_balance (add_balance lg from denom (- amt)) (module_addr e) denom amt.

Definition burn_rule (e : env) (lg : ledger) (from denom : bytes) (amt : Z) : bool :=
  beqb denom (mint_denom e) && (0 <? amt)%Z &&
  match acc_address (hrp e) from with Some a => (amt <=? balance lg a denom)%Z | None => false end.
Definition burn_effect (e : env) (lg : ledger) (from denom : bytes) (amt : Z) : ledger :=
  match acc_address (hrp e) from with Some a => add_balance lg a denom (- amt) | None => lg end.

Definition mint_rule (e : env) (lg : ledger) (to denom : bytes) (amt : Z) : bool :=
  beqb denom (mint_denom e) && (0 <=? amt)%Z &&
  match acc_address (hrp e) to with Some _ => true | None => false end.
Definition mint_effect (e : env) (lg : ledger) (to denom : bytes) (amt : Z) : ledger :=
  match acc_address (hrp e) to with Some a => add_balance lg a denom amt | None => lg end.

Definition decide (d : directive) (rule : bool) : bool :=
  match d with DDefault => rule | DFail => false | DSucceed => true end.
