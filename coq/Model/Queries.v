(* The 19 gRPC queries of keeper/grpc_query_*.go. *)
From Cctp Require Import Lib.Bytes Lib.SMap Lib.Hex Lib.Paginate.
From Cctp Require Import Model.State.

Inductive query :=
| QLocalDomain | QMessageVersion | QBurnMessageVersion
| QRoles
| QBurningAndMintingPaused | QSendingAndReceivingPaused | QMaxMessageBodySize | QNextAvailableNonce | QSignatureThreshold
| QAttester (a : bytes) | QAttesters (p : page_request)
| QBurnLimit (denom : bytes) | QBurnLimits (p : page_request)
| QTokenPair (domain : N) (token_hex : bytes) | QTokenPairs (p : page_request)
| QUsedNonce (domain nonce : N) | QUsedNonces (p : page_request)
| QMessenger (domain : N) | QMessengers (p : page_request).

Inductive qresp :=
| QNum (n : N)
| QFlag (b : bool)
| QRolesResp (owner attester_manager pauser token_controller : bytes)
| QAttesterResp (a : bytes)
| QLimitResp (l : limit)
| QPairResp (p : token_pair)
| QNonceResp (n : used_nonce)
| QMessengerResp (m : messenger)
| QAttesterList (l : list bytes) (next : bytes) (total : option N)
| QLimitList (l : list limit) (next : bytes) (total : option N)
| QPairList (l : list token_pair) (next : bytes) (total : option N)
| QNonceList (l : list used_nonce) (next : bytes) (total : option N)
| QMessengerList (l : list messenger) (next : bytes) (total : option N).

Inductive qres := QOk (r : qresp) | QErr | QPanic.

(* types.RemoteTokenPadded *)
Definition remote_token_padded (hexs : bytes) : option bytes :=
  match hex_decode_strict (trim_0x hexs) with
  | None => None
  | Some t => if Nat.ltb 32 (length t) then None else Some (left_pad32 t)
  end.

Definition of_opt {A} (f : A -> qresp) (o : option A) : qres :=
  match o with Some a => QOk (f a) | None => QErr end.

Definition of_page {V} (f : list V -> bytes -> option N -> qresp) (p : pres V) : qres :=
  match p with POk l n t => QOk (f l n t) | PErr => QErr | PPanic => QPanic end.

Definition run_query (s : store) (q : query) : qres :=
  match q with
  | QLocalDomain => QOk (QNum 4)
  | QMessageVersion => QOk (QNum 0)
  | QBurnMessageVersion => QOk (QNum 0)
  | QRoles =>
      match owner s, attester_manager s, pauser s, token_controller s with
      | Some o, Some a, Some p, Some t => QOk (QRolesResp o a p t)
      | _, _, _, _ => QPanic
      end
  | QBurningAndMintingPaused => of_opt QFlag (bm_paused s)
  | QSendingAndReceivingPaused => of_opt QFlag (sr_paused s)
  | QMaxMessageBodySize => of_opt QNum (max_body s)
  | QNextAvailableNonce => of_opt QNum (next_nonce s)
  | QSignatureThreshold => of_opt QNum (threshold s)
  | QAttester a => of_opt QAttesterResp (lookup (attester_key a) (attesters s))
  | QAttesters p => of_page QAttesterList (paginate (attesters s) p)
  | QBurnLimit d => of_opt QLimitResp (lookup (limit_key d) (limits s))
  | QBurnLimits p => of_page QLimitList (paginate (limits s) p)
  | QTokenPair d th =>
      match remote_token_padded th with
      | Some t => of_opt QPairResp (lookup (pair_key d t) (pairs s))
      | None => QErr
      end
  | QTokenPairs p => of_page QPairList (paginate (pairs s) p)
  | QUsedNonce d n =>
      if mem (nonce_key d n) (nonces s) then QOk (QNonceResp {| un_domain := d; un_nonce := n |}) else QErr
  | QUsedNonces p => of_page QNonceList (paginate (nonces s) p)
  | QMessenger d => of_opt QMessengerResp (lookup (messenger_key d) (messengers s))
  | QMessengers p => of_page QMessengerList (paginate (messengers s) p)
  end.
