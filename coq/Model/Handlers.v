(* The 25 transaction handlers of keeper/msg_server_*.go, statement by statement and in the Go
   order, in a state / error monad.  A handler returns the *dirty* state exactly as the Go handler
   leaves it (nonce already marked, coins already burnt ...); Model/Chain.v applies the SDK rule
   "keep state and events iff the handler returned no error". *)
From Cctp Require Import Lib.Bytes Lib.SMap Lib.Hex Lib.Keccak Lib.Bech32 Lib.Text.
From Cctp Require Import Model.Codec Model.State Model.Attest Model.Ledger.

Inductive event :=
| EvAttesterEnabled (a : bytes)
| EvAttesterDisabled (a : bytes)
| EvSignatureThresholdUpdated (old new : N)
| EvOwnerUpdated (prev new : bytes)
| EvOwnershipTransferStarted (prev new : bytes)
| EvPauserUpdated (prev new : bytes)
| EvAttesterManagerUpdated (prev new : bytes)
| EvTokenControllerUpdated (prev new : bytes)
| EvBurningAndMintingPaused
| EvBurningAndMintingUnpaused
| EvSendingAndReceivingPaused
| EvSendingAndReceivingUnpaused
| EvDepositForBurn (nonce : N) (burn_token : bytes) (amount : Z) (depositor mint_recipient : bytes)
                   (dest : N) (messenger caller : bytes)
| EvMintAndWithdraw (mint_recipient : bytes) (amount : Z) (token : bytes)
| EvTokenPairLinked (local : bytes) (domain : N) (token : bytes)
| EvTokenPairUnlinked (local : bytes) (domain : N) (token : bytes)
| EvMessageSent (message : bytes)
| EvMessageReceived (caller : bytes) (src nonce : N) (sender body : bytes)
| EvMaxMessageBodySizeUpdated (n : N)
| EvRemoteTokenMessengerAdded (domain : N) (addr : bytes)
| EvRemoteTokenMessengerRemoved (domain : N) (addr : bytes)
| EvSetBurnLimitPerMessage (token : bytes) (amount : Z).

Inductive tx :=
| AcceptOwner (from : bytes)
| AddRemoteTokenMessenger (from : bytes) (domain : N) (address : bytes)
| DepositForBurn (from : bytes) (amount : option Z) (dest : N) (mint_recipient burn_token : bytes)
| DepositForBurnWithCaller (from : bytes) (amount : option Z) (dest : N) (mint_recipient burn_token caller : bytes)
| DisableAttester (from attester : bytes)
| EnableAttester (from attester : bytes)
| LinkTokenPair (from : bytes) (domain : N) (token local : bytes)
| PauseBurningAndMinting (from : bytes)
| PauseSendingAndReceivingMessages (from : bytes)
| ReceiveMessage (from message attestation : bytes)
| RemoveRemoteTokenMessenger (from : bytes) (domain : N)
| ReplaceDepositForBurn (from orig att new_caller new_recipient : bytes)
| ReplaceMessage (from orig att new_body new_caller : bytes)
| SendMessage (from : bytes) (dest : N) (recipient body : bytes)
| SendMessageWithCaller (from : bytes) (dest : N) (recipient body caller : bytes)
| UnlinkTokenPair (from : bytes) (domain : N) (token local : bytes)
| UnpauseBurningAndMinting (from : bytes)
| UnpauseSendingAndReceivingMessages (from : bytes)
| UpdateOwner (from new : bytes)
| UpdateAttesterManager (from new : bytes)
| UpdateTokenController (from new : bytes)
| UpdatePauser (from new : bytes)
| UpdateMaxMessageBodySize (from : bytes) (size : N)
| SetMaxBurnAmountPerMessage (from local : bytes) (amount : option Z)
| UpdateSignatureThreshold (from : bytes) (amount : N).

Inductive resp := RNone | RNonce (n : N) | RSuccess.

(* ---------- small pure helpers (named so that proofs can treat them as atoms) ---------- *)
Definition two64 : N := 18446744073709551616.
(* GetNextAvailableNonce: 0 when unset *)
Definition nn (s : store) : N := match next_nonce s with Some n => n | None => 0%N end.
(* ReserveAndIncrementNonce: uint64 arithmetic *)
Definition bump (s : store) : store := set_next_nonce (Some ((nn s + 1) mod two64)%N) s.
(* GetSignatureThreshold: 0 when unset *)
Definition thr_or0 (s : store) : N := match threshold s with Some t => t | None => 0%N end.
(* "found && len(body) > max" fails *)
Definition body_fits (s : store) (body : bytes) : bool :=
  match max_body s with Some m => negb (m <? N.of_nat (length body))%N | None => true end.
(* "found && amount.GT(limit)" fails; the key is the lower-cased token *)
Definition limit_ok (s : store) (denom : bytes) (a : Z) : bool :=
  match lookup (limit_key denom) (limits s) with Some l => negb (lim_amount l <? a)%Z | None => true end.

(* ---------- the monad ---------- *)
Inductive res (A : Type) := ROk (a : A) | RErr | RPanic | RUnmodelled.
Arguments ROk {A}. Arguments RErr {A}. Arguments RPanic {A}. Arguments RUnmodelled {A}.

Record hstate := {
  h_st : store; h_lg : ledger; h_plan : list directive; h_ev : list event; h_dc : list depcall }.

Definition M (A : Type) := hstate -> res A * hstate.
Definition ret {A} (a : A) : M A := fun h => (ROk a, h).
Definition bind {A B} (m : M A) (f : A -> M B) : M B :=
  fun h => match m h with
           | (ROk a, h') => f a h'
           | (RErr, h') => (RErr, h')
           | (RPanic, h') => (RPanic, h')
           | (RUnmodelled, h') => (RUnmodelled, h')
           end.
Definition fail {A} : M A := fun h => (RErr, h).
Definition panic {A} : M A := fun h => (RPanic, h).
Definition unmodelled {A} : M A := fun h => (RUnmodelled, h).
Definition guard (b : bool) : M unit := if b then ret tt else fail.
Definition require_modelled (b : bool) : M unit := if b then ret tt else unmodelled.
Definition lift_opt {A} (o : option A) : M A := match o with Some a => ret a | None => fail end.
Definition get_st : M store := fun h => (ROk (h_st h), h).
Definition mod_st (f : store -> store) : M unit :=
  fun h => (ROk tt, {| h_st := f (h_st h); h_lg := h_lg h; h_plan := h_plan h; h_ev := h_ev h; h_dc := h_dc h |}).
Definition emit (e : event) : M unit :=
  fun h => (ROk tt, {| h_st := h_st h; h_lg := h_lg h; h_plan := h_plan h; h_ev := h_ev h ++ [e]; h_dc := h_dc h |}).

Notation "x <- m ;; k" := (bind m (fun x => k)) (at level 61, m at next level, right associativity).
Notation "m ;;; k" := (bind m (fun _ => k)) (at level 61, right associativity).

(* role getters panic on an unset slot *)
Definition role (f : store -> option bytes) : M bytes :=
  s <- get_st ;; match f s with Some r => ret r | None => panic end.

(* one dependency call: take the next directive of the plan, decide, record, apply *)
Definition next_directive (plan : list directive) : directive := match plan with [] => DDefault | d :: _ => d end.
Definition dep (rule : ledger -> bool) (effect : ledger -> ledger) (mk : bool -> depcall) : M unit :=
  fun h =>
    let ok := decide (next_directive (h_plan h)) (rule (h_lg h)) in
    let h' := {| h_st := h_st h; h_lg := if ok then effect (h_lg h) else h_lg h; h_plan := tl (h_plan h);
                 h_ev := h_ev h; h_dc := h_dc h ++ [mk ok] |} in
    (if ok then ROk tt else RErr, h').

Section Handlers.
  Variable e : env.

  Definition dep_transfer (from denom : bytes) (amt : Z) : M unit :=
    dep (fun lg => transfer_rule e lg from denom amt) (fun lg => transfer_effect e lg from denom amt)
        (DTransfer from denom amt).
  Definition dep_burn (from denom : bytes) (amt : Z) : M unit :=
    dep (fun lg => burn_rule e lg from denom amt) (fun lg => burn_effect e lg from denom amt)
        (DBurn from denom amt).
  Definition dep_mint (from to denom : bytes) (amt : Z) : M unit :=
    dep (fun lg => mint_rule e lg to denom amt) (fun lg => mint_effect e lg to denom amt)
        (DMint from to denom amt).

  (* ---------- roles ---------- *)
  Definition h_update_owner (from new : bytes) : M resp :=
    prev <- role owner ;;
    guard (beqb prev from) ;;;
    guard (valid_addr e new) ;;;
    mod_st (set_pending_owner (Some new)) ;;;
    emit (EvOwnershipTransferStarted prev new) ;;;
    ret RNone.

  Definition h_accept_owner (from : bytes) : M resp :=
    cur <- role owner ;;
    s <- get_st ;;
    pend <- lift_opt (pending_owner s) ;;
    guard (beqb pend from) ;;;
    mod_st (set_owner (Some pend)) ;;;
    mod_st (set_pending_owner None) ;;;
    emit (EvOwnerUpdated cur pend) ;;;
    ret RNone.

  Definition h_update_attester_manager (from new : bytes) : M resp :=
    o <- role owner ;;
    guard (beqb o from) ;;;
    guard (valid_addr e new) ;;;
    prev <- role attester_manager ;;
    mod_st (set_attester_manager (Some new)) ;;;
    emit (EvAttesterManagerUpdated prev new) ;;;
    ret RNone.

  Definition h_update_pauser (from new : bytes) : M resp :=
    o <- role owner ;;
    guard (beqb o from) ;;;
    guard (valid_addr e new) ;;;
    prev <- role pauser ;;
    mod_st (set_pauser (Some new)) ;;;
    emit (EvPauserUpdated prev new) ;;;
    ret RNone.

  Definition h_update_token_controller (from new : bytes) : M resp :=
    o <- role owner ;;
    guard (beqb o from) ;;;
    guard (valid_addr e new) ;;;
    prev <- role token_controller ;;
    mod_st (set_token_controller (Some new)) ;;;
    emit (EvTokenControllerUpdated prev new) ;;;
    ret RNone.

  (* ---------- owner: configuration ---------- *)
  Definition h_update_max_body (from : bytes) (size : N) : M resp :=
    o <- role owner ;;
    guard (beqb o from) ;;;
    mod_st (set_max_body (Some size)) ;;;
    emit (EvMaxMessageBodySizeUpdated size) ;;;
    ret RNone.

  Definition h_add_messenger (from : bytes) (domain : N) (address : bytes) : M resp :=
    o <- role owner ;;
    guard (beqb o from) ;;;
    s <- get_st ;;
    guard (negb (mem (messenger_key domain) (messengers s))) ;;;
    guard (Nat.eqb (length address) 32) ;;;
    mod_st (fun s => set_messengers (insert (messenger_key domain) {| tm_domain := domain; tm_address := address |} (messengers s)) s) ;;;
    emit (EvRemoteTokenMessengerAdded domain address) ;;;
    ret RNone.

  Definition h_remove_messenger (from : bytes) (domain : N) : M resp :=
    o <- role owner ;;
    guard (beqb o from) ;;;
    s <- get_st ;;
    old <- lift_opt (lookup (messenger_key domain) (messengers s)) ;;
    mod_st (fun s => set_messengers (remove (messenger_key domain) (messengers s)) s) ;;;
    emit (EvRemoteTokenMessengerRemoved domain (tm_address old)) ;;;
    ret RNone.

  (* ---------- attester manager ---------- *)
  Definition len32 {A} (l : list A) : N := (N.of_nat (length l) mod 4294967296)%N.   (* uint32(len(..)) *)

  Definition h_enable_attester (from a : bytes) : M resp :=
    am <- role attester_manager ;;
    guard (beqb am from) ;;;
    guard (negb (Nat.eqb (length (from_hex a)) 0)) ;;;
    s <- get_st ;;
    guard (negb (mem (attester_key a) (attesters s))) ;;;
    mod_st (fun s => set_attesters (insert (attester_key a) a (attesters s)) s) ;;;
    emit (EvAttesterEnabled a) ;;;
    ret RNone.

  Definition h_disable_attester (from a : bytes) : M resp :=
    am <- role attester_manager ;;
    guard (beqb am from) ;;;
    guard (negb (Nat.eqb (length (from_hex a)) 0)) ;;;
    s <- get_st ;;
    guard (mem (attester_key a) (attesters s)) ;;;
    guard (negb (Nat.eqb (length (attesters s)) 1)) ;;;
    thr <- lift_opt (threshold s) ;;
    guard (negb (len32 (attesters s) <=? thr)%N) ;;;
    mod_st (fun s => set_attesters (remove (attester_key a) (attesters s)) s) ;;;
    emit (EvAttesterDisabled a) ;;;
    ret RNone.

  Definition h_update_threshold (from : bytes) (n : N) : M resp :=
    am <- role attester_manager ;;
    guard (beqb am from) ;;;
    guard (negb (n =? 0)%N) ;;;
    s <- get_st ;;
    let old := thr_or0 s in
    guard (negb (n =? old)%N) ;;;
    guard (negb (len32 (attesters s) <? n)%N) ;;;
    mod_st (set_threshold (Some n)) ;;;
    emit (EvSignatureThresholdUpdated old n) ;;;
    ret RNone.

  (* ---------- pauser ---------- *)
  Definition h_set_bm (from : bytes) (v : bool) : M resp :=
    p <- role pauser ;;
    guard (beqb p from) ;;;
    mod_st (set_bm_paused (Some v)) ;;;
    emit (if v then EvBurningAndMintingPaused else EvBurningAndMintingUnpaused) ;;;
    ret RNone.

  Definition h_set_sr (from : bytes) (v : bool) : M resp :=
    p <- role pauser ;;
    guard (beqb p from) ;;;
    mod_st (set_sr_paused (Some v)) ;;;
    emit (if v then EvSendingAndReceivingPaused else EvSendingAndReceivingUnpaused) ;;;
    ret RNone.

  (* ---------- token controller ---------- *)
  Definition h_link_pair (from : bytes) (domain : N) (token local : bytes) : M resp :=
    tc <- role token_controller ;;
    guard (beqb tc from) ;;;
    guard (Nat.eqb (length token) 32) ;;;
    s <- get_st ;;
    guard (negb (mem (pair_key domain token) (pairs s))) ;;;
    require_modelled (text_ok local) ;;;
    let p := {| tp_domain := domain; tp_token := token; tp_local := to_lower local |} in
    mod_st (fun s => set_pairs (insert (pair_key domain token) p (pairs s)) s) ;;;
    emit (EvTokenPairLinked (to_lower local) domain token) ;;;
    ret RNone.

  Definition h_unlink_pair (from : bytes) (domain : N) (token local : bytes) : M resp :=
    tc <- role token_controller ;;
    guard (beqb tc from) ;;;
    guard (Nat.eqb (length token) 32) ;;;
    s <- get_st ;;
    p <- lift_opt (lookup (pair_key domain token) (pairs s)) ;;
    mod_st (fun s => set_pairs (remove (pair_key domain (tp_token p)) (pairs s)) s) ;;;
    emit (EvTokenPairUnlinked (tp_local p) (tp_domain p) token) ;;;
    ret RNone.

  Definition h_set_limit (from local : bytes) (amount : option Z) : M resp :=
    tc <- role token_controller ;;
    guard (beqb tc from) ;;;
    require_modelled (text_ok local) ;;;
    let a := match amount with Some a => a | None => 0%Z end in      (* an absent Int marshals as 0 *)
    let d := to_lower local in
    mod_st (fun s => set_limits (insert (limit_key d) {| lim_denom := d; lim_amount := a |} (limits s)) s) ;;;
    emit (EvSetBurnLimitPerMessage d a) ;;;
    ret RNone.

  (* ---------- sending ---------- *)
  Definition send_message (dest : N) (recipient caller sender : bytes) (nonce : N) (body : bytes) : M unit :=
    s <- get_st ;;
    guard (negb (flag_on (sr_paused s))) ;;;
    guard (body_fits s body) ;;;
    guard (negb (Nat.eqb (length recipient) 0 || is_zeros recipient)) ;;;
    bz <- lift_opt (encode_message {| m_version := 0; m_src := 4; m_dst := dest; m_nonce := nonce;
                                      m_sender := sender; m_recipient := recipient; m_caller := caller;
                                      m_body := body |}) ;;
    emit (EvMessageSent bz).

  (* ReserveAndIncrementNonce: uint64 arithmetic *)
  Definition reserve_nonce : M N :=
    s <- get_st ;;
    mod_st bump ;;;
    ret (nn s).

  Definition h_send_message (from : bytes) (dest : N) (recipient body : bytes) : M N :=
    addr <- lift_opt (acc_address (hrp e) from) ;;
    n <- reserve_nonce ;;
    send_message dest recipient (zeros 32) (copy12 addr) n body ;;;
    ret n.

  Definition h_send_message_with_caller (from : bytes) (dest : N) (recipient body caller : bytes) : M N :=
    addr <- lift_opt (acc_address (hrp e) from) ;;
    guard (Nat.eqb (length caller) 32 && negb (is_zeros caller)) ;;;
    n <- reserve_nonce ;;
    send_message dest recipient caller (copy12 addr) n body ;;;
    ret n.

  (* ---------- attestation against the current store ---------- *)
  Definition verify_now (s : store) (msg att : bytes) (thr : N) : M unit :=
    match verify (recover e) msg att (values (attesters s)) thr with
    | VAccept => ret tt
    | VReject => fail
    | VPanic => panic
    end.

  Definition h_replace_message (from orig att new_body new_caller : bytes) : M resp :=
    s <- get_st ;;
    guard (negb (flag_on (sr_paused s))) ;;;
    thr <- lift_opt (threshold s) ;;
    verify_now s orig att thr ;;;
    m <- lift_opt (decode_message orig) ;;
    addr <- lift_opt (acc_address (hrp e) from) ;;
    guard (beqb (copy12 addr) (m_sender m)) ;;;
    guard (m_src m =? 4)%N ;;;
    send_message (m_dst m) (m_recipient m) new_caller (m_sender m) (m_nonce m) new_body ;;;
    ret RNone.

  Definition h_replace_deposit (from orig att new_caller new_recipient : bytes) : M resp :=
    s <- get_st ;;
    guard (negb (flag_on (bm_paused s))) ;;;
    m <- lift_opt (decode_message orig) ;;
    b <- lift_opt (decode_burn (m_body m)) ;;
    addr <- lift_opt (acc_address (hrp e) from) ;;
    guard (beqb (copy12 addr) (bm_sender b)) ;;;
    guard (negb (beqb (zeros 32) new_recipient)) ;;;
    body <- lift_opt (encode_burn {| bm_version := bm_version b; bm_token := bm_token b; bm_recipient := new_recipient;
                                     bm_amount := bm_amount b; bm_sender := bm_sender b |}) ;;
    h_replace_message (module_str e) orig att body new_caller ;;;
    emit (EvDepositForBurn (m_nonce m) (hex_encode (bm_token b)) (bm_amount b) from new_recipient
                           (m_dst m) (m_recipient m) new_caller) ;;;
    ret RNone.

  (* ---------- deposit ---------- *)
  Definition deposit_for_burn (from : bytes) (amount : option Z) (dest : N)
             (mint_recipient burn_token caller : bytes) : M resp :=
    addr <- lift_opt (acc_address (hrp e) from) ;;
    a <- lift_opt amount ;;
    guard (0 <? a)%Z ;;;
    guard (negb (beqb mint_recipient (zeros 32))) ;;;
    s <- get_st ;;
    tm <- lift_opt (lookup (messenger_key dest) (messengers s)) ;;
    require_modelled (text_ok burn_token) ;;;
    guard (equal_fold (mint_denom e) burn_token) ;;;
    guard (negb (flag_on (bm_paused s))) ;;;
    guard (limit_ok s (to_lower burn_token) a) ;;;
    guard (valid_denom burn_token) ;;;
    dep_transfer addr burn_token a ;;;
    dep_burn (module_str e) burn_token a ;;;
    let token := keccak256 (to_lower burn_token) in
    body <- lift_opt (encode_burn {| bm_version := 0; bm_token := token; bm_recipient := mint_recipient;
                                     bm_amount := a; bm_sender := copy12 addr |}) ;;
    n <- (if Nat.eqb (length caller) 0
          then h_send_message (module_str e) dest (tm_address tm) body
          else h_send_message_with_caller (module_str e) dest (tm_address tm) body caller) ;;
    emit (EvDepositForBurn n (hex_encode token) a from mint_recipient dest (tm_address tm) caller) ;;;
    ret (RNonce n).

  Definition h_deposit_with_caller (from : bytes) (amount : option Z) (dest : N)
             (mint_recipient burn_token caller : bytes) : M resp :=
    guard (negb (Nat.eqb (length caller) 0 || beqb caller (zeros 32))) ;;;
    deposit_for_burn from amount dest mint_recipient burn_token caller.

  (* ---------- receive ---------- *)
  (* destination caller: all-zero, or names the submitting account *)
  Definition caller_ok (caller from : bytes) : bool :=
    if is_zeros caller then true else
    match bech32_of e (skipn 12 caller) with Some c => beqb c from | None => false end.

  Definition mint_branch (s : store) (m : message) : M unit :=
    guard (negb (flag_on (bm_paused s))) ;;;
    b <- lift_opt (decode_burn (m_body m)) ;;
    guard (bm_version b =? 0)%N ;;;
    p <- lift_opt (lookup (pair_key (m_src m) (bm_token b)) (pairs s)) ;;
    tm <- lift_opt (lookup (messenger_key (m_src m)) (messengers s)) ;;
    guard (beqb (m_sender m) (tm_address tm)) ;;;
    to <- lift_opt (bech32_of e (skipn 12 (bm_recipient b))) ;;
    require_modelled (text_ok (tp_local p)) ;;;
    dep_mint (module_str e) to (to_lower (tp_local p)) (bm_amount b) ;;;
    emit (EvMintAndWithdraw (bm_recipient b) (bm_amount b) (to_lower (tp_local p))).

  Definition h_receive (from msg att : bytes) : M resp :=
    s <- get_st ;;
    guard (negb (flag_on (sr_paused s))) ;;;
    guard (negb (Nat.eqb (length (attesters s)) 0)) ;;;
    thr <- lift_opt (threshold s) ;;
    verify_now s msg att thr ;;;
    m <- lift_opt (decode_message msg) ;;
    guard (m_dst m =? 4)%N ;;;
    guard (caller_ok (m_caller m) from) ;;;
    guard (m_version m =? 0)%N ;;;
    guard (negb (mem (nonce_key (m_src m) (m_nonce m)) (nonces s))) ;;;
    mod_st (fun s => set_nonces (insert (nonce_key (m_src m) (m_nonce m))
                                        {| un_domain := m_src m; un_nonce := m_nonce m |} (nonces s)) s) ;;;
    (if beqb (m_recipient m) (copy12 (module_addr e)) then mint_branch s m else ret tt) ;;;
    emit (EvMessageReceived from (m_src m) (m_nonce m) (m_sender m) (m_body m)) ;;;
    ret RSuccess.

  Definition lift_nonce (m : M N) : M resp := n <- m ;; ret (RNonce n).

  Definition handler (t : tx) : M resp :=
    match t with
    | AcceptOwner from => h_accept_owner from
    | AddRemoteTokenMessenger from d a => h_add_messenger from d a
    | DepositForBurn from a d mr bt => deposit_for_burn from a d mr bt []
    | DepositForBurnWithCaller from a d mr bt c => h_deposit_with_caller from a d mr bt c
    | DisableAttester from a => h_disable_attester from a
    | EnableAttester from a => h_enable_attester from a
    | LinkTokenPair from d t l => h_link_pair from d t l
    | PauseBurningAndMinting from => h_set_bm from true
    | PauseSendingAndReceivingMessages from => h_set_sr from true
    | ReceiveMessage from m a => h_receive from m a
    | RemoveRemoteTokenMessenger from d => h_remove_messenger from d
    | ReplaceDepositForBurn from o a c r => h_replace_deposit from o a c r
    | ReplaceMessage from o a b c => h_replace_message from o a b c
    | SendMessage from d r b => lift_nonce (h_send_message from d r b)
    | SendMessageWithCaller from d r b c => lift_nonce (h_send_message_with_caller from d r b c)
    | UnlinkTokenPair from d t l => h_unlink_pair from d t l
    | UnpauseBurningAndMinting from => h_set_bm from false
    | UnpauseSendingAndReceivingMessages from => h_set_sr from false
    | UpdateOwner from n => h_update_owner from n
    | UpdateAttesterManager from n => h_update_attester_manager from n
    | UpdateTokenController from n => h_update_token_controller from n
    | UpdatePauser from n => h_update_pauser from n
    | UpdateMaxMessageBodySize from n => h_update_max_body from n
    | SetMaxBurnAmountPerMessage from l a => h_set_limit from l a
    | UpdateSignatureThreshold from n => h_update_threshold from n
    end.
End Handlers.
