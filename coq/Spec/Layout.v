(* The CCTP wire layouts, written from Circle's specification with literal offsets and with no
   reference to Model/Codec.v or to the Go constants.

   Message header (116 bytes, big-endian):
     [0,4)   version            uint32
     [4,8)   source domain      uint32
     [8,12)  destination domain uint32
     [12,20) nonce              uint64
     [20,52) sender             bytes32
     [52,84) recipient          bytes32
     [84,116) destination caller bytes32
     [116,..) message body
   Burn message (exactly 132 bytes):
     [0,4)    version        uint32
     [4,36)   burn token     bytes32
     [36,68)  mint recipient bytes32
     [68,100) amount         uint256
     [100,132) message sender bytes32                                                        *)
From Cctp Require Import Lib.Bytes.
Local Open Scope N_scope.

(* value of the big-endian integer held in bytes [off, off+w) *)
Fixpoint uint_at (w : nat) (off : nat) (bs : bytes) : N :=
  match w with
  | O => 0
  | S k => uint_at k off bs * 256 + bN (nth (off + k) bs x00)
  end.
Definition field_at (off len : nat) (bs : bytes) : bytes := map (fun i => nth i bs x00) (seq off len).

Record ref_message := {
  r_version : N; r_src : N; r_dst : N; r_nonce : N;
  r_sender : bytes; r_recipient : bytes; r_caller : bytes; r_body : bytes }.

Definition ref_decode_message (bs : bytes) : option ref_message :=
  if Nat.ltb (length bs) 116 then None else
  Some {| r_version := uint_at 4 0 bs; r_src := uint_at 4 4 bs; r_dst := uint_at 4 8 bs; r_nonce := uint_at 8 12 bs;
          r_sender := field_at 20 32 bs; r_recipient := field_at 52 32 bs; r_caller := field_at 84 32 bs;
          r_body := field_at 116 (length bs - 116) bs |}.

(* the i-th byte (from the most significant) of a w-byte big-endian integer *)
Definition be_byte (w : nat) (n : N) (i : nat) : byte := byte_of_N (n / 256 ^ N.of_nat (w - 1 - i)).
Definition be_bytes (w : nat) (n : N) : bytes := map (be_byte w n) (seq 0 w).

Definition ref_encode_message (m : ref_message) : option bytes :=
  if Nat.eqb (length (r_sender m)) 32 && Nat.eqb (length (r_recipient m)) 32 && Nat.eqb (length (r_caller m)) 32
  then Some (be_bytes 4 (r_version m) ++ be_bytes 4 (r_src m) ++ be_bytes 4 (r_dst m) ++ be_bytes 8 (r_nonce m)
             ++ r_sender m ++ r_recipient m ++ r_caller m ++ r_body m)
  else None.

Record ref_burn := { rb_version : N; rb_token : bytes; rb_recipient : bytes; rb_amount : N; rb_sender : bytes }.

Definition ref_decode_burn (bs : bytes) : option ref_burn :=
  if Nat.eqb (length bs) 132 then
    Some {| rb_version := uint_at 4 0 bs; rb_token := field_at 4 32 bs; rb_recipient := field_at 36 32 bs;
            rb_amount := uint_at 32 68 bs; rb_sender := field_at 100 32 bs |}
  else None.

Definition ref_encode_burn (m : ref_burn) : option bytes :=
  if Nat.eqb (length (rb_token m)) 32 && Nat.eqb (length (rb_recipient m)) 32 && Nat.eqb (length (rb_sender m)) 32
  then Some (be_bytes 4 (rb_version m) ++ rb_token m ++ rb_recipient m ++ be_bytes 32 (rb_amount m) ++ rb_sender m)
  else None.
