(* The role table of the property text: which role slot authorises which of the 18 privileged
   transaction types, and who submitted a transaction. *)
From Cctp Require Import Lib.Bytes Lib.SMap.
From Cctp Require Import Model.State Model.Handlers.

Inductive role_name := ROwner | RAttesterManager | RPauser | RTokenController | RPendingOwner.

Definition role_of (t : tx) : option role_name :=
  match t with
  | UpdateOwner _ _ | UpdateAttesterManager _ _ | UpdatePauser _ _ | UpdateTokenController _ _
  | UpdateMaxMessageBodySize _ _ | AddRemoteTokenMessenger _ _ _ | RemoveRemoteTokenMessenger _ _ => Some ROwner
  | EnableAttester _ _ | DisableAttester _ _ | UpdateSignatureThreshold _ _ => Some RAttesterManager
  | PauseBurningAndMinting _ | UnpauseBurningAndMinting _
  | PauseSendingAndReceivingMessages _ | UnpauseSendingAndReceivingMessages _ => Some RPauser
  | LinkTokenPair _ _ _ _ | UnlinkTokenPair _ _ _ _ | SetMaxBurnAmountPerMessage _ _ _ => Some RTokenController
  | AcceptOwner _ => Some RPendingOwner
  | _ => None
  end.

Definition holder (r : role_name) (s : store) : option bytes :=
  match r with
  | ROwner => owner s | RAttesterManager => attester_manager s | RPauser => pauser s
  | RTokenController => token_controller s | RPendingOwner => pending_owner s
  end.

Definition submitter (t : tx) : bytes :=
  match t with
  | AcceptOwner f | AddRemoteTokenMessenger f _ _ | DepositForBurn f _ _ _ _ | DepositForBurnWithCaller f _ _ _ _ _
  | DisableAttester f _ | EnableAttester f _ | LinkTokenPair f _ _ _ | PauseBurningAndMinting f
  | PauseSendingAndReceivingMessages f | ReceiveMessage f _ _ | RemoveRemoteTokenMessenger f _
  | ReplaceDepositForBurn f _ _ _ _ | ReplaceMessage f _ _ _ _ | SendMessage f _ _ _ | SendMessageWithCaller f _ _ _ _
  | UnlinkTokenPair f _ _ _ | UnpauseBurningAndMinting f | UnpauseSendingAndReceivingMessages f
  | UpdateOwner f _ | UpdateAttesterManager f _ | UpdateTokenController f _ | UpdatePauser f _
  | UpdateMaxMessageBodySize f _ | SetMaxBurnAmountPerMessage f _ _ | UpdateSignatureThreshold f _ => f
  end.

(* the four role slots every initialised chain has (InitGenesis writes them; nothing deletes them) *)
Definition roles_set (s : store) : Prop :=
  owner s <> None /\ attester_manager s <> None /\ pauser s <> None /\ token_controller s <> None.

(* the 18 privileged transaction types *)
Definition privileged (t : tx) : bool := match role_of t with Some _ => true | None => false end.
