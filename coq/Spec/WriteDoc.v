(* The documented write set of every transaction type (x/cctp/spec/02_messages.md and the property
   text): which store entries a transaction may change.  Everything not listed must be unchanged. *)
From Cctp Require Import Lib.Bytes Lib.SMap Lib.Text.
From Cctp Require Import Model.Codec Model.State Model.Handlers.

Inductive wtarget :=
| WOwner | WPending | WAttMgr | WPauser | WTokCtl
| WBm | WSr | WMaxBody | WNextNonce | WThreshold
| WAttester (k : bytes) | WLimit (k : bytes) | WPair (k : bytes) | WMessenger (k : bytes) | WNonce (k : bytes).

Definition doc_writes (t : tx) (s : store) : list wtarget :=
  match t with
  | AcceptOwner _ => [WOwner; WPending]
  | AddRemoteTokenMessenger _ d _ => [WMessenger (messenger_key d)]
  | DepositForBurn _ _ _ _ _ => [WNextNonce]
  | DepositForBurnWithCaller _ _ _ _ _ _ => [WNextNonce]
  | DisableAttester _ a => [WAttester (attester_key a)]
  | EnableAttester _ a => [WAttester (attester_key a)]
  | LinkTokenPair _ d t _ => [WPair (pair_key d t)]
  | PauseBurningAndMinting _ => [WBm]
  | PauseSendingAndReceivingMessages _ => [WSr]
  | ReceiveMessage _ m _ =>
      match decode_message m with
      | Some mm => [WNonce (nonce_key (m_src mm) (m_nonce mm))]
      | None => []
      end
  | RemoveRemoteTokenMessenger _ d => [WMessenger (messenger_key d)]
  | ReplaceDepositForBurn _ _ _ _ _ => []
  | ReplaceMessage _ _ _ _ _ => []
  | SendMessage _ _ _ _ => [WNextNonce]
  | SendMessageWithCaller _ _ _ _ _ => [WNextNonce]
  | UnlinkTokenPair _ d t _ =>
      (* the entry stored for (domain, token); the code deletes the key derived from the stored token *)
      match lookup (pair_key d t) (pairs s) with
      | Some p => [WPair (pair_key d (tp_token p))]
      | None => []
      end
  | UnpauseBurningAndMinting _ => [WBm]
  | UnpauseSendingAndReceivingMessages _ => [WSr]
  | UpdateOwner _ _ => [WPending]
  | UpdateAttesterManager _ _ => [WAttMgr]
  | UpdateTokenController _ _ => [WTokCtl]
  | UpdatePauser _ _ => [WPauser]
  | UpdateMaxMessageBodySize _ _ => [WMaxBody]
  | SetMaxBurnAmountPerMessage _ l _ => [WLimit (limit_key (to_lower l))]
  | UpdateSignatureThreshold _ _ => [WThreshold]
  end.

(* s and s' agree on every entry outside ws *)
Definition agree_except (ws : list wtarget) (s s' : store) : Prop :=
  (~ In WOwner ws -> owner s = owner s') /\
  (~ In WPending ws -> pending_owner s = pending_owner s') /\
  (~ In WAttMgr ws -> attester_manager s = attester_manager s') /\
  (~ In WPauser ws -> pauser s = pauser s') /\
  (~ In WTokCtl ws -> token_controller s = token_controller s') /\
  (~ In WBm ws -> bm_paused s = bm_paused s') /\
  (~ In WSr ws -> sr_paused s = sr_paused s') /\
  (~ In WMaxBody ws -> max_body s = max_body s') /\
  (~ In WNextNonce ws -> next_nonce s = next_nonce s') /\
  (~ In WThreshold ws -> threshold s = threshold s') /\
  (forall k, ~ In (WAttester k) ws -> lookup k (attesters s) = lookup k (attesters s')) /\
  (forall k, ~ In (WLimit k) ws -> lookup k (limits s) = lookup k (limits s')) /\
  (forall k, ~ In (WPair k) ws -> lookup k (pairs s) = lookup k (pairs s')) /\
  (forall k, ~ In (WMessenger k) ws -> lookup k (messengers s) = lookup k (messengers s')) /\
  (forall k, ~ In (WNonce k) ws -> lookup k (nonces s) = lookup k (nonces s')).
