(* The documented role lifecycle as a small automaton over the five role slots
   (owner, pending owner, attester manager, pauser, token controller). *)
From Cctp Require Import Lib.Bytes Lib.SMap.
From Cctp Require Import Model.State Model.Handlers.

Record roles5 := { r_owner : option bytes; r_pending : option bytes; r_attmgr : option bytes;
                   r_pauser : option bytes; r_tokctl : option bytes }.

Definition roles_of (s : store) : roles5 :=
  {| r_owner := owner s; r_pending := pending_owner s; r_attmgr := attester_manager s;
     r_pauser := pauser s; r_tokctl := token_controller s |}.

Definition is_holder (from : bytes) (o : option bytes) : bool :=
  match o with Some x => beqb x from | None => false end.

(* [valid] = syntactic validity of an address string *)
Definition lifecycle_step (valid : bytes -> bool) (r : roles5) (t : tx) : roles5 :=
  match t with
  | UpdateOwner from new =>
      if is_holder from (r_owner r) && valid new
      then {| r_owner := r_owner r; r_pending := Some new; r_attmgr := r_attmgr r; r_pauser := r_pauser r; r_tokctl := r_tokctl r |}
      else r
  | AcceptOwner from =>
      if is_holder from (r_pending r)
      then {| r_owner := r_pending r; r_pending := None; r_attmgr := r_attmgr r; r_pauser := r_pauser r; r_tokctl := r_tokctl r |}
      else r
  | UpdateAttesterManager from new =>
      if is_holder from (r_owner r) && valid new
      then {| r_owner := r_owner r; r_pending := r_pending r; r_attmgr := Some new; r_pauser := r_pauser r; r_tokctl := r_tokctl r |}
      else r
  | UpdatePauser from new =>
      if is_holder from (r_owner r) && valid new
      then {| r_owner := r_owner r; r_pending := r_pending r; r_attmgr := r_attmgr r; r_pauser := Some new; r_tokctl := r_tokctl r |}
      else r
  | UpdateTokenController from new =>
      if is_holder from (r_owner r) && valid new
      then {| r_owner := r_owner r; r_pending := r_pending r; r_attmgr := r_attmgr r; r_pauser := r_pauser r; r_tokctl := Some new |}
      else r
  | _ => r      (* every other transaction type, accepted or not, is the identity on all five slots *)
  end.
