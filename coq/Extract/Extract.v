(* Extraction of the executable model. Only ExtrOcamlBasic's directives are used (bool, option,
   list, prod, unit, sumbool mapped to OCaml's); numbers and bytes stay Coq datatypes. *)
From Cctp Require Import Lib.Bytes Model.Driver.
Require Extraction.
Require Import ExtrOcamlBasic.
Definition drv_byte_of_N (n : N) : byte := byte_of_N n.
Definition drv_N_of_byte (b : byte) : N := bN b.
Extraction "model.ml" run_line init_dstate drv_byte_of_N drv_N_of_byte.
