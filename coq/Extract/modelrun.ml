(* Driver for the extracted model: one script line in, the model's observation lines out.
   The only glue is the conversion between OCaml strings and Coq byte lists. *)
open Model

let rec pos_of_int n =
  if n = 1 then XH else if n land 1 = 1 then XI (pos_of_int (n lsr 1)) else XO (pos_of_int (n lsr 1))
let n_of_int n = if n = 0 then N0 else Npos (pos_of_int n)
let rec int_of_pos = function XH -> 1 | XO p -> 2 * int_of_pos p | XI p -> 2 * int_of_pos p + 1
let int_of_n = function N0 -> 0 | Npos p -> int_of_pos p

let tbl = Array.init 256 (fun i -> drv_byte_of_N (n_of_int i))
let bytes_of_string s =
  let r = ref [] in
  for i = String.length s - 1 downto 0 do r := tbl.(Char.code s.[i]) :: !r done; !r
let string_of_bytes l =
  let b = Buffer.create 128 in
  List.iter (fun x -> Buffer.add_char b (Char.chr (int_of_n (drv_N_of_byte x)))) l;
  Buffer.contents b

let () =
  let d = ref init_dstate in
  (try
     while true do
       let line = input_line stdin in
       let (d', outs) = run_line !d (bytes_of_string line) in
       d := d';
       List.iter (fun o -> print_string (string_of_bytes o); print_char '\n') outs
     done
   with End_of_file -> ());
  flush stdout
