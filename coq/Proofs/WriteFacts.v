(* Every handler changes at most its documented entries (C15), for all inputs and states. *)
From Cctp Require Import Lib.Bytes Lib.SMap Lib.Text.
From Cctp Require Import Model.Codec Model.State Model.Attest Model.Ledger Model.Handlers Model.Chain.
From Cctp Require Import Spec.WriteDoc Proofs.MonadFacts.

Lemma agree_refl ws s : agree_except ws s s.
Proof. unfold agree_except. repeat split; intros; reflexivity. Qed.

Lemma agree_trans ws a b c : agree_except ws a b -> agree_except ws b c -> agree_except ws a c.
Proof.
  unfold agree_except.
  intros (A1&A2&A3&A4&A5&A6&A7&A8&A9&A10&A11&A12&A13&A14&A15) (B1&B2&B3&B4&B5&B6&B7&B8&B9&B10&B11&B12&B13&B14&B15).
  repeat split; intros;
    first [ rewrite A1, B1 by assumption | rewrite A2, B2 by assumption | rewrite A3, B3 by assumption
          | rewrite A4, B4 by assumption | rewrite A5, B5 by assumption | rewrite A6, B6 by assumption
          | rewrite A7, B7 by assumption | rewrite A8, B8 by assumption | rewrite A9, B9 by assumption
          | rewrite A10, B10 by assumption | rewrite A11, B11 by assumption | rewrite A12, B12 by assumption
          | rewrite A13, B13 by assumption | rewrite A14, B14 by assumption | rewrite A15, B15 by assumption ];
    reflexivity.
Qed.

Lemma agree_mono ws ws' s s' : incl ws ws' -> agree_except ws s s' -> agree_except ws' s s'.
Proof.
  unfold agree_except, incl. intros I (A1&A2&A3&A4&A5&A6&A7&A8&A9&A10&A11&A12&A13&A14&A15).
  repeat split; intros; auto 6.
Qed.

Ltac agree_scalar :=
  unfold agree_except; repeat split; intros; cbn; try reflexivity;
  match goal with H : ~ In _ _ |- _ => exfalso; apply H; cbn; tauto end.

Lemma agree_set_owner ws v s : In WOwner ws -> agree_except ws s (set_owner v s).
Proof. intros I. unfold agree_except; repeat split; intros; cbn; try reflexivity; contradiction. Qed.
Lemma agree_set_pending ws v s : In WPending ws -> agree_except ws s (set_pending_owner v s).
Proof. intros I. unfold agree_except; repeat split; intros; cbn; try reflexivity; contradiction. Qed.
Lemma agree_set_attmgr ws v s : In WAttMgr ws -> agree_except ws s (set_attester_manager v s).
Proof. intros I. unfold agree_except; repeat split; intros; cbn; try reflexivity; contradiction. Qed.
Lemma agree_set_pauser ws v s : In WPauser ws -> agree_except ws s (set_pauser v s).
Proof. intros I. unfold agree_except; repeat split; intros; cbn; try reflexivity; contradiction. Qed.
Lemma agree_set_tokctl ws v s : In WTokCtl ws -> agree_except ws s (set_token_controller v s).
Proof. intros I. unfold agree_except; repeat split; intros; cbn; try reflexivity; contradiction. Qed.
Lemma agree_set_bm ws v s : In WBm ws -> agree_except ws s (set_bm_paused v s).
Proof. intros I. unfold agree_except; repeat split; intros; cbn; try reflexivity; contradiction. Qed.
Lemma agree_set_sr ws v s : In WSr ws -> agree_except ws s (set_sr_paused v s).
Proof. intros I. unfold agree_except; repeat split; intros; cbn; try reflexivity; contradiction. Qed.
Lemma agree_set_max_body ws v s : In WMaxBody ws -> agree_except ws s (set_max_body v s).
Proof. intros I. unfold agree_except; repeat split; intros; cbn; try reflexivity; contradiction. Qed.
Lemma agree_set_next_nonce ws v s : In WNextNonce ws -> agree_except ws s (set_next_nonce v s).
Proof. intros I. unfold agree_except; repeat split; intros; cbn; try reflexivity; contradiction. Qed.
Lemma agree_set_threshold ws v s : In WThreshold ws -> agree_except ws s (set_threshold v s).
Proof. intros I. unfold agree_except; repeat split; intros; cbn; try reflexivity; contradiction. Qed.

Lemma ne_of_notin {A} (f : bytes -> A) (k k0 : bytes) ws : In (f k0) ws -> ~ In (f k) ws -> k0 <> k.
Proof. intros I N ->. contradiction. Qed.

Lemma agree_insert_attester ws k v s : In (WAttester k) ws -> agree_except ws s (set_attesters (insert k v (attesters s)) s).
Proof. intros I. unfold agree_except; repeat split; intros; cbn; try reflexivity.
  symmetry. apply lookup_insert_ne. eapply (ne_of_notin WAttester); eauto. Qed.
Lemma agree_remove_attester ws k s : In (WAttester k) ws -> agree_except ws s (set_attesters (remove k (attesters s)) s).
Proof. intros I. unfold agree_except; repeat split; intros; cbn; try reflexivity.
  symmetry. apply lookup_remove_ne. eapply (ne_of_notin WAttester); eauto. Qed.
Lemma agree_insert_limit ws k v s : In (WLimit k) ws -> agree_except ws s (set_limits (insert k v (limits s)) s).
Proof. intros I. unfold agree_except; repeat split; intros; cbn; try reflexivity.
  symmetry. apply lookup_insert_ne. eapply (ne_of_notin WLimit); eauto. Qed.
Lemma agree_insert_pair ws k v s : In (WPair k) ws -> agree_except ws s (set_pairs (insert k v (pairs s)) s).
Proof. intros I. unfold agree_except; repeat split; intros; cbn; try reflexivity.
  symmetry. apply lookup_insert_ne. eapply (ne_of_notin WPair); eauto. Qed.
Lemma agree_remove_pair ws k s : In (WPair k) ws -> agree_except ws s (set_pairs (remove k (pairs s)) s).
Proof. intros I. unfold agree_except; repeat split; intros; cbn; try reflexivity.
  symmetry. apply lookup_remove_ne. eapply (ne_of_notin WPair); eauto. Qed.
Lemma agree_insert_messenger ws k v s : In (WMessenger k) ws -> agree_except ws s (set_messengers (insert k v (messengers s)) s).
Proof. intros I. unfold agree_except; repeat split; intros; cbn; try reflexivity.
  symmetry. apply lookup_insert_ne. eapply (ne_of_notin WMessenger); eauto. Qed.
Lemma agree_remove_messenger ws k s : In (WMessenger k) ws -> agree_except ws s (set_messengers (remove k (messengers s)) s).
Proof. intros I. unfold agree_except; repeat split; intros; cbn; try reflexivity.
  symmetry. apply lookup_remove_ne. eapply (ne_of_notin WMessenger); eauto. Qed.
Lemma agree_insert_nonce ws k v s : In (WNonce k) ws -> agree_except ws s (set_nonces (insert k v (nonces s)) s).
Proof. intros I. unfold agree_except; repeat split; intros; cbn; try reflexivity.
  symmetry. apply lookup_insert_ne. eapply (ne_of_notin WNonce); eauto. Qed.

(* the frame rule instantiated *)
Ltac pres ws :=
  repeat first
    [ apply (preserves_bind_lift_opt (agree_except ws) (agree_refl ws)); intros ? ?
    | apply (preserves_bind (agree_except ws) (agree_trans ws)); [|intros]
    | apply (preserves_ret (agree_except ws) (agree_refl ws))
    | apply (preserves_fail (agree_except ws) (agree_refl ws))
    | apply (preserves_panic (agree_except ws) (agree_refl ws))
    | apply (preserves_unmodelled (agree_except ws) (agree_refl ws))
    | apply (preserves_guard (agree_except ws) (agree_refl ws))
    | apply (preserves_require (agree_except ws) (agree_refl ws))
    | apply (preserves_lift_opt (agree_except ws) (agree_refl ws))
    | apply (preserves_get (agree_except ws) (agree_refl ws))
    | apply (preserves_emit (agree_except ws) (agree_refl ws))
    | apply (preserves_dep (agree_except ws) (agree_refl ws))
    | apply (preserves_role (agree_except ws) (agree_refl ws) (agree_trans ws))
    | apply preserves_mod; intros ?
    | progress unfold verify_now
    | match goal with |- preserves _ (match ?x with _ => _ end) => destruct x end ].

Ltac inws := first [assumption | cbn; tauto].
Ltac agree :=
  first [ apply agree_set_owner; inws | apply agree_set_pending; inws | apply agree_set_attmgr; inws
        | apply agree_set_pauser; inws | apply agree_set_tokctl; inws | apply agree_set_bm; inws
        | apply agree_set_sr; inws | apply agree_set_max_body; inws | apply agree_set_next_nonce; inws
        | apply agree_set_threshold; inws | apply agree_insert_attester; inws | apply agree_remove_attester; inws
        | apply agree_insert_limit; inws | apply agree_insert_pair; inws | apply agree_remove_pair; inws
        | apply agree_insert_messenger; inws | apply agree_remove_messenger; inws | apply agree_insert_nonce; inws ].

Section W.
  Variable e : env.

  Lemma pres_nonce_writers ws : In WNextNonce ws ->
    (forall from d r b, preserves (agree_except ws) (h_send_message e from d r b)) /\
    (forall from d r b c, preserves (agree_except ws) (h_send_message_with_caller e from d r b c)) /\
    (forall from a d mr bt c, preserves (agree_except ws) (deposit_for_burn e from a d mr bt c)).
  Proof.
    intros I. split; [|split]; intros.
    - unfold h_send_message. pres ws. agree.
    - unfold h_send_message_with_caller. pres ws. agree.
    - unfold deposit_for_burn. pres ws; agree.
  Qed.

  Lemma pres_replace_message ws from o a b c : preserves (agree_except ws) (h_replace_message e from o a b c).
  Proof. unfold h_replace_message. pres ws. Qed.

  Lemma pres_replace_deposit ws from o a c r : preserves (agree_except ws) (h_replace_deposit e from o a c r).
  Proof. unfold h_replace_deposit. pres ws. Qed.

  Ltac to_pres H :=
    match goal with |- agree_except ?ws _ _ =>
      revert H; match goal with |- ?m ?h = (?r, ?h') -> _ => revert h r h'; change (preserves (agree_except ws) m) end end.

  Lemma unlink_writes from d t l h r h' :
    h_unlink_pair from d t l h = (r, h') ->
    agree_except (doc_writes (UnlinkTokenPair from d t l) (h_st h)) (h_st h) (h_st h').
  Proof.
    unfold h_unlink_pair. cbn [doc_writes]. unfold_m. red_m.
    repeat (crunch1; red_m); intros [= <- <-]; cbn [h_st]; try apply agree_refl.
    apply agree_remove_pair. cbn; tauto.
  Qed.

  (* every handler stays inside its documented write set *)
  Lemma handler_writes t h r h' :
    handler e t h = (r, h') -> agree_except (doc_writes t (h_st h)) (h_st h) (h_st h').
  Proof.
    destruct t; cbn [handler]; intros H; try (now apply unlink_writes in H); cbn [doc_writes]; to_pres H.
    - unfold h_accept_owner. pres [WOwner; WPending]; agree.
    - unfold h_add_messenger. pres [WMessenger (messenger_key domain)]; agree.
    - apply (pres_nonce_writers [WNextNonce]); cbn; tauto.
    - unfold h_deposit_with_caller. pres [WNextNonce]; agree.
    - unfold h_disable_attester. pres [WAttester (attester_key attester)]; agree.
    - unfold h_enable_attester. pres [WAttester (attester_key attester)]; agree.
    - unfold h_link_pair. pres [WPair (pair_key domain token)]; agree.
    - unfold h_set_bm. pres [WBm]; agree.
    - unfold h_set_sr. pres [WSr]; agree.
    - unfold h_receive, mint_branch.
      set (ws := match decode_message message with Some mm => [WNonce (nonce_key (m_src mm) (m_nonce mm))] | None => [] end).
      pres ws.
      match goal with E : decode_message message = Some ?a |- _ => subst ws; rewrite E end. agree.
    - unfold h_remove_messenger. pres [WMessenger (messenger_key domain)]; agree.
    - apply pres_replace_deposit.
    - apply pres_replace_message.
    - unfold lift_nonce. pres [WNextNonce]; agree.
    - unfold lift_nonce. pres [WNextNonce]; agree.
    - unfold h_set_bm. pres [WBm]; agree.
    - unfold h_set_sr. pres [WSr]; agree.
    - unfold h_update_owner. pres [WPending]; agree.
    - unfold h_update_attester_manager. pres [WAttMgr]; agree.
    - unfold h_update_token_controller. pres [WTokCtl]; agree.
    - unfold h_update_pauser. pres [WPauser]; agree.
    - unfold h_update_max_body. pres [WMaxBody]; agree.
    - unfold h_set_limit. pres [WLimit (limit_key (to_lower local))]; agree.
    - unfold h_update_threshold. pres [WThreshold]; agree.
  Qed.
End W.

(* lifted to deliver *)
Lemma deliver_writes e c plan t :
  agree_except (doc_writes t (c_st c)) (c_st c) (c_st (r_chain (deliver e c plan t))).
Proof.
  unfold deliver. destruct (handler e t (start c plan)) as [[a| | |] h] eqn:E; cbn; try apply agree_refl.
  apply handler_writes in E. exact E.
Qed.
