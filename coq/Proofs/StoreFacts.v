(* Well-formedness of the five keyed collections (sorted, every entry stored under the key derived from
   its own value), preserved by every handler and established by InitGenesis; rebuilding a collection
   from its values.  Used by C17 and C19. *)
From Coq Require Import Permutation.
From Cctp Require Import Lib.Bytes Lib.SMap Lib.Text Lib.Bech32 Lib.Hex Lib.Keccak.
From Cctp Require Import Model.Codec Model.State Model.Attest Model.Ledger Model.Handlers Model.Chain Model.Genesis.
From Cctp Require Import Proofs.MonadFacts.

Lemma find_app {A} (f : A -> bool) (a b : list A) :
  List.find f (a ++ b) = match List.find f a with Some x => Some x | None => List.find f b end.
Proof. induction a as [|x a IH]; cbn; auto. destruct (f x); auto. Qed.

Section WfMap.
  Context {V : Type}.
  Variable key : V -> bytes.

  Definition consistent (m : smap V) : Prop := Forall (fun kv => fst kv = key (snd kv)) m.
  Definition wf_map (m : smap V) : Prop := sorted m /\ consistent m.

  Lemma consistent_insert k v m : k = key v -> consistent m -> consistent (insert k v m).
  Proof.
    intros ->. induction m as [|[k0 v0] r IH]; cbn [insert]; intros C.
    - constructor; auto.
    - inversion C as [|? ? H1 H2]; subst. destruct (bcmp (key v) k0).
      + constructor; [reflexivity|exact H2].
      + constructor; [reflexivity|exact C].
      + constructor; [exact H1|exact (IH H2)].
  Qed.
  Lemma consistent_remove k m : consistent m -> consistent (remove k m).
  Proof. induction m as [|[k0 v0] r IH]; cbn [remove]; intros C; auto. inversion C as [|? ? H1 H2]; subst.
    destruct (beqb k k0); [exact H2|]. constructor; [exact H1|exact (IH H2)]. Qed.

  Lemma wf_insert k v m : k = key v -> wf_map m -> wf_map (insert k v m).
  Proof. intros E [S C]. split; [now apply sorted_insert|now apply consistent_insert]. Qed.
  Lemma wf_remove k m : wf_map m -> wf_map (remove k m).
  Proof. intros [S C]. split; [now apply sorted_remove|now apply consistent_remove]. Qed.
  Lemma wf_nil : wf_map [].
  Proof. split; [exact I|constructor]. Qed.

  Lemma wf_insert_all l : forall m, wf_map m -> wf_map (insert_all key l m).
  Proof. unfold insert_all. induction l as [|v l IH]; intros m W; cbn; auto. apply IH. now apply wf_insert. Qed.

  (* lookup in a rebuilt collection *)
  Lemma lookup_insert_all l : forall m k,
    lookup k (insert_all key l m) =
    match List.find (fun v => beqb (key v) k) (rev l) with Some v => Some v | None => lookup k m end.
  Proof.
    unfold insert_all. induction l as [|v l IH]; intros m k; cbn [fold_left rev]; [reflexivity|].
    rewrite IH. rewrite find_app. destruct (List.find _ (rev l)); [reflexivity|].
    cbn. destruct (beqb (key v) k) eqn:E.
    - apply beqb_eq in E; subst. now rewrite lookup_insert_eq.
    - apply beqb_neq in E. now rewrite lookup_insert_ne.
  Qed.

  (* rebuilding a well-formed collection from its values gives it back *)
  Lemma lookup_rebuild m : wf_map m -> forall m0 k,
    lookup k (insert_all key (values m) m0) = match lookup k m with Some v => Some v | None => lookup k m0 end.
  Proof.
    unfold insert_all, values. induction m as [|[k1 v1] r IH]; intros [S C] m0 k; cbn [map fold_left lookup snd]; [reflexivity|].
    inversion C as [|? ? H1 H2]; subst. cbn in H1. subst k1. destruct S as [F S].
    rewrite IH by (split; assumption). destruct (beqb k (key v1)) eqn:E.
    - apply beqb_eq in E; subst. rewrite (sorted_lookup_none (key v1) r F). now rewrite lookup_insert_eq.
    - apply beqb_neq in E. rewrite lookup_insert_ne by congruence. reflexivity.
  Qed.

  Lemma rebuild m : wf_map m -> insert_all key (values m) [] = m.
  Proof.
    intros W. apply sorted_ext.
    - apply (wf_insert_all (values m) []). apply wf_nil.
    - apply W.
    - intros k. rewrite (lookup_rebuild m W). cbn. destruct (lookup k m); reflexivity.
  Qed.

  (* inserting entries with fresh, pairwise distinct keys keeps every value, once *)
  Lemma values_insert_perm k (v : V) (m : smap V) : lookup k m = None -> Permutation (values (insert k v m)) (v :: values m).
  Proof.
    unfold values. induction m as [|[k0 v0] r IH]; cbn [insert lookup map snd]; intros L; [reflexivity|].
    destruct (beqb k k0) eqn:E; [discriminate|]. destruct (bcmp k k0) eqn:Cm; cbn [map snd].
    - apply bcmp_eq in Cm. subst. now rewrite beqb_refl in E.
    - reflexivity.
    - rewrite IH by exact L. apply perm_swap.
  Qed.

  Lemma values_insert_all_perm l : forall m,
    NoDup (map key l) -> (forall v, In v l -> lookup (key v) m = None) ->
    Permutation (values (insert_all key l m)) (values m ++ l).
  Proof.
    unfold insert_all. induction l as [|v l IH]; intros m ND Fr; cbn [fold_left]; [now rewrite app_nil_r|].
    inversion ND as [|? ? Hn ND']; subst. rewrite IH.
    - rewrite values_insert_perm by (apply Fr; now left). cbn. apply Permutation_middle.
    - exact ND'.
    - intros w Hw. rewrite lookup_insert_ne; [apply Fr; now right|].
      intros E. apply Hn. rewrite E. now apply in_map.
  Qed.

  (* single insertion / removal as seen through lookups: exactly one entry changes *)
  Lemma wf_keys_consistent m k v : consistent m -> lookup k m = Some v -> k = key v.
  Proof. intros C L. apply lookup_In in L. unfold consistent in C. rewrite Forall_forall in C. exact (C _ L). Qed.
End WfMap.

(* ---------- the five collections of the store ---------- *)
Definition k_attester (a : bytes) : bytes := attester_key a.
Definition k_limit (l : limit) : bytes := limit_key (lim_denom l).
Definition k_pair (p : token_pair) : bytes := pair_key (tp_domain p) (tp_token p).
Definition k_messenger (m : messenger) : bytes := messenger_key (tm_domain m).
Definition k_nonce (n : used_nonce) : bytes := nonce_key (un_domain n) (un_nonce n).

Definition store_wf (s : store) : Prop :=
  wf_map k_attester (attesters s) /\ wf_map k_limit (limits s) /\ wf_map k_pair (pairs s) /\
  wf_map k_messenger (messengers s) /\ wf_map k_nonce (nonces s).

Definition keeps_wf (s s' : store) : Prop := store_wf s -> store_wf s'.
Lemma keeps_wf_refl s : keeps_wf s s. Proof. unfold keeps_wf; auto. Qed.
Lemma keeps_wf_trans a b c : keeps_wf a b -> keeps_wf b c -> keeps_wf a c. Proof. unfold keeps_wf; auto. Qed.

Ltac unfold_everything :=
  unfold h_accept_owner, h_add_messenger, h_remove_messenger, h_enable_attester, h_disable_attester, h_link_pair, h_unlink_pair,
         h_set_bm, h_set_sr, h_update_owner, h_update_attester_manager, h_update_token_controller, h_update_pauser, h_update_max_body,
         h_set_limit, h_update_threshold, lift_nonce, h_deposit_with_caller, deposit_for_burn, h_send_message, h_send_message_with_caller,
         h_replace_deposit, h_replace_message, h_receive, mint_branch, send_message, reserve_nonce.

Lemma handler_keeps_wf e t : preserves keeps_wf (handler e t).
Proof.
  destruct t; cbn [handler]; unfold_everything;
  pres_gen keeps_wf keeps_wf_refl keeps_wf_trans;
  unfold keeps_wf, store_wf, bump; intros (W1&W2&W3&W4&W5);
  cbn [attesters limits pairs messengers nonces
       set_owner set_pending_owner set_attester_manager set_pauser set_token_controller set_bm_paused set_sr_paused
       set_max_body set_next_nonce set_threshold set_attesters set_limits set_pairs set_messengers set_nonces];
  refine (conj _ (conj _ (conj _ (conj _ _)))); try assumption;
  first [ apply wf_insert; [reflexivity|assumption] | apply wf_remove; assumption ].
Qed.

Lemma wf_deliver e c plan t : store_wf (c_st c) -> store_wf (c_st (r_chain (deliver e c plan t))).
Proof.
  intros W. unfold deliver. destruct (handler e t (start c plan)) as [[a| | |] h] eqn:E; cbn; auto.
  apply handler_keeps_wf in E. exact (E W).
Qed.
Lemma wf_run e h : forall c, store_wf (c_st c) -> store_wf (c_st (run e c h)).
Proof. induction h as [|s h IH]; intros c W; cbn; auto. apply IH. now apply wf_deliver. Qed.

Lemma wf_init g s : init_genesis g = Some s -> store_wf s.
Proof.
  unfold init_genesis. destruct (g_threshold g) as [[|p]|]; try discriminate; intros [= <-]; unfold store_wf; cbn;
  repeat split; try (apply (wf_insert_all _ _ [])); try apply wf_nil.
Qed.
