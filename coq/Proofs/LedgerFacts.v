(* The reference ledger: balance keys are injective, and the effects of transfer, burn and mint on every
   account's balance (C04, C05: who is credited or debited, and nobody else). *)
From Cctp Require Import Lib.Bytes Lib.SMap Lib.Hex Lib.Bech32.
From Cctp Require Import Model.Ledger.
From Coq Require Import ZifyN ZifyNat ZifyBool.

(* ---------- hex encoding is injective and never contains '/' ---------- *)
Lemma hex_byte_facts : forall b : byte,
  unhex (hexd (N.shiftr (bN b) 4)) = Some (N.shiftr (bN b) 4) /\ unhex (hexd (N.land (bN b) 15)) = Some (N.land (bN b) 15) /\
  byte_of_N (16 * N.shiftr (bN b) 4 + N.land (bN b) 15) = b /\
  byte_eqb (hexd (N.shiftr (bN b) 4)) x2f = false /\ byte_eqb (hexd (N.land (bN b) 15)) x2f = false.
Proof. intros b. destruct b; vm_compute; auto. Qed.

Lemma hex_roundtrip bs : hex_decode_prefix (hex_encode bs) = (bs, true).
Proof.
  induction bs as [|b bs IH]; [reflexivity|]. cbn [hex_encode flat_map app]. fold (hex_encode bs).
  destruct (hex_byte_facts b) as (H1&H2&H3&_). cbn [hex_decode_prefix]. rewrite H1, H2, IH, H3. reflexivity.
Qed.
Lemma hex_encode_inj a b : hex_encode a = hex_encode b -> a = b.
Proof. intros E. apply (f_equal hex_decode_prefix) in E. rewrite !hex_roundtrip in E. congruence. Qed.

Fixpoint before_slash (s : bytes) : bytes * bytes :=
  match s with
  | [] => ([], [])
  | c :: r => if byte_eqb c x2f then ([], r) else let '(p, q) := before_slash r in (c :: p, q)
  end.
Lemma before_slash_hex a d : before_slash (hex_encode a ++ x2f :: d) = (hex_encode a, d).
Proof.
  induction a as [|b a IH]; [reflexivity|]. cbn [hex_encode flat_map app]. fold (hex_encode a).
  destruct (hex_byte_facts b) as (_&_&_&H4&H5). cbn [before_slash]. rewrite H4, H5, IH. reflexivity.
Qed.

Lemma bal_key_inj a d a' d' : bal_key a d = bal_key a' d' -> a = a' /\ d = d'.
Proof.
  unfold bal_key. cbn [app]. intros E. apply (f_equal before_slash) in E. rewrite !before_slash_hex in E.
  injection E as E1 E2. split; [now apply hex_encode_inj|exact E2].
Qed.

(* ---------- balances ---------- *)
Lemma balance_add_same lg a d x : balance (add_balance lg a d x) a d = (balance lg a d + x)%Z.
Proof. unfold balance at 1, add_balance. now rewrite lookup_insert_eq. Qed.
Lemma balance_add_other lg a d x a' d' : (a, d) <> (a', d') -> balance (add_balance lg a d x) a' d' = balance lg a' d'.
Proof.
  intros NE. unfold balance at 1, add_balance. rewrite lookup_insert_ne; [reflexivity|].
  intros E. apply bal_key_inj in E as [-> ->]. now apply NE.
Qed.

Definition same_acct (a d a' d' : bytes) : bool := beqb a a' && beqb d d'.
Lemma same_acct_spec a d a' d' : same_acct a d a' d' = true <-> (a, d) = (a', d').
Proof. unfold same_acct. rewrite andb_true_iff, !beqb_eq. split; [intros [-> ->]; reflexivity|intros [= -> ->]; auto]. Qed.

Lemma balance_add lg a d x a' d' :
  balance (add_balance lg a d x) a' d' = (balance lg a' d' + if same_acct a d a' d' then x else 0)%Z.
Proof.
  destruct (same_acct a d a' d') eqn:S.
  - apply same_acct_spec in S. injection S as <- <-. apply balance_add_same.
  - rewrite balance_add_other; [lia|]. intros E. apply same_acct_spec in E. congruence.
Qed.

Section L.
  Variable e : env.
  Hypothesis env_good : env_ok e = true.

  Lemma module_str_decodes : acc_address (hrp e) (module_str e) = Some (module_addr e).
  Proof.
    unfold env_ok in env_good. apply andb_true_iff in env_good as [_ H].
    destruct (acc_address (hrp e) (module_str e)) as [a|]; [|discriminate]. apply beqb_eq in H. now subst.
  Qed.

  (* a deposit: the depositor pays the amount, the module account ends where it started, nobody else moves *)
  Theorem deposit_ledger lg addr denom amt x d :
    balance (burn_effect e (transfer_effect e lg addr denom amt) (module_str e) denom amt) x d =
    (balance lg x d - if same_acct addr denom x d then amt else 0)%Z.
  Proof.
    unfold burn_effect, transfer_effect. rewrite module_str_decodes. rewrite !balance_add.
    destruct (same_acct (module_addr e) denom x d); destruct (same_acct addr denom x d); lia.
  Qed.

  (* a mint: the recipient named by the address string gains the amount, nobody else moves *)
  Theorem mint_ledger lg to a denom amt x d : acc_address (hrp e) to = Some a ->
    balance (mint_effect e lg to denom amt) x d = (balance lg x d + if same_acct a denom x d then amt else 0)%Z.
  Proof. intros A. unfold mint_effect. rewrite A. apply balance_add. Qed.
End L.
