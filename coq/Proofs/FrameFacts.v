(* Which transaction types can change which part of the store.  Scalar slots follow from the
   write-set theorem; the five collections are shown to be *equal as lists* (not only lookup-equal)
   for every transaction type that is not one of their writers. *)
From Cctp Require Import Lib.Bytes Lib.SMap Lib.Text.
From Cctp Require Import Model.Codec Model.State Model.Attest Model.Ledger Model.Handlers Model.Chain.
From Cctp Require Import Spec.WriteDoc Proofs.MonadFacts Proofs.WriteFacts.

Definition touches_attesters (t : tx) : bool := match t with EnableAttester _ _ | DisableAttester _ _ => true | _ => false end.
Definition touches_limits (t : tx) : bool := match t with SetMaxBurnAmountPerMessage _ _ _ => true | _ => false end.
Definition touches_pairs (t : tx) : bool := match t with LinkTokenPair _ _ _ _ | UnlinkTokenPair _ _ _ _ => true | _ => false end.
Definition touches_messengers (t : tx) : bool :=
  match t with AddRemoteTokenMessenger _ _ _ | RemoveRemoteTokenMessenger _ _ => true | _ => false end.
Definition touches_nonces (t : tx) : bool := match t with ReceiveMessage _ _ _ => true | _ => false end.

Ltac frame_all f :=
  match goal with |- forall e t h r h', _ -> handler e t h = (r, h') -> _ =>
    intros e t h r h' Ht H; destruct t; try discriminate Ht; cbn [handler] in H;
    revert H; match goal with |- ?m ?h = (?r, ?h') -> _ => revert h r h'; change (preserves (same f) m) end;
    unfold lift_nonce; frame f
  end.

Lemma frame_attesters : forall e t h r h', touches_attesters t = false -> handler e t h = (r, h') -> attesters (h_st h) = attesters (h_st h').
Proof. frame_all attesters. Qed.
Lemma frame_limits : forall e t h r h', touches_limits t = false -> handler e t h = (r, h') -> limits (h_st h) = limits (h_st h').
Proof. frame_all limits. Qed.
Lemma frame_pairs : forall e t h r h', touches_pairs t = false -> handler e t h = (r, h') -> pairs (h_st h) = pairs (h_st h').
Proof. frame_all pairs. Qed.
Lemma frame_messengers : forall e t h r h', touches_messengers t = false -> handler e t h = (r, h') -> messengers (h_st h) = messengers (h_st h').
Proof. frame_all messengers. Qed.
Lemma frame_nonces : forall e t h r h', touches_nonces t = false -> handler e t h = (r, h') -> nonces (h_st h) = nonces (h_st h').
Proof. frame_all nonces. Qed.

(* scalar slots, from the write-set theorem *)
Lemma frame_scalar e t h r h' : handler e t h = (r, h') ->
  let ws := doc_writes t (h_st h) in
  (~ In WOwner ws -> owner (h_st h) = owner (h_st h')) /\
  (~ In WPending ws -> pending_owner (h_st h) = pending_owner (h_st h')) /\
  (~ In WAttMgr ws -> attester_manager (h_st h) = attester_manager (h_st h')) /\
  (~ In WPauser ws -> pauser (h_st h) = pauser (h_st h')) /\
  (~ In WTokCtl ws -> token_controller (h_st h) = token_controller (h_st h')) /\
  (~ In WBm ws -> bm_paused (h_st h) = bm_paused (h_st h')) /\
  (~ In WSr ws -> sr_paused (h_st h) = sr_paused (h_st h')) /\
  (~ In WMaxBody ws -> max_body (h_st h) = max_body (h_st h')) /\
  (~ In WNextNonce ws -> next_nonce (h_st h) = next_nonce (h_st h')) /\
  (~ In WThreshold ws -> threshold (h_st h) = threshold (h_st h')).
Proof. intros H. apply handler_writes in H. unfold agree_except in H.
  destruct H as (A1&A2&A3&A4&A5&A6&A7&A8&A9&A10&_). cbv zeta. repeat split; assumption. Qed.

(* the same facts for deliver *)
Lemma deliver_frame {A} (f : store -> A) e c plan t :
  (forall h r h', handler e t h = (r, h') -> f (h_st h) = f (h_st h')) ->
  f (c_st c) = f (c_st (r_chain (deliver e c plan t))).
Proof.
  intros F. unfold deliver. destruct (handler e t (start c plan)) as [[a| | |] h] eqn:E; cbn; try reflexivity.
  apply F in E. exact E.
Qed.

(* scalar slots, directly: which transaction types can change which slot *)
Definition touches_owner (t : tx) : bool := match t with AcceptOwner _ => true | _ => false end.
Definition touches_pending (t : tx) : bool := match t with AcceptOwner _ | UpdateOwner _ _ => true | _ => false end.
Definition touches_attmgr (t : tx) : bool := match t with UpdateAttesterManager _ _ => true | _ => false end.
Definition touches_pauser (t : tx) : bool := match t with UpdatePauser _ _ => true | _ => false end.
Definition touches_tokctl (t : tx) : bool := match t with UpdateTokenController _ _ => true | _ => false end.
Definition touches_bm (t : tx) : bool := match t with PauseBurningAndMinting _ | UnpauseBurningAndMinting _ => true | _ => false end.
Definition touches_sr (t : tx) : bool :=
  match t with PauseSendingAndReceivingMessages _ | UnpauseSendingAndReceivingMessages _ => true | _ => false end.
Definition touches_max_body (t : tx) : bool := match t with UpdateMaxMessageBodySize _ _ => true | _ => false end.
Definition touches_next_nonce (t : tx) : bool :=
  match t with SendMessage _ _ _ _ | SendMessageWithCaller _ _ _ _ _ | DepositForBurn _ _ _ _ _ | DepositForBurnWithCaller _ _ _ _ _ _ => true
  | _ => false end.
Definition touches_threshold (t : tx) : bool := match t with UpdateSignatureThreshold _ _ => true | _ => false end.

Lemma frame_owner : forall e t h r h', touches_owner t = false -> handler e t h = (r, h') -> owner (h_st h) = owner (h_st h').
Proof. frame_all owner. Qed.
Lemma frame_pending : forall e t h r h', touches_pending t = false -> handler e t h = (r, h') -> pending_owner (h_st h) = pending_owner (h_st h').
Proof. frame_all pending_owner. Qed.
Lemma frame_attmgr : forall e t h r h', touches_attmgr t = false -> handler e t h = (r, h') -> attester_manager (h_st h) = attester_manager (h_st h').
Proof. frame_all attester_manager. Qed.
Lemma frame_pauser : forall e t h r h', touches_pauser t = false -> handler e t h = (r, h') -> pauser (h_st h) = pauser (h_st h').
Proof. frame_all pauser. Qed.
Lemma frame_tokctl : forall e t h r h', touches_tokctl t = false -> handler e t h = (r, h') -> token_controller (h_st h) = token_controller (h_st h').
Proof. frame_all token_controller. Qed.
Lemma frame_bm : forall e t h r h', touches_bm t = false -> handler e t h = (r, h') -> bm_paused (h_st h) = bm_paused (h_st h').
Proof. frame_all bm_paused. Qed.
Lemma frame_sr : forall e t h r h', touches_sr t = false -> handler e t h = (r, h') -> sr_paused (h_st h) = sr_paused (h_st h').
Proof. frame_all sr_paused. Qed.
Lemma frame_max_body : forall e t h r h', touches_max_body t = false -> handler e t h = (r, h') -> max_body (h_st h) = max_body (h_st h').
Proof. frame_all max_body. Qed.
Lemma frame_next_nonce : forall e t h r h', touches_next_nonce t = false -> handler e t h = (r, h') -> next_nonce (h_st h) = next_nonce (h_st h').
Proof. frame_all next_nonce. Qed.
Lemma frame_threshold : forall e t h r h', touches_threshold t = false -> handler e t h = (r, h') -> threshold (h_st h) = threshold (h_st h').
Proof. frame_all threshold. Qed.

(* the ledger is touched only through dependency calls, which only the three money flows make *)
