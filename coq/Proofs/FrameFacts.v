(* Which transaction types can change which part of the store.  Scalar slots follow from the
   write-set theorem; the five collections are shown to be *equal as lists* (not only lookup-equal)
   for every transaction type that is not one of their writers. *)
From Cctp Require Import Lib.Bytes Lib.SMap Lib.Text.
From Cctp Require Import Model.Codec Model.State Model.Attest Model.Ledger Model.Handlers Model.Chain.
From Cctp Require Import Spec.WriteDoc Proofs.MonadFacts Proofs.WriteFacts.

Definition touches_attesters (t : tx) : bool := match t with EnableAttester _ _ | DisableAttester _ _ => true | _ => false end.
Definition touches_limits (t : tx) : bool := match t with SetMaxBurnAmountPerMessage _ _ _ => true | _ => false end.
Definition touches_pairs (t : tx) : bool := match t with LinkTokenPair _ _ _ _ | UnlinkTokenPair _ _ _ _ => true | _ => false end.
Definition touches_messengers (t : tx) : bool :=
  match t with AddRemoteTokenMessenger _ _ _ | RemoveRemoteTokenMessenger _ _ => true | _ => false end.
Definition touches_nonces (t : tx) : bool := match t with ReceiveMessage _ _ _ => true | _ => false end.

Ltac frame_all f :=
  match goal with |- forall e t h r h', _ -> handler e t h = (r, h') -> _ =>
    intros e t h r h' Ht H; destruct t; try discriminate Ht; cbn [handler] in H;
    revert H; match goal with |- ?m ?h = (?r, ?h') -> _ => revert h r h'; change (preserves (same f) m) end;
    unfold lift_nonce; frame f
  end.

Lemma frame_attesters : forall e t h r h', touches_attesters t = false -> handler e t h = (r, h') -> attesters (h_st h) = attesters (h_st h').
Proof. frame_all attesters. Qed.
Lemma frame_limits : forall e t h r h', touches_limits t = false -> handler e t h = (r, h') -> limits (h_st h) = limits (h_st h').
Proof. frame_all limits. Qed.
Lemma frame_pairs : forall e t h r h', touches_pairs t = false -> handler e t h = (r, h') -> pairs (h_st h) = pairs (h_st h').
Proof. frame_all pairs. Qed.
Lemma frame_messengers : forall e t h r h', touches_messengers t = false -> handler e t h = (r, h') -> messengers (h_st h) = messengers (h_st h').
Proof. frame_all messengers. Qed.
Lemma frame_nonces : forall e t h r h', touches_nonces t = false -> handler e t h = (r, h') -> nonces (h_st h) = nonces (h_st h').
Proof. frame_all nonces. Qed.

(* scalar slots, from the write-set theorem *)
Lemma frame_scalar e t h r h' : handler e t h = (r, h') ->
  let ws := doc_writes t (h_st h) in
  (~ In WOwner ws -> owner (h_st h) = owner (h_st h')) /\
  (~ In WPending ws -> pending_owner (h_st h) = pending_owner (h_st h')) /\
  (~ In WAttMgr ws -> attester_manager (h_st h) = attester_manager (h_st h')) /\
  (~ In WPauser ws -> pauser (h_st h) = pauser (h_st h')) /\
  (~ In WTokCtl ws -> token_controller (h_st h) = token_controller (h_st h')) /\
  (~ In WBm ws -> bm_paused (h_st h) = bm_paused (h_st h')) /\
  (~ In WSr ws -> sr_paused (h_st h) = sr_paused (h_st h')) /\
  (~ In WMaxBody ws -> max_body (h_st h) = max_body (h_st h')) /\
  (~ In WNextNonce ws -> next_nonce (h_st h) = next_nonce (h_st h')) /\
  (~ In WThreshold ws -> threshold (h_st h) = threshold (h_st h')).
Proof. intros H. apply handler_writes in H. unfold agree_except in H.
  destruct H as (A1&A2&A3&A4&A5&A6&A7&A8&A9&A10&_). cbv zeta. repeat split; assumption. Qed.

(* the same facts for deliver *)
Lemma deliver_frame {A} (f : store -> A) e c plan t :
  (forall h r h', handler e t h = (r, h') -> f (h_st h) = f (h_st h')) ->
  f (c_st c) = f (c_st (r_chain (deliver e c plan t))).
Proof.
  intros F. unfold deliver. destruct (handler e t (start c plan)) as [[a| | |] h] eqn:E; cbn; try reflexivity.
  apply F in E. exact E.
Qed.
