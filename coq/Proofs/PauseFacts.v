(* Pausing (C12): non-interference of the burning-and-minting flag with the flows it does not name,
   independence of the administrative handlers from both flags, idempotence and restoration. *)
From Cctp Require Import Lib.Bytes Lib.SMap Lib.Text Lib.Bech32 Lib.Hex Lib.Keccak.
From Cctp Require Import Model.Codec Model.State Model.Attest Model.Ledger Model.Handlers Model.Chain.
From Cctp Require Import Spec.Roles Proofs.MonadFacts Proofs.FrameFacts Proofs.FlowFacts Proofs.CallFacts Proofs.AdminFacts.

Definition with_bm (v : option bool) (h : hstate) : hstate :=
  {| h_st := set_bm_paused v (h_st h); h_lg := h_lg h; h_plan := h_plan h; h_ev := h_ev h; h_dc := h_dc h |}.
Definition with_flags (bm sr : option bool) (h : hstate) : hstate :=
  {| h_st := set_sr_paused sr (set_bm_paused bm (h_st h)); h_lg := h_lg h; h_plan := h_plan h; h_ev := h_ev h; h_dc := h_dc h |}.

Ltac red_store :=
  cbn [owner pending_owner attester_manager pauser token_controller bm_paused sr_paused max_body next_nonce threshold
       attesters limits pairs messengers nonces
       set_owner set_pending_owner set_attester_manager set_pauser set_token_controller set_bm_paused set_sr_paused
       set_max_body set_next_nonce set_threshold set_attesters set_limits set_pairs set_messengers set_nonces
       with_bm with_flags h_st h_lg h_plan h_ev h_dc].

Section Pause.
  Variable e : env.

  (* the flows the burning-and-minting flag does not name *)
  Definition bm_free (t : tx) : bool :=
    match t with
    | SendMessage _ _ _ _ | SendMessageWithCaller _ _ _ _ _ | ReplaceMessage _ _ _ _ _ => true
    | ReceiveMessage _ msg _ => match decode_message msg with Some m => negb (to_module e m) | None => true end
    | _ => false
    end.

  (* changing the bm flag changes nothing but the flag itself in what these flows do *)
  Lemma bm_noninterference t v h : bm_free t = true ->
    handler e t (with_bm v h) = let '(r, h') := handler e t h in (r, with_bm v h').
  Proof.
    intros F. destruct t; try discriminate F; cbn [handler].
    - (* receive *)
      cbn in F. unfold h_receive, to_module in *. unfold_m. red_m. red_store.
      destruct (decode_message message) as [m|] eqn:D.
      + apply negb_true_iff in F. unfold verify_now. unfold_m.
        repeat (crunch1; red_m; red_store); try reflexivity; try congruence.
      + unfold verify_now. unfold_m. repeat (crunch1; red_m; red_store); try reflexivity; try congruence.
    - unfold_flows. unfold_m. unfold body_fits, bump, nn. red_m. red_store. repeat (crunch1; red_m; red_store); reflexivity.
    - unfold_flows. unfold_m. unfold body_fits, bump, nn. red_m. red_store. repeat (crunch1; red_m; red_store); reflexivity.
    - unfold_flows. unfold_m. unfold body_fits, bump, nn. red_m. red_store. repeat (crunch1; red_m; red_store); reflexivity.
  Qed.

  (* administrative handlers never read either flag: result and events do not depend on them *)
  Lemma admin_ignores_flags t bm sr h : privileged t = true ->
    fst (handler e t (with_flags bm sr h)) = fst (handler e t h) /\
    h_ev (snd (handler e t (with_flags bm sr h))) = h_ev (snd (handler e t h)).
  Proof.
    intros P. destruct t; try discriminate P; cbn [handler]; unfold_admin; unfold_m; unfold thr_or0; red_m; red_store.
    all: repeat (crunch1; red_m; red_store); split; reflexivity.
  Qed.

  (* ---------- what each flag blocks ---------- *)
  Definition is_flow (t : tx) : bool :=
    match t with
    | SendMessage _ _ _ _ | SendMessageWithCaller _ _ _ _ _ | ReplaceMessage _ _ _ _ _ | ReplaceDepositForBurn _ _ _ _ _
    | DepositForBurn _ _ _ _ _ | DepositForBurnWithCaller _ _ _ _ _ _ | ReceiveMessage _ _ _ => true
    | _ => false
    end.

  Lemma sr_blocks c plan t : is_flow t = true -> flag_on (sr_paused (c_st c)) = true -> is_ok (deliver e c plan t) = false.
  Proof.
    intros F P. destruct (is_ok (deliver e c plan t)) eqn:O; [|reflexivity]. exfalso.
    apply is_ok_handler in O as (a&h'&H). destruct t; try discriminate F; cbn [handler] in H.
    - apply deposit_inv in H. destruct_deposit H. destruct Dsent as [S _ _ _]. cbn [start h_st] in S. congruence.
    - unfold h_deposit_with_caller in H. inv_ok H. apply deposit_inv in H. destruct_deposit H. destruct Dsent as [S _ _ _]. cbn [start h_st] in S. congruence.
    - apply receive_inv in H. destruct_receive H. cbn [start h_st] in Rsr. congruence.
    - apply replace_deposit_inv in H as [_ H]. destruct_replace_deposit H. destruct_replace_message Qinner. cbn [start h_st] in Psr. congruence.
    - apply replace_message_inv in H as [_ H]. destruct_replace_message H. cbn [start h_st] in Psr. congruence.
    - unfold lift_nonce in H. inv_ok H. match goal with Hd : h_send_message _ _ _ _ _ _ = _ |- _ => apply send_inv in Hd as (?&?&?&?&[S _ _ _]&_) end.
      cbn [start h_st] in S. congruence.
    - unfold lift_nonce in H. inv_ok H. match goal with Hd : h_send_message_with_caller _ _ _ _ _ _ _ = _ |- _ => apply send_wc_inv in Hd as (?&?&?&?&?&?&[S _ _ _]&_) end.
      cbn [start h_st] in S. congruence.
  Qed.

  (* deposits, deposit replacement and mints *)
  Definition bm_named (t : tx) : bool :=
    match t with
    | DepositForBurn _ _ _ _ _ | DepositForBurnWithCaller _ _ _ _ _ _ | ReplaceDepositForBurn _ _ _ _ _ => true
    | ReceiveMessage _ msg _ => match decode_message msg with Some m => to_module e m | None => false end
    | _ => false
    end.

  Lemma bm_blocks c plan t : bm_named t = true -> flag_on (bm_paused (c_st c)) = true -> is_ok (deliver e c plan t) = false.
  Proof.
    intros F P. destruct (is_ok (deliver e c plan t)) eqn:O; [|reflexivity]. exfalso.
    apply is_ok_handler in O as (a&h'&H). destruct t; try discriminate F; cbn [handler] in H.
    - apply deposit_inv in H. destruct_deposit H. cbn [start h_st] in Dbm. congruence.
    - unfold h_deposit_with_caller in H. inv_ok H. apply deposit_inv in H. destruct_deposit H. cbn [start h_st] in Dbm. congruence.
    - apply receive_inv in H. destruct_receive H. cbn in F. rewrite Rdec in F. rewrite F in Rbranch.
      destruct Rbranch as (?&?&?&?&B&_). cbn [start h_st] in B. congruence.
    - apply replace_deposit_inv in H as [_ H]. destruct_replace_deposit H. cbn [start h_st] in Qbm. congruence.
  Qed.

  (* ---------- idempotence and restoration ---------- *)
  Definition pause_tx (t : tx) : bool :=
    match t with
    | PauseBurningAndMinting _ | UnpauseBurningAndMinting _ | PauseSendingAndReceivingMessages _ | UnpauseSendingAndReceivingMessages _ => true
    | _ => false
    end.

  Lemma pause_idempotent c p p' t : pause_tx t = true ->
    r_chain (deliver e (r_chain (deliver e c p t)) p' t) = r_chain (deliver e c p t).
  Proof.
    intros T. destruct t; try discriminate T; unfold deliver; cbn [handler]; unfold h_set_bm, h_set_sr; unfold_m; red_m; red_store.
    all: repeat (crunch1; red_m; red_store); try reflexivity; try congruence.
  Qed.
  (* ---------- a paused period: over a history that contains no pause/unpause of the flag ---------- *)
  (* the flows of a history that succeeded *)
  Fixpoint ok_flows (c : chain) (h : list step) : nat :=
    match h with
    | [] => 0
    | s :: h' => let r := deliver e c (fst s) (snd s) in
                 (if is_ok r && is_flow (snd s) then 1 else 0) + ok_flows (r_chain r) h'
    end.
  Fixpoint ok_bm_named (c : chain) (h : list step) : nat :=
    match h with
    | [] => 0
    | s :: h' => let r := deliver e c (fst s) (snd s) in
                 (if is_ok r && bm_named (snd s) then 1 else 0) + ok_bm_named (r_chain r) h'
    end.

  Lemma sr_paused_period h : forall c, flag_on (sr_paused (c_st c)) = true ->
    (forall s, In s h -> touches_sr (snd s) = false) ->
    sr_paused (c_st (run e c h)) = sr_paused (c_st c) /\ ok_flows c h = 0.
  Proof.
    induction h as [|s h IH]; intros c P NT; cbn [run fold_left ok_flows]; [auto|].
    fold (run e (run_step e c s) h). unfold run_step. set (r := deliver e c (fst s) (snd s)).
    assert (sr_paused (c_st (r_chain r)) = sr_paused (c_st c)) as Fr.
    { symmetry. apply (deliver_frame sr_paused). intros; eapply frame_sr; eauto. apply NT. now left. }
    destruct (IH (r_chain r)) as [E Z]; [now rewrite Fr|intros; apply NT; now right|].
    split; [now rewrite E|]. rewrite Z.
    destruct (is_flow (snd s)) eqn:F; [|now rewrite andb_false_r].
    subst r. now rewrite (sr_blocks c (fst s) (snd s) F P).
  Qed.

  Lemma bm_paused_period h : forall c, flag_on (bm_paused (c_st c)) = true ->
    (forall s, In s h -> touches_bm (snd s) = false) ->
    bm_paused (c_st (run e c h)) = bm_paused (c_st c) /\ ok_bm_named c h = 0.
  Proof.
    induction h as [|s h IH]; intros c P NT; cbn [run fold_left ok_bm_named]; [auto|].
    fold (run e (run_step e c s) h). unfold run_step. set (r := deliver e c (fst s) (snd s)).
    assert (bm_paused (c_st (r_chain r)) = bm_paused (c_st c)) as Fr.
    { symmetry. apply (deliver_frame bm_paused). intros; eapply frame_bm; eauto. apply NT. now left. }
    destruct (IH (r_chain r)) as [E Z]; [now rewrite Fr|intros; apply NT; now right|].
    split; [now rewrite E|]. rewrite Z.
    destruct (bm_named (snd s)) eqn:F; [|now rewrite andb_false_r].
    subst r. now rewrite (bm_blocks c (fst s) (snd s) F P).
  Qed.
End Pause.
