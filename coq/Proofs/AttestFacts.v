(* The attestation verifier (C01): acceptance characterised exactly, for every recovery function. *)
From Cctp Require Import Lib.Bytes Lib.Hex Lib.Keccak.
From Cctp Require Import Model.Attest.
From Coq Require Import ZifyN ZifyNat ZifyBool.

Section A.
  Variable recover : bytes -> bytes -> option bytes.

  Definition chunk (i : nat) (att : bytes) : bytes := slice (65 * i) (65 * i + 65) att.

  (* signatures i, i+1, ... of [att] recover to the keys [pks], each an enabled attester, with Ethereum
     addresses strictly increasing (and above [prev]) *)
  Fixpoint accepted (digest att : bytes) (A : list bytes) (pks : list bytes) (i : nat) (prev : option bytes) : Prop :=
    match pks with
    | [] => True
    | pk :: r =>
        length (chunk i att) = 65 /\
        recover65 recover digest (norm_v (chunk i att)) = Some pk /\
        (match prev with Some p => bltb p (eth_addr pk) = true | None => True end) /\
        is_attester A pk = true /\
        accepted digest att A r (S i) (Some (eth_addr pk))
    end.

  Lemma loop_accept_iff digest att A n : forall i prev,
    verify_loop recover digest att A n i prev = VAccept <->
    exists pks, length pks = n /\ accepted digest att A pks i prev.
  Proof.
    induction n as [|n IH]; intros i prev; cbn [verify_loop].
    - split; [intros _; exists []; cbn; auto|reflexivity].
    - fold (chunk i att). split.
      + intros H. destruct (Nat.ltb_spec (length (chunk i att)) 65) as [|L]; [discriminate|].
        destruct (recover65 recover digest (norm_v (chunk i att))) as [pk|] eqn:R; [|discriminate].
        destruct (match prev with Some p => negb (bltb p (eth_addr pk)) | None => false end) eqn:P; [discriminate|].
        destruct (is_attester A pk) eqn:I; [|discriminate].
        apply IH in H as (pks&Ln&Acc). exists (pk :: pks). split; [cbn; lia|]. cbn [accepted]. rewrite R.
        assert (length (chunk i att) <= 65) by (unfold chunk, slice; rewrite firstn_length; lia).
        repeat split; auto; try lia. destruct prev; auto. now apply negb_false_iff in P.
      + intros (pks&Ln&Acc). destruct pks as [|pk pks]; [discriminate|]. cbn [accepted] in Acc.
        destruct Acc as (L&R&P&I&Acc). rewrite L. cbn [Nat.ltb Nat.leb]. rewrite R.
        assert (match prev with Some p => negb (bltb p (eth_addr pk)) | None => false end = false) as ->
          by (destruct prev; auto; now rewrite P).
        rewrite I. apply IH. exists pks. split; [cbn in Ln; lia|exact Acc].
  Qed.

  (* the whole verifier *)
  Theorem verify_accept_iff msg att A thr :
    verify recover msg att A thr = VAccept <->
    thr <> 0%N /\ N.of_nat (length att) = (65 * thr)%N /\
    exists pks, length pks = N.to_nat thr /\ accepted (keccak256 msg) att A pks 0 None.
  Proof.
    unfold verify. destruct (N.eqb_spec (N.of_nat (length att)) (65 * thr)) as [L|L]; cbn [negb].
    - destruct (N.eqb_spec thr 0) as [Z|Z].
      + split; [discriminate|]. intros (NZ&_); contradiction.
      + rewrite loop_accept_iff. split; [intros H; auto|intros (_&_&H); exact H].
    - split; [discriminate|]. intros (_&L'&_). contradiction.
  Qed.

  (* accepted keys: strictly increasing addresses above prev *)
  Lemma accepted_above digest att A pks : forall i prev p,
    accepted digest att A pks i prev -> prev = Some p -> Forall (fun pk => bltb p (eth_addr pk) = true) pks.
  Proof.
    induction pks as [|pk pks IH]; intros i prev p Acc ->; [constructor|].
    cbn [accepted] in Acc. destruct Acc as (_&_&P&_&Acc). constructor; [exact P|].
    eapply Forall_impl; [|eapply IH; [exact Acc|reflexivity]]. cbn. intros a Ha. eapply bltb_trans; eauto.
  Qed.

  Lemma accepted_nodup digest att A pks : forall i prev,
    accepted digest att A pks i prev -> NoDup pks /\ Forall (fun pk => is_attester A pk = true) pks.
  Proof.
    induction pks as [|pk pks IH]; intros i prev Acc; [split; constructor|].
    cbn [accepted] in Acc. destruct Acc as (_&_&_&I&Acc). destruct (IH _ _ Acc) as [ND F]. split; [|constructor; auto].
    constructor; [|exact ND]. intros In.
    pose proof (accepted_above digest att A pks _ _ _ Acc eq_refl) as Ab. rewrite Forall_forall in Ab.
    specialize (Ab _ In). now rewrite bltb_irrefl in Ab.
  Qed.

  (* the i-th accepted key is what recovery yields on the i-th 65-byte chunk *)
  Lemma accepted_nth digest att A pks : forall i prev k pk,
    accepted digest att A pks i prev -> nth_error pks k = Some pk ->
    recover65 recover digest (norm_v (chunk (i + k) att)) = Some pk.
  Proof.
    induction pks as [|p pks IH]; intros i prev k pk Acc N; [destruct k; discriminate|].
    cbn [accepted] in Acc. destruct Acc as (_&R&_&_&Acc). destruct k as [|k]; cbn in N.
    - injection N as <-. now rewrite Nat.add_0_r.
    - replace (i + S k) with (S i + k) by lia. eapply IH; eauto.
  Qed.

  (* never a panic once the length check passed *)
  Lemma loop_no_panic digest att A n : forall i prev,
    65 * (i + n) <= length att -> verify_loop recover digest att A n i prev <> VPanic.
  Proof.
    induction n as [|n IH]; intros i prev L; cbn [verify_loop]; [discriminate|].
    assert (length (slice (65 * i) (65 * i + 65) att) = 65) as -> by (rewrite slice_length; lia).
    cbn [Nat.ltb Nat.leb]. destruct (recover65 _ _ _); [|discriminate].
    destruct (match prev with Some p => negb (bltb p (eth_addr b)) | None => false end); [discriminate|].
    destruct (is_attester A b); [|discriminate]. apply IH. lia.
  Qed.

  Theorem verify_no_panic msg att A thr : verify recover msg att A thr <> VPanic.
  Proof.
    unfold verify. destruct (N.eqb_spec (N.of_nat (length att)) (65 * thr)) as [L|L]; cbn [negb]; [|discriminate].
    destruct (N.eqb_spec thr 0); [discriminate|]. apply loop_no_panic. lia.
  Qed.
End A.

(* v-normalisation: legacy 27/28 become 0/1, everything else is left alone *)
Lemma norm_v_legacy r v : length r = 64 -> (bN v = 27 \/ bN v = 28)%N -> norm_v (r ++ [v]) = r ++ [byte_of_N (bN v - 27)].
Proof.
  intros L V. unfold norm_v. rewrite nth_error_app2 by lia. rewrite L, Nat.sub_diag. cbn [nth_error].
  assert ((bN v =? 27)%N || (bN v =? 28)%N = true) as -> by (destruct V as [-> | ->]; reflexivity).
  now rewrite firstn_app_len.
Qed.
Lemma norm_v_other r v : length r = 64 -> bN v <> 27%N -> bN v <> 28%N -> norm_v (r ++ [v]) = r ++ [v].
Proof.
  intros L V1 V2. unfold norm_v. rewrite nth_error_app2 by lia. rewrite L, Nat.sub_diag. cbn [nth_error].
  destruct (N.eqb_spec (bN v) 27); [contradiction|]. destruct (N.eqb_spec (bN v) 28); [contradiction|]. reflexivity.
Qed.
