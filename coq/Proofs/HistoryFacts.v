(* History-level facts: used nonces (C02) and the outbound nonce counter (C07). *)
From Cctp Require Import Lib.Bytes Lib.SMap Lib.Text Lib.Bech32 Lib.Hex Lib.Keccak.
From Cctp Require Import Model.Codec Model.State Model.Attest Model.Ledger Model.Handlers Model.Chain.
From Cctp Require Import Proofs.MonadFacts Proofs.WriteFacts Proofs.FrameFacts Proofs.FlowFacts.
From Coq Require Import ZifyN ZifyNat ZifyBool.

(* ---------- the used-nonce key is injective on uint32 x uint64 ---------- *)
Lemma app_inj_length {A} (a b c d : list A) : length a = length c -> a ++ b = c ++ d -> a = c /\ b = d.
Proof. revert c; induction a as [|x a IH]; intros [|y c] L E; try discriminate; cbn in *; auto.
  injection E as -> E. injection L as L. destruct (IH c L E) as [-> ->]. auto. Qed.

Lemma nonce_key_injective d1 n1 d2 n2 :
  (d1 < 2 ^ 32)%N -> (d2 < 2 ^ 32)%N -> (n1 < 2 ^ 64)%N -> (n2 < 2 ^ 64)%N ->
  nonce_key d1 n1 = nonce_key d2 n2 -> d1 = d2 /\ n1 = n2.
Proof.
  intros D1 D2 N1 N2 E. unfold nonce_key in E.
  apply app_inj_length in E as [E1 E2]; [|now rewrite !be_enc_length].
  apply app_inj_length in E2 as [E2 _]; [|now rewrite !be_enc_length].
  split.
  - apply (be_enc_inj 4); auto.
  - apply (be_enc_inj 8); auto.
Qed.

(* ---------- C02 ---------- *)
Definition used (c : chain) (d n : N) : bool := mem (nonce_key d n) (nonces (c_st c)).

(* the transaction is a receive of a message whose header names (d, n) *)
Definition receives (t : tx) (d n : N) : bool :=
  match t with
  | ReceiveMessage _ msg _ =>
      match decode_message msg with Some m => N.eqb (m_src m) d && N.eqb (m_nonce m) n | None => false end
  | _ => false
  end.

(* decoded integers are uint32 / uint64: four and eight bytes *)
Lemma decode_message_ranges bs m : decode_message bs = Some m -> (m_src m < 2 ^ 32)%N /\ (m_nonce m < 2 ^ 64)%N.
Proof.
  unfold decode_message. destruct (Nat.ltb_spec (length bs) 116) as [|L]; [discriminate|]. intros [= <-]. cbn.
  split.
  - pose proof (be_dec_bound (slice 4 8 bs)) as B. rewrite slice_length in B by lia. exact B.
  - pose proof (be_dec_bound (slice 12 20 bs)) as B. rewrite slice_length in B by lia. exact B.
Qed.

Lemma mem_insert_same {V} k (v : V) m : mem k (insert k v m) = true.
Proof. unfold mem. now rewrite lookup_insert_eq. Qed.
Lemma mem_insert_other {V} k k' (v : V) m : mem k' m = true -> mem k' (insert k v m) = true.
Proof. unfold mem. intros H. destruct (beqb k k') eqn:E.
  - apply beqb_eq in E; subst. now rewrite lookup_insert_eq.
  - apply beqb_neq in E. now rewrite lookup_insert_ne. Qed.

Section Hist.
  Variable e : env.

  Lemma deliver_ok_receive c plan from msg att :
    is_ok (deliver e c plan (ReceiveMessage from msg att)) = true ->
    exists m, decode_message msg = Some m /\ used c (m_src m) (m_nonce m) = false /\
              c_st (r_chain (deliver e c plan (ReceiveMessage from msg att))) = mark_used m (c_st c).
  Proof.
    unfold is_ok, deliver. destruct (handler e _ (start c plan)) as [[a| | |] h'] eqn:E; cbn; try discriminate. intros _.
    cbn [handler] in E. apply receive_inv in E. destruct E. cbn [start h_st] in *.
    eexists. split; [eassumption|]. split; [assumption|assumption].
  Qed.

  (* a used pair stays used: no transaction of any type deletes or overwrites a used-nonce entry *)
  Lemma used_monotone_step c plan t d n :
    used c d n = true -> used (r_chain (deliver e c plan t)) d n = true.
  Proof.
    intros U. destruct (is_ok (deliver e c plan t)) eqn:O.
    - destruct (touches_nonces t) eqn:T.
      + destruct t; try discriminate T. apply deliver_ok_receive in O as (m&D&NU&S).
        unfold used. rewrite S. unfold mark_used. cbn. now apply mem_insert_other.
      + unfold used. rewrite <- (deliver_frame nonces e c plan t); [exact U|]. intros; eapply frame_nonces; eauto.
    - apply deliver_not_ok in O as [-> _]. exact U.
  Qed.

  Lemma used_monotone_run h : forall c d n, used c d n = true -> used (run e c h) d n = true.
  Proof. induction h as [|s h IH]; intros c d n U; cbn; auto. apply IH. now apply used_monotone_step. Qed.

  (* a pair becomes used only by a successful receive of that very pair *)
  Lemma used_only_if_step c plan t d n :
    (d < 2 ^ 32)%N -> (n < 2 ^ 64)%N ->
    used c d n = false -> used (r_chain (deliver e c plan t)) d n = true ->
    is_ok (deliver e c plan t) = true /\ receives t d n = true.
  Proof.
    intros Dr Nr U U'. destruct (is_ok (deliver e c plan t)) eqn:O.
    2: { apply deliver_not_ok in O as [E _]. rewrite E in U'. congruence. }
    split; [reflexivity|]. destruct (touches_nonces t) eqn:T.
    - destruct t; try discriminate T. apply deliver_ok_receive in O as (m&D&NU&S).
      unfold used in U'. rewrite S in U'. unfold mark_used in U'. cbn [nonces set_nonces] in U'. unfold mem in U'.
      cbn. rewrite D. destruct (decode_message_ranges _ _ D) as [R1 R2].
      destruct (beqb (nonce_key (m_src m) (m_nonce m)) (nonce_key d n)) eqn:K.
      + apply beqb_eq in K. apply nonce_key_injective in K; auto. destruct K as [-> ->]. now rewrite !N.eqb_refl.
      + apply beqb_neq in K. rewrite lookup_insert_ne in U' by exact K. unfold used, mem in U. rewrite U in U'. discriminate.
    - unfold used in U'. rewrite <- (deliver_frame nonces e c plan t) in U'; [unfold used in U; congruence|].
      intros; eapply frame_nonces; eauto.
  Qed.

  (* the number of successful receives of the pair (d, n) in a history *)
  Fixpoint ok_receives (c : chain) (h : list step) (d n : N) : nat :=
    match h with
    | [] => 0
    | s :: h' =>
        let r := deliver e c (fst s) (snd s) in
        (if is_ok r && receives (snd s) d n then 1 else 0) + ok_receives (r_chain r) h' d n
    end.

  Lemma ok_receive_marks c plan t d n :
    is_ok (deliver e c plan t) = true -> receives t d n = true ->
    used c d n = false /\ used (r_chain (deliver e c plan t)) d n = true.
  Proof.
    intros O R. destruct t; try discriminate R. apply deliver_ok_receive in O as (m&D&NU&S).
    cbn in R. rewrite D in R. apply andb_true_iff in R as [R1 R2]. apply N.eqb_eq in R1, R2. subst d n.
    split; [exact NU|]. unfold used. rewrite S. unfold mark_used. cbn [nonces set_nonces]. apply mem_insert_same.
  Qed.

  Lemma at_most_once_aux h d n : forall c,
    (used c d n = true -> ok_receives c h d n = 0) /\ ok_receives c h d n <= 1.
  Proof.
    induction h as [|s h IH]; intros c; cbn [ok_receives]; [split; auto|].
    set (r := deliver e c (fst s) (snd s)). destruct (IH (r_chain r)) as [IH1 IH2].
    destruct (is_ok r && receives (snd s) d n) eqn:B.
    - apply andb_true_iff in B as [O R]. destruct (ok_receive_marks c (fst s) (snd s) d n O R) as [NU U'].
      fold r in U'. rewrite (IH1 U'). split; [intros U; congruence|lia].
    - split; [|lia]. intros U. cbn. apply IH1. subst r. now apply used_monotone_step.
  Qed.

  Lemma used_only_if_run h d n : (d < 2 ^ 32)%N -> (n < 2 ^ 64)%N -> forall c,
    used (run e c h) d n = true -> used c d n = true \/ 1 <= ok_receives c h d n.
  Proof.
    intros Dr Nr. induction h as [|s h IH]; intros c U; cbn [run fold_left ok_receives] in *; [now left|].
    fold (run e (run_step e c s) h) in U. apply IH in U. unfold run_step in U.
    destruct U as [U|U]; [|right; lia].
    destruct (used c d n) eqn:U0; [now left|]. right.
    destruct (used_only_if_step c (fst s) (snd s) d n Dr Nr U0 U) as [O R]. rewrite O, R. cbn. lia.
  Qed.
  (* ---------- the accepted messages of a history are pairwise distinct ---------- *)
  (* the (source domain, nonce) pair a receive names *)
  Definition pair_of (t : tx) : list (N * N) :=
    match t with
    | ReceiveMessage _ msg _ => match decode_message msg with Some m => [(m_src m, m_nonce m)] | None => [] end
    | _ => []
    end.
  (* the pairs of the receives that succeeded along a history, in order *)
  Fixpoint accepted (c : chain) (h : list step) : list (N * N) :=
    match h with
    | [] => []
    | s :: h' =>
        let r := deliver e c (fst s) (snd s) in
        (if is_ok r then pair_of (snd s) else []) ++ accepted (r_chain r) h'
    end.

  Lemma pair_of_receives t d n : pair_of t = [(d, n)] -> receives t d n = true.
  Proof.
    destruct t; try discriminate. cbn. destruct (decode_message _); [|discriminate].
    intros [= <- <-]. now rewrite !N.eqb_refl.
  Qed.
  Lemma pair_of_cases t : pair_of t = [] \/ exists d n, pair_of t = [(d, n)].
  Proof. destruct t; cbn; auto. destruct (decode_message _); eauto. Qed.

  Lemma accepted_fresh_nodup h : forall c,
    NoDup (accepted c h) /\ forall d n, In (d, n) (accepted c h) -> used c d n = false.
  Proof.
    induction h as [|s h IH]; intros c; cbn [accepted]; [split; [constructor|intros ? ? []]|].
    set (r := deliver e c (fst s) (snd s)). destruct (IH (r_chain r)) as [ND FR].
    assert (forall d n, In (d, n) (accepted (r_chain r) h) -> used c d n = false) as FR'.
    { intros d n I. destruct (used c d n) eqn:U; [|reflexivity].
      rewrite <- (FR d n I). symmetry. subst r. now apply used_monotone_step. }
    destruct (is_ok r) eqn:O; [|cbn [app]; auto].
    destruct (pair_of_cases (snd s)) as [->|(d&n&P)]; [cbn [app]; auto|]. rewrite P. cbn [app].
    apply pair_of_receives in P. destruct (ok_receive_marks c (fst s) (snd s) d n O P) as [NU U']. fold r in U'.
    split.
    - constructor; [|exact ND]. intros I. apply FR in I. congruence.
    - intros d' n' [[= <- <-]|I]; auto.
  Qed.

  (* every accepted pair is used at the end of the history *)
  Lemma accepted_used h : forall c d n, In (d, n) (accepted c h) -> used (run e c h) d n = true.
  Proof.
    induction h as [|s h IH]; intros c d n; cbn [accepted run fold_left]; [intros []|].
    fold (run e (run_step e c s) h). unfold run_step. set (r := deliver e c (fst s) (snd s)).
    intros I. apply in_app_or in I as [I|I]; [|now apply IH].
    destruct (is_ok r) eqn:O; [|destruct I].
    destruct (pair_of_cases (snd s)) as [E|(d'&n'&P)]; [rewrite E in I; destruct I|].
    rewrite P in I. destruct I as [[= <- <-]|[]]. apply pair_of_receives in P.
    apply used_monotone_run. subst r. now apply (ok_receive_marks c (fst s) (snd s) d' n' O P).
  Qed.
End Hist.

(* ---------- C07: the outbound nonce counter ---------- *)
Definition producer (t : tx) : bool := touches_next_nonce t.

Lemma nn_bump s : nn (bump s) = ((nn s + 1) mod two64)%N.
Proof. reflexivity. Qed.

Section Nonce.
  Variable e : env.

  (* what a successful producer returns and emits: the counter value it found *)
  Lemma producer_ok c plan t :
    is_ok (deliver e c plan t) = true -> producer t = true ->
    let r := deliver e c plan t in
    r_out r = OOk (RNonce (nn (c_st c))) /\ c_st (r_chain r) = bump (c_st c) /\
    exists dest rcp caller sender body bz,
      In (EvMessageSent bz) (r_events r) /\
      encode_message (msg_of dest rcp caller sender (nn (c_st c)) body) = Some bz.
  Proof.
    intros O P. cbv zeta. unfold is_ok, deliver in *.
    destruct (handler e t (start c plan)) as [[a| | |] h'] eqn:E; cbn in O |- *; try discriminate.
    destruct t; try discriminate P; cbn [handler] in E.
    - apply deposit_inv in E. destruct_deposit E. cbn [start h_st h_ev] in *. subst a.
      split; [reflexivity|]. split; [assumption|]. destruct Dsent.
      do 6 eexists. split; [|eassumption]. rewrite Dev. cbn. auto.
    - unfold h_deposit_with_caller in E. inv_ok E.
      apply deposit_inv in E. destruct_deposit E. cbn [start h_st h_ev] in *. subst a.
      split; [reflexivity|]. split; [assumption|]. destruct Dsent.
      do 6 eexists. split; [|eassumption]. rewrite Dev. cbn. auto.
    - unfold lift_nonce in E. inv_ok E. injection E as <- <-.
      match goal with Hd : h_send_message _ _ _ _ _ _ = _ |- _ => apply send_inv in Hd as (addr&bz&A&N&S&St&Lg&Ev&Dc&Pl) end.
      cbn [start h_st h_ev] in *. subst. split; [reflexivity|]. split; [assumption|]. destruct S.
      do 6 eexists. split; [|eassumption]. rewrite Ev. cbn. auto.
    - unfold lift_nonce in E. inv_ok E. injection E as <- <-.
      match goal with Hd : h_send_message_with_caller _ _ _ _ _ _ _ = _ |- _ =>
        apply send_wc_inv in Hd as (addr&bz&A&N&L1&L2&S&St&Lg&Ev&Dc&Pl) end.
      cbn [start h_st h_ev] in *. subst. split; [reflexivity|]. split; [assumption|]. destruct S.
      do 6 eexists. split; [|eassumption]. rewrite Ev. cbn. auto.
  Qed.

  Lemma nn_step c plan t :
    nn (c_st (r_chain (deliver e c plan t))) =
    if is_ok (deliver e c plan t) && producer t then ((nn (c_st c) + 1) mod two64)%N else nn (c_st c).
  Proof.
    destruct (is_ok (deliver e c plan t)) eqn:O; cbn [andb].
    - destruct (producer t) eqn:P.
      + destruct (producer_ok c plan t O P) as (_&S&_). rewrite S. apply nn_bump.
      + unfold nn. rewrite <- (deliver_frame next_nonce e c plan t); [reflexivity|]. intros; eapply frame_next_nonce; eauto.
    - apply deliver_not_ok in O as [-> _]. reflexivity.
  Qed.

  (* number of successful producing transactions in a history *)
  Fixpoint ok_producers (c : chain) (h : list step) : N :=
    match h with
    | [] => 0%N
    | s :: h' =>
        let r := deliver e c (fst s) (snd s) in
        ((if is_ok r && producer (snd s) then 1 else 0) + ok_producers (r_chain r) h')%N
    end.

  Lemma nn_run h : forall c, (nn (c_st c) < two64)%N ->
    nn (c_st (run e c h)) = ((nn (c_st c) + ok_producers c h) mod two64)%N.
  Proof.
    induction h as [|s h IH]; intros c B; cbn [run fold_left ok_producers].
    - rewrite N.add_0_r. symmetry. now apply N.mod_small.
    - fold (run e (run_step e c s) h). unfold run_step.
      assert (nn (c_st (r_chain (deliver e c (fst s) (snd s)))) < two64)%N as B'.
      { rewrite nn_step. destruct (_ && _); [apply N.mod_lt; discriminate|exact B]. }
      rewrite IH by exact B'. rewrite nn_step.
      destruct (is_ok (deliver e c (fst s) (snd s)) && producer (snd s)).
      + rewrite N.add_mod_idemp_l by discriminate. f_equal. lia.
      + f_equal.
  Qed.

  (* replacements never touch the counter and re-emit the original nonce *)
  Lemma replace_keeps_counter c plan t :
    (match t with ReplaceMessage _ _ _ _ _ | ReplaceDepositForBurn _ _ _ _ _ => true | _ => false end) = true ->
    next_nonce (c_st (r_chain (deliver e c plan t))) = next_nonce (c_st c).
  Proof.
    intros R. symmetry. apply (deliver_frame next_nonce). intros; eapply frame_next_nonce; eauto. destruct t; try discriminate R; reflexivity.
  Qed.

  Lemma replace_message_reuses_nonce c plan from orig att body caller :
    is_ok (deliver e c plan (ReplaceMessage from orig att body caller)) = true ->
    exists m bz, decode_message orig = Some m /\
      r_events (deliver e c plan (ReplaceMessage from orig att body caller)) = [EvMessageSent bz] /\
      encode_message (msg_of (m_dst m) (m_recipient m) caller (m_sender m) (m_nonce m) body) = Some bz.
  Proof.
    unfold is_ok, deliver. destruct (handler e _ (start c plan)) as [[a| | |] h'] eqn:E; cbn; try discriminate. intros _.
    cbn [handler] in E. apply replace_message_inv in E as [-> F]. destruct_replace_message F. cbn [start h_ev] in *.
    destruct Psent. eexists _, _. split; [eassumption|]. split; [rewrite Pev; reflexivity|eassumption].
  Qed.

  Lemma replace_deposit_reuses_nonce c plan from orig att caller rcp :
    is_ok (deliver e c plan (ReplaceDepositForBurn from orig att caller rcp)) = true ->
    exists m b body bz, decode_message orig = Some m /\ decode_burn (m_body m) = Some b /\
      encode_burn {| bm_version := bm_version b; bm_token := bm_token b; bm_recipient := rcp;
                     bm_amount := bm_amount b; bm_sender := bm_sender b |} = Some body /\
      r_events (deliver e c plan (ReplaceDepositForBurn from orig att caller rcp)) =
        [EvMessageSent bz; EvDepositForBurn (m_nonce m) (hex_encode (bm_token b)) (bm_amount b) from rcp (m_dst m) (m_recipient m) caller] /\
      encode_message (msg_of (m_dst m) (m_recipient m) caller (m_sender m) (m_nonce m) body) = Some bz.
  Proof.
    unfold is_ok, deliver. destruct (handler e _ (start c plan)) as [[a| | |] h'] eqn:E; cbn; try discriminate. intros _.
    cbn [handler] in E. apply replace_deposit_inv in E as [-> F]. destruct_replace_deposit F.
    destruct_replace_message Qinner. cbn [start h_ev] in *.
    assert (pmsg = qmsg) by congruence. subst pmsg.
    destruct Psent. eexists _, _, _, _. split; [eassumption|]. split; [eassumption|]. split; [eassumption|].
    split; [rewrite Qev, Pev; reflexivity|eassumption].
  Qed.
  (* ---------- uniqueness and consecutiveness over a whole history ---------- *)
  (* the nonce a producing transaction answered with (nothing when it failed) *)
  Definition resp_nonce (r : result) : list N := match r_out r with OOk (RNonce n) => [n] | _ => [] end.
  (* the nonces handed out along a history, in order *)
  Fixpoint produced (c : chain) (h : list step) : list N :=
    match h with
    | [] => []
    | s :: h' =>
        let r := deliver e c (fst s) (snd s) in
        (if producer (snd s) then resp_nonce r else []) ++ produced (r_chain r) h'
    end.

  Lemma produced_consecutive h : forall c, (nn (c_st c) < two64)%N ->
    produced c h = map (fun i : nat => ((nn (c_st c) + N.of_nat i) mod two64)%N) (seq 0 (length (produced c h))).
  Proof.
    induction h as [|s h IH]; intros c B; cbn [produced]; [reflexivity|].
    set (r := deliver e c (fst s) (snd s)).
    assert (nn (c_st (r_chain r)) < two64)%N as B'.
    { unfold r. rewrite nn_step. destruct (_ && _); [apply N.mod_lt; discriminate|exact B]. }
    specialize (IH (r_chain r) B'). set (tl := produced (r_chain r) h) in *.
    pose proof (nn_step c (fst s) (snd s)) as St. fold r in St.
    destruct (producer (snd s)) eqn:P.
    - destruct (is_ok r) eqn:O; cbn [andb] in St.
      + destruct (producer_ok c (fst s) (snd s) O P) as (Out&_&_). fold r in Out.
        unfold resp_nonce. rewrite Out. cbn [app length seq map]. f_equal.
        * rewrite N.add_0_r. symmetry. now apply N.mod_small.
        * rewrite IH at 1. rewrite <- seq_shift, map_map. apply map_ext. intros i. rewrite St.
          rewrite N.add_mod_idemp_l by discriminate. f_equal. lia.
      + unfold resp_nonce. unfold is_ok in O. destruct (r_out r) as [[]| | |]; try discriminate O; cbn [app].
        all: rewrite IH at 1; now rewrite St.
    - rewrite andb_false_r in St. cbn [app]. rewrite IH at 1. now rewrite St.
  Qed.

  Lemma NoDup_map_in {A B} (f : A -> B) (l : list A) :
    NoDup l -> (forall x y, In x l -> In y l -> f x = f y -> x = y) -> NoDup (map f l).
  Proof.
    induction 1 as [|a l Na Nl IH]; intros I; cbn [map]; constructor.
    - intros Hin. apply in_map_iff in Hin as (b&E&Hb). apply Na.
      rewrite (I a b) ; [exact Hb|now left|now right|now symmetry].
    - apply IH. intros x y Hx Hy. apply I; now right.
  Qed.

  Lemma mod_shift_inj a i j : (i < two64 -> j < two64 -> (a + i) mod two64 = (a + j) mod two64 -> i = j)%N.
  Proof. unfold two64. intros Hi Hj E. lia. Qed.

  (* fewer than 2^64 successes: no nonce is handed out twice *)
  Lemma produced_nodup h c : (nn (c_st c) < two64)%N -> (N.of_nat (length (produced c h)) <= two64)%N ->
    NoDup (produced c h).
  Proof.
    intros B L. rewrite (produced_consecutive h c B). apply NoDup_map_in; [apply seq_NoDup|].
    intros x y Hx Hy E. apply in_seq in Hx, Hy. apply mod_shift_inj in E; lia.
  Qed.

  Lemma produced_length h : forall c, N.of_nat (length (produced c h)) = ok_producers c h.
  Proof.
    induction h as [|s h IH]; intros c; cbn [produced ok_producers]; [reflexivity|].
    rewrite app_length, Nat2N.inj_add, IH. f_equal.
    destruct (producer (snd s)) eqn:P; [|now rewrite andb_false_r].
    destruct (is_ok (deliver e c (fst s) (snd s))) eqn:O; cbn [andb].
    - destruct (producer_ok c (fst s) (snd s) O P) as (Out&_&_). unfold resp_nonce. now rewrite Out.
    - unfold resp_nonce. unfold is_ok in O. destruct (r_out _) as [[]| | |]; try discriminate O; reflexivity.
  Qed.
End Nonce.
