(* Inversion of the user-facing flows: what a successful run of each handler implies, and the exact
   final handler state (store, ledger, events, dependency calls).  Used by C02-C09, C12, C14. *)
From Cctp Require Import Lib.Bytes Lib.SMap Lib.Text Lib.Bech32 Lib.Hex Lib.Keccak.
From Cctp Require Import Model.Codec Model.State Model.Attest Model.Ledger Model.Handlers Model.Chain.
From Cctp Require Import Proofs.MonadFacts.

(* the fact records below are in Prop with data fields: they are meant to be destructed, not projected *)
Set Warnings "-cannot-define-projection".

Ltac unfold_flows_in H :=
  unfold h_deposit_with_caller, deposit_for_burn, h_send_message, h_send_message_with_caller, lift_nonce,
         h_replace_deposit, h_replace_message, h_receive, mint_branch, send_message, reserve_nonce, verify_now,
         dep_transfer, dep_burn, dep_mint, dep in H.
Ltac unfold_flows :=
  unfold h_deposit_with_caller, deposit_for_burn, h_send_message, h_send_message_with_caller, lift_nonce,
         h_replace_deposit, h_replace_message, h_receive, mint_branch, send_message, reserve_nonce, verify_now,
         dep_transfer, dep_burn, dep_mint, dep.

Ltac negbs := repeat match goal with Hx : negb _ = true |- _ => apply negb_true_iff in Hx
                                  | Hx : negb _ = false |- _ => apply negb_false_iff in Hx end.

Definition nonzero (b : bytes) : bool := negb (Nat.eqb (length b) 0 || is_zeros b).

Definition msg_of dest rcp caller sender n body : message :=
  {| m_version := 0; m_src := 4; m_dst := dest; m_nonce := n; m_sender := sender;
     m_recipient := rcp; m_caller := caller; m_body := body |}.

(* the sending side: what every emitted message looks like *)
Record sent_ok (s : store) (dest : N) (rcp caller sender : bytes) (n : N) (body bz : bytes) : Prop := {
  so_not_paused : flag_on (sr_paused s) = false;
  so_fits : body_fits s body = true;
  so_rcp : nonzero rcp = true;
  so_enc : encode_message (msg_of dest rcp caller sender n body) = Some bz }.

Section Flows.
  Variable e : env.

  (* ---------- SendMessage / SendMessageWithCaller ---------- *)
  Lemma send_inv from dest rcp body h n h' :
    h_send_message e from dest rcp body h = (ROk n, h') ->
    exists addr bz, acc_address (hrp e) from = Some addr /\ n = nn (h_st h) /\
      sent_ok (h_st h) dest rcp (zeros 32) (copy12 addr) n body bz /\
      h_st h' = bump (h_st h) /\ h_lg h' = h_lg h /\ h_ev h' = h_ev h ++ [EvMessageSent bz] /\ h_dc h' = h_dc h /\ h_plan h' = h_plan h.
  Proof.
    intros H. unfold_flows_in H. inv_ok H. injection H as <- <-. negbs.
    eexists _, _. split; [reflexivity|]. split; [reflexivity|]. split; [|cbn; auto 10].
    constructor; auto. unfold nonzero. now apply negb_true_iff.
  Qed.

  Lemma send_wc_inv from dest rcp body caller h n h' :
    h_send_message_with_caller e from dest rcp body caller h = (ROk n, h') ->
    exists addr bz, acc_address (hrp e) from = Some addr /\ n = nn (h_st h) /\
      length caller = 32 /\ is_zeros caller = false /\
      sent_ok (h_st h) dest rcp caller (copy12 addr) n body bz /\
      h_st h' = bump (h_st h) /\ h_lg h' = h_lg h /\ h_ev h' = h_ev h ++ [EvMessageSent bz] /\ h_dc h' = h_dc h /\ h_plan h' = h_plan h.
  Proof.
    intros H. unfold_flows_in H. inv_ok H. injection H as <- <-. negbs.
    match goal with Hc : _ && negb _ = true |- _ => apply andb_true_iff in Hc as [Hc1 Hc2]; apply Nat.eqb_eq in Hc1; apply negb_true_iff in Hc2 end.
    eexists _, _. split; [reflexivity|]. split; [reflexivity|]. split; [assumption|]. split; [assumption|]. split; [|cbn; auto 10].
    constructor; auto. unfold nonzero. now apply negb_true_iff.
  Qed.

  (* ---------- DepositForBurn / DepositForBurnWithCaller ---------- *)
  Definition burn_body (token_denom mint_recipient : bytes) (a : Z) (addr : bytes) : burn_message :=
    {| bm_version := 0; bm_token := keccak256 (to_lower token_denom); bm_recipient := mint_recipient;
       bm_amount := a; bm_sender := copy12 addr |}.

  (* everything a successful deposit implies; [caller] is [] for the plain variant *)
  Record deposit_facts (h : hstate) (from : bytes) (amount : option Z) (dest : N) (mr bt caller : bytes)
         (r : resp) (h' : hstate) : Prop := {
    df_addr : bytes; df_a : Z; df_tm : messenger; df_body : bytes; df_bz : bytes; df_maddr : bytes;
    df_from : acc_address (hrp e) from = Some df_addr;
    df_amount : amount = Some df_a;
    df_pos : (0 < df_a)%Z;
    df_mr : mr <> zeros 32;
    df_messenger : lookup (messenger_key dest) (messengers (h_st h)) = Some df_tm;
    df_token : equal_fold (mint_denom e) bt = true;
    df_bm : flag_on (bm_paused (h_st h)) = false;
    df_limit : limit_ok (h_st h) (to_lower bt) df_a = true;
    df_denom : valid_denom bt = true;
    df_transfer_ok : decide (next_directive (h_plan h)) (transfer_rule e (h_lg h) df_addr bt df_a) = true;
    df_burn_ok : decide (next_directive (tl (h_plan h)))
                        (burn_rule e (transfer_effect e (h_lg h) df_addr bt df_a) (module_str e) bt df_a) = true;
    df_enc : encode_burn (burn_body bt mr df_a df_addr) = Some df_body;
    df_module : acc_address (hrp e) (module_str e) = Some df_maddr;
    df_caller : (caller = [] \/ (length caller = 32 /\ is_zeros caller = false));
    df_sent : sent_ok (h_st h) dest (tm_address df_tm) (if Nat.eqb (length caller) 0 then zeros 32 else caller)
                      (copy12 df_maddr) (nn (h_st h)) df_body df_bz;
    df_resp : r = RNonce (nn (h_st h));
    df_st : h_st h' = bump (h_st h);
    df_lg : h_lg h' = burn_effect e (transfer_effect e (h_lg h) df_addr bt df_a) (module_str e) bt df_a;
    df_ev : h_ev h' = h_ev h ++ [EvMessageSent df_bz;
                                 EvDepositForBurn (nn (h_st h)) (hex_encode (keccak256 (to_lower bt))) df_a from mr dest
                                                  (tm_address df_tm) caller];
    df_dc : h_dc h' = h_dc h ++ [DTransfer df_addr bt df_a true; DBurn (module_str e) bt df_a true] }.

  Lemma deposit_inv from amount dest mr bt caller h r h' :
    deposit_for_burn e from amount dest mr bt caller h = (ROk r, h') ->
    deposit_facts h from amount dest mr bt caller r h'.
  Proof.
    intros H. unfold_flows_in H. inv_ok H.
    all: injection H as <- <-; negbs.
    all: repeat match goal with Hc : _ && negb _ = true |- _ =>
           apply andb_true_iff in Hc as [?Hc1 ?Hc2]; apply Nat.eqb_eq in Hc1; apply negb_true_iff in Hc2 end.
    all: match goal with Hz : (0 <? _)%Z = true |- _ => apply Z.ltb_lt in Hz end.
    all: match goal with Hm : beqb _ (zeros 32) = false |- _ => apply beqb_neq in Hm end.
    all: econstructor; try eassumption; try reflexivity; cbn [h_st h_lg h_ev h_dc h_plan]; try reflexivity.
    all: try (rewrite <- app_assoc; reflexivity).
    all: try (match goal with Hl : (length ?c =? 0) = true |- _ => apply Nat.eqb_eq in Hl; destruct c; [now left|discriminate] end).
    all: try (right; split; assumption).
    all: match goal with Hl : (length _ =? 0) = _ |- _ => rewrite Hl end.
    all: constructor; auto; unfold nonzero; now apply negb_true_iff.
  Qed.

  (* ---------- ReceiveMessage ---------- *)
  Definition mark_used (m : message) (s : store) : store :=
    set_nonces (insert (nonce_key (m_src m) (m_nonce m)) {| un_domain := m_src m; un_nonce := m_nonce m |} (nonces s)) s.

  Definition to_module (m : message) : bool := beqb (m_recipient m) (copy12 (module_addr e)).

  (* the mint side of a successful module-addressed receive *)
  Record receive_facts (h : hstate) (from msg att : bytes) (r : resp) (h' : hstate) : Prop := {
    rf_m : message; rf_thr : N;
    rf_sr : flag_on (sr_paused (h_st h)) = false;
    rf_attesters : length (attesters (h_st h)) <> 0;
    rf_threshold : threshold (h_st h) = Some rf_thr;
    rf_verify : verify (recover e) msg att (values (attesters (h_st h))) rf_thr = VAccept;
    rf_decode : decode_message msg = Some rf_m;
    rf_dst : m_dst rf_m = 4%N;
    rf_caller : caller_ok e (m_caller rf_m) from = true;
    rf_version : m_version rf_m = 0%N;
    rf_unused : mem (nonce_key (m_src rf_m) (m_nonce rf_m)) (nonces (h_st h)) = false;
    rf_resp : r = RSuccess;
    rf_st : h_st h' = mark_used rf_m (h_st h);
    rf_branch :
      if to_module rf_m
      then exists b p tm to,
             flag_on (bm_paused (h_st h)) = false /\ decode_burn (m_body rf_m) = Some b /\ bm_version b = 0%N /\
             lookup (pair_key (m_src rf_m) (bm_token b)) (pairs (h_st h)) = Some p /\
             lookup (messenger_key (m_src rf_m)) (messengers (h_st h)) = Some tm /\ m_sender rf_m = tm_address tm /\
             bech32_of e (skipn 12 (bm_recipient b)) = Some to /\
             decide (next_directive (h_plan h)) (mint_rule e (h_lg h) to (to_lower (tp_local p)) (bm_amount b)) = true /\
             h_lg h' = mint_effect e (h_lg h) to (to_lower (tp_local p)) (bm_amount b) /\
             h_dc h' = h_dc h ++ [DMint (module_str e) to (to_lower (tp_local p)) (bm_amount b) true] /\
             h_ev h' = h_ev h ++ [EvMintAndWithdraw (bm_recipient b) (bm_amount b) (to_lower (tp_local p));
                                  EvMessageReceived from (m_src rf_m) (m_nonce rf_m) (m_sender rf_m) (m_body rf_m)]
      else h_lg h' = h_lg h /\ h_dc h' = h_dc h /\
           h_ev h' = h_ev h ++ [EvMessageReceived from (m_src rf_m) (m_nonce rf_m) (m_sender rf_m) (m_body rf_m)] }.

  Lemma receive_inv from msg att h r h' :
    h_receive e from msg att h = (ROk r, h') -> receive_facts h from msg att r h'.
  Proof.
    intros H. unfold_flows_in H. inv_ok H.
    all: injection H as <- <-; negbs.
    all: repeat match goal with Hq : (_ =? _)%N = true |- _ => apply N.eqb_eq in Hq end.
    all: match goal with Hl : (length _ =? 0) = false |- _ => apply Nat.eqb_neq in Hl end.
    all: econstructor; try eassumption; try reflexivity; cbn [h_st h_lg h_ev h_dc h_plan].
    all: unfold to_module; match goal with Hb : beqb (m_recipient _) _ = _ |- _ => rewrite Hb end.
    all: try (repeat split; reflexivity).
    all: repeat eexists; try eassumption; try reflexivity.
    all: try (rewrite <- app_assoc; reflexivity).
    now apply beqb_eq.
  Qed.

  (* ---------- ReplaceMessage / ReplaceDepositForBurn ---------- *)
  Record replace_message_facts (h : hstate) (from orig att new_body new_caller : bytes) (h' : hstate) : Prop := {
    rm_thr : N; rm_m : message; rm_addr : bytes; rm_bz : bytes;
    rm_sr : flag_on (sr_paused (h_st h)) = false;
    rm_threshold : threshold (h_st h) = Some rm_thr;
    rm_verify : verify (recover e) orig att (values (attesters (h_st h))) rm_thr = VAccept;
    rm_decode : decode_message orig = Some rm_m;
    rm_from : acc_address (hrp e) from = Some rm_addr;
    rm_sender : copy12 rm_addr = m_sender rm_m;
    rm_src : m_src rm_m = 4%N;
    rm_sent : sent_ok (h_st h) (m_dst rm_m) (m_recipient rm_m) new_caller (m_sender rm_m) (m_nonce rm_m) new_body rm_bz;
    rm_st : h_st h' = h_st h; rm_lg : h_lg h' = h_lg h; rm_dc : h_dc h' = h_dc h; rm_plan : h_plan h' = h_plan h;
    rm_ev : h_ev h' = h_ev h ++ [EvMessageSent rm_bz] }.

  Lemma replace_message_inv from orig att new_body new_caller h r h' :
    h_replace_message e from orig att new_body new_caller h = (ROk r, h') ->
    r = RNone /\ replace_message_facts h from orig att new_body new_caller h'.
  Proof.
    intros H. unfold_flows_in H. inv_ok H.
    all: injection H as <- <-; negbs.
    all: repeat match goal with Hq : (_ =? _)%N = true |- _ => apply N.eqb_eq in Hq end.
    all: match goal with Hb : beqb (copy12 _) _ = true |- _ => apply beqb_eq in Hb end.
    all: split; [reflexivity|].
    all: econstructor; try eassumption; try reflexivity.
    all: constructor; auto; unfold nonzero; now apply negb_true_iff.
  Qed.

  Record replace_deposit_facts (h : hstate) (from orig att new_caller new_rcp : bytes) (h' : hstate) : Prop := {
    rd_m : message; rd_b : burn_message; rd_addr : bytes; rd_body : bytes; rd_mid : hstate;
    rd_bm : flag_on (bm_paused (h_st h)) = false;
    rd_decode : decode_message orig = Some rd_m;
    rd_burn : decode_burn (m_body rd_m) = Some rd_b;
    rd_from : acc_address (hrp e) from = Some rd_addr;
    rd_depositor : copy12 rd_addr = bm_sender rd_b;
    rd_rcp : new_rcp <> zeros 32;
    rd_enc : encode_burn {| bm_version := bm_version rd_b; bm_token := bm_token rd_b; bm_recipient := new_rcp;
                            bm_amount := bm_amount rd_b; bm_sender := bm_sender rd_b |} = Some rd_body;
    rd_inner : replace_message_facts h (module_str e) orig att rd_body new_caller rd_mid;
    rd_st : h_st h' = h_st h; rd_lg : h_lg h' = h_lg h; rd_dc : h_dc h' = h_dc h;
    rd_ev : h_ev h' = h_ev rd_mid ++ [EvDepositForBurn (m_nonce rd_m) (hex_encode (bm_token rd_b)) (bm_amount rd_b) from new_rcp
                                                       (m_dst rd_m) (m_recipient rd_m) new_caller] }.

  Lemma replace_deposit_inv from orig att new_caller new_rcp h r h' :
    h_replace_deposit e from orig att new_caller new_rcp h = (ROk r, h') ->
    r = RNone /\ replace_deposit_facts h from orig att new_caller new_rcp h'.
  Proof.
    intros H. unfold h_replace_deposit in H. inv_ok H.
    match goal with Hr : h_replace_message _ _ _ _ _ _ _ = (ROk _, _) |- _ => apply replace_message_inv in Hr as [-> F] end.
    injection H as <- <-. negbs.
    match goal with Hb : beqb (copy12 _) _ = true |- _ => apply beqb_eq in Hb end.
    match goal with Hb : beqb (zeros 32) _ = false |- _ => apply beqb_neq in Hb end.
    split; [reflexivity|]. pose proof F as F'. destruct F'.
    econstructor; try eassumption; try reflexivity; cbn [h_st h_lg h_dc h_ev]; try assumption; congruence.
  Qed.
End Flows.

(* destructing the fact records with fixed names *)
Ltac destruct_deposit E :=
  destruct E as [daddr damt dtm dbody dbz dmaddr Dfrom Damt Dpos Dmr Dmsgr Dtok Dbm Dlim Dden Dtr Dbu Denc Dmod Dcal Dsent Dresp Dst Dlg Dev Ddc].
Ltac destruct_receive E :=
  destruct E as [rmsg rthr Rsr Ratt Rthr Rver Rdec Rdst Rcaller Rver0 Runused Rresp Rst Rbranch].
Ltac destruct_replace_message E :=
  destruct E as [pthr pmsg paddr pbz Psr Pthr Pver Pdec Pfrom Psender Psrc Psent Pst Plg Pdc Pplan Pev].
Ltac destruct_replace_deposit E :=
  destruct E as [qmsg qburn qaddr qbody qmid Qbm Qdec Qburn Qfrom Qdep Qrcp Qenc Qinner Qst Qlg Qdc Qev].
