(* Exports of reachable states validate (C17): the role slots stay syntactically valid addresses (or the empty
   string a genesis may carry), and the exported lists have pairwise distinct keys. *)
From Coq Require Import Permutation.
From Cctp Require Import Lib.Bytes Lib.SMap Lib.Text Lib.Bech32 Lib.Hex Lib.Keccak.
From Cctp Require Import Model.Codec Model.State Model.Attest Model.Ledger Model.Handlers Model.Chain Model.Genesis.
From Cctp Require Import Proofs.MonadFacts Proofs.StoreFacts Proofs.GenesisFacts.

Definition slot_ok (e : env) (o : option bytes) : Prop := forall r, o = Some r -> role_ok e r = true.
Definition roles_valid (e : env) (s : store) : Prop :=
  slot_ok e (owner s) /\ slot_ok e (pending_owner s) /\ slot_ok e (attester_manager s) /\ slot_ok e (pauser s) /\ slot_ok e (token_controller s).

Lemma valid_addr_role_ok e r : valid_addr e r = true -> role_ok e r = true.
Proof. unfold role_ok. destruct r; auto. Qed.

Definition keeps_valid (e : env) (s s' : store) : Prop := roles_valid e s -> roles_valid e s'.
Lemma keeps_valid_refl e s : keeps_valid e s s. Proof. unfold keeps_valid; auto. Qed.
Lemma keeps_valid_trans e a b c : keeps_valid e a b -> keeps_valid e b c -> keeps_valid e a c. Proof. unfold keeps_valid; auto. Qed.

Ltac slots := unfold roles_valid, slot_ok in *; cbn [owner pending_owner attester_manager pauser token_controller
  set_owner set_pending_owner set_attester_manager set_pauser set_token_controller set_bm_paused set_sr_paused
  set_max_body set_next_nonce set_threshold set_attesters set_limits set_pairs set_messengers set_nonces bump] in *.

(* the five handlers that write a role slot, with the guard that justifies the write *)
Lemma role_writers_keep_valid e t h r h' :
  (match t with UpdateOwner _ _ | AcceptOwner _ | UpdateAttesterManager _ _ | UpdatePauser _ _ | UpdateTokenController _ _ => true | _ => false end) = true ->
  handler e t h = (r, h') -> roles_valid e (h_st h) -> roles_valid e (h_st h').
Proof.
  intros T H V. destruct t; try discriminate T; cbn [handler] in H;
    unfold h_update_owner, h_accept_owner, h_update_attester_manager, h_update_pauser, h_update_token_controller in H;
    revert H; unfold_m; red_m; repeat (crunch1; red_m); intros [= <- <-]; cbn [h_st]; try exact V.
  all: destruct V as (V1&V2&V3&V4&V5); slots; repeat split; intros x Hx; try (injection Hx as <-); auto;
       try (apply valid_addr_role_ok; assumption); try discriminate.
Qed.

Lemma handler_keeps_valid e t h r h' : handler e t h = (r, h') -> roles_valid e (h_st h) -> roles_valid e (h_st h').
Proof.
  destruct (match t with UpdateOwner _ _ | AcceptOwner _ | UpdateAttesterManager _ _ | UpdatePauser _ _ | UpdateTokenController _ _ => true | _ => false end) eqn:T.
  - now apply role_writers_keep_valid.
  - revert h r h'. change (preserves (keeps_valid e) (handler e t)).
    destruct t; try discriminate T; cbn [handler]; unfold_everything;
      pres_gen (keeps_valid e) (keeps_valid_refl e) (keeps_valid_trans e);
      unfold keeps_valid; intros V; slots; exact V.
Qed.

Lemma valid_deliver e c plan t : roles_valid e (c_st c) -> roles_valid e (c_st (r_chain (deliver e c plan t))).
Proof.
  intros V. unfold deliver. destruct (handler e t (start c plan)) as [[a| | |] h] eqn:E; cbn; auto.
  apply handler_keeps_valid in E; auto.
Qed.
Lemma valid_run e h : forall c, roles_valid e (c_st c) -> roles_valid e (c_st (run e c h)).
Proof. induction h as [|s h IH]; intros c V; cbn; auto. apply IH. now apply valid_deliver. Qed.

Lemma valid_init e g s : validate e g = true -> init_genesis g = Some s -> roles_valid e s.
Proof.
  intros V I. destruct (validate_roles_flags e g V) as (R1&R2&R3&R4&_).
  unfold init_genesis in I. destruct (g_threshold g) as [[|p]|]; try discriminate; injection I as <-;
    unfold roles_valid, slot_ok; cbn; repeat split; intros r [= <-]; assumption || discriminate.
Qed.

(* distinct keys *)
Lemma NoDup_has_dup l : NoDup l -> has_dup l = false.
Proof.
  induction 1 as [|k r N _ IH]; cbn; auto. rewrite IH, orb_false_r.
  destruct (existsb (beqb k) r) eqn:E; auto. apply existsb_exists in E as (x&In&B). apply beqb_eq in B. subst. contradiction.
Qed.
Lemma wf_values_keys {V} (key : V -> bytes) (m : smap V) : consistent key m -> map key (values m) = keys m.
Proof.
  unfold consistent, values, keys. induction m as [|[k v] r IH]; intros C; cbn; auto. inversion C as [|? ? H1 H2]; subst. cbn in H1.
  rewrite <- H1, IH by assumption. reflexivity.
Qed.
Lemma wf_no_dup {V} (key : V -> bytes) (m : smap V) : wf_map key m -> has_dup (map key (values m)) = false.
Proof. intros [S C]. apply NoDup_has_dup. rewrite (wf_values_keys key m C). now apply keys_NoDup. Qed.

(* the export of a well-formed, exportable state with valid roles passes validation *)
Theorem export_validates e s g : store_wf s -> exportable s -> roles_valid e s -> export_genesis s = Some g -> validate e g = true.
Proof.
  intros (W1&W2&W3&W4&W5) (E1&E2&E3&E4&E5&E6&_) (V1&_&V3&V4&V5) X. unfold export_genesis in X.
  destruct (owner s) as [o|] eqn:Eo; [|contradiction]. destruct (attester_manager s) as [am|] eqn:Eam; [|contradiction].
  destruct (pauser s) as [pa|] eqn:Epa; [|contradiction]. destruct (token_controller s) as [tc|] eqn:Etc; [|contradiction].
  injection X as <-. unfold validate.
  cbn [g_owner g_attester_manager g_pauser g_token_controller g_attesters g_limits g_bm_paused g_sr_paused g_pairs g_nonces g_messengers].
  rewrite (V1 o eq_refl), (V3 am eq_refl), (V4 pa eq_refl), (V5 tc eq_refl).
  change (map attester_key) with (map k_attester). change (map (fun l => limit_key (lim_denom l))) with (map k_limit).
  change (map (fun p => pair_key (tp_domain p) (tp_token p))) with (map k_pair).
  change (map (fun n => nonce_key (un_domain n) (un_nonce n))) with (map k_nonce).
  change (map (fun m => messenger_key (tm_domain m))) with (map k_messenger).
  rewrite (wf_no_dup _ _ W1), (wf_no_dup _ _ W2), (wf_no_dup _ _ W3), (wf_no_dup _ _ W4), (wf_no_dup _ _ W5).
  destruct (bm_paused s); [|contradiction]. destruct (sr_paused s); [|contradiction]. reflexivity.
Qed.
