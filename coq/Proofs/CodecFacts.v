(* Facts about Model/Codec.v: agreement with the independent layout of Spec/Layout.v,
   both round trips, rejection of wrong sizes. *)
From Cctp Require Import Lib.Bytes Model.Codec Spec.Layout.
From Coq Require Import ZifyN ZifyNat ZifyBool.

(* ---------- slices as index maps ---------- *)
Lemma slice_one b bs : b < length bs -> slice b (S b) bs = [nth b bs x00].
Proof.
  unfold slice. replace (S b - b) with 1 by lia.
  revert b. induction bs as [|x bs IH]; intros b Hb; simpl in Hb; [lia|].
  destruct b as [|b]; [reflexivity|]. simpl. apply IH; lia.
Qed.

Lemma slice_snoc a b bs : a <= b -> b < length bs -> slice a (S b) bs = slice a b bs ++ [nth b bs x00].
Proof.
  intros Hab Hb. rewrite <- (slice_app a b (S b) bs) by lia. f_equal. now apply slice_one.
Qed.

Lemma slice_field a n bs : a + n <= length bs -> slice a (a + n) bs = field_at a n bs.
Proof.
  induction n as [|n IH]; intros H.
  - unfold slice, field_at. replace (a + 0 - a) with 0 by lia. reflexivity.
  - replace (a + S n) with (S (a + n)) by lia. rewrite slice_snoc by lia. rewrite IH by lia.
    unfold field_at. rewrite seq_S, map_app. reflexivity.
Qed.

Lemma be_dec_slice w off bs : off + w <= length bs -> be_dec (slice off (off + w) bs) = uint_at w off bs.
Proof.
  induction w as [|w IH]; intros H.
  - unfold slice. replace (off + 0 - off) with 0 by lia. reflexivity.
  - replace (off + S w) with (S (off + w)) by lia. rewrite slice_snoc by lia.
    rewrite be_dec_app, IH by lia. reflexivity.
Qed.

Lemma skipn_field a bs : a <= length bs -> skipn a bs = field_at a (length bs - a) bs.
Proof.
  intros H. rewrite <- (slice_field a (length bs - a) bs) by lia.
  unfold slice. replace (a + (length bs - a) - a) with (length (skipn a bs)) by (rewrite skipn_length; lia).
  now rewrite firstn_all.
Qed.

(* ---------- be_enc is the byte-wise big-endian rendering ---------- *)
Lemma be_byte_S w n i : i < w -> be_byte (S w) n i = be_byte w (n / 256) i.
Proof.
  intros H. unfold be_byte. f_equal.
  replace (S w - 1 - i) with (S (w - 1 - i)) by lia.
  rewrite Nat2N.inj_succ, N.pow_succ_r', N.div_div by (try apply N.pow_nonzero; lia). reflexivity.
Qed.

Lemma be_enc_bytes w n : be_enc w n = be_bytes w n.
Proof.
  revert n; induction w as [|w IH]; intros n; [reflexivity|].
  cbn [be_enc]. unfold be_bytes. rewrite seq_S, map_app. f_equal.
  - rewrite IH. unfold be_bytes. apply map_ext_in. intros i Hi. apply in_seq in Hi. symmetry. apply be_byte_S. lia.
  - simpl. unfold be_byte. replace (S w - 1 - w) with 0 by lia. simpl. now rewrite N.div_1_r.
Qed.

(* ---------- correspondence with the reference layout ---------- *)
Definition to_ref (m : message) : ref_message :=
  {| r_version := m_version m; r_src := m_src m; r_dst := m_dst m; r_nonce := m_nonce m;
     r_sender := m_sender m; r_recipient := m_recipient m; r_caller := m_caller m; r_body := m_body m |}.
Definition to_ref_burn (m : burn_message) : ref_burn :=
  {| rb_version := bm_version m; rb_token := bm_token m; rb_recipient := bm_recipient m;
     rb_amount := Z.abs_N (bm_amount m); rb_sender := bm_sender m |}.

Lemma decode_message_layout bs : option_map to_ref (decode_message bs) = ref_decode_message bs.
Proof.
  unfold decode_message, ref_decode_message.
  destruct (Nat.ltb_spec (length bs) 116) as [|L]; [reflexivity|].
  cbn [option_map]. unfold to_ref; cbn [m_version m_src m_dst m_nonce m_sender m_recipient m_caller m_body].
  f_equal.
  rewrite (be_dec_slice 4 0), (be_dec_slice 4 4), (be_dec_slice 4 8), (be_dec_slice 8 12) by lia.
  rewrite (slice_field 20 32), (slice_field 52 32), (slice_field 84 32) by lia.
  rewrite (skipn_field 116) by lia. reflexivity.
Qed.

Lemma encode_message_layout m : encode_message m = ref_encode_message (to_ref m).
Proof.
  unfold encode_message, ref_encode_message, to_ref;
    cbn [r_version r_src r_dst r_nonce r_sender r_recipient r_caller r_body].
  rewrite !be_enc_bytes.
  destruct (Nat.eqb (length (m_sender m)) 32), (Nat.eqb (length (m_recipient m)) 32),
    (Nat.eqb (length (m_caller m)) 32); reflexivity.
Qed.

Lemma decode_burn_layout bs : option_map to_ref_burn (decode_burn bs) = ref_decode_burn bs.
Proof.
  unfold decode_burn, ref_decode_burn.
  destruct (Nat.eqb_spec (length bs) 132) as [L|]; [|reflexivity].
  cbn [negb option_map]. unfold to_ref_burn; cbn [bm_version bm_token bm_recipient bm_amount bm_sender].
  f_equal. rewrite Zabs2N.id.
  rewrite (be_dec_slice 4 0), (be_dec_slice 32 68) by lia.
  rewrite (slice_field 4 32), (slice_field 36 32), (slice_field 100 32) by lia. reflexivity.
Qed.

Lemma encode_burn_layout m : encode_burn m = ref_encode_burn (to_ref_burn m).
Proof.
  unfold encode_burn, ref_encode_burn, to_ref_burn; cbn [rb_version rb_token rb_recipient rb_amount rb_sender].
  rewrite !be_enc_bytes.
  destruct (Nat.eqb (length (bm_token m)) 32), (Nat.eqb (length (bm_recipient m)) 32),
    (Nat.eqb (length (bm_sender m)) 32); reflexivity.
Qed.

(* ---------- decode then encode ---------- *)
Lemma message_decode_encode bs m : decode_message bs = Some m -> encode_message m = Some bs.
Proof.
  unfold decode_message. destruct (Nat.ltb_spec (length bs) 116) as [|L]; [discriminate|]. intros E.
  assert (m = {| m_version := be_dec (slice 0 4 bs); m_src := be_dec (slice 4 8 bs); m_dst := be_dec (slice 8 12 bs);
          m_nonce := be_dec (slice 12 20 bs); m_sender := slice 20 52 bs; m_recipient := slice 52 84 bs;
          m_caller := slice 84 116 bs; m_body := skipn 116 bs |}) as -> by congruence. clear E.
  unfold encode_message; cbn [m_sender m_recipient m_caller m_version m_src m_dst m_nonce m_body].
  rewrite !slice_length by lia. cbn [Nat.sub Nat.eqb negb].
  f_equal.
  rewrite !be_enc_dec_slice by lia.
  rewrite !app_assoc.
  rewrite !slice_app by lia.
  unfold slice. cbn [skipn Nat.sub]. apply firstn_skipn.
Qed.

Lemma burn_decode_encode bs m : decode_burn bs = Some m -> encode_burn m = Some bs.
Proof.
  unfold decode_burn. destruct (Nat.eqb_spec (length bs) 132) as [L|]; [|discriminate]. cbn [negb]. intros E.
  assert (m = {| bm_version := be_dec (slice 0 4 bs); bm_token := slice 4 36 bs; bm_recipient := slice 36 68 bs;
          bm_amount := Z.of_N (be_dec (slice 68 100 bs)); bm_sender := slice 100 132 bs |}) as -> by congruence. clear E.
  unfold encode_burn; cbn [bm_version bm_token bm_recipient bm_amount bm_sender].
  rewrite !slice_length by lia. cbn [Nat.sub Nat.eqb negb].
  f_equal. rewrite Zabs2N.id.
  rewrite !be_enc_dec_slice by lia.
  rewrite !app_assoc.
  rewrite !slice_app by lia.
  unfold slice. cbn [skipn Nat.sub]. rewrite <- L. apply firstn_all.
Qed.

(* ---------- encode then decode ---------- *)
Definition message_wf (m : message) : Prop :=
  (m_version m < 2^32)%N /\ (m_src m < 2^32)%N /\ (m_dst m < 2^32)%N /\ (m_nonce m < 2^64)%N.

Lemma message_encode_decode m bs : encode_message m = Some bs -> message_wf m -> decode_message bs = Some m.
Proof.
  unfold encode_message, message_wf.
  destruct (Nat.eqb_spec (length (m_sender m)) 32) as [Ls|]; [|discriminate].
  destruct (Nat.eqb_spec (length (m_recipient m)) 32) as [Lr|]; [|discriminate].
  destruct (Nat.eqb_spec (length (m_caller m)) 32) as [Lc|]; [|discriminate].
  cbn [negb]. intros E (Hv & Hs & Hd & Hn).
  match type of E with Some ?x = Some _ => assert (bs = x) as -> by congruence end. clear E.
  unfold decode_message.
  set (A := be_enc 4 (m_version m)). set (Bs := be_enc 4 (m_src m)). set (C := be_enc 4 (m_dst m)). set (D := be_enc 8 (m_nonce m)).
  assert (length A = 4) by apply be_enc_length. assert (length Bs = 4) by apply be_enc_length.
  assert (length C = 4) by apply be_enc_length. assert (length D = 8) by apply be_enc_length.
  rewrite !app_length.
  destruct (Nat.ltb_spec (length A + (length Bs + (length C + (length D + (length (m_sender m) + (length (m_recipient m) + (length (m_caller m) + length (m_body m)))))))) 116); [lia|].
  destruct m as [v s d n se re ca bo]; cbn [m_sender m_recipient m_caller m_version m_src m_dst m_nonce m_body] in *.
  f_equal.
  assert (slice 0 4 (A ++ Bs ++ C ++ D ++ se ++ re ++ ca ++ bo) = A) as ->
      by (unfold slice; cbn [skipn Nat.sub]; now apply firstn_app_len).
  assert (slice 4 8 (A ++ Bs ++ C ++ D ++ se ++ re ++ ca ++ bo) = Bs) as ->.
  { unfold slice. rewrite (skipn_app_len A) by auto. now apply firstn_app_len. }
  assert (slice 8 12 (A ++ Bs ++ C ++ D ++ se ++ re ++ ca ++ bo) = C) as ->.
  { unfold slice. rewrite (app_assoc A Bs), (skipn_app_len (A ++ Bs)) by (rewrite app_length; lia). now apply firstn_app_len. }
  assert (slice 12 20 (A ++ Bs ++ C ++ D ++ se ++ re ++ ca ++ bo) = D) as ->.
  { unfold slice. rewrite (app_assoc A Bs), (app_assoc (A++Bs) C), (skipn_app_len ((A ++ Bs) ++ C)) by (rewrite !app_length; lia). now apply firstn_app_len. }
  assert (slice 20 52 (A ++ Bs ++ C ++ D ++ se ++ re ++ ca ++ bo) = se) as ->.
  { unfold slice. rewrite (app_assoc A Bs), (app_assoc (A++Bs) C), (app_assoc _ D), (skipn_app_len (((A ++ Bs) ++ C) ++ D)) by (rewrite !app_length; lia). now apply firstn_app_len. }
  assert (slice 52 84 (A ++ Bs ++ C ++ D ++ se ++ re ++ ca ++ bo) = re) as ->.
  { unfold slice. rewrite (app_assoc A Bs), (app_assoc (A++Bs) C), (app_assoc _ D), (app_assoc _ se), (skipn_app_len ((((A ++ Bs) ++ C) ++ D) ++ se)) by (rewrite !app_length; lia). now apply firstn_app_len. }
  assert (slice 84 116 (A ++ Bs ++ C ++ D ++ se ++ re ++ ca ++ bo) = ca) as ->.
  { unfold slice. rewrite (app_assoc A Bs), (app_assoc (A++Bs) C), (app_assoc _ D), (app_assoc _ se), (app_assoc _ re), (skipn_app_len (((((A ++ Bs) ++ C) ++ D) ++ se) ++ re)) by (rewrite !app_length; lia). now apply firstn_app_len. }
  assert (skipn 116 (A ++ Bs ++ C ++ D ++ se ++ re ++ ca ++ bo) = bo) as ->.
  { rewrite (app_assoc A Bs), (app_assoc (A++Bs) C), (app_assoc _ D), (app_assoc _ se), (app_assoc _ re), (app_assoc _ ca). apply skipn_app_len. rewrite !app_length; lia. }
  subst A Bs C D. rewrite !be_dec_enc.
  rewrite !N.mod_small; auto.
Qed.

Definition burn_wf (m : burn_message) : Prop :=
  (bm_version m < 2^32)%N /\ (0 <= bm_amount m < 2^256)%Z.

Lemma burn_encode_decode m bs : encode_burn m = Some bs -> burn_wf m -> decode_burn bs = Some m.
Proof.
  unfold encode_burn, burn_wf.
  destruct (Nat.eqb_spec (length (bm_token m)) 32) as [Lt|]; [|discriminate].
  destruct (Nat.eqb_spec (length (bm_recipient m)) 32) as [Lr|]; [|discriminate].
  destruct (Nat.eqb_spec (length (bm_sender m)) 32) as [Ls|]; [|discriminate].
  cbn [negb]. intros E (Hv & Ha).
  match type of E with Some ?x = Some _ => assert (bs = x) as -> by congruence end. clear E.
  unfold decode_burn.
  set (A := be_enc 4 (bm_version m)). set (D := be_enc 32 (Z.abs_N (bm_amount m))).
  assert (length A = 4) by apply be_enc_length. assert (length D = 32) by apply be_enc_length.
  rewrite !app_length.
  destruct (Nat.eqb_spec (length A + (length (bm_token m) + (length (bm_recipient m) + (length D + length (bm_sender m))))) 132); [|lia].
  cbn [negb].
  destruct m as [v t r a s]; cbn [bm_version bm_token bm_recipient bm_amount bm_sender] in *.
  f_equal.
  assert (slice 0 4 (A ++ t ++ r ++ D ++ s) = A) as -> by (unfold slice; cbn [skipn Nat.sub]; now apply firstn_app_len).
  assert (slice 4 36 (A ++ t ++ r ++ D ++ s) = t) as ->.
  { unfold slice. rewrite (skipn_app_len A) by auto. now apply firstn_app_len. }
  assert (slice 36 68 (A ++ t ++ r ++ D ++ s) = r) as ->.
  { unfold slice. rewrite (app_assoc A t), (skipn_app_len (A ++ t)) by (rewrite app_length; lia). now apply firstn_app_len. }
  assert (slice 68 100 (A ++ t ++ r ++ D ++ s) = D) as ->.
  { unfold slice. rewrite (app_assoc A t), (app_assoc (A ++ t) r), (skipn_app_len ((A ++ t) ++ r)) by (rewrite !app_length; lia). now apply firstn_app_len. }
  assert (slice 100 132 (A ++ t ++ r ++ D ++ s) = s) as ->.
  { unfold slice. rewrite (app_assoc A t), (app_assoc (A ++ t) r), (app_assoc _ D), (skipn_app_len (((A ++ t) ++ r) ++ D)) by (rewrite !app_length; lia).
    cbn [Nat.sub]. rewrite <- Ls. apply firstn_all. }
  subst A D. rewrite !be_dec_enc. rewrite !N.mod_small.
  - f_equal. lia.
  - change (256 ^ N.of_nat 32)%N with (2 ^ 256)%N. lia.
  - exact Hv.
Qed.

(* ---------- rejection ---------- *)
Lemma decode_message_short bs : length bs < 116 -> decode_message bs = None.
Proof. intros H. unfold decode_message. destruct (Nat.ltb_spec (length bs) 116); [reflexivity|lia]. Qed.
Lemma decode_burn_wrong_length bs : length bs <> 132 -> decode_burn bs = None.
Proof. intros H. unfold decode_burn. destruct (Nat.eqb_spec (length bs) 132); [contradiction|reflexivity]. Qed.
Lemma encode_message_some m bs : encode_message m = Some bs ->
  length (m_sender m) = 32 /\ length (m_recipient m) = 32 /\ length (m_caller m) = 32.
Proof. unfold encode_message.
  destruct (Nat.eqb_spec (length (m_sender m)) 32); [|discriminate].
  destruct (Nat.eqb_spec (length (m_recipient m)) 32); [|discriminate].
  destruct (Nat.eqb_spec (length (m_caller m)) 32); [|discriminate]. auto. Qed.
Lemma encode_burn_some m bs : encode_burn m = Some bs ->
  length (bm_token m) = 32 /\ length (bm_recipient m) = 32 /\ length (bm_sender m) = 32.
Proof. unfold encode_burn.
  destruct (Nat.eqb_spec (length (bm_token m)) 32); [|discriminate].
  destruct (Nat.eqb_spec (length (bm_recipient m)) 32); [|discriminate].
  destruct (Nat.eqb_spec (length (bm_sender m)) 32); [|discriminate]. auto. Qed.
Lemma encode_message_length m bs : encode_message m = Some bs -> length bs = 116 + length (m_body m).
Proof. intros E. pose proof (encode_message_some _ _ E) as (?&?&?). unfold encode_message in E.
  destruct (negb _); [discriminate|]. destruct (negb _); [discriminate|]. destruct (negb _); [discriminate|].
  match type of E with Some ?x = Some _ => assert (bs = x) as -> by congruence end.
  rewrite !app_length, !be_enc_length. lia. Qed.
Lemma encode_burn_length m bs : encode_burn m = Some bs -> length bs = 132.
Proof. intros E. pose proof (encode_burn_some _ _ E) as (?&?&?). unfold encode_burn in E.
  destruct (negb _); [discriminate|]. destruct (negb _); [discriminate|]. destruct (negb _); [discriminate|].
  match type of E with Some ?x = Some _ => assert (bs = x) as -> by congruence end.
  rewrite !app_length, !be_enc_length. lia. Qed.
