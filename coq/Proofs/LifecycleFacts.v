(* Consequences of the lifecycle automaton (Spec/Lifecycle.v), and its lift to histories. *)
From Cctp Require Import Lib.Bytes Lib.SMap Lib.Bech32.
From Cctp Require Import Model.State Model.Ledger Model.Handlers Model.Chain.
From Cctp Require Import Spec.Roles Spec.Lifecycle Proofs.MonadFacts Proofs.AdminFacts.

Lemma lifecycle_run e h : forall c,
  roles_set (c_st c) ->
  roles_of (c_st (run e c h)) = fold_left (fun r s => lifecycle_step (valid_addr e) r (snd s)) h (roles_of (c_st c)).
Proof.
  induction h as [|s h IH]; intros c R; cbn [run fold_left]; auto.
  fold (run e (run_step e c s) h). rewrite IH by (apply roles_set_deliver; exact R).
  unfold run_step. rewrite lifecycle_deliver by exact R. reflexivity.
Qed.

Lemma is_holder_true from o : is_holder from o = true <-> o = Some from.
Proof. unfold is_holder. destruct o as [x|]; [|split; discriminate]. rewrite beqb_eq. split; congruence. Qed.

(* transactions that leave the pending slot and owner alone *)
Definition touches_roles (t : tx) : bool :=
  match t with AcceptOwner _ | UpdateOwner _ _ => true | _ => false end.

Lemma untouched_step valid r t : touches_roles t = false ->
  r_pending (lifecycle_step valid r t) = r_pending r /\ r_owner (lifecycle_step valid r t) = r_owner r.
Proof. destruct t; try discriminate; intros _; cbn; try (split; reflexivity);
  destruct (is_holder _ _ && valid _); split; reflexivity. Qed.

Lemma untouched_fold valid h : forall r, (forall s, In s h -> touches_roles s = false) ->
  r_pending (fold_left (lifecycle_step valid) h r) = r_pending r.
Proof. induction h as [|t h IH]; intros r H; cbn; auto. rewrite IH by (intros; apply H; now right).
  apply untouched_step. apply H. now left. Qed.

Lemma superseded_cannot_accept valid r a b h :
  r_pending r = Some b -> a <> b -> (forall s, In s h -> touches_roles s = false) ->
  let r' := fold_left (lifecycle_step valid) h r in
  lifecycle_step valid r' (AcceptOwner a) = r'.
Proof.
  intros P NE H r'. cbn. assert (r_pending r' = Some b) as E by (subst r'; rewrite untouched_fold; auto).
  rewrite E. cbn. destruct (beqb b a) eqn:B; [|reflexivity]. apply beqb_eq in B. congruence.
Qed.

Lemma accept_no_replay valid r from x :
  is_holder from (r_pending r) = true ->
  let r' := lifecycle_step valid r (AcceptOwner from) in
  r_pending r' = None /\ r_owner r' = r_pending r /\ lifecycle_step valid r' (AcceptOwner x) = r'.
Proof. intros H. cbn. rewrite H. cbn. auto. Qed.

Lemma owner_only_by_accept valid r t :
  r_owner (lifecycle_step valid r t) = r_owner r \/
  (exists from, t = AcceptOwner from /\ r_pending r = Some from /\ r_owner (lifecycle_step valid r t) = Some from).
Proof.
  destruct t; cbn; auto; try (destruct (is_holder _ _ && valid _); auto).
  destruct (is_holder from (r_pending r)) eqn:H; auto. right. exists from. apply is_holder_true in H. cbn. auto.
Qed.

Lemma slots_only_by_owner_update valid r t :
  let r' := lifecycle_step valid r t in
  (r_attmgr r' = r_attmgr r \/ exists from new, t = UpdateAttesterManager from new /\ r_owner r = Some from /\ valid new = true /\ r_attmgr r' = Some new) /\
  (r_pauser r' = r_pauser r \/ exists from new, t = UpdatePauser from new /\ r_owner r = Some from /\ valid new = true /\ r_pauser r' = Some new) /\
  (r_tokctl r' = r_tokctl r \/ exists from new, t = UpdateTokenController from new /\ r_owner r = Some from /\ valid new = true /\ r_tokctl r' = Some new) /\
  (r_pending r' = r_pending r \/ (exists from, t = AcceptOwner from /\ r_pending r = Some from /\ r_pending r' = None) \/
   exists from new, t = UpdateOwner from new /\ r_owner r = Some from /\ valid new = true /\ r_pending r' = Some new).
Proof.
  destruct t; cbn; auto 10.
  - destruct (is_holder from (r_pending r)) eqn:H; cbn; auto 10. apply is_holder_true in H. repeat split; auto. right. left. eauto.
  - destruct (is_holder from (r_owner r)) eqn:H; cbn; auto 10. destruct (valid new) eqn:V; cbn; auto 10.
    apply is_holder_true in H. repeat split; auto. right. right. eauto 10.
  - destruct (is_holder from (r_owner r)) eqn:H; cbn; auto 10. destruct (valid new) eqn:V; cbn; auto 10.
    apply is_holder_true in H. repeat split; auto. right. eauto 10.
  - destruct (is_holder from (r_owner r)) eqn:H; cbn; auto 10. destruct (valid new) eqn:V; cbn; auto 10.
    apply is_holder_true in H. repeat split; auto. right. eauto 10.
  - destruct (is_holder from (r_owner r)) eqn:H; cbn; auto 10. destruct (valid new) eqn:V; cbn; auto 10.
    apply is_holder_true in H. repeat split; auto. right. eauto 10.
Qed.
