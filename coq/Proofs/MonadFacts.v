(* Reasoning principles for the handler monad: a compositional frame rule, and the stepping tactic. *)
From Cctp Require Import Lib.Bytes Lib.SMap.
From Cctp Require Import Model.State Model.Ledger Model.Handlers Model.Chain.

(* [preserves P m]: whatever m returns, initial and final store are related by P *)
Definition preserves {A} (P : store -> store -> Prop) (m : M A) : Prop :=
  forall h r h', m h = (r, h') -> P (h_st h) (h_st h').

Section Preserves.
  Variable P : store -> store -> Prop.
  Hypothesis P_refl : forall s, P s s.
  Hypothesis P_trans : forall a b c, P a b -> P b c -> P a c.

  Lemma preserves_ret {A} (a : A) : preserves P (ret a).
  Proof. intros h r h' [= <- <-]. apply P_refl. Qed.
  Lemma preserves_fail {A} : preserves P (@fail A).
  Proof. intros h r h' [= <- <-]. apply P_refl. Qed.
  Lemma preserves_panic {A} : preserves P (@panic A).
  Proof. intros h r h' [= <- <-]. apply P_refl. Qed.
  Lemma preserves_unmodelled {A} : preserves P (@unmodelled A).
  Proof. intros h r h' [= <- <-]. apply P_refl. Qed.
  Lemma preserves_guard b : preserves P (guard b).
  Proof. destruct b; [apply preserves_ret|apply preserves_fail]. Qed.
  Lemma preserves_require b : preserves P (require_modelled b).
  Proof. destruct b; [apply preserves_ret|apply preserves_unmodelled]. Qed.
  Lemma preserves_lift_opt {A} (o : option A) : preserves P (lift_opt o).
  Proof. destruct o; [apply preserves_ret|apply preserves_fail]. Qed.
  Lemma preserves_get : preserves P get_st.
  Proof. intros h r h' [= <- <-]. apply P_refl. Qed.
  Lemma preserves_emit ev : preserves P (emit ev).
  Proof. intros h r h' [= <- <-]. apply P_refl. Qed.
  Lemma preserves_dep rule eff mk : preserves P (dep rule eff mk).
  Proof. intros h r h'. unfold dep. intros [= <- <-]. apply P_refl. Qed.
  Lemma preserves_mod f : (forall s, P s (f s)) -> preserves P (mod_st f).
  Proof. intros H h r h' [= <- <-]. apply H. Qed.
  Lemma preserves_bind {A C} (m : M A) (f : A -> M C) :
    preserves P m -> (forall a, preserves P (f a)) -> preserves P (bind m f).
  Proof.
    intros Hm Hf h r h'. unfold bind. destruct (m h) as [[a| | |] h1] eqn:E; intros H.
    - eapply P_trans; [eapply Hm; eauto|eapply Hf; eauto].
    - injection H as <- <-. eapply Hm; eauto.
    - injection H as <- <-. eapply Hm; eauto.
    - injection H as <- <-. eapply Hm; eauto.
  Qed.
  Lemma preserves_bind_lift_opt {A C} (o : option A) (f : A -> M C) :
    (forall a, o = Some a -> preserves P (f a)) -> preserves P (bind (lift_opt o) f).
  Proof. intros Hf. destruct o as [a|].
    - intros h r h'. unfold bind, lift_opt, ret. apply Hf. reflexivity.
    - intros h r h'. unfold bind, lift_opt, fail. intros [= <- <-]. apply P_refl. Qed.
  (* bind with access to the value read: get_st returns the current store *)
  Lemma preserves_bind_get {C} (f : store -> M C) :
    (forall s, preserves P (f s)) -> preserves P (bind get_st f).
  Proof. intros Hf. apply preserves_bind; [apply preserves_get|exact Hf]. Qed.
  Lemma preserves_role g : preserves P (role g).
  Proof. unfold role. apply preserves_bind_get. intros s. destruct (g s); [apply preserves_ret|apply preserves_panic]. Qed.
End Preserves.

(* generic frame tactic: P is a reflexive, transitive relation on stores; leaves the mod_st obligations *)
Ltac pres_gen P Prefl Ptrans :=
  repeat first
    [ apply (preserves_bind_lift_opt P Prefl); intros ? ?
    | apply (preserves_bind P Ptrans); [|intros]
    | apply (preserves_ret P Prefl)
    | apply (preserves_fail P Prefl)
    | apply (preserves_panic P Prefl)
    | apply (preserves_unmodelled P Prefl)
    | apply (preserves_guard P Prefl)
    | apply (preserves_require P Prefl)
    | apply (preserves_lift_opt P Prefl)
    | apply (preserves_get P Prefl)
    | apply (preserves_emit P Prefl)
    | apply (preserves_dep P Prefl)
    | apply (preserves_role P Prefl Ptrans)
    | apply preserves_mod; intros ?
    | progress unfold verify_now
    | match goal with |- preserves _ (match ?x with _ => _ end) => destruct x end ].

(* stores agreeing on a projection *)
Definition same {A} (f : store -> A) (s s' : store) : Prop := f s = f s'.
Lemma same_refl {A} (f : store -> A) s : same f s s. Proof. reflexivity. Qed.
Lemma same_trans {A} (f : store -> A) a b c : same f a b -> same f b c -> same f a c.
Proof. unfold same; congruence. Qed.
Ltac frame f := pres_gen (same f) (same_refl f) (same_trans f); try reflexivity.

(* the stepping tactic for outcome characterisations *)
Ltac atom_scrut b := lazymatch b with context [match _ with _ => _ end] => fail | _ => idtac end.
Ltac crunch1 := match goal with |- context [match ?b with _ => _ end] => atom_scrut b; destruct b eqn:? end.
Ltac red_m := cbn beta iota zeta delta [fst snd andb orb negb h_st h_lg h_plan h_ev h_dc c_st c_lg start r_out r_chain r_events r_calls r_dirty].
Ltac unfold_m := unfold guard, require_modelled, lift_opt, role, bind, ret, fail, panic, unmodelled, get_st, mod_st, emit.
Ltac crunch := unfold_m; red_m; repeat (crunch1; red_m); try reflexivity; try congruence.

(* deliver in terms of the handler's raw result *)
Lemma deliver_err e c plan t h : handler e t (start c plan) = (RErr, h) ->
  r_out (deliver e c plan t) = OErr /\ r_chain (deliver e c plan t) = c /\ r_events (deliver e c plan t) = [].
Proof. intros H. unfold deliver. rewrite H. auto. Qed.
Lemma deliver_not_ok e c plan t : is_ok (deliver e c plan t) = false ->
  r_chain (deliver e c plan t) = c /\ r_events (deliver e c plan t) = [].
Proof. unfold deliver, is_ok. destruct (handler e t (start c plan)) as [[a| | |] h]; cbn; intros; try discriminate; auto. Qed.
Lemma deliver_ok_inv e c plan t a : r_out (deliver e c plan t) = OOk a ->
  exists h, handler e t (start c plan) = (ROk a, h) /\
            r_chain (deliver e c plan t) = {| c_st := h_st h; c_lg := h_lg h |} /\
            r_events (deliver e c plan t) = h_ev h /\ r_calls (deliver e c plan t) = h_dc h.
Proof. unfold deliver. destruct (handler e t (start c plan)) as [[a'| | |] h]; cbn; intros H; try discriminate.
  injection H as ->. eauto. Qed.

(* the same stepping, inside a hypothesis [H : m h = (ROk a, h')] (inversion of a successful run) *)
Ltac red_in H := cbn beta iota zeta delta [fst snd andb orb negb h_st h_lg h_plan h_ev h_dc c_st c_lg start r_out r_chain r_events r_calls r_dirty] in H.
Ltac unfold_m_in H :=
  unfold guard, require_modelled, lift_opt, role, bind, ret, fail, panic, unmodelled, get_st, mod_st, emit in H.
Ltac step_in H :=
  match type of H with
  | context [match ?b with _ => _ end] => atom_scrut b; destruct b eqn:?; red_in H; try discriminate H
  end.
Ltac inv_ok H := unfold_m_in H; red_in H; repeat step_in H.

Ltac kill_beqb :=
  match goal with
  | B : beqb ?a ?b = true |- _ => apply beqb_eq in B; subst; congruence
  end.
Ltac step := crunch1; red_m; try reflexivity; try congruence; try kill_beqb.
