(* C18: a system of several chain instances, executed under an arbitrary interleaving, behaves for each
   instance exactly like that instance run alone; the store is canonical (independent of insertion order). *)
From Cctp Require Import Lib.Bytes Lib.SMap.
From Cctp Require Import Model.State Model.Ledger Model.Handlers Model.Chain.

(* a system: one chain per instance; a schedule: which instance executes which step, in global order *)
Definition system := list chain.
Definition sched := list (nat * step).

Fixpoint set_nth {A} (i : nat) (x : A) (l : list A) : list A :=
  match l, i with
  | [], _ => []
  | _ :: r, O => x :: r
  | y :: r, S i' => y :: set_nth i' x r
  end.

Definition sys_step (e : env) (s : system) (ev : nat * step) : system :=
  match nth_error s (fst ev) with
  | Some c => set_nth (fst ev) (run_step e c (snd ev)) s
  | None => s
  end.
Definition sys_run (e : env) (s : system) (sc : sched) : system := fold_left (sys_step e) sc s.

(* the steps of instance i, in order *)
Definition proj (i : nat) (sc : sched) : list step := map snd (filter (fun ev => Nat.eqb (fst ev) i) sc).

Lemma nth_error_set_nth_eq {A} (x : A) l : forall i, i < length l -> nth_error (set_nth i x l) i = Some x.
Proof. induction l as [|y r IH]; intros i L; cbn in L; [lia|]. destruct i; cbn; [reflexivity|]. apply IH. lia. Qed.
Lemma nth_error_set_nth_ne {A} (x : A) l : forall i j, i <> j -> nth_error (set_nth i x l) j = nth_error l j.
Proof. induction l as [|y r IH]; intros i j NE; [destruct i; reflexivity|]. destruct i, j; cbn; try reflexivity; try lia. apply IH. lia. Qed.

(* every instance ends exactly where running its own steps alone would end, whatever the interleaving *)
Theorem instances_independent e sc : forall s i c,
  nth_error s i = Some c -> nth_error (sys_run e s sc) i = Some (run e c (proj i sc)).
Proof.
  induction sc as [|[j st] sc IH]; intros s i c H; cbn [sys_run fold_left proj filter map]; [exact H|].
  fold (sys_run e (sys_step e s (j, st)) sc). unfold sys_step. cbn [fst snd].
  destruct (nth_error s j) as [cj|] eqn:Ej.
  - destruct (Nat.eqb_spec j i) as [->|NE].
    + assert (cj = c) by congruence. subst cj. cbn [map run fold_left]. fold (run e (run_step e c st) (proj i sc)).
      apply IH. apply nth_error_set_nth_eq. apply nth_error_Some. congruence.
    + fold (proj i sc). apply IH. rewrite nth_error_set_nth_ne by exact NE. exact H.
  - destruct (Nat.eqb_spec j i) as [->|NE]; [congruence|]. fold (proj i sc). apply IH. exact H.
Qed.

(* the store is canonical: insertions at distinct keys commute, so no result depends on insertion order *)
Theorem insert_commute {V} (m : smap V) k1 v1 k2 v2 : sorted m -> k1 <> k2 ->
  insert k1 v1 (insert k2 v2 m) = insert k2 v2 (insert k1 v1 m).
Proof.
  intros S NE. apply sorted_ext; try (repeat apply sorted_insert; exact S).
  intros k. destruct (beqb k1 k) eqn:E1; destruct (beqb k2 k) eqn:E2.
  - apply beqb_eq in E1, E2. congruence.
  - apply beqb_eq in E1. subst. rewrite lookup_insert_eq. rewrite lookup_insert_ne by congruence. now rewrite lookup_insert_eq.
  - apply beqb_eq in E2. subst. rewrite lookup_insert_ne by congruence. rewrite !lookup_insert_eq. reflexivity.
  - apply beqb_neq in E1, E2. rewrite !lookup_insert_ne by assumption. reflexivity.
Qed.
