(* C20: no handler panics in a state whose four role slots are set (every initialised chain); the verifier
   never panics; queries panic only where cosmos-sdk's Paginate does; the CLI address parser never panics. *)
From Cctp Require Import Lib.Bytes Lib.SMap Lib.Text Lib.Bech32 Lib.Hex Lib.Keccak Lib.Paginate.
From Cctp Require Import Model.Codec Model.State Model.Attest Model.Ledger Model.Handlers Model.Chain Model.Queries Model.CLI.
From Cctp Require Import Spec.Roles Proofs.MonadFacts Proofs.AdminFacts Proofs.AttestFacts Proofs.StoreFacts.
From Coq Require Import ZifyN ZifyNat ZifyBool.

Definition np {A} (m : M A) : Prop :=
  forall h r h', roles_set (h_st h) -> m h = (r, h') -> r <> RPanic /\ roles_set (h_st h').

Lemma np_ret {A} (a : A) : np (ret a). Proof. intros h r h' R [= <- <-]. split; [discriminate|exact R]. Qed.
Lemma np_fail {A} : np (@fail A). Proof. intros h r h' R [= <- <-]. split; [discriminate|exact R]. Qed.
Lemma np_unmodelled {A} : np (@unmodelled A). Proof. intros h r h' R [= <- <-]. split; [discriminate|exact R]. Qed.
Lemma np_guard b : np (guard b). Proof. destruct b; [apply np_ret|apply np_fail]. Qed.
Lemma np_require b : np (require_modelled b). Proof. destruct b; [apply np_ret|apply np_unmodelled]. Qed.
Lemma np_lift_opt {A} (o : option A) : np (lift_opt o). Proof. destruct o; [apply np_ret|apply np_fail]. Qed.
Lemma np_get : np get_st. Proof. intros h r h' R [= <- <-]. split; [discriminate|exact R]. Qed.
Lemma np_emit ev : np (emit ev). Proof. intros h r h' R [= <- <-]. split; [discriminate|exact R]. Qed.
Lemma np_dep rule eff mk : np (dep rule eff mk).
Proof. intros h r h' R. unfold dep. intros [= <- <-]. split; [destruct (decide _ _); discriminate|exact R]. Qed.
Lemma np_mod f : (forall s, roles_set s -> roles_set (f s)) -> np (mod_st f).
Proof. intros F h r h' R [= <- <-]. split; [discriminate|apply F; exact R]. Qed.
Lemma np_bind {A C} (m : M A) (f : A -> M C) : np m -> (forall a, np (f a)) -> np (bind m f).
Proof.
  intros Hm Hf h r h' R. unfold bind. destruct (m h) as [[a| | |] h1] eqn:E; intros H.
  - destruct (Hm _ _ _ R E) as [_ R1]. eapply Hf; eauto.
  - injection H as <- <-. destruct (Hm _ _ _ R E). split; [discriminate|assumption].
  - destruct (Hm _ _ _ R E) as [N _]. contradiction.
  - injection H as <- <-. destruct (Hm _ _ _ R E). split; [discriminate|assumption].
Qed.
Lemma np_role_owner : np (role owner).
Proof. intros h r h' (R1&R2&R3&R4) H. unfold role in H. unfold_m_in H. red_in H. destruct (owner (h_st h)) eqn:E; [|contradiction].
  injection H as <- <-. split; [discriminate|]. unfold roles_set. rewrite ?E. repeat split; auto; discriminate. Qed.
Lemma np_role_attmgr : np (role attester_manager).
Proof. intros h r h' (R1&R2&R3&R4) H. unfold role in H. unfold_m_in H. red_in H. destruct (attester_manager (h_st h)) eqn:E; [|contradiction].
  injection H as <- <-. split; [discriminate|]. unfold roles_set. rewrite ?E. repeat split; auto; discriminate. Qed.
Lemma np_role_pauser : np (role pauser).
Proof. intros h r h' (R1&R2&R3&R4) H. unfold role in H. unfold_m_in H. red_in H. destruct (pauser (h_st h)) eqn:E; [|contradiction].
  injection H as <- <-. split; [discriminate|]. unfold roles_set. rewrite ?E. repeat split; auto; discriminate. Qed.
Lemma np_role_tokctl : np (role token_controller).
Proof. intros h r h' (R1&R2&R3&R4) H. unfold role in H. unfold_m_in H. red_in H. destruct (token_controller (h_st h)) eqn:E; [|contradiction].
  injection H as <- <-. split; [discriminate|]. unfold roles_set. rewrite ?E. repeat split; auto; discriminate. Qed.

Lemma np_verify_now e s msg att thr : np (verify_now e s msg att thr).
Proof.
  unfold verify_now. destruct (verify _ _ _ _ _) eqn:V; [apply np_ret|apply np_fail|].
  exfalso. exact (verify_no_panic _ _ _ _ _ V).
Qed.

Ltac np_tac :=
  repeat first
    [ apply np_role_owner | apply np_role_attmgr | apply np_role_pauser | apply np_role_tokctl | apply np_verify_now
    | apply np_bind; [|intros]
    | apply np_ret | apply np_fail | apply np_unmodelled | apply np_guard | apply np_require | apply np_lift_opt | apply np_get
    | apply np_emit | apply np_dep | apply np_role_owner | apply np_role_attmgr | apply np_role_pauser | apply np_role_tokctl
    | apply np_verify_now
    | apply np_mod; intros ? (?&?&?&?); unfold roles_set, bump; cbn; repeat split; (assumption || discriminate)
    | match goal with |- np (match ?x with _ => _ end) => destruct x end ].

Theorem handler_no_panic e t : np (handler e t).
Proof. destruct t; cbn [handler]; unfold_everything; unfold dep_transfer, dep_burn, dep_mint; np_tac. Qed.

Theorem deliver_no_panic e c plan t : roles_set (c_st c) -> r_out (deliver e c plan t) <> OPanic.
Proof.
  intros R. unfold deliver. destruct (handler e t (start c plan)) as [r h] eqn:E.
  destruct (handler_no_panic e t (start c plan) r h R E) as [N _]. destruct r; cbn; congruence.
Qed.

(* queries: the only panic is cosmos-sdk's Paginate called in reverse with a cursor whose successor does not exist *)
Definition is_list_query (q : query) : option page_request :=
  match q with QAttesters p | QBurnLimits p | QTokenPairs p | QUsedNonces p | QMessengers p => Some p | _ => None end.

Lemma paginate_panic_iff {V} (l : smap V) rq :
  paginate l rq = PPanic <->
  pg_reverse rq = true /\ pg_key rq <> [] /\ (pg_offset rq = 0%N) /\ exists kv, from_key (pg_key rq) l = [kv].
Proof.
  unfold paginate, iter_items. destruct rq as [key off lim ct rv]. cbn [pg_key pg_offset pg_limit pg_count_total pg_reverse].
  destruct key as [|b k].
  - (* no cursor: offset mode never panics *)
    cbn [length Nat.eqb negb]. rewrite andb_false_r. split; [|intros (_&N&_); contradiction].
    destruct rv; cbn [negb]; intros H; destruct (offset_loop _ _ _ _ _ _ _) as [[? ?] ?] in H; discriminate H.
  - cbn [length Nat.eqb negb]. rewrite andb_true_r. destruct (N.ltb_spec 0 off) as [P|P].
    + split; [discriminate|]. intros (_&_&Z&_). rewrite Z in P. discriminate.
    + assert (off = 0%N) as -> by lia.
      destruct rv; cbn [negb].
      * destruct (from_key (b :: k) l) as [|kv [|[k2 v2] r]] eqn:F.
        -- split; [discriminate|]. intros (_&_&_&kv'&E). discriminate.
        -- split; [intros _; repeat split; auto; [discriminate|eauto]|reflexivity].
        -- split; [discriminate|]. intros (_&_&_&kv'&E). discriminate.
      * split; [discriminate|]. intros (D&_). discriminate.
Qed.

Theorem query_panics_only_in_sdk_reverse_pagination s q : roles_set s ->
  run_query s q = QPanic -> exists p, is_list_query q = Some p /\ pg_reverse p = true /\ pg_key p <> [].
Proof.
  intros (R1&R2&R3&R4) H. destruct q; cbn [run_query is_list_query] in *; unfold of_opt, of_page in H; try discriminate.
  all: repeat match type of H with context [match ?x with _ => _ end] => destruct x eqn:? end; try discriminate; try contradiction.
  all: match goal with P : paginate _ _ = PPanic |- _ => apply paginate_panic_iff in P as (A&B&_) end; eauto.
Qed.

(* the CLI address parser *)
Theorem parse_address_no_panic s : parse_address s <> APanic.
Proof.
  unfold parse_address, left_pad_bytes. destruct (has_prefix_0x s); [destruct (Nat.ltb _ _); discriminate|].
  destruct (negb _); [discriminate|]. destruct (Nat.ltb _ _); discriminate.
Qed.
