(* The only fact about Keccak-256 the theorems use: its output is 32 bytes long. *)
From Cctp Require Import Lib.Bytes Lib.Keccak.

Lemma iota_length rc a : length (iota rc a) = length a.
Proof. destruct a; reflexivity. Qed.
Lemma round_length a rc : length (round a rc) = 25.
Proof. unfold round. rewrite iota_length. unfold chi. now rewrite map_length, seq_length. Qed.
Lemma fold_round_length rcs : forall a, length a = 25 -> length (fold_left round rcs a) = 25.
Proof. induction rcs as [|rc rcs IH]; intros a L; cbn [fold_left]; [exact L|]. apply IH. apply round_length. Qed.
Lemma keccakf_length a : length a = 25 -> length (keccakf a) = 25.
Proof. apply fold_round_length. Qed.
Lemma absorb_length st blk : length (absorb st blk) = 25.
Proof. unfold absorb. apply keccakf_length. now rewrite map_length, seq_length. Qed.
Lemma fold_absorb_length blocks : forall st, length st = 25 -> length (fold_left absorb blocks st) = 25.
Proof. induction blocks as [|b bs IH]; intros st L; cbn [fold_left]; [exact L|]. apply IH. apply absorb_length. Qed.
Lemma bytes_of_lane_length n x : length (bytes_of_lane n x) = n.
Proof. revert x; induction n; intros; cbn; auto. Qed.
Lemma flat_map_lanes_length st : length (flat_map (bytes_of_lane 8) st) = 8 * length st.
Proof. induction st as [|x st IH]; auto. cbn [flat_map]. rewrite app_length, bytes_of_lane_length, IH. cbn [length]. lia. Qed.

Lemma keccak256_length msg : length (keccak256 msg) = 32.
Proof.
  unfold keccak256. cbv zeta. rewrite firstn_length, flat_map_lanes_length, fold_absorb_length; [reflexivity|].
  apply repeat_length.
Qed.
