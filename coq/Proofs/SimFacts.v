(* Executions whose branch is dropped (simulation, CheckTx, an early message of a transaction whose later message
   fails) leave no trace: a history with such executions interleaved reaches exactly the chain reached by the delivered
   steps alone, so every history theorem applies to the delivered subsequence. *)
From Cctp Require Import Lib.Bytes Lib.SMap.
From Cctp Require Import Model.State Model.Ledger Model.Handlers Model.Chain.

Lemma run_modes_cons e c s h : run_modes e c (s :: h) = run_modes e (run_mstep e c s) h.
Proof. reflexivity. Qed.

Theorem run_modes_delivered e h : forall c, run_modes e c h = run e c (delivered h).
Proof.
  induction h as [|[m s] h IH]; intros c; [reflexivity|].
  rewrite run_modes_cons. unfold run_mstep. cbn [fst snd]. destruct m.
  - unfold delivered. cbn [filter fst map snd]. fold (delivered h). rewrite IH. reflexivity.
  - unfold delivered. cbn [filter fst]. fold (delivered h). apply IH.
Qed.

(* a dropped execution between two delivered histories changes neither the chain reached nor any later result *)
Theorem discarded_step_is_invisible e c h1 s h2 :
  run_modes e c (h1 ++ (Discarded, s) :: h2) = run_modes e c (h1 ++ h2).
Proof.
  rewrite !run_modes_delivered. unfold delivered. rewrite !filter_app, !map_app. reflexivity.
Qed.

Theorem later_results_ignore_discarded e c h1 s h2 :
  trace e (run_modes e c (h1 ++ [(Discarded, s)])) h2 = trace e (run_modes e c h1) h2.
Proof.
  f_equal. rewrite !run_modes_delivered. unfold delivered. rewrite filter_app, map_app. cbn. rewrite app_nil_r. reflexivity.
Qed.
