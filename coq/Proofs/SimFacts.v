(* Executions whose branch is dropped (simulation, CheckTx, the early messages of a transaction whose later message
   fails) leave no trace: a history with such branches interleaved reaches exactly the chain reached by the delivered
   steps alone, so every history theorem applies to the delivered subsequence. *)
From Cctp Require Import Lib.Bytes Lib.SMap.
From Cctp Require Import Model.State Model.Ledger Model.Handlers Model.Chain.

Lemma run_modes_cons e c s h : run_modes e c (s :: h) = run_modes e (run_mstep e c s) h.
Proof. reflexivity. Qed.

Lemma delivered_app h1 h2 : delivered (h1 ++ h2) = delivered h1 ++ delivered h2.
Proof. induction h1 as [|[s|b] h1 IH]; cbn; [reflexivity| |]; rewrite IH; reflexivity. Qed.

Theorem run_modes_delivered e h : forall c, run_modes e c h = run e c (delivered h).
Proof.
  induction h as [|[s|b] h IH]; intros c; [reflexivity| |].
  - rewrite run_modes_cons. cbn [run_mstep delivered]. rewrite IH. reflexivity.
  - rewrite run_modes_cons. cbn [run_mstep delivered]. apply IH.
Qed.

(* a dropped branch between two histories changes neither the chain reached nor any later result *)
Theorem discarded_step_is_invisible e c h1 b h2 :
  run_modes e c (h1 ++ Dropped b :: h2) = run_modes e c (h1 ++ h2).
Proof. rewrite !run_modes_delivered, !delivered_app. reflexivity. Qed.

Theorem later_results_ignore_discarded e c h1 b h2 :
  trace e (run_modes e c (h1 ++ [Dropped b])) h2 = trace e (run_modes e c h1) h2.
Proof. f_equal. rewrite !run_modes_delivered, delivered_app. cbn. rewrite app_nil_r. reflexivity. Qed.
