(* cosmos-sdk query.Paginate as modelled in Lib/Paginate.v: what a page contains, and that following
   next_key (key mode) or advancing the offset (offset mode) returns every item exactly once (C19). *)
From Cctp Require Import Lib.Bytes Lib.SMap Lib.Paginate.
From Coq Require Import ZifyN ZifyNat ZifyBool.

Section PF.
  Context {V : Type}.
  Local Open Scope N_scope.

  (* ---------- the offset-mode loop ---------- *)
  (* items at running counts in (offset, end] *)
  Fixpoint sel (it : smap V) (c offset end_ : N) : list V :=
    match it with
    | [] => []
    | (_, v) :: r => (if (offset <? c + 1) && (c + 1 <=? end_) then [v] else []) ++ sel r (c + 1) offset end_
    end.
  (* key of the item at running count end+1 *)
  Fixpoint nxt (it : smap V) (c end_ : N) (dflt : bytes) : bytes :=
    match it with
    | [] => dflt
    | (k, _) :: r => if c + 1 =? end_ + 1 then k else nxt r (c + 1) end_ dflt
    end.

  Lemma offset_loop_items (it : smap V) : forall c offset end_ ct (acc : list V) next, offset <= end_ ->
    fst (fst (offset_loop it c offset end_ ct acc next)) = rev acc ++ sel it c offset end_.
  Proof.
    induction it as [|[k v] r IH]; intros c offset end_ ct acc next OE; cbn [offset_loop sel]; [now rewrite app_nil_r|].
    destruct (N.leb_spec (c + 1) offset) as [A|A].
    - rewrite IH by exact OE. replace (offset <? c + 1) with false by (symmetry; apply N.ltb_ge; lia). reflexivity.
    - replace (offset <? c + 1) with true by (symmetry; apply N.ltb_lt; lia). cbn [andb].
      destruct (N.leb_spec (c + 1) end_) as [B|B].
      + rewrite IH by exact OE. cbn [rev]. rewrite <- app_assoc. reflexivity.
      + cbn [app]. destruct (N.eqb_spec (c + 1) (end_ + 1)) as [C|C].
        * destruct ct.
          -- rewrite IH by exact OE. reflexivity.
          -- cbn [fst]. clear IH. assert (forall (it' : smap V) c', end_ < c' + 1 -> sel it' c' offset end_ = []) as Z.
             { induction it' as [|[k' v'] r' IH']; intros c' Hc; cbn [sel]; auto.
               replace (c' + 1 <=? end_) with false by (symmetry; apply N.leb_gt; lia). rewrite andb_false_r. cbn. apply IH'. lia. }
             rewrite Z by lia. now rewrite app_nil_r.
        * rewrite IH by exact OE. reflexivity.
  Qed.

  Lemma offset_loop_next (it : smap V) : forall c offset end_ ct (acc : list V) next, offset <= end_ -> c <= end_ ->
    snd (fst (offset_loop it c offset end_ ct acc next)) = nxt it c end_ next.
  Proof.
    induction it as [|[k v] r IH]; intros c offset end_ ct acc next OE CE; cbn [offset_loop nxt]; [reflexivity|].
    destruct (N.leb_spec (c + 1) offset) as [A|A].
    - replace (c + 1 =? end_ + 1) with false by (symmetry; apply N.eqb_neq; lia). apply IH; lia.
    - destruct (N.leb_spec (c + 1) end_) as [B|B].
      + replace (c + 1 =? end_ + 1) with false by (symmetry; apply N.eqb_neq; lia). apply IH; lia.
      + assert (c = end_) by lia. subst c. rewrite N.eqb_refl. destruct ct; [|reflexivity].
        clear IH. assert (forall (it' : smap V) c' (acc' : list V), end_ + 1 <= c' ->
                   snd (fst (offset_loop it' c' offset end_ true acc' k)) = k) as Z.
        { induction it' as [|[k' v'] r' IH']; intros c' acc' Hc; cbn [offset_loop]; auto.
          replace (c' + 1 <=? offset) with false by (symmetry; apply N.leb_gt; lia).
          replace (c' + 1 <=? end_) with false by (symmetry; apply N.leb_gt; lia).
          replace (c' + 1 =? end_ + 1) with false by (symmetry; apply N.eqb_neq; lia). apply IH'. lia. }
        apply Z. lia.
  Qed.

  Lemma offset_loop_count_total (it : smap V) : forall c offset end_ (acc : list V) next,
    snd (offset_loop it c offset end_ true acc next) = c + N.of_nat (length it).
  Proof.
    induction it as [|[k v] r IH]; intros c offset end_ acc next; cbn [offset_loop length]; [cbn; lia|].
    destruct (c + 1 <=? offset); [rewrite IH; lia|]. destruct (c + 1 <=? end_); [rewrite IH; lia|].
    destruct (c + 1 =? end_ + 1); rewrite IH; lia.
  Qed.

  (* selection by running count = firstn / skipn by position *)
  Lemma sel_firstn_skipn (it : smap V) : forall c offset end_, c <= offset -> offset <= end_ ->
    sel it c offset end_ = map snd (firstn (N.to_nat (end_ - offset)) (skipn (N.to_nat (offset - c)) it)).
  Proof.
    induction it as [|[k v] r IH]; intros c offset end_ CO OE; cbn [sel].
    - now rewrite skipn_nil, firstn_nil.
    - destruct (N.ltb_spec offset (c + 1)) as [A|A].
      + assert (c = offset) by lia. subst c. rewrite N.sub_diag. cbn [N.to_nat skipn].
        destruct (N.leb_spec (offset + 1) end_) as [B|B]; cbn [andb app].
        * replace (N.to_nat (end_ - offset)) with (S (N.to_nat (end_ - (offset + 1)))) by lia. cbn [firstn map snd]. f_equal.
          clear IH.
          assert (forall (it' : smap V) c'' (n : nat), offset < c'' + 1 -> sel it' c'' offset end_ = map snd (firstn (N.to_nat (end_ - c'')) it')) as Z.
          { induction it' as [|[k' v'] r' IH']; intros c'' n Hc; cbn [sel]; [now rewrite firstn_nil|].
            replace (offset <? c'' + 1) with true by (symmetry; apply N.ltb_lt; lia). cbn [andb].
            destruct (N.leb_spec (c'' + 1) end_) as [D|D].
            - replace (N.to_nat (end_ - c'')) with (S (N.to_nat (end_ - (c'' + 1)))) by lia. cbn [firstn map snd app]. f_equal. apply (IH' _ 0%nat). lia.
            - replace (N.to_nat (end_ - c'')) with 0%nat by lia. cbn [firstn map app].
              rewrite (IH' _ 0%nat) by lia. replace (N.to_nat (end_ - (c'' + 1))) with 0%nat by lia. reflexivity. }
          apply (Z r (offset + 1) 0%nat). lia.
        * assert (end_ = offset) by lia. subst end_. rewrite N.sub_diag. cbn [N.to_nat firstn map].
          assert (forall (it' : smap V) c'', offset < c'' + 1 -> sel it' c'' offset offset = []) as Z.
          { induction it' as [|[k' v'] r' IH']; intros c'' Hc; cbn [sel]; auto.
            replace (c'' + 1 <=? offset) with false by (symmetry; apply N.leb_gt; lia). rewrite andb_false_r. cbn. apply IH'. lia. }
          apply Z. lia.
      + replace (N.to_nat (offset - c)) with (S (N.to_nat (offset - (c + 1)))) by lia. cbn [skipn app]. apply IH; lia.
  Qed.

  Lemma nxt_nth (it : smap V) : forall c end_ d, c <= end_ ->
    nxt it c end_ d = match nth_error it (N.to_nat (end_ - c)) with Some (k, _) => k | None => d end.
  Proof.
    induction it as [|[k v] r IH]; intros c end_ d CE; cbn [nxt].
    - now destruct (N.to_nat (end_ - c)).
    - destruct (N.eqb_spec (c + 1) (end_ + 1)) as [A|A].
      + assert (c = end_) by lia. subst. now rewrite N.sub_diag.
      + replace (N.to_nat (end_ - c)) with (S (N.to_nat (end_ - (c + 1)))) by lia. cbn [nth_error]. apply IH. lia.
  Qed.

  Definition key_at (l : smap V) (n : nat) : bytes := match nth_error l n with Some (k, _) => k | None => [] end.

  (* ---------- what one page contains ---------- *)
  (* offset mode (no key, forward): limit items starting at position offset, next_key = key of the item after
     the page ([] at the end), total = the size of the collection when requested *)
  Theorem offset_page (l : smap V) offset limit ct :
    limit <> 0 -> offset + limit < two64 ->
    paginate l {| pg_key := []; pg_offset := offset; pg_limit := limit; pg_count_total := ct; pg_reverse := false |} =
    POk (map snd (firstn (N.to_nat limit) (skipn (N.to_nat offset) l))) (key_at l (N.to_nat (offset + limit)))
        (if ct then Some (N.of_nat (length l)) else None).
  Proof.
    intros L W. unfold paginate. cbn [pg_key pg_offset pg_limit pg_count_total pg_reverse length Nat.eqb negb andb].
    replace (limit =? 0) with false by (symmetry; apply N.eqb_neq; exact L). rewrite andb_false_r.
    unfold iter_items. cbn [negb]. rewrite N.mod_small by exact W.
    pose proof (offset_loop_items l 0 offset (offset + limit) ct [] []) as HI.
    pose proof (offset_loop_next l 0 offset (offset + limit) ct [] []) as HN.
    pose proof (offset_loop_count_total l 0 offset (offset + limit) [] []) as HC.
    destruct (offset_loop l 0 offset (offset + limit) ct [] []) as [[items next] count] eqn:E. cbn [fst snd] in *.
    rewrite HI, HN by lia. cbn [rev app]. rewrite sel_firstn_skipn by lia. rewrite nxt_nth by lia.
    rewrite !N.sub_0_r. replace (offset + limit - offset) with limit by lia. unfold key_at.
    destruct ct; [|reflexivity]. rewrite E in HC. cbn in HC. rewrite HC. reflexivity.
  Qed.

  (* offset mode in reverse: the same page over the collection in descending key order *)
  Theorem offset_page_reverse (l : smap V) offset limit ct :
    limit <> 0 -> offset + limit < two64 ->
    paginate l {| pg_key := []; pg_offset := offset; pg_limit := limit; pg_count_total := ct; pg_reverse := true |} =
    POk (map snd (firstn (N.to_nat limit) (skipn (N.to_nat offset) (rev l)))) (key_at (rev l) (N.to_nat (offset + limit)))
        (if ct then Some (N.of_nat (length l)) else None).
  Proof.
    intros L W. unfold paginate. cbn [pg_key pg_offset pg_limit pg_count_total pg_reverse length Nat.eqb negb andb].
    replace (limit =? 0) with false by (symmetry; apply N.eqb_neq; exact L). rewrite andb_false_r.
    unfold iter_items. cbn [negb]. rewrite N.mod_small by exact W.
    pose proof (offset_loop_items (rev l) 0 offset (offset + limit) ct [] []) as HI.
    pose proof (offset_loop_next (rev l) 0 offset (offset + limit) ct [] []) as HN.
    pose proof (offset_loop_count_total (rev l) 0 offset (offset + limit) [] []) as HC.
    destruct (offset_loop (rev l) 0 offset (offset + limit) ct [] []) as [[items next] count] eqn:E. cbn [fst snd] in *.
    rewrite HI, HN by lia. cbn [List.rev app]. rewrite sel_firstn_skipn by lia. rewrite nxt_nth by lia.
    rewrite !N.sub_0_r. replace (offset + limit - offset) with limit by lia. unfold key_at.
    destruct ct; [|reflexivity]. rewrite E in HC. cbn in HC. rewrite HC, rev_length. reflexivity.
  Qed.

  (* key mode (forward): limit items starting at the first key >= the cursor, next_key = key of the next item *)
  Theorem key_page (l : smap V) key limit ct :
    limit <> 0 -> key <> [] ->
    paginate l {| pg_key := key; pg_offset := 0; pg_limit := limit; pg_count_total := ct; pg_reverse := false |} =
    POk (map snd (firstn (N.to_nat limit) (from_key key l))) (key_at (from_key key l) (N.to_nat limit)) None.
  Proof.
    intros L K. unfold paginate. cbn [pg_key pg_offset pg_limit pg_count_total pg_reverse].
    replace (limit =? 0) with false by (symmetry; apply N.eqb_neq; exact L). cbn [N.ltb N.compare andb].
    unfold iter_items. cbn [negb]. destruct key as [|b key]; [contradiction|]. reflexivity.
  Qed.

  (* ---------- a cursor names a position ---------- *)
  Lemma from_key_skipn (l : smap V) : forall n k v, sorted l -> nth_error l n = Some (k, v) -> from_key k l = skipn n l.
  Proof.
    induction l as [|[k0 v0] r IH]; intros n k v S E; [destruct n; discriminate|].
    destruct S as [F S]. destruct n as [|n]; cbn [nth_error] in E.
    - injection E as -> ->. unfold from_key. cbn [filter fst]. rewrite bltb_irrefl. cbn [negb skipn]. f_equal.
      clear IH S. induction r as [|a r IH]; cbn [filter]; auto. inversion F as [|? ? H1 H2]; subst.
      rewrite (bltb_asym _ _ H1). cbn [negb]. f_equal. auto.
    - unfold from_key in *. cbn [filter fst skipn].
      assert (bltb k0 k = true) as Lt. { apply nth_error_In in E. rewrite Forall_forall in F. exact (F _ E). }
      rewrite Lt. cbn [negb]. eapply IH; eauto.
  Qed.

  Lemma nth_error_skipn' {A} n m (l : list A) : nth_error (skipn n l) m = nth_error l (n + m).
  Proof. revert l; induction n; intros l; cbn; auto. destruct l; cbn; auto. now destruct m. Qed.

  (* ---------- coverage, key mode: follow next_key from the first page ---------- *)
  Definition items_of (p : pres V) : list V := match p with POk i _ _ => i | _ => [] end.
  Definition next_of (p : pres V) : bytes := match p with POk _ n _ => n | _ => [] end.

  Definition page_by_key (l : smap V) (limit : N) (key : bytes) : pres V :=
    paginate l {| pg_key := key; pg_offset := 0; pg_limit := limit; pg_count_total := false; pg_reverse := false |}.

  (* the client loop: fetch, append, continue from next_key until it is empty *)
  Fixpoint follow (fuel : nat) (l : smap V) (limit : N) (key : bytes) : option (list V) :=
    match fuel with
    | O => None
    | S f => let p := page_by_key l limit key in
             match next_of p with
             | [] => Some (items_of p)
             | k' => option_map (app (items_of p)) (follow f l limit k')
             end
    end.
  Definition all_pages_by_key (l : smap V) (limit : N) : option (list V) := follow (S (length l)) l limit [].

  (* keys of stored entries are never empty (every key derivation appends "/") *)
  Definition keys_nonempty (l : smap V) : Prop := Forall (fun kv => fst kv <> []) l.

  Lemma follow_covers (l : smap V) (limit : N) : sorted l -> keys_nonempty l -> limit <> 0 ->
    forall fuel n k v, nth_error l n = Some (k, v) -> (length l - n <= fuel * N.to_nat limit)%nat -> (0 < fuel)%nat ->
    follow fuel l limit k = Some (map snd (skipn n l)).
  Proof.
    intros S KN L. induction fuel as [|f IH]; intros n k v E B F; [lia|].
    assert (k <> []) as Kne. { apply nth_error_In in E. unfold keys_nonempty in KN. rewrite Forall_forall in KN. exact (KN _ E). }
    cbn [follow]. unfold page_by_key. rewrite key_page by assumption. cbn [next_of items_of].
    rewrite (from_key_skipn l n k v S E). unfold key_at.
    destruct (nth_error (skipn n l) (N.to_nat limit)) as [[k' v']|] eqn:Nx.
    - assert (nth_error l (n + N.to_nat limit) = Some (k', v')) as E' by (now rewrite <- nth_error_skipn').
      assert (n + N.to_nat limit < length l)%nat by (apply nth_error_Some; congruence).
      assert (k' <> []) as Kne'. { apply nth_error_In in E'. unfold keys_nonempty in KN. rewrite Forall_forall in KN. exact (KN _ E'). }
      destruct k' as [|b k']; [contradiction|].
      assert (0 < f)%nat by (destruct f; [lia|lia]).
      rewrite (IH (n + N.to_nat limit)%nat (b :: k') v') by (auto; nia). cbn [option_map]. f_equal.
      rewrite <- map_app. f_equal. rewrite <- (firstn_skipn (N.to_nat limit) (skipn n l)) at 2. f_equal. symmetry. apply skipn_skipn'.
    - f_equal. f_equal. apply firstn_all2. apply nth_error_None in Nx. lia.
  Qed.

  (* the first page is fetched with an empty key (offset 0) *)
  Theorem pages_cover_key_mode (l : smap V) (limit : N) :
    sorted l -> keys_nonempty l -> limit <> 0 -> limit < two64 -> all_pages_by_key l limit = Some (values l).
  Proof.
    intros S KN L W. unfold all_pages_by_key. cbn [follow]. unfold page_by_key.
    rewrite !offset_page by (auto; lia). cbn [next_of items_of N.to_nat skipn]. rewrite N.add_0_l. unfold key_at.
    destruct (nth_error l (N.to_nat limit)) as [[k v]|] eqn:Nx.
    - assert (N.to_nat limit < length l)%nat by (apply nth_error_Some; congruence).
      assert (k <> []) as Kne. { apply nth_error_In in Nx. unfold keys_nonempty in KN. rewrite Forall_forall in KN. exact (KN _ Nx). }
      destruct k as [|b k]; [contradiction|].
      rewrite (follow_covers l limit S KN L (length l) (N.to_nat limit) (b :: k) v Nx) by (try nia; lia).
      cbn [option_map]. f_equal. unfold values. rewrite <- map_app, firstn_skipn. reflexivity.
    - f_equal. unfold values. f_equal. apply firstn_all2. now apply nth_error_None in Nx.
  Qed.

  (* ---------- coverage, offset mode: pages at offsets 0, L, 2L, ... ---------- *)
  Definition page_by_offset (l : smap V) (limit : N) (i : nat) : pres V :=
    paginate l {| pg_key := []; pg_offset := N.of_nat i * limit; pg_limit := limit; pg_count_total := true; pg_reverse := false |}.

  Lemma concat_pages (vals : list V) (L : nat) : forall k,
    concat (map (fun i => firstn L (skipn (i * L) vals)) (seq 0 k)) = firstn (k * L) vals.
  Proof.
    induction k as [|k IH]; [reflexivity|]. rewrite seq_S, map_app, concat_app, IH. cbn [map concat]. rewrite app_nil_r.
    replace (S k * L)%nat with (k * L + L)%nat by lia. now rewrite firstn_add'.
  Qed.

  Theorem pages_cover_offset_mode (l : smap V) (limit : N) (k : nat) :
    limit <> 0 -> (N.of_nat k + 1) * limit < two64 -> (length l <= k * N.to_nat limit)%nat ->
    concat (map (fun i => items_of (page_by_offset l limit i)) (seq 0 k)) = values l /\
    forall i, (i < k)%nat -> exists items next, page_by_offset l limit i = POk items next (Some (N.of_nat (length l))).
  Proof.
    intros L W C. split.
    - transitivity (concat (map (fun i => firstn (N.to_nat limit) (skipn (i * N.to_nat limit) (values l))) (seq 0 k))).
      + f_equal. apply map_ext_in. intros i Hi. apply in_seq in Hi. unfold page_by_offset. rewrite offset_page by (auto; nia).
        cbn [items_of]. unfold values. rewrite <- firstn_map, <- skipn_map. f_equal. f_equal. lia.
      + rewrite concat_pages. apply firstn_all2. unfold values. rewrite map_length. lia.
    - intros i Hi. unfold page_by_offset. rewrite offset_page by (auto; nia). eauto.
  Qed.
End PF.
