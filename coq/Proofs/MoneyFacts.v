(* Deliver-level consequences of the flow inversions: what successful receives, deposits and
   replacements request from the dependencies and emit (C04, C05, C06, C09, C14). *)
From Cctp Require Import Lib.Bytes Lib.SMap Lib.Text Lib.Bech32 Lib.Hex Lib.Keccak.
From Cctp Require Import Model.Codec Model.State Model.Attest Model.Ledger Model.Handlers Model.Chain.
From Cctp Require Import Proofs.MonadFacts Proofs.FlowFacts Proofs.CallFacts Proofs.CodecFacts Proofs.KeccakFacts.

Lemma ok_inv e c plan t : is_ok (deliver e c plan t) = true ->
  exists a h', handler e t (start c plan) = (ROk a, h') /\
    deliver e c plan t = {| r_out := OOk a; r_chain := {| c_st := h_st h'; c_lg := h_lg h' |}; r_events := h_ev h';
                            r_calls := h_dc h'; r_dirty := h' |}.
Proof. unfold is_ok, deliver. destruct (handler e t (start c plan)) as [[a| | |] h']; cbn; try discriminate. eauto. Qed.

Lemma encode_sender_field m bz : encode_message m = Some bz -> slice 20 52 bz = m_sender m.
Proof.
  intros E. pose proof (encode_message_some _ _ E) as (Ls&Lr&Lc). unfold encode_message in E.
  rewrite Ls, Lr, Lc in E. cbn [Nat.eqb negb] in E.
  assert (bz = be_enc 4 (m_version m) ++ be_enc 4 (m_src m) ++ be_enc 4 (m_dst m) ++ be_enc 8 (m_nonce m) ++ m_sender m ++ m_recipient m ++ m_caller m ++ m_body m) as -> by congruence. clear E.
  set (hd := be_enc 4 (m_version m) ++ be_enc 4 (m_src m) ++ be_enc 4 (m_dst m) ++ be_enc 8 (m_nonce m)).
  assert (length hd = 20) as Lh by (subst hd; rewrite !app_length, !be_enc_length; reflexivity).
  assert (be_enc 4 (m_version m) ++ be_enc 4 (m_src m) ++ be_enc 4 (m_dst m) ++ be_enc 8 (m_nonce m) ++ m_sender m ++ m_recipient m ++ m_caller m ++ m_body m
          = hd ++ m_sender m ++ (m_recipient m ++ m_caller m ++ m_body m)) as -> by (subst hd; rewrite <- !app_assoc; reflexivity).
  unfold slice. rewrite (skipn_app_len hd _ 20 Lh). change (52 - 20) with 32. apply firstn_app_len. exact Ls.
Qed.

Section Money.
  Variable e : env.

  (* ---------- receive ---------- *)
  Lemma receive_ok_effects c plan from msg att :
    is_ok (deliver e c plan (ReceiveMessage from msg att)) = true ->
    exists m, decode_message msg = Some m /\
      let r := deliver e c plan (ReceiveMessage from msg att) in
      if to_module e m
      then exists b p to,
             decode_burn (m_body m) = Some b /\
             lookup (pair_key (m_src m) (bm_token b)) (pairs (c_st c)) = Some p /\
             bech32_of e (skipn 12 (bm_recipient b)) = Some to /\
             r_calls r = [DMint (module_str e) to (to_lower (tp_local p)) (bm_amount b) true] /\
             r_events r = [EvMintAndWithdraw (bm_recipient b) (bm_amount b) (to_lower (tp_local p));
                           EvMessageReceived from (m_src m) (m_nonce m) (m_sender m) (m_body m)] /\
             c_lg (r_chain r) = mint_effect e (c_lg c) to (to_lower (tp_local p)) (bm_amount b)
      else r_calls r = [] /\ c_lg (r_chain r) = c_lg c /\
           r_events r = [EvMessageReceived from (m_src m) (m_nonce m) (m_sender m) (m_body m)].
  Proof.
    intros O. apply ok_inv in O as (a&h'&H&->). cbn [handler] in H. apply receive_inv in H. destruct_receive H.
    exists rmsg. split; [assumption|]. cbv zeta. cbn [r_calls r_events r_chain c_lg start h_dc h_ev h_lg] in *.
    destruct (to_module e rmsg).
    - destruct Rbranch as (b&p&tm&to&B1&B2&B3&B4&B5&B6&B7&B8&B9&B10&B11). exists b, p, to. cbn [app] in *. auto 10.
    - destruct Rbranch as (B1&B2&B3). cbn [app] in *. auto.
  Qed.

  (* ---------- deposits ---------- *)
  Lemma deposit_ok_effects c plan t from amount dest mr bt caller :
    (t = DepositForBurn from amount dest mr bt /\ caller = []) \/ t = DepositForBurnWithCaller from amount dest mr bt caller ->
    is_ok (deliver e c plan t) = true ->
    deposit_facts e (start c plan) from amount dest mr bt caller (RNonce (nn (c_st c))) (r_dirty (deliver e c plan t)) /\
    r_out (deliver e c plan t) = OOk (RNonce (nn (c_st c))) /\
    r_events (deliver e c plan t) = h_ev (r_dirty (deliver e c plan t)) /\
    r_calls (deliver e c plan t) = h_dc (r_dirty (deliver e c plan t)) /\
    c_lg (r_chain (deliver e c plan t)) = h_lg (r_dirty (deliver e c plan t)) /\
    c_st (r_chain (deliver e c plan t)) = h_st (r_dirty (deliver e c plan t)).
  Proof.
    intros T O. apply ok_inv in O as (a&h'&H&->). cbn [r_dirty r_out r_events r_calls r_chain c_lg c_st].
    destruct T as [[-> ->]| ->]; cbn [handler] in H.
    - pose proof (deposit_inv e _ _ _ _ _ _ _ _ _ H) as F. pose proof F as F'. destruct_deposit F'. subst a. auto 10.
    - unfold h_deposit_with_caller in H. inv_ok H.
      pose proof (deposit_inv e _ _ _ _ _ _ _ _ _ H) as F. pose proof F as F'. destruct_deposit F'. subst a. auto 10.
  Qed.
End Money.
