(* Genesis (C17): validation rejects colliding keys; export after init preserves what was imported;
   import of an export reproduces the store (up to the pending-owner slot, which has no genesis field). *)
From Coq Require Import Permutation.
From Cctp Require Import Lib.Bytes Lib.SMap Lib.Text Lib.Bech32 Lib.Hex Lib.Keccak.
From Cctp Require Import Model.Codec Model.State Model.Attest Model.Ledger Model.Handlers Model.Chain Model.Genesis.
From Cctp Require Import Proofs.MonadFacts Proofs.StoreFacts.

Arguments insert_all : simpl never.

Lemma has_dup_NoDup l : has_dup l = false -> NoDup l.
Proof.
  induction l as [|k r IH]; cbn; intros H; [constructor|]. apply orb_false_iff in H as [H1 H2]. constructor; auto.
  intros In. assert (existsb (beqb k) r = true) as E by (apply existsb_exists; exists k; split; [exact In|apply beqb_refl]). congruence.
Qed.

Lemma validate_no_dup e g : validate e g = true ->
  NoDup (map k_attester (g_attesters g)) /\ NoDup (map k_limit (g_limits g)) /\ NoDup (map k_pair (g_pairs g)) /\
  NoDup (map k_nonce (g_nonces g)) /\ NoDup (map k_messenger (g_messengers g)).
Proof.
  unfold validate. rewrite !andb_true_iff, !negb_true_iff. intros ((((((((((_&_)&_)&_)&A)&L)&_)&_)&P)&N)&M).
  repeat split; apply has_dup_NoDup; assumption.
Qed.

Lemma validate_roles_flags e g : validate e g = true ->
  role_ok e (g_owner g) = true /\ role_ok e (g_attester_manager g) = true /\ role_ok e (g_pauser g) = true /\
  role_ok e (g_token_controller g) = true /\ g_bm_paused g <> None /\ g_sr_paused g <> None.
Proof.
  unfold validate. rewrite !andb_true_iff. intros ((((((((((R1&R2)&R3)&R4)&_)&_)&B)&S)&_)&_)&_).
  repeat split; auto; [destruct (g_bm_paused g)|destruct (g_sr_paused g)]; congruence.
Qed.

(* export after init: same roles, defaults substituted, every list a permutation of the imported one *)
Lemma export_init e g s : validate e g = true -> init_genesis g = Some s ->
  exists g', export_genesis s = Some g' /\
    g_owner g' = g_owner g /\ g_attester_manager g' = g_attester_manager g /\ g_pauser g' = g_pauser g /\
    g_token_controller g' = g_token_controller g /\
    g_bm_paused g' = g_bm_paused g /\ g_sr_paused g' = g_sr_paused g /\
    g_max_body g' = Some (dflt (g_max_body g) 8000%N) /\ g_next_nonce g' = Some (dflt (g_next_nonce g) 0%N) /\
    g_threshold g' = Some (dflt (g_threshold g) 1%N) /\
    Permutation (g_attesters g') (g_attesters g) /\ Permutation (g_limits g') (g_limits g) /\
    Permutation (g_pairs g') (g_pairs g) /\ Permutation (g_nonces g') (g_nonces g) /\
    Permutation (g_messengers g') (g_messengers g).
Proof.
  intros V I. destruct (validate_no_dup e g V) as (NA&NL&NP&NN&NM).
  destruct (validate_roles_flags e g V) as (_&_&_&_&B&S).
  unfold init_genesis in I. destruct (g_threshold g) as [[|p]|] eqn:T; try discriminate; injection I as <-;
  (eexists; split; [reflexivity|]); cbn;
  destruct (g_bm_paused g); try contradiction; destruct (g_sr_paused g); try contradiction; cbn;
  repeat split; try reflexivity;
  first [ apply (values_insert_all_perm k_attester _ []); [assumption|reflexivity]
        | apply (values_insert_all_perm k_limit _ []); [assumption|reflexivity]
        | apply (values_insert_all_perm k_pair _ []); [assumption|reflexivity]
        | apply (values_insert_all_perm k_nonce _ []); [assumption|reflexivity]
        | apply (values_insert_all_perm k_messenger _ []); [assumption|reflexivity] ].
Qed.

(* states in which export and import are total: roles and scalars set, a non-zero threshold *)
Definition exportable (s : store) : Prop :=
  owner s <> None /\ attester_manager s <> None /\ pauser s <> None /\ token_controller s <> None /\
  bm_paused s <> None /\ sr_paused s <> None /\ max_body s <> None /\ next_nonce s <> None /\
  threshold s <> None /\ threshold s <> Some 0%N.

(* import of an export reproduces every stored entry except the pending-owner slot *)
Lemma init_export s : store_wf s -> exportable s ->
  exists g, export_genesis s = Some g /\ init_genesis g = Some (set_pending_owner None s).
Proof.
  intros (W1&W2&W3&W4&W5) (E1&E2&E3&E4&E5&E6&E7&E8&E9&E10). unfold export_genesis.
  destruct s as [o po am pa tc bm sr mb nn th at_ li pr ms ns].
  cbn [owner pending_owner attester_manager pauser token_controller bm_paused sr_paused max_body next_nonce threshold
       attesters limits pairs messengers nonces] in *.
  destruct o; try contradiction. destruct am; try contradiction. destruct pa; try contradiction. destruct tc; try contradiction.
  eexists; split; [reflexivity|]. unfold init_genesis, set_pending_owner.
  cbn [g_owner g_attester_manager g_pauser g_token_controller g_attesters g_limits g_bm_paused g_sr_paused g_max_body
       g_next_nonce g_threshold g_pairs g_nonces g_messengers
       owner pending_owner attester_manager pauser token_controller bm_paused sr_paused max_body next_nonce threshold
       attesters limits pairs messengers nonces].
  destruct bm; try contradiction. destruct sr; try contradiction. destruct mb; try contradiction. destruct nn; try contradiction.
  destruct th as [[|p]|]; try contradiction. cbn [dflt].
  change (insert_all attester_key) with (insert_all k_attester).
  change (insert_all (fun l => limit_key (lim_denom l))) with (insert_all k_limit).
  change (insert_all (fun p => pair_key (tp_domain p) (tp_token p))) with (insert_all k_pair).
  change (insert_all (fun m => messenger_key (tm_domain m))) with (insert_all k_messenger).
  change (insert_all (fun n => nonce_key (un_domain n) (un_nonce n))) with (insert_all k_nonce).
  rewrite !rebuild by assumption. reflexivity.
Qed.

(* exportable is an invariant of every chain initialised from a genesis *)
Definition keeps_exportable (s s' : store) : Prop := exportable s -> exportable s'.
Lemma keeps_exportable_refl s : keeps_exportable s s. Proof. unfold keeps_exportable; auto. Qed.
Lemma keeps_exportable_trans a b c : keeps_exportable a b -> keeps_exportable b c -> keeps_exportable a c.
Proof. unfold keeps_exportable; auto. Qed.

Lemma handler_keeps_exportable e t : preserves keeps_exportable (handler e t).
Proof.
  destruct t; cbn [handler].
  25: { (* update threshold: the new value is checked to be non-zero *)
    intros h r h'. unfold h_update_threshold. unfold_m. red_m. repeat (crunch1; red_m); intros [= <- <-]; unfold keeps_exportable; auto.
    cbn [h_st]. unfold exportable. cbn. intros (E1&E2&E3&E4&E5&E6&E7&E8&E9&E10). repeat split; auto; try discriminate.
    intros [= ->]. discriminate. }
  all: unfold_everything; pres_gen keeps_exportable keeps_exportable_refl keeps_exportable_trans;
       unfold keeps_exportable, exportable, bump; cbn; intros (E1&E2&E3&E4&E5&E6&E7&E8&E9&E10); repeat split; auto; discriminate.
Qed.

Lemma exportable_deliver e c plan t : exportable (c_st c) -> exportable (c_st (r_chain (deliver e c plan t))).
Proof.
  intros W. unfold deliver. destruct (handler e t (start c plan)) as [[a| | |] h] eqn:E; cbn; auto.
  apply handler_keeps_exportable in E. exact (E W).
Qed.
Lemma exportable_run e h : forall c, exportable (c_st c) -> exportable (c_st (run e c h)).
Proof. induction h as [|s h IH]; intros c W; cbn; auto. apply IH. now apply exportable_deliver. Qed.

Lemma exportable_init g s : init_genesis g = Some s -> exportable s.
Proof.
  unfold init_genesis. destruct (g_threshold g) as [[|p]|]; try discriminate; intros [= <-]; unfold exportable; cbn;
  repeat split; discriminate.
Qed.
