(* Facts about the 18 administrative handlers: role checks (C10), the role lifecycle (C11),
   the attester / threshold invariant (C13). *)
From Cctp Require Import Lib.Bytes Lib.SMap Lib.Text Lib.Bech32 Lib.Hex.
From Cctp Require Import Model.Codec Model.State Model.Attest Model.Ledger Model.Handlers Model.Chain.
From Cctp Require Import Spec.WriteDoc Spec.Roles Spec.Lifecycle Proofs.MonadFacts Proofs.WriteFacts Proofs.FrameFacts.
From Coq Require Import ZifyN ZifyNat ZifyBool.

Ltac unfold_admin :=
  unfold h_accept_owner, h_add_messenger, h_remove_messenger, h_enable_attester, h_disable_attester, h_link_pair, h_unlink_pair,
         h_set_bm, h_set_sr, h_update_owner, h_update_attester_manager, h_update_token_controller, h_update_pauser, h_update_max_body,
         h_set_limit, h_update_threshold.

(* ---------- C10: a submitter who does not hold the role gets an error, and nothing changes ---------- *)
Lemma wrong_role e t h r :
  roles_set (h_st h) -> role_of t = Some r -> holder r (h_st h) <> Some (submitter t) ->
  handler e t h = (RErr, h).
Proof.
  intros (R1&R2&R3&R4) Hr Hh. destruct t; try discriminate Hr; injection Hr as <-; cbn [holder submitter] in Hh; cbn [handler].
  all: unfold_admin; unfold_m; red_m.
  all: step; step; try step.
Qed.

(* the four role slots stay set *)
Definition keeps_roles (s s' : store) : Prop :=
  (owner s <> None -> owner s' <> None) /\ (attester_manager s <> None -> attester_manager s' <> None) /\
  (pauser s <> None -> pauser s' <> None) /\ (token_controller s <> None -> token_controller s' <> None).
Lemma keeps_roles_refl s : keeps_roles s s. Proof. unfold keeps_roles; tauto. Qed.
Lemma keeps_roles_trans a b c : keeps_roles a b -> keeps_roles b c -> keeps_roles a c.
Proof. unfold keeps_roles; tauto. Qed.

Lemma handler_keeps_roles e t : preserves keeps_roles (handler e t).
Proof.
  destruct t; cbn [handler]; unfold_admin; unfold lift_nonce, h_deposit_with_caller, deposit_for_burn, h_send_message, h_send_message_with_caller,
    h_replace_deposit, h_replace_message, h_receive, mint_branch, send_message, reserve_nonce;
  pres_gen keeps_roles keeps_roles_refl keeps_roles_trans;
  unfold keeps_roles; cbn; repeat split; try tauto; congruence.
Qed.

Lemma roles_set_step e t h r h' : handler e t h = (r, h') -> roles_set (h_st h) -> roles_set (h_st h').
Proof. intros H (R1&R2&R3&R4). apply handler_keeps_roles in H. destruct H as (K1&K2&K3&K4). repeat split; auto. Qed.

Lemma roles_set_deliver e c plan t : roles_set (c_st c) -> roles_set (c_st (r_chain (deliver e c plan t))).
Proof. intros R. unfold deliver. destruct (handler e t (start c plan)) as [[a| | |] h] eqn:E; cbn; auto.
  apply roles_set_step in E; auto. Qed.

Lemma roles_set_run e h : forall c, roles_set (c_st c) -> roles_set (c_st (run e c h)).
Proof. induction h as [|s h IH]; intros c R; cbn; auto. apply IH. now apply roles_set_deliver. Qed.

(* ---------- C11: the five role slots move exactly as the lifecycle automaton says ---------- *)
Definition kept {A} (r : res A) (h h' : hstate) : store := match r with ROk _ => h_st h' | _ => h_st h end.

Lemma lifecycle_handler e t h r h' :
  roles_set (h_st h) -> handler e t h = (r, h') ->
  roles_of (kept r h h') = lifecycle_step (valid_addr e) (roles_of (h_st h)) t.
Proof.
  intros (R1&R2&R3&R4) H.
  assert (forall f : store -> option bytes, f (h_st h) <> None -> exists x, f (h_st h) = Some x) as Hs.
  { intros f Hf. destruct (f (h_st h)); [eauto|congruence]. }
  destruct (Hs owner R1) as [o Eo]. destruct (Hs attester_manager R2) as [am Eam].
  destruct (Hs pauser R3) as [pa Epa]. destruct (Hs token_controller R4) as [tc Etc]. clear Hs.
  destruct (touches_owner t || touches_pending t || touches_attmgr t || touches_pauser t || touches_tokctl t) eqn:T.
  - destruct t; try discriminate T; cbn [lifecycle_step].
    all: revert H; cbn [handler]; unfold_admin; unfold_m; red_m; unfold roles_of, is_holder; cbn [r_owner r_pending r_attmgr r_pauser r_tokctl];
         rewrite ?Eo, ?Eam, ?Epa, ?Etc; red_m.
    all: repeat (crunch1; red_m).
    all: intros [= <- <-]; unfold kept; cbn; rewrite ?Eo, ?Eam, ?Epa, ?Etc; try reflexivity; try (f_equal; congruence).
  - apply orb_false_iff in T as [T T5]. apply orb_false_iff in T as [T T4]. apply orb_false_iff in T as [T T3].
    apply orb_false_iff in T as [T1 T2].
    assert (roles_of (h_st h') = roles_of (h_st h)) as E.
    { unfold roles_of. rewrite <- (frame_owner e t h r h' T1 H), <- (frame_pending e t h r h' T2 H),
        <- (frame_attmgr e t h r h' T3 H), <- (frame_pauser e t h r h' T4 H), <- (frame_tokctl e t h r h' T5 H). reflexivity. }
    assert (roles_of (kept r h h') = roles_of (h_st h)) as ->. { unfold kept. destruct r; auto. }
    destruct t; try discriminate T1; try discriminate T2; try discriminate T3; try discriminate T4; try discriminate T5; reflexivity.
Qed.

Lemma lifecycle_deliver e c plan t :
  roles_set (c_st c) ->
  roles_of (c_st (r_chain (deliver e c plan t))) = lifecycle_step (valid_addr e) (roles_of (c_st c)) t.
Proof.
  intros R. unfold deliver. destruct (handler e t (start c plan)) as [r h'] eqn:E.
  pose proof (lifecycle_handler e t (start c plan) r h' R E) as L. cbn [start h_st] in L. rewrite <- L.
  destruct r; reflexivity.
Qed.

(* ---------- C13: 1 <= threshold <= number of enabled attesters ---------- *)
Definition two32 : N := 4294967296.
Definition att_inv (s : store) : Prop :=
  exists thr, threshold s = Some thr /\ (1 <= thr)%N /\ (thr <= N.of_nat (length (attesters s)))%N.

Lemma len32_small {A} (l : list A) : (N.of_nat (length l) < two32)%N -> len32 l = N.of_nat (length l).
Proof. intros H. unfold len32. apply N.mod_small. exact H. Qed.

Lemma att_inv_step e t h r h' :
  handler e t h = (r, h') -> (N.of_nat (length (attesters (h_st h))) + 1 < two32)%N ->
  att_inv (h_st h) -> att_inv (h_st h') /\ (length (attesters (h_st h')) <= S (length (attesters (h_st h))))%nat.
Proof.
  intros H B I.
  destruct (touches_attesters t) eqn:TA; [|destruct (touches_threshold t) eqn:TT].
  - assert (threshold (h_st h) = threshold (h_st h')) as FT by (apply (frame_threshold e t h r h'); [destruct t; try discriminate TA; reflexivity|exact H]).
    destruct I as (thr&T&L1&L2). unfold att_inv. rewrite <- FT.
    destruct t; try discriminate TA; cbn [handler] in H; unfold h_disable_attester, h_enable_attester in H.
    + revert H. unfold_m; red_m. rewrite ?T; red_m. repeat (crunch1; red_m); intros [= <- <-]; cbn [h_st]; try (split; [exists thr; auto|lia]).
      cbn. unfold mem in *. destruct (lookup (attester_key attester) (attesters (h_st h))) eqn:LK; try discriminate.
      rewrite (length_remove_old _ _ _ LK).
      injection T as ->. rewrite len32_small in * by lia.
      split; [exists thr; repeat split; auto; lia|lia].
    + revert H. unfold_m; red_m. repeat (crunch1; red_m); intros [= <- <-]; cbn [h_st]; try (split; [exists thr; auto|lia]).
      cbn. unfold mem in *. destruct (lookup (attester_key attester) (attesters (h_st h))) eqn:LK; try discriminate.
      rewrite (length_insert_new _ _ _ LK). split; [exists thr; repeat split; auto; lia|lia].
  - pose proof (frame_attesters e t h r h' TA H) as FA. unfold att_inv. rewrite <- FA. split; [|lia].
    destruct t; try discriminate TT. cbn [handler] in H. unfold h_update_threshold in H. revert H. unfold_m; red_m.
    repeat (crunch1; red_m); intros [= <- <-]; cbn [h_st]; try exact I.
    all: cbn; exists amount; rewrite len32_small in * by lia; repeat split; lia.
  - pose proof (frame_attesters e t h r h' TA H) as FA. pose proof (frame_threshold e t h r h' TT H) as FT.
    unfold att_inv. rewrite <- FA, <- FT. split; [exact I|lia].
Qed.

Lemma is_ok_handler e c plan t : is_ok (deliver e c plan t) = true ->
  exists a h', handler e t (start c plan) = (ROk a, h').
Proof. unfold is_ok, deliver. destruct (handler e t (start c plan)) as [[a| | |] h']; cbn; try discriminate. eauto. Qed.

Lemma att_inv_deliver e c plan t :
  (N.of_nat (length (attesters (c_st c))) + 1 < two32)%N -> att_inv (c_st c) ->
  att_inv (c_st (r_chain (deliver e c plan t))) /\ (length (attesters (c_st (r_chain (deliver e c plan t)))) <= S (length (attesters (c_st c))))%nat.
Proof.
  intros B I. unfold deliver. destruct (handler e t (start c plan)) as [[a| | |] h'] eqn:E; cbn; try (split; [exact I|lia]).
  apply att_inv_step in E; auto.
Qed.

Lemma att_inv_run e h : forall c,
  (N.of_nat (length (attesters (c_st c))) + N.of_nat (length h) < two32)%N -> att_inv (c_st c) ->
  att_inv (c_st (run e c h)).
Proof.
  induction h as [|s h IH]; intros c B I; cbn [run fold_left]; auto.
  cbn [length] in B. destruct (att_inv_deliver e c (fst s) (snd s)) as [I' L]; [lia|exact I|].
  apply IH; [|exact I']. unfold run_step. lia.
Qed.

(* the named rejections *)
Lemma disable_last_rejected e c plan from a :
  length (attesters (c_st c)) = 1 -> is_ok (deliver e c plan (DisableAttester from a)) = false.
Proof.
  intros L. destruct (is_ok _) eqn:O; auto. apply is_ok_handler in O as (x&h'&H). cbn [handler] in H.
  unfold h_disable_attester in H. inv_ok H. rewrite L in *. discriminate.
Qed.
Lemma disable_below_threshold_rejected e c plan from a thr :
  threshold (c_st c) = Some thr -> (N.of_nat (length (attesters (c_st c))) <= thr)%N ->
  (N.of_nat (length (attesters (c_st c))) < two32)%N ->
  is_ok (deliver e c plan (DisableAttester from a)) = false.
Proof.
  intros T L B. destruct (is_ok _) eqn:O; auto. apply is_ok_handler in O as (x&h'&H). cbn [handler] in H.
  unfold h_disable_attester in H. inv_ok H. rewrite len32_small in * by lia.
  cbn [c_st start h_st] in *. assert (thr = n) by congruence. subst. lia.
Qed.
Lemma disable_unknown_rejected e c plan from a :
  lookup (attester_key a) (attesters (c_st c)) = None -> is_ok (deliver e c plan (DisableAttester from a)) = false.
Proof.
  intros L. destruct (is_ok _) eqn:O; auto. apply is_ok_handler in O as (x&h'&H). cbn [handler] in H.
  unfold h_disable_attester in H. inv_ok H. unfold mem in *. rewrite L in *. discriminate.
Qed.
Lemma enable_enabled_rejected e c plan from a v :
  lookup (attester_key a) (attesters (c_st c)) = Some v -> is_ok (deliver e c plan (EnableAttester from a)) = false.
Proof.
  intros L. destruct (is_ok _) eqn:O; auto. apply is_ok_handler in O as (x&h'&H). cbn [handler] in H.
  unfold h_enable_attester in H. inv_ok H. unfold mem in *. rewrite L in *. discriminate.
Qed.
Lemma threshold_zero_rejected e c plan from :
  is_ok (deliver e c plan (UpdateSignatureThreshold from 0)) = false.
Proof.
  destruct (is_ok _) eqn:O; auto. apply is_ok_handler in O as (x&h'&H). cbn [handler] in H.
  unfold h_update_threshold in H. inv_ok H.
Qed.
Lemma threshold_above_count_rejected e c plan from n :
  (N.of_nat (length (attesters (c_st c))) < n)%N -> (N.of_nat (length (attesters (c_st c))) < two32)%N ->
  is_ok (deliver e c plan (UpdateSignatureThreshold from n)) = false.
Proof.
  intros L B. destruct (is_ok _) eqn:O; auto. apply is_ok_handler in O as (x&h'&H). cbn [handler] in H.
  unfold h_update_threshold in H. inv_ok H; rewrite len32_small in * by lia; lia.
Qed.

Ltac unfold_admin_in H :=
  unfold h_accept_owner, h_add_messenger, h_remove_messenger, h_enable_attester, h_disable_attester, h_link_pair, h_unlink_pair,
         h_set_bm, h_set_sr, h_update_owner, h_update_attester_manager, h_update_token_controller, h_update_pauser, h_update_max_body,
         h_set_limit, h_update_threshold in H.
