(* "succeeds exactly when": the outcome of receive (C03) and deposit (C08) as explicit boolean
   conjunctions of the documented conditions, for all inputs, states and dependency plans. *)
From Cctp Require Import Lib.Bytes Lib.SMap Lib.Text Lib.Bech32 Lib.Hex Lib.Keccak.
From Cctp Require Import Model.Codec Model.State Model.Attest Model.Ledger Model.Handlers Model.Chain.
From Cctp Require Import Proofs.MonadFacts Proofs.FlowFacts.

Definition vaccept (v : vres) : bool := match v with VAccept => true | _ => false end.

Section Decide.
  Variable e : env.

  (* the mint side, consulted only for messages addressed to the module *)
  Definition mint_okb (s : store) (lg : ledger) (plan : list directive) (m : message) : bool :=
    negb (flag_on (bm_paused s)) &&
    match decode_burn (m_body m) with
    | None => false
    | Some b =>
        (bm_version b =? 0)%N &&
        match lookup (pair_key (m_src m) (bm_token b)) (pairs s) with
        | None => false
        | Some p =>
            match lookup (messenger_key (m_src m)) (messengers s) with
            | None => false
            | Some tm =>
                beqb (m_sender m) (tm_address tm) &&
                match bech32_of e (skipn 12 (bm_recipient b)) with
                | None => false
                | Some to =>
                    text_ok (tp_local p) &&
                    decide (next_directive plan) (mint_rule e lg to (to_lower (tp_local p)) (bm_amount b))
                end
            end
        end
    end.

  Definition receive_okb (c : chain) (plan : list directive) (from msg att : bytes) : bool :=
    let s := c_st c in
    negb (flag_on (sr_paused s)) &&
    (negb (Nat.eqb (length (attesters s)) 0) &&
    match threshold s with
    | None => false
    | Some thr =>
        vaccept (verify (recover e) msg att (values (attesters s)) thr) &&
        match decode_message msg with
        | None => false
        | Some m =>
            (m_dst m =? 4)%N && (caller_ok e (m_caller m) from && ((m_version m =? 0)%N &&
            (negb (mem (nonce_key (m_src m) (m_nonce m)) (nonces s)) &&
            (if to_module e m then mint_okb s (c_lg c) plan m else true))))
        end
    end).

  Lemma receive_okb_correct c plan from msg att :
    is_ok (deliver e c plan (ReceiveMessage from msg att)) = receive_okb c plan from msg att.
  Proof.
    unfold is_ok, deliver, receive_okb, mint_okb, to_module. cbn [handler]. unfold_flows. unfold_m. red_m.
    repeat (crunch1; red_m; cbn [vaccept andb]); try reflexivity.
  Qed.

  (* ---------- deposits; [caller] = [] for the plain variant ---------- *)
  Definition some {A} (o : option A) : bool := match o with Some _ => true | None => false end.

  Definition deposit_okb (c : chain) (plan : list directive) (from : bytes) (amount : option Z) (dest : N)
             (mr bt caller : bytes) : bool :=
    let s := c_st c in
    match acc_address (hrp e) from with
    | None => false
    | Some addr =>
      match amount with
      | None => false
      | Some a =>
        (0 <? a)%Z && (negb (beqb mr (zeros 32)) &&
        match lookup (messenger_key dest) (messengers s) with
        | None => false
        | Some tm =>
          text_ok bt && (equal_fold (mint_denom e) bt && (negb (flag_on (bm_paused s)) &&
          (limit_ok s (to_lower bt) a && (valid_denom bt &&
          (decide (next_directive plan) (transfer_rule e (c_lg c) addr bt a) &&
          (decide (next_directive (tl plan)) (burn_rule e (transfer_effect e (c_lg c) addr bt a) (module_str e) bt a) &&
          match encode_burn (burn_body bt mr a addr) with
          | None => false
          | Some body =>
            match acc_address (hrp e) (module_str e) with
            | None => false
            | Some maddr =>
              (if Nat.eqb (length caller) 0 then true else Nat.eqb (length caller) 32 && negb (is_zeros caller)) &&
              (negb (flag_on (sr_paused (bump s))) && (body_fits (bump s) body &&
              (negb (Nat.eqb (length (tm_address tm)) 0 || is_zeros (tm_address tm)) &&
               some (encode_message (msg_of dest (tm_address tm) (if Nat.eqb (length caller) 0 then zeros 32 else caller)
                                            (copy12 maddr) (nn s) body)))))
            end
          end))))))
        end)
      end
    end.

  Lemma deposit_okb_correct c plan from amount dest mr bt :
    is_ok (deliver e c plan (DepositForBurn from amount dest mr bt)) = deposit_okb c plan from amount dest mr bt [].
  Proof.
    unfold is_ok, deliver, deposit_okb, burn_body, msg_of. cbn [handler]. unfold_flows. cbn [length Nat.eqb]. unfold_m. red_m.
    repeat (crunch1; red_m; cbn [some andb]); try reflexivity.
  Qed.

  Lemma deposit_wc_okb_correct c plan from amount dest mr bt caller :
    is_ok (deliver e c plan (DepositForBurnWithCaller from amount dest mr bt caller)) =
    negb (Nat.eqb (length caller) 0 || beqb caller (zeros 32)) && deposit_okb c plan from amount dest mr bt caller.
  Proof.
    unfold is_ok, deliver, deposit_okb, burn_body, msg_of. cbn [handler]. unfold_flows. unfold_m. red_m.
    repeat (crunch1; red_m; cbn [some andb]); try reflexivity.
  Qed.
End Decide.
