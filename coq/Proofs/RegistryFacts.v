(* The five registries as exact maps (C19): what each registry transaction does to its collection,
   injectivity of the key derivations, and non-emptiness of stored keys (needed by key-mode paging). *)
From Cctp Require Import Lib.Bytes Lib.SMap Lib.Text Lib.Bech32 Lib.Hex Lib.Keccak Lib.Paginate.
From Cctp Require Import Model.Codec Model.State Model.Attest Model.Ledger Model.Handlers Model.Chain Model.Queries.
From Cctp Require Import Proofs.MonadFacts Proofs.AdminFacts Proofs.StoreFacts Proofs.PaginateFacts Proofs.HistoryFacts Proofs.MoneyFacts.
From Coq Require Import ZifyN ZifyNat ZifyBool.

(* ---------- key derivations are injective ---------- *)
Lemma attester_key_inj a b : attester_key a = attester_key b -> a = b.
Proof. unfold attester_key. apply app_inv_tail. Qed.
Lemma limit_key_inj a b : limit_key a = limit_key b -> a = b.
Proof. unfold limit_key. apply app_inv_tail. Qed.
Lemma messenger_key_inj a b : (a < 2 ^ 32)%N -> (b < 2 ^ 32)%N -> messenger_key a = messenger_key b -> a = b.
Proof. unfold messenger_key. intros A B E. apply app_inv_tail in E. now apply (be_enc_inj 4). Qed.

(* token pairs are stored under a Keccak-256 digest: distinct (domain, token) pairs share a key only on a collision *)
Definition keccak_collision : Prop := exists x y, x <> y /\ keccak256 x = keccak256 y.
Lemma pair_key_inj d t d' t' : (d < 2 ^ 32)%N -> (d' < 2 ^ 32)%N ->
  pair_key d t = pair_key d' t' -> (d = d' /\ t = t') \/ keccak_collision.
Proof.
  unfold pair_key. intros D D' E. apply app_inv_tail in E.
  destruct (list_eq_dec (fun a b : byte => match Byte.byte_eq_dec a b with left e => left e | right n => right n end)
                        (be_enc 4 d ++ t) (be_enc 4 d' ++ t')) as [Eq|Ne].
  - left. apply app_inj_length in Eq as [E1 E2]; [|now rewrite !be_enc_length]. split; [now apply (be_enc_inj 4)|exact E2].
  - right. exists (be_enc 4 d ++ t), (be_enc 4 d' ++ t'). auto.
Qed.

(* stored keys are never empty: every derivation appends "/" *)
Lemma key_nonempty_app (x : bytes) : x ++ slash <> [].
Proof. destruct x; discriminate. Qed.

Lemma wf_keys_nonempty {V} (key : V -> bytes) (m : smap V) :
  (forall v, key v <> []) -> consistent key m -> keys_nonempty m.
Proof. intros K C. unfold keys_nonempty, consistent in *. eapply Forall_impl; [|exact C]. cbn. intros [k v] E. cbn in *. rewrite E. apply K. Qed.

Lemma store_keys_nonempty s : store_wf s ->
  keys_nonempty (attesters s) /\ keys_nonempty (limits s) /\ keys_nonempty (pairs s) /\ keys_nonempty (messengers s) /\ keys_nonempty (nonces s).
Proof.
  intros ((_&C1)&(_&C2)&(_&C3)&(_&C4)&(_&C5)). repeat split; eapply wf_keys_nonempty; eauto; intros v.
  - apply key_nonempty_app.
  - apply key_nonempty_app.
  - unfold k_pair, pair_key. apply key_nonempty_app.
  - unfold k_messenger, messenger_key. apply key_nonempty_app.
  - unfold k_nonce, nonce_key. rewrite app_assoc. apply key_nonempty_app.
Qed.

(* ---------- what the registry transactions do ---------- *)
Section Reg.
  Variable e : env.

  Lemma enable_attester_ok c plan from a : is_ok (deliver e c plan (EnableAttester from a)) = true ->
    lookup (attester_key a) (attesters (c_st c)) = None /\
    c_st (r_chain (deliver e c plan (EnableAttester from a))) = set_attesters (insert (attester_key a) a (attesters (c_st c))) (c_st c).
  Proof.
    intros O. apply ok_inv in O as (x&h'&H&->). cbn [handler r_chain c_st] in *. unfold h_enable_attester in H. inv_ok H.
    injection H as _ <-. cbn [start h_st]. unfold mem in *. destruct (lookup _ _); [discriminate|]. auto.
  Qed.
  Lemma disable_attester_ok c plan from a : is_ok (deliver e c plan (DisableAttester from a)) = true ->
    lookup (attester_key a) (attesters (c_st c)) <> None /\
    c_st (r_chain (deliver e c plan (DisableAttester from a))) = set_attesters (remove (attester_key a) (attesters (c_st c))) (c_st c).
  Proof.
    intros O. apply ok_inv in O as (x&h'&H&->). cbn [handler r_chain c_st] in *. unfold h_disable_attester in H. inv_ok H.
    injection H as _ <-. cbn [start h_st]. unfold mem in *. destruct (lookup _ _); [|discriminate]. split; [discriminate|reflexivity].
  Qed.
  Lemma link_pair_ok c plan from d t l : is_ok (deliver e c plan (LinkTokenPair from d t l)) = true ->
    length t = 32 /\ lookup (pair_key d t) (pairs (c_st c)) = None /\
    c_st (r_chain (deliver e c plan (LinkTokenPair from d t l))) =
      set_pairs (insert (pair_key d t) {| tp_domain := d; tp_token := t; tp_local := to_lower l |} (pairs (c_st c))) (c_st c).
  Proof.
    intros O. apply ok_inv in O as (x&h'&H&->). cbn [handler r_chain c_st] in *. unfold h_link_pair in H. inv_ok H.
    injection H as _ <-. cbn [start h_st]. unfold mem in *. destruct (lookup _ _); [discriminate|].
    match goal with Hl : (length t =? 32) = true |- _ => apply Nat.eqb_eq in Hl end. auto.
  Qed.
  Lemma unlink_pair_ok c plan from d t l : is_ok (deliver e c plan (UnlinkTokenPair from d t l)) = true ->
    exists p, lookup (pair_key d t) (pairs (c_st c)) = Some p /\
    c_st (r_chain (deliver e c plan (UnlinkTokenPair from d t l))) = set_pairs (remove (pair_key d (tp_token p)) (pairs (c_st c))) (c_st c).
  Proof.
    intros O. apply ok_inv in O as (x&h'&H&->). cbn [handler r_chain c_st] in *. unfold h_unlink_pair in H. inv_ok H.
    injection H as _ <-. cbn [start h_st] in *. eauto.
  Qed.
  Lemma add_messenger_ok c plan from d a : is_ok (deliver e c plan (AddRemoteTokenMessenger from d a)) = true ->
    length a = 32 /\ lookup (messenger_key d) (messengers (c_st c)) = None /\
    c_st (r_chain (deliver e c plan (AddRemoteTokenMessenger from d a))) =
      set_messengers (insert (messenger_key d) {| tm_domain := d; tm_address := a |} (messengers (c_st c))) (c_st c).
  Proof.
    intros O. apply ok_inv in O as (x&h'&H&->). cbn [handler r_chain c_st] in *. unfold h_add_messenger in H. inv_ok H.
    injection H as _ <-. cbn [start h_st]. unfold mem in *. destruct (lookup _ _); [discriminate|].
    match goal with Hl : (length a =? 32) = true |- _ => apply Nat.eqb_eq in Hl end. auto.
  Qed.
  Lemma remove_messenger_ok c plan from d : is_ok (deliver e c plan (RemoveRemoteTokenMessenger from d)) = true ->
    lookup (messenger_key d) (messengers (c_st c)) <> None /\
    c_st (r_chain (deliver e c plan (RemoveRemoteTokenMessenger from d))) = set_messengers (remove (messenger_key d) (messengers (c_st c))) (c_st c).
  Proof.
    intros O. apply ok_inv in O as (x&h'&H&->). cbn [handler r_chain c_st] in *. unfold h_remove_messenger in H. inv_ok H.
    injection H as _ <-. cbn [start h_st] in *. split; [congruence|reflexivity].
  Qed.
  Lemma set_limit_ok c plan from l a : is_ok (deliver e c plan (SetMaxBurnAmountPerMessage from l a)) = true ->
    c_st (r_chain (deliver e c plan (SetMaxBurnAmountPerMessage from l a))) =
      set_limits (insert (limit_key (to_lower l)) {| lim_denom := to_lower l; lim_amount := match a with Some z => z | None => 0%Z end |} (limits (c_st c))) (c_st c).
  Proof.
    intros O. apply ok_inv in O as (x&h'&H&->). cbn [handler r_chain c_st] in *. unfold h_set_limit in H. inv_ok H.
    all: injection H as _ <-; reflexivity.
  Qed.
End Reg.
