(* Which handlers make which dependency calls: a compositional rule on the whole handler state,
   instantiated for "no call at all" (administrative handlers) and "no mint" / "no transfer or burn". *)
From Cctp Require Import Lib.Bytes Lib.SMap Lib.Text.
From Cctp Require Import Model.Codec Model.State Model.Attest Model.Ledger Model.Handlers Model.Chain.
From Cctp Require Import Proofs.MonadFacts.

Definition hpreserves {A} (P : hstate -> hstate -> Prop) (m : M A) : Prop :=
  forall h r h', m h = (r, h') -> P h h'.

Section HP.
  Variable P : hstate -> hstate -> Prop.
  Hypothesis P_refl : forall h, P h h.
  Hypothesis P_trans : forall a b c, P a b -> P b c -> P a c.
  Hypothesis P_st : forall h f, P h {| h_st := f (h_st h); h_lg := h_lg h; h_plan := h_plan h; h_ev := h_ev h; h_dc := h_dc h |}.
  Hypothesis P_ev : forall h ev, P h {| h_st := h_st h; h_lg := h_lg h; h_plan := h_plan h; h_ev := h_ev h ++ [ev]; h_dc := h_dc h |}.

  Lemma hp_ret {A} (a : A) : hpreserves P (ret a). Proof. intros h r h' [= <- <-]. apply P_refl. Qed.
  Lemma hp_fail {A} : hpreserves P (@fail A). Proof. intros h r h' [= <- <-]. apply P_refl. Qed.
  Lemma hp_panic {A} : hpreserves P (@panic A). Proof. intros h r h' [= <- <-]. apply P_refl. Qed.
  Lemma hp_unmodelled {A} : hpreserves P (@unmodelled A). Proof. intros h r h' [= <- <-]. apply P_refl. Qed.
  Lemma hp_guard b : hpreserves P (guard b). Proof. destruct b; [apply hp_ret|apply hp_fail]. Qed.
  Lemma hp_require b : hpreserves P (require_modelled b). Proof. destruct b; [apply hp_ret|apply hp_unmodelled]. Qed.
  Lemma hp_lift_opt {A} (o : option A) : hpreserves P (lift_opt o). Proof. destruct o; [apply hp_ret|apply hp_fail]. Qed.
  Lemma hp_get : hpreserves P get_st. Proof. intros h r h' [= <- <-]. apply P_refl. Qed.
  Lemma hp_emit ev : hpreserves P (emit ev). Proof. intros h r h' [= <- <-]. apply P_ev. Qed.
  Lemma hp_mod f : hpreserves P (mod_st f). Proof. intros h r h' [= <- <-]. apply P_st. Qed.
  Lemma hp_bind {A C} (m : M A) (f : A -> M C) :
    hpreserves P m -> (forall a, hpreserves P (f a)) -> hpreserves P (bind m f).
  Proof.
    intros Hm Hf h r h'. unfold bind. destruct (m h) as [[a| | |] h1] eqn:E; intros H.
    - eapply P_trans; [eapply Hm; eauto|eapply Hf; eauto].
    - injection H as <- <-. eapply Hm; eauto.
    - injection H as <- <-. eapply Hm; eauto.
    - injection H as <- <-. eapply Hm; eauto.
  Qed.
  Lemma hp_role g : hpreserves P (role g).
  Proof. unfold role. apply hp_bind; [apply hp_get|]. intros s. destruct (g s); [apply hp_ret|apply hp_panic]. Qed.
End HP.

Ltac hp_gen P Prefl Ptrans Pst Pev :=
  repeat first
    [ apply (hp_bind P Ptrans); [|intros]
    | apply (hp_ret P Prefl) | apply (hp_fail P Prefl) | apply (hp_panic P Prefl) | apply (hp_unmodelled P Prefl)
    | apply (hp_guard P Prefl) | apply (hp_require P Prefl) | apply (hp_lift_opt P Prefl) | apply (hp_get P Prefl)
    | apply (hp_emit P Pev) | apply (hp_mod P Pst) | apply (hp_role P Prefl Ptrans)
    | progress unfold verify_now
    | match goal with |- hpreserves _ (match ?x with _ => _ end) => destruct x end ].

(* calls appended by a handler all satisfy Q; the ledger changes only if a call was made *)
Definition calls_sat (Q : depcall -> Prop) (h h' : hstate) : Prop :=
  exists l, h_dc h' = h_dc h ++ l /\ Forall Q l /\ (l = [] -> h_lg h' = h_lg h).

Lemma calls_sat_refl (Q : depcall -> Prop) h : calls_sat Q h h.
Proof. exists []. rewrite app_nil_r. auto. Qed.
Lemma calls_sat_trans (Q : depcall -> Prop) a b c : calls_sat Q a b -> calls_sat Q b c -> calls_sat Q a c.
Proof. intros (l1&E1&F1&G1) (l2&E2&F2&G2). exists (l1 ++ l2). rewrite E2, E1, app_assoc. split; [reflexivity|]. split.
  - apply Forall_app; auto.
  - intros E. apply app_eq_nil in E as [-> ->]. rewrite G2, G1; auto. Qed.
Lemma calls_sat_st (Q : depcall -> Prop) h f : calls_sat Q h {| h_st := f (h_st h); h_lg := h_lg h; h_plan := h_plan h; h_ev := h_ev h; h_dc := h_dc h |}.
Proof. exists []. cbn. rewrite app_nil_r. auto. Qed.
Lemma calls_sat_ev (Q : depcall -> Prop) h ev : calls_sat Q h {| h_st := h_st h; h_lg := h_lg h; h_plan := h_plan h; h_ev := h_ev h ++ [ev]; h_dc := h_dc h |}.
Proof. exists []. cbn. rewrite app_nil_r. auto. Qed.

Lemma hp_dep (Q : depcall -> Prop) rule eff mk : (forall ok, Q (mk ok)) -> hpreserves (calls_sat Q) (dep rule eff mk).
Proof. intros HQ h r h'. unfold dep. intros [= <- <-]. eexists [_]. cbn. split; [reflexivity|]. split; [auto|discriminate]. Qed.

Ltac calls Q := hp_gen (calls_sat Q) (calls_sat_refl Q) (calls_sat_trans Q) (calls_sat_st Q) (calls_sat_ev Q).

Definition is_mint (d : depcall) : bool := match d with DMint _ _ _ _ _ => true | _ => false end.
Definition is_money (t : tx) : bool :=
  match t with DepositForBurn _ _ _ _ _ | DepositForBurnWithCaller _ _ _ _ _ _ | ReceiveMessage _ _ _ => true | _ => false end.
Definition is_deposit (t : tx) : bool :=
  match t with DepositForBurn _ _ _ _ _ | DepositForBurnWithCaller _ _ _ _ _ _ => true | _ => false end.

Ltac unfold_all_handlers :=
  unfold h_accept_owner, h_add_messenger, h_remove_messenger, h_enable_attester, h_disable_attester, h_link_pair, h_unlink_pair,
         h_set_bm, h_set_sr, h_update_owner, h_update_attester_manager, h_update_token_controller, h_update_pauser, h_update_max_body,
         h_set_limit, h_update_threshold, lift_nonce, h_deposit_with_caller, deposit_for_burn, h_send_message, h_send_message_with_caller,
         h_replace_deposit, h_replace_message, h_receive, mint_branch, send_message, reserve_nonce.

(* every transaction type other than deposits and receive makes no dependency call and leaves the ledger alone *)
Lemma no_calls e t : is_money t = false -> hpreserves (calls_sat (fun _ => False)) (handler e t).
Proof. destruct t; try discriminate; intros _; cbn [handler]; unfold_all_handlers; calls (fun _ : depcall => False). Qed.

(* deposits never mint; receive never transfers or burns *)
Lemma deposit_calls e t : is_deposit t = true -> hpreserves (calls_sat (fun d => is_mint d = false)) (handler e t).
Proof.
  destruct t; try discriminate; intros _; cbn [handler]; unfold_all_handlers; calls (fun d => is_mint d = false).
  all: try (apply hp_dep; intros; reflexivity).
Qed.
Lemma receive_calls e from msg att : hpreserves (calls_sat (fun d => is_mint d = true)) (handler e (ReceiveMessage from msg att)).
Proof.
  cbn [handler]; unfold_all_handlers; calls (fun d => is_mint d = true).
  all: try (apply hp_dep; intros; reflexivity).
Qed.

(* lifted to deliver *)
Lemma deliver_no_calls e c plan t : is_money t = false ->
  r_calls (deliver e c plan t) = [] /\ c_lg (r_chain (deliver e c plan t)) = c_lg c.
Proof.
  intros T. unfold deliver. destruct (handler e t (start c plan)) as [r h] eqn:E.
  apply (no_calls e t T) in E as (l&E1&F&G). cbn [start h_dc h_lg] in *.
  assert (l = []) as -> by (destruct l; [reflexivity|inversion F; contradiction]).
  destruct r; cbn; rewrite ?E1, ?G; auto.
Qed.
Lemma deliver_deposit_calls e c plan t : is_deposit t = true -> Forall (fun d => is_mint d = false) (r_calls (deliver e c plan t)).
Proof.
  intros T. unfold deliver. destruct (handler e t (start c plan)) as [r h] eqn:E.
  apply (deposit_calls e t T) in E as (l&E1&F&G). cbn [start h_dc] in *. destruct r; cbn; rewrite E1; exact F.
Qed.
Lemma deliver_receive_calls e c plan from msg att :
  Forall (fun d => is_mint d = true) (r_calls (deliver e c plan (ReceiveMessage from msg att))).
Proof.
  unfold deliver. destruct (handler e _ (start c plan)) as [r h] eqn:E.
  apply (receive_calls e) in E as (l&E1&F&G). cbn [start h_dc] in *. destruct r; cbn; rewrite E1; exact F.
Qed.
