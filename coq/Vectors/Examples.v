(* A concrete environment and concrete transactions: non-vacuity examples evaluated by vm_compute. *)
From Cctp Require Import Lib.Bytes Lib.SMap Lib.Text Lib.Bech32 Lib.Hex Lib.Keccak.
From Cctp Require Import Model.Codec Model.State Model.Attest Model.Ledger Model.Handlers Model.Chain Model.Genesis.

(* authtypes.NewModuleAddress("cctp") *)
Definition ex_module : bytes := from_hex (B "57d4eaf1c5d0d1e0b5e8cbd12f9cdc1ef1c5f117").
Definition ex_env : env :=
  {| hrp := B "cosmos"; mint_denom := B "uusdc"; module_addr := ex_module; recover := fun _ _ => None |}.

Definition ex_acct (b : byte) : bytes := repeat b 20.
Definition ex_str (a : bytes) : bytes := match encode (B "cosmos") a with Some s => s | None => [] end.

Definition ex_alice : bytes := ex_str (ex_acct x11).
Definition ex_bob : bytes := ex_str (ex_acct x22).
Definition ex_carol : bytes := ex_str (ex_acct x33).

Definition ex_genesis : genesis :=
  {| g_owner := ex_alice; g_attester_manager := ex_alice; g_pauser := ex_bob; g_token_controller := ex_carol;
     g_attesters := [B "0x04aa"]; g_limits := [{| lim_denom := B "uusdc"; lim_amount := 1000 |}];
     g_bm_paused := Some false; g_sr_paused := Some false; g_max_body := Some 8000%N; g_next_nonce := Some 7%N;
     g_threshold := Some 1%N;
     g_pairs := [{| tp_domain := 0; tp_token := repeat x01 32; tp_local := B "uusdc" |}];
     g_nonces := [{| un_domain := 0; un_nonce := 5 |}];
     g_messengers := [{| tm_domain := 0; tm_address := repeat x09 32 |}] |}.

Definition ex_store : store := match init_genesis ex_genesis with Some s => s | None => empty_store end.
Definition ex_ledger : ledger := add_balance [] (ex_acct x11) (B "uusdc") 5000.
Definition ex_chain : chain := {| c_st := ex_store; c_lg := ex_ledger |}.

Definition ex_deposit : tx := DepositForBurn ex_alice (Some 100%Z) 0 (repeat x07 32) (B "uusdc").

Example ex_env_ok : env_ok ex_env = true. Proof. vm_compute. reflexivity. Qed.
Example ex_deposit_ok : is_ok (deliver ex_env ex_chain [] ex_deposit) = true. Proof. vm_compute. reflexivity. Qed.

(* ---------- an environment in which attestations verify: the recovery oracle answers one fixed key ---------- *)
Definition ex_pk : bytes := x04 :: repeat xab 64.
Definition ex_env2 : env :=
  {| hrp := B "cosmos"; mint_denom := B "uusdc"; module_addr := ex_module; recover := fun _ _ => Some ex_pk |}.
Definition ex_attester : bytes := B "0x04" ++ hex_encode (repeat xab 64).
Definition ex_genesis2 : genesis :=
  {| g_owner := ex_alice; g_attester_manager := ex_alice; g_pauser := ex_bob; g_token_controller := ex_carol;
     g_attesters := [ex_attester]; g_limits := []; g_bm_paused := Some false; g_sr_paused := Some false;
     g_max_body := Some 8000%N; g_next_nonce := Some 7%N; g_threshold := Some 1%N;
     g_pairs := [{| tp_domain := 0; tp_token := repeat x01 32; tp_local := B "uUSDC" |}];
     g_nonces := [{| un_domain := 0; un_nonce := 5 |}];
     g_messengers := [{| tm_domain := 0; tm_address := repeat x09 32 |}] |}.
Definition ex_store2 : store := match init_genesis ex_genesis2 with Some s => s | None => empty_store end.
Definition ex_chain2 : chain := {| c_st := ex_store2; c_lg := ex_ledger |}.

(* a burn message from domain 0, nonce 6, for 2^64 + 5 units to the account 0x22..22 (high bytes of the field non-zero) *)
Definition ex_burn_body : bytes :=
  match encode_burn {| bm_version := 0; bm_token := repeat x01 32; bm_recipient := repeat xff 12 ++ ex_acct x22;
                       bm_amount := 18446744073709551621; bm_sender := repeat x33 32 |} with Some b => b | None => [] end.
Definition ex_message (nonce : N) : bytes :=
  match encode_message {| m_version := 0; m_src := 0; m_dst := 4; m_nonce := nonce; m_sender := repeat x09 32;
                          m_recipient := copy12 ex_module; m_caller := zeros 32; m_body := ex_burn_body |} with Some b => b | None => [] end.
Definition ex_receive (nonce : N) : tx := ReceiveMessage ex_alice (ex_message nonce) (repeat x00 65).

Example ex_receive_ok :
  let r := deliver ex_env2 ex_chain2 [] (ex_receive 6) in
  is_ok r = true /\
  r_calls r = [DMint (module_str ex_env2) ex_bob (B "uusdc") 18446744073709551621 true] /\
  balance (c_lg (r_chain r)) (ex_acct x22) (B "uusdc") = 18446744073709551621%Z /\
  (* the same message again, and a message for the pair (0, 5) listed in genesis, are rejected *)
  is_ok (deliver ex_env2 (r_chain r) [] (ex_receive 6)) = false /\
  is_ok (deliver ex_env2 ex_chain2 [] (ex_receive 5)) = false.
Proof. vm_compute. repeat split; reflexivity. Qed.
