(* encoding/hex and go-ethereum common.FromHex, byte for byte. *)
From Cctp Require Import Lib.Bytes.
Local Open Scope N_scope.

Definition hexd (n : N) : byte := byte_of_N (if N.ltb n 10 then 48 + n else 87 + n).
Definition hex_encode (bs : bytes) : bytes :=
  flat_map (fun b => [hexd (N.shiftr (bN b) 4); hexd (N.land (bN b) 15)]) bs.

Definition unhex (c : byte) : option N :=
  let n := bN c in
  if (48 <=? n) && (n <=? 57) then Some (n - 48)
  else if (97 <=? n) && (n <=? 102) then Some (n - 87)
  else if (65 <=? n) && (n <=? 70) then Some (n - 55)
  else None.

(* hex.DecodeString returns the bytes decoded before the first error, and whether there was none *)
Fixpoint hex_decode_prefix (s : bytes) : bytes * bool :=
  match s with
  | [] => ([], true)
  | [_] => ([], false)
  | p :: q :: r =>
      match unhex p, unhex q with
      | Some a, Some b => let '(d, ok) := hex_decode_prefix r in (byte_of_N (16 * a + b) :: d, ok)
      | _, _ => ([], false)
      end
  end.

Definition hex_decode_strict (s : bytes) : option bytes :=
  let '(d, ok) := hex_decode_prefix s in if ok then Some d else None.

Definition has_0x_prefix (s : bytes) : bool :=
  match s with
  | a :: b :: _ => byte_eqb a x30 && (byte_eqb b x78 || byte_eqb b x58)
  | _ => false
  end.

(* common.FromHex: strip 0x/0X, left-pad odd length with '0', Hex2Bytes (errors ignored) *)
Definition from_hex (s : bytes) : bytes :=
  let s := if has_0x_prefix s then skipn 2 s else s in
  let s := if Nat.odd (length s) then x30 :: s else s in
  fst (hex_decode_prefix s).

(* strings.TrimPrefix(s, "0x") *)
Definition trim_0x (s : bytes) : bytes :=
  match s with
  | a :: b :: r => if byte_eqb a x30 && byte_eqb b x78 then r else s
  | _ => s
  end.
