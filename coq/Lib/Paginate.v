(* cosmos-sdk types/query.Paginate over a prefix store given as its sorted item list. *)
From Cctp Require Import Lib.Bytes Lib.SMap.
Local Open Scope N_scope.

Definition two64 : N := 18446744073709551616.

Record page_request := { pg_key : bytes; pg_offset : N; pg_limit : N; pg_count_total : bool; pg_reverse : bool }.
Definition default_page : page_request :=
  {| pg_key := []; pg_offset := 0; pg_limit := 0; pg_count_total := false; pg_reverse := false |}.

Inductive pres (V : Type) := POk (items : list V) (next : bytes) (total : option N) | PErr | PPanic.
Arguments POk {V}. Arguments PErr {V}. Arguments PPanic {V}.

Section Pag.
  Context {V : Type}.

  (* Iterator(start, nil): keys >= start *)
  Definition from_key (k : bytes) (l : smap V) : smap V := filter (fun kv => negb (bltb (fst kv) k)) l.
  (* ReverseIterator(nil, end): keys < end, descending *)
  Definition before_key_rev (k : bytes) (l : smap V) : smap V := rev (filter (fun kv => bltb (fst kv) k) l).

  (* getIterator: None = the iterator construction panics (Key() of an exhausted iterator) *)
  Definition iter_items (l : smap V) (key : bytes) (reverse : bool) : option (smap V) :=
    if negb reverse then Some (match key with [] => l | _ => from_key key l end)
    else match key with
         | [] => Some (rev l)
         | _ => match from_key key l with
                | [] => Some (rev l)
                | [_] => None
                | _ :: (k2, _) :: _ => Some (before_key_rev k2 l)
                end
         end.

  (* the offset-mode loop; count is the number of items seen so far *)
  Fixpoint offset_loop (it : smap V) (count offset end_ : N) (count_total : bool)
           (acc : list V) (next : bytes) : list V * bytes * N :=
    match it with
    | [] => (rev acc, next, count)
    | (k, v) :: r =>
        let count := count + 1 in
        if count <=? offset then offset_loop r count offset end_ count_total acc next
        else if count <=? end_ then offset_loop r count offset end_ count_total (v :: acc) next
        else if count =? end_ + 1 then
               if count_total then offset_loop r count offset end_ count_total acc k
               else (rev acc, k, count)
        else offset_loop r count offset end_ count_total acc next
    end.

  Definition paginate (l : smap V) (rq : page_request) : pres V :=
    let limit := if pg_limit rq =? 0 then 100 else pg_limit rq in
    let count_total := if pg_limit rq =? 0 then true else pg_count_total rq in
    if (0 <? pg_offset rq) && negb (Nat.eqb (length (pg_key rq)) 0) then PErr else
    match iter_items l (pg_key rq) (pg_reverse rq) with
    | None => PPanic
    | Some it =>
        match pg_key rq with
        | _ :: _ =>
            let n := N.to_nat limit in
            POk (map snd (firstn n it)) (match nth_error it n with Some (k, _) => k | None => [] end) None
        | [] =>
            let end_ := (pg_offset rq + limit) mod two64 in
            let '(items, next, count) := offset_loop it 0 (pg_offset rq) end_ count_total [] [] in
            POk items next (if count_total then Some count else None)
        end
    end.
End Pag.
