(* Keccak-256 (the pre-NIST padding used by Ethereum), executable. Lanes are N < 2^64. *)
From Cctp Require Import Lib.Bytes.
Local Open Scope N_scope.

Definition w64 : N := 18446744073709551616.
Definition rotl (x : N) (n : N) : N :=
  if N.eqb n 0 then x else
  N.lor (N.land (N.shiftl x n) (w64 - 1)) (N.shiftr x (64 - n)).
Definition not64 (x : N) : N := N.lxor x (w64 - 1).

Definition RC : list N :=
 [0x0000000000000001; 0x0000000000008082; 0x800000000000808A; 0x8000000080008000;
  0x000000000000808B; 0x0000000080000001; 0x8000000080008081; 0x8000000000008009;
  0x000000000000008A; 0x0000000000000088; 0x0000000080008009; 0x000000008000000A;
  0x000000008000808B; 0x800000000000008B; 0x8000000000008089; 0x8000000000008003;
  0x8000000000008002; 0x8000000000000080; 0x000000000000800A; 0x800000008000000A;
  0x8000000080008081; 0x8000000000008080; 0x0000000080000001; 0x8000000080008008].

(* rotation offsets r[x][y], indexed by x + 5*y *)
Definition ROT : list N :=
 [ 0;  1; 62; 28; 27;
  36; 44;  6; 55; 20;
   3; 10; 43; 25; 39;
  41; 45; 15; 21;  8;
  18;  2; 61; 56; 14].

Definition nthN (l : list N) (i : nat) : N := nth i l 0.

Definition x5 (a b c d e : N) : N := N.lxor a (N.lxor b (N.lxor c (N.lxor d e))).
Definition theta (a : list N) : list N :=
  let c := map (fun x : nat => x5 (nthN a x) (nthN a (x+5)%nat) (nthN a (x+10)%nat) (nthN a (x+15)%nat) (nthN a (x+20)%nat)) (seq 0 5) in
  let d := map (fun x : nat => N.lxor (nthN c (Nat.modulo (x+4)%nat 5)) (rotl (nthN c (Nat.modulo (x+1)%nat 5)) 1)) (seq 0 5) in
  map (fun i : nat => N.lxor (nthN a i) (nthN d (Nat.modulo i 5))) (seq 0 25).

Definition rhopi_src (j : nat) : nat :=
  let X := Nat.modulo j 5 in let Y := Nat.div j 5 in
  let y := X in let x := Nat.modulo (Nat.mul (Nat.sub (Nat.add Y 15) (Nat.modulo (Nat.mul 3 X) 5)) 3) 5 in
  Nat.add x (Nat.mul 5 y).
Definition rhopi (a : list N) : list N :=
  map (fun j : nat => let i := rhopi_src j in rotl (nthN a i) (nthN ROT i)) (seq 0 25).

Definition chi (b : list N) : list N :=
  map (fun i : nat => let x := Nat.modulo i 5 in let y := Nat.div i 5 in
         N.lxor (nthN b i) (N.land (not64 (nthN b (Nat.add (Nat.modulo (S x) 5) (Nat.mul 5 y)))) (nthN b (Nat.add (Nat.modulo (S (S x)) 5) (Nat.mul 5 y))))) (seq 0 25).

Definition iota (rc : N) (a : list N) : list N :=
  match a with [] => [] | h :: t => N.lxor h rc :: t end.

Definition round (a : list N) (rc : N) : list N := iota rc (chi (rhopi (theta a))).
Definition keccakf (a : list N) : list N := fold_left round RC a.

Fixpoint lane_of_bytes (bs : bytes) : N :=
  match bs with [] => 0 | b :: r => Byte.to_N b + 256 * lane_of_bytes r end.
Fixpoint bytes_of_lane (n : nat) (x : N) : bytes :=
  match n with O => [] | S k => byte_of_N x :: bytes_of_lane k (x / 256) end.

Fixpoint chunks (fuel : nat) (k : nat) (l : bytes) : list bytes :=
  match fuel with O => [] | S f =>
    match l with [] => [] | _ => firstn k l :: chunks f k (skipn k l) end end.

Definition rate : nat := 136.
Definition pad (msg : bytes) : bytes :=
  let q := Nat.sub rate (Nat.modulo (length msg) rate) in
  if Nat.eqb q 1 then msg ++ [x81]
  else msg ++ [x01] ++ repeat x00 (Nat.sub q 2) ++ [x80].

Definition absorb (st : list N) (blk : bytes) : list N :=
  let lanes := map lane_of_bytes (chunks 17 8 blk) in
  let st' := map (fun i : nat => N.lxor (nthN st i) (nth i lanes 0)) (seq 0 25) in
  keccakf st'.

Definition keccak256 (msg : bytes) : bytes :=
  let p := pad msg in
  let blocks := chunks (S (length p)) rate p in
  let st := fold_left absorb blocks (repeat 0 25) in
  firstn 32 (flat_map (bytes_of_lane 8) st).
