(* Ordered map keyed by byte strings, as a strictly sorted association list.
   It stands for an IAVL / cachekv prefix store: iteration is in lexicographic key order,
   an entry is present iff it was set and not deleted. *)
From Cctp Require Import Lib.Bytes.

Section SMap.
  Context {V : Type}.
  Definition smap := list (bytes * V).

  Fixpoint lookup (k : bytes) (m : smap) : option V :=
    match m with
    | [] => None
    | (k', v) :: r => if beqb k k' then Some v else lookup k r
    end.

  Fixpoint insert (k : bytes) (v : V) (m : smap) : smap :=
    match m with
    | [] => [(k, v)]
    | (k', v') :: r =>
        match bcmp k k' with
        | Lt => (k, v) :: m
        | Eq => (k, v) :: r
        | Gt => (k', v') :: insert k v r
        end
    end.

  Fixpoint remove (k : bytes) (m : smap) : smap :=
    match m with
    | [] => []
    | (k', v') :: r => if beqb k k' then r else (k', v') :: remove k r
    end.

  Definition keys (m : smap) : list bytes := map fst m.
  Definition values (m : smap) : list V := map snd m.
  Definition mem (k : bytes) (m : smap) : bool := match lookup k m with Some _ => true | None => false end.

  Fixpoint sorted (m : smap) : Prop :=
    match m with
    | [] => True
    | (k, _) :: r => Forall (fun kv => bltb k (fst kv) = true) r /\ sorted r
    end.

  Fixpoint sortedb (m : smap) : bool :=
    match m with
    | [] => true
    | (k, _) :: r => (match r with [] => true | (k', _) :: _ => bltb k k' end) && sortedb r
    end.

  Lemma lookup_insert_eq k v m : lookup k (insert k v m) = Some v.
  Proof. induction m as [|[k' v'] r IH]; simpl; [now rewrite beqb_refl|].
    destruct (bcmp k k') eqn:E; simpl.
    - now rewrite beqb_refl.
    - now rewrite beqb_refl.
    - assert (beqb k k' = false) as ->; [|exact IH].
      apply beqb_neq; intros ->. now rewrite bcmp_refl in E. Qed.

  Lemma lookup_insert_ne k k' v m : k <> k' -> lookup k' (insert k v m) = lookup k' m.
  Proof. intros NE. induction m as [|[k0 v0] r IH]; simpl.
    - assert (beqb k' k = false) as -> by (apply beqb_neq; congruence). reflexivity.
    - destruct (bcmp k k0) eqn:E; simpl.
      + apply bcmp_eq in E; subst k0.
        assert (beqb k' k = false) as -> by (apply beqb_neq; congruence). reflexivity.
      + assert (beqb k' k = false) as -> by (apply beqb_neq; congruence). reflexivity.
      + destruct (beqb k' k0); auto. Qed.

  Lemma lookup_remove_ne k k' m : k <> k' -> lookup k' (remove k m) = lookup k' m.
  Proof. intros NE. induction m as [|[k0 v0] r IH]; simpl; auto.
    destruct (beqb k k0) eqn:E; simpl.
    - apply beqb_eq in E; subst k0.
      assert (beqb k' k = false) as -> by (apply beqb_neq; congruence). reflexivity.
    - destruct (beqb k' k0); auto. Qed.

  Lemma sorted_lookup_none k r :
    Forall (fun kv : bytes * V => bltb k (fst kv) = true) r -> lookup k r = None.
  Proof. induction r as [|[k1 v1] r IH]; simpl; auto. intros F. inversion F as [|? ? H1 H2]; subst. simpl in H1.
    assert (beqb k k1 = false) as ->; [|auto]. apply beqb_neq. now apply bltb_neq. Qed.

  Lemma lookup_remove_eq k m : sorted m -> lookup k (remove k m) = None.
  Proof. induction m as [|[k0 v0] r IH]; simpl; auto. intros [F S].
    destruct (beqb k k0) eqn:E; simpl.
    - apply beqb_eq in E; subst. now apply (sorted_lookup_none k0).
    - rewrite E. auto. Qed.

  Lemma Forall_lt_insert k0 k v r :
    bltb k0 k = true -> Forall (fun kv : bytes * V => bltb k0 (fst kv) = true) r ->
    Forall (fun kv : bytes * V => bltb k0 (fst kv) = true) (insert k v r).
  Proof. intros L. induction r as [|[k1 v1] r IH]; simpl; intros F.
    - constructor; auto.
    - inversion F as [|? ? H1 H2]; subst. destruct (bcmp k k1); constructor; auto. Qed.

  Lemma sorted_insert k v m : sorted m -> sorted (insert k v m).
  Proof. induction m as [|[k0 v0] r IH]; simpl; [intros _; split; auto|].
    intros [F S]. destruct (bcmp k k0) eqn:E; simpl.
    - apply bcmp_eq in E; subst. split; auto.
    - split; auto. constructor.
      + simpl. unfold bltb. now rewrite E.
      + eapply Forall_impl; [|exact F]. simpl. intros a Ha.
        apply bltb_trans with k0; auto. unfold bltb. now rewrite E.
    - split; auto. apply Forall_lt_insert; auto.
      unfold bltb. rewrite bcmp_antisym, E. reflexivity. Qed.

  Lemma Forall_lt_remove k0 k r :
    Forall (fun kv : bytes * V => bltb k0 (fst kv) = true) r ->
    Forall (fun kv : bytes * V => bltb k0 (fst kv) = true) (remove k r).
  Proof. induction r as [|[k1 v1] r IH]; simpl; auto. intros F. inversion F; subst.
    destruct (beqb k k1); auto. Qed.

  Lemma sorted_remove k m : sorted m -> sorted (remove k m).
  Proof. induction m as [|[k0 v0] r IH]; simpl; auto. intros [F S].
    destruct (beqb k k0); simpl; auto. split; auto. now apply Forall_lt_remove. Qed.

  Lemma sortedb_sorted m : sortedb m = true -> sorted m.
  Proof. induction m as [|[k0 v0] r IH]; simpl; auto. rewrite andb_true_iff. intros [H1 H2].
    specialize (IH H2). split; auto.
    destruct r as [|[k1 v1] r']; [constructor|]. simpl in IH. destruct IH as [F S].
    constructor; [exact H1|]. eapply Forall_impl; [|exact F]. simpl. intros a Ha.
    now apply bltb_trans with k1. Qed.

  Lemma length_insert_new k v m : lookup k m = None -> length (insert k v m) = S (length m).
  Proof. induction m as [|[k0 v0] r IH]; simpl; auto.
    destruct (beqb k k0) eqn:E; [discriminate|]. intros H.
    destruct (bcmp k k0) eqn:C; simpl; auto.
    apply bcmp_eq in C; subst. now rewrite beqb_refl in E. Qed.


  Lemma lookup_lt_none k k1 (v1 : V) r :
    sorted ((k1, v1) :: r) -> bltb k k1 = true -> lookup k ((k1, v1) :: r) = None.
  Proof. intros [F S] L. simpl.
    assert (beqb k k1 = false) as -> by (apply beqb_neq; now apply bltb_neq).
    apply (sorted_lookup_none k). eapply Forall_impl; [|exact F]. simpl. intros a Ha.
    now apply bltb_trans with k1. Qed.

  Lemma length_insert_old k v v0 m : sorted m -> lookup k m = Some v0 -> length (insert k v m) = length m.
  Proof. induction m as [|[k1 v1] r IH]; [discriminate|]. intros S H.
    cbn [insert]. destruct (bcmp k k1) eqn:C.
    - reflexivity.
    - rewrite (lookup_lt_none k k1 v1 r S) in H; [discriminate|]. unfold bltb. now rewrite C.
    - cbn [length]. f_equal. apply IH; [apply S|]. simpl in H.
      destruct (beqb k k1) eqn:E; auto. apply beqb_eq in E; subst. now rewrite bcmp_refl in C. Qed.

  Lemma length_remove_old k v0 m : lookup k m = Some v0 -> length (remove k m) = pred (length m).
  Proof. induction m as [|[k1 v1] r IH]; simpl; [discriminate|].
    destruct (beqb k k1) eqn:E; auto. intros H. simpl. rewrite IH by auto.
    destruct r as [|[k2 v2] r']; [discriminate|reflexivity]. Qed.

  Lemma remove_absent k m : lookup k m = None -> remove k m = m.
  Proof. induction m as [|[k1 v1] r IH]; simpl; auto.
    destruct (beqb k k1); [discriminate|]. intros H. now rewrite IH. Qed.

  Lemma lookup_In k v m : lookup k m = Some v -> In (k, v) m.
  Proof. induction m as [|[k1 v1] r IH]; simpl; [discriminate|].
    destruct (beqb k k1) eqn:E; [|auto]. apply beqb_eq in E; subst. intros [= ->]. auto. Qed.

  Lemma In_lookup k v m : sorted m -> In (k, v) m -> lookup k m = Some v.
  Proof. induction m as [|[k1 v1] r IH]; simpl; [tauto|]. intros [F S] [[= -> ->]|I].
    - now rewrite beqb_refl.
    - assert (beqb k k1 = false) as ->; [|auto].
      rewrite Forall_forall in F. specialize (F _ I). simpl in F.
      apply beqb_neq. intros ->. now rewrite bltb_irrefl in F. Qed.

  (* extensionality: a sorted map is determined by its lookup function *)
  Lemma sorted_ext m1 m2 : sorted m1 -> sorted m2 -> (forall k, lookup k m1 = lookup k m2) -> m1 = m2.
  Proof. revert m2; induction m1 as [|[k1 v1] r1 IH]; intros [|[k2 v2] r2] S1 S2 H; auto.
    - specialize (H k2). simpl in H. now rewrite beqb_refl in H.
    - specialize (H k1). simpl in H. now rewrite beqb_refl in H.
    - assert (k1 = k2) as ->.
      { apply bcmp_total.
        - destruct (bltb k1 k2) eqn:L; auto.
          pose proof (H k1) as H1. rewrite (lookup_lt_none k1 k2 v2 r2 S2 L) in H1.
          simpl in H1. now rewrite beqb_refl in H1.
        - destruct (bltb k2 k1) eqn:L; auto.
          pose proof (H k2) as H2. rewrite (lookup_lt_none k2 k1 v1 r1 S1 L) in H2.
          simpl in H2. now rewrite beqb_refl in H2. }
      pose proof (H k2) as Hk. simpl in Hk. rewrite beqb_refl in Hk. injection Hk as ->.
      f_equal. destruct S1 as [F1 S1], S2 as [F2 S2]. apply IH; auto.
      intros k. specialize (H k). simpl in H. destruct (beqb k k2) eqn:E; auto.
      apply beqb_eq in E; subst. rewrite (sorted_lookup_none k2 r1 F1), (sorted_lookup_none k2 r2 F2). reflexivity. Qed.

  Lemma keys_NoDup m : sorted m -> NoDup (keys m).
  Proof. induction m as [|[k v] r IH]; simpl; [constructor|]. intros [F S]. constructor; auto.
    intros I. apply in_map_iff in I. destruct I as [[k' v'] [E I]]. simpl in E; subst.
    rewrite Forall_forall in F. specialize (F _ I). simpl in F. now rewrite bltb_irrefl in F. Qed.
End SMap.
Arguments smap : clear implicits.
