(* BIP-173 bech32 as implemented by cosmos/btcutil/bech32 plus the cosmos-sdk wrappers
   (AccAddressFromBech32, Bech32ifyAddressBytes / ConvertAndEncode). *)
From Cctp Require Import Lib.Bytes.
Local Open Scope N_scope.

Definition charset : bytes := B "qpzry9x8gf2tvdw0s3jn54khce6mua7l".
Definition GEN : list N := [0x3b6a57b2; 0x26508e6d; 0x1ea119fa; 0x3d4233dd; 0x2a1462b3].

Definition polystep (chk v : N) : N :=
  let b := N.shiftr chk 25 in
  let chk := N.lxor (N.shiftl (N.land chk 0x1ffffff) 5) v in
  fold_left (fun c (ig : nat * N) => if N.testbit b (N.of_nat (fst ig)) then N.lxor c (snd ig) else c)
            (combine (seq 0 5) GEN) chk.

Definition polymod (hrp : bytes) (values : list N) : N :=
  let c := fold_left (fun c h => polystep c (N.shiftr (bN h) 5)) hrp 1 in
  let c := polystep c 0 in
  let c := fold_left (fun c h => polystep c (N.land (bN h) 31)) hrp c in
  fold_left polystep values c.

Definition is_upper (b : byte) := (65 <=? bN b) && (bN b <=? 90).
Definition is_lower (b : byte) := (97 <=? bN b) && (bN b <=? 122).
Definition lower_ascii (b : byte) : byte := if is_upper b then byte_of_N (bN b + 32) else b.

Fixpoint index_of (c : byte) (l : bytes) (i : N) : option N :=
  match l with [] => None | x :: r => if byte_eqb c x then Some i else index_of c r (i + 1) end.

Fixpoint last_index (c : byte) (l : bytes) (i : nat) (acc : option nat) : option nat :=
  match l with [] => acc | x :: r => last_index c r (S i) (if byte_eqb c x then Some i else acc) end.

Fixpoint sequence {A} (l : list (option A)) : option (list A) :=
  match l with [] => Some [] | None :: _ => None | Some x :: r => option_map (cons x) (sequence r) end.

(* ConvertBits as a bit-stream regrouping *)
Fixpoint bits_of (w : nat) (n : N) : list bool :=   (* big-endian, w bits *)
  match w with O => [] | S k => N.testbit n (N.of_nat k) :: bits_of k n end.
Definition N_of_bits (bs : list bool) : N := fold_left (fun (a : N) (b : bool) => 2 * a + (if b then 1 else 0)) bs 0.
Fixpoint groups (fuel : nat) (w : nat) (bs : list bool) : list (list bool) :=
  match fuel with O => [] | S f => match bs with [] => [] | _ => firstn w bs :: groups f w (skipn w bs) end end.

Definition convert_bits (data : list N) (fromb tob : nat) (pad : bool) : option (list N) :=
  let bits := flat_map (bits_of fromb) data in
  let full := Nat.div (length bits) tob in
  let main := firstn (full * tob)%nat bits in
  let rest := skipn (full * tob)%nat bits in
  let out := map N_of_bits (groups (S (length bits)) tob main) in
  match rest with
  | [] => Some out
  | _ => if pad then Some (out ++ [N_of_bits (rest ++ repeat false (tob - length rest)%nat)])
         else if (Nat.ltb 4 (length rest)) || negb (N.eqb (N_of_bits rest) 0) then None else Some out
  end.

Definition checksum (hrp : bytes) (data : list N) : list N :=
  let pm := N.lxor (polymod hrp (data ++ repeat 0 6)) 1 in
  map (fun i : nat => N.land (N.shiftr pm (5 * (5 - N.of_nat i))) 31) (seq 0 6).

Definition encode (hrp : bytes) (payload : bytes) : option bytes :=
  match convert_bits (map bN payload) 8 5 true with
  | None => None
  | Some d =>
    let hrp := map lower_ascii hrp in
    Some (hrp ++ [x31] ++ map (fun v => nth (N.to_nat v) charset x00) (d ++ checksum hrp d))
  end.

Definition decode (s : bytes) : option (bytes * bytes) :=
  if (Nat.ltb 1023 (length s)) || (Nat.ltb (length s) 8) then None else
  if negb (forallb (fun c => (33 <=? bN c) && (bN c <=? 126)) s) then None else
  if existsb is_upper s && existsb is_lower s then None else
  let s := map lower_ascii s in
  match last_index x31 s 0 None with
  | None => None
  | Some one =>
    if (Nat.ltb one 1) || (Nat.ltb (length s) (one + 7)%nat) then None else
    let hrp := firstn one s in
    match sequence (map (fun c => index_of c charset 0) (skipn (S one) s)) with
    | None => None
    | Some vals =>
      if negb (N.eqb (polymod hrp vals) 1) then None else
      match convert_bits (firstn (length vals - 6)%nat vals) 5 8 false with
      | None => None
      | Some bs => Some (hrp, map byte_of_N bs)
      end
    end
  end.

(* sdk.AccAddressFromBech32 with the configured account prefix *)
Definition acc_address (prefix : bytes) (s : bytes) : option bytes :=
  match decode s with
  | Some (hrp, bz) => if negb (beqb hrp prefix) then None
                      else if (Nat.eqb (length bz) 0) || (Nat.ltb 255 (length bz)) then None else Some bz
  | None => None
  end.
