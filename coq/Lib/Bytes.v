(* Byte strings: Go []byte and string are both [bytes]. Big-endian integers, slices,
   lexicographic order, and the few list lemmas Coq 8.16's List lacks. *)
From Coq Require Export Strings.String.
From Coq Require Export List NArith ZArith Lia Bool Arith.
From Coq Require Export Strings.Byte.
From Coq Require Import ZifyN ZifyNat ZifyBool.
Export ListNotations.

Definition bytes := list byte.

Definition bN (b : byte) : N := Byte.to_N b.
(* n mod 256, computed by masking (structural on binary numbers, unlike division) *)
Definition byte_of_N (n : N) : byte :=
  match Byte.of_N (N.land n 255) with Some b => b | None => x00 end.

Lemma land255 n : N.land n 255 = (n mod 256)%N.
Proof. change 255%N with (N.ones 8). rewrite N.land_ones. reflexivity. Qed.
Lemma to_N_byte_of_N n : Byte.to_N (byte_of_N n) = (n mod 256)%N.
Proof. unfold byte_of_N. rewrite land255. destruct (Byte.of_N (n mod 256)) eqn:E.
  - now apply Byte.to_of_N in E.
  - apply Byte.of_N_None_iff in E. pose proof (N.mod_lt n 256). lia. Qed.
Lemma byte_of_to_N b : byte_of_N (Byte.to_N b) = b.
Proof. unfold byte_of_N. pose proof (Byte.to_N_bounded b).
  rewrite land255, N.mod_small by lia. now rewrite Byte.of_to_N. Qed.
Lemma bN_inj a b : bN a = bN b -> a = b.
Proof. unfold bN; intros H. rewrite <- (byte_of_to_N a), <- (byte_of_to_N b). now rewrite H. Qed.

(* string literal -> bytes *)
Definition B (s : String.string) : bytes := String.list_byte_of_string s.
Arguments B _%string_scope.

(* ---------- equality and lexicographic order ---------- *)
Definition byte_eqb (a b : byte) : bool := N.eqb (bN a) (bN b).
Lemma byte_eqb_eq a b : byte_eqb a b = true <-> a = b.
Proof. unfold byte_eqb. rewrite N.eqb_eq. split; [apply bN_inj|now intros ->]. Qed.
Lemma byte_eqb_refl a : byte_eqb a a = true.
Proof. now apply byte_eqb_eq. Qed.

Fixpoint beqb (a b : bytes) : bool :=
  match a, b with
  | [], [] => true
  | x :: a', y :: b' => byte_eqb x y && beqb a' b'
  | _, _ => false
  end.
Lemma beqb_eq a b : beqb a b = true <-> a = b.
Proof. revert b; induction a as [|x a IH]; intros [|y b]; simpl; try (split; [discriminate|discriminate]); [tauto|].
  rewrite andb_true_iff, byte_eqb_eq, IH. split; [intros [-> ->]; auto|intros [= -> ->]; auto]. Qed.
Lemma beqb_refl a : beqb a a = true.
Proof. now apply beqb_eq. Qed.
Lemma beqb_neq a b : beqb a b = false <-> a <> b.
Proof. rewrite <- beqb_eq. destruct (beqb a b); split; congruence. Qed.
Lemma beqb_sym a b : beqb a b = beqb b a.
Proof. destruct (beqb a b) eqn:E.
  - apply beqb_eq in E; subst. now rewrite beqb_refl.
  - symmetry. apply beqb_neq. apply beqb_neq in E. congruence. Qed.

(* bytes.Compare *)
Fixpoint bcmp (a b : bytes) : comparison :=
  match a, b with
  | [], [] => Eq
  | [], _ :: _ => Lt
  | _ :: _, [] => Gt
  | x :: a', y :: b' =>
      match N.compare (bN x) (bN y) with Eq => bcmp a' b' | c => c end
  end.
Definition bltb (a b : bytes) : bool := match bcmp a b with Lt => true | _ => false end.

Lemma bcmp_eq a b : bcmp a b = Eq <-> a = b.
Proof. revert b; induction a as [|x a IH]; intros [|y b]; simpl; try (split; discriminate); [tauto|].
  destruct (N.compare_spec (bN x) (bN y)) as [E|L|L].
  - apply bN_inj in E; subst. rewrite IH. split; [now intros ->|now intros [= ->]].
  - split; [discriminate|]. intros [= -> ->]. lia.
  - split; [discriminate|]. intros [= -> ->]. lia. Qed.
Lemma bcmp_refl a : bcmp a a = Eq.
Proof. now apply bcmp_eq. Qed.
Lemma bcmp_antisym a b : bcmp b a = CompOpp (bcmp a b).
Proof. revert b; induction a as [|x a IH]; intros [|y b]; simpl; auto.
  rewrite (N.compare_antisym (bN x) (bN y)). destruct (N.compare (bN x) (bN y)); simpl; auto. Qed.
Lemma bcmp_trans a b c : bcmp a b = Lt -> bcmp b c = Lt -> bcmp a c = Lt.
Proof. revert b c; induction a as [|x a IH]; intros [|y b] [|z c]; simpl; try discriminate; auto.
  destruct (N.compare_spec (bN x) (bN y)) as [E1|L1|L1]; try discriminate;
  destruct (N.compare_spec (bN y) (bN z)) as [E2|L2|L2]; try discriminate; intros H1 H2.
  - rewrite E1, E2, N.compare_refl. eauto.
  - rewrite E1. now apply N.compare_lt_iff in L2 as ->.
  - rewrite <- E2. now apply N.compare_lt_iff in L1 as ->.
  - assert (bN x < bN z)%N as L by lia. now apply N.compare_lt_iff in L as ->. Qed.
Lemma bltb_irrefl a : bltb a a = false.
Proof. unfold bltb. now rewrite bcmp_refl. Qed.
Lemma bltb_trans a b c : bltb a b = true -> bltb b c = true -> bltb a c = true.
Proof. unfold bltb. destruct (bcmp a b) eqn:E1; try discriminate. destruct (bcmp b c) eqn:E2; try discriminate.
  intros _ _. now rewrite (bcmp_trans _ _ _ E1 E2). Qed.
Lemma bltb_neq a b : bltb a b = true -> a <> b.
Proof. intros H ->. now rewrite bltb_irrefl in H. Qed.
Lemma bltb_asym a b : bltb a b = true -> bltb b a = false.
Proof. unfold bltb. rewrite (bcmp_antisym a b). destruct (bcmp a b); simpl; congruence. Qed.
Lemma bcmp_total a b : bltb a b = false -> bltb b a = false -> a = b.
Proof. unfold bltb. rewrite (bcmp_antisym a b). destruct (bcmp a b) eqn:E; simpl; try discriminate.
  intros _ _. now apply bcmp_eq. Qed.

(* ---------- list facts missing from 8.16 ---------- *)
Lemma skipn_skipn' {A} a b (l : list A) : skipn a (skipn b l) = skipn (b + a) l.
Proof. revert l; induction b; intros l; simpl; auto. destruct l; simpl; auto. now rewrite skipn_nil. Qed.
Lemma firstn_add' {A} n m (l : list A) : firstn (n + m) l = firstn n l ++ firstn m (skipn n l).
Proof. revert l; induction n; intros l; simpl; auto. destruct l; simpl; [now rewrite firstn_nil|]. now rewrite IHn. Qed.
Lemma skipn_app_len {A} (X Y : list A) k : length X = k -> skipn k (X ++ Y) = Y.
Proof. intros <-. rewrite skipn_app, skipn_all, Nat.sub_diag. reflexivity. Qed.
Lemma firstn_app_len {A} (X Y : list A) k : length X = k -> firstn k (X ++ Y) = X.
Proof. intros <-. rewrite firstn_app, firstn_all, Nat.sub_diag. simpl. now rewrite app_nil_r. Qed.

(* ---------- big-endian fixed-width integers ---------- *)
Fixpoint be_enc (w : nat) (n : N) : bytes :=
  match w with O => [] | S k => be_enc k (n / 256) ++ [byte_of_N n] end.
Definition be_dec (bs : bytes) : N := fold_left (fun acc b => (acc * 256 + Byte.to_N b)%N) bs 0%N.

Lemma be_enc_length w n : length (be_enc w n) = w.
Proof. revert n; induction w; intros; simpl; auto. rewrite app_length, IHw. simpl. lia. Qed.
Lemma be_dec_app a b : be_dec (a ++ [b]) = (be_dec a * 256 + Byte.to_N b)%N.
Proof. unfold be_dec. now rewrite fold_left_app. Qed.
Lemma be_dec_enc w n : be_dec (be_enc w n) = (n mod 256 ^ N.of_nat w)%N.
Proof. revert n; induction w; intros n.
  - simpl. now rewrite N.mod_1_r.
  - cbn [be_enc]. rewrite be_dec_app, IHw, to_N_byte_of_N.
    rewrite Nat2N.inj_succ, N.pow_succ_r'.
    rewrite N.mod_mul_r by (try apply N.pow_nonzero; lia).
    generalize ((n / 256) mod 256 ^ N.of_nat w)%N (n mod 256)%N. intros; lia. Qed.
Lemma be_dec_bound bs : (be_dec bs < 256 ^ N.of_nat (length bs))%N.
Proof. induction bs using rev_ind; [reflexivity|].
  rewrite be_dec_app, app_length. cbn [length]. rewrite Nat.add_1_r, Nat2N.inj_succ, N.pow_succ_r'.
  pose proof (Byte.to_N_bounded x). revert IHbs. generalize (256 ^ N.of_nat (length bs))%N (be_dec bs). intros; lia. Qed.
Lemma be_enc_dec bs : be_enc (length bs) (be_dec bs) = bs.
Proof. induction bs using rev_ind; [reflexivity|].
  rewrite app_length. cbn [length]. rewrite Nat.add_1_r. cbn [be_enc].
  rewrite be_dec_app. pose proof (Byte.to_N_bounded x).
  assert ((be_dec bs * 256 + Byte.to_N x) / 256 = be_dec bs)%N as ->.
  { symmetry. apply N.div_unique with (Byte.to_N x); lia. }
  rewrite IHbs. f_equal. f_equal.
  assert (byte_of_N (be_dec bs * 256 + Byte.to_N x) = byte_of_N (Byte.to_N x)) as ->.
  { unfold byte_of_N. rewrite !land255, N.add_comm, N.mod_add by lia. reflexivity. }
  apply byte_of_to_N. Qed.
Lemma be_enc_inj w a b : (a < 256 ^ N.of_nat w)%N -> (b < 256 ^ N.of_nat w)%N -> be_enc w a = be_enc w b -> a = b.
Proof. intros Ha Hb E. apply (f_equal be_dec) in E. rewrite !be_dec_enc in E.
  now rewrite !N.mod_small in E. Qed.

(* ---------- slices ---------- *)
Definition slice (a b : nat) (bs : bytes) : bytes := firstn (b - a) (skipn a bs).
Lemma slice_length a b bs : b <= length bs -> a <= b -> length (slice a b bs) = b - a.
Proof. intros. unfold slice. rewrite firstn_length, skipn_length. lia. Qed.
Lemma slice_app a b c bs : a <= b -> b <= c -> slice a b bs ++ slice b c bs = slice a c bs.
Proof. intros. unfold slice. replace (c - a) with ((b - a) + (c - b)) by lia.
  rewrite firstn_add'. f_equal. rewrite skipn_skipn'. f_equal. f_equal. lia. Qed.
Lemma be_enc_dec_slice a b bs w : b <= length bs -> a <= b -> w = b - a ->
  be_enc w (be_dec (slice a b bs)) = slice a b bs.
Proof. intros. subst w. rewrite <- (slice_length a b bs) at 1 by lia. apply be_enc_dec. Qed.

Definition zeros (n : nat) : bytes := repeat x00 n.
Lemma zeros_length n : length (zeros n) = n.
Proof. apply repeat_length. Qed.
Definition is_zeros (bs : bytes) : bool := forallb (fun b => byte_eqb b x00) bs.
Lemma is_zeros_spec bs : is_zeros bs = true <-> bs = zeros (length bs).
Proof. induction bs as [|b bs IH]; simpl; [tauto|]. rewrite andb_true_iff, byte_eqb_eq, IH.
  unfold zeros; simpl. split; [intros [-> E]; now f_equal|intros [= -> E]; auto]. Qed.

(* Go: dst := make([]byte, 32); copy(dst[12:], src) *)
Definition copy12 (src : bytes) : bytes := zeros 12 ++ firstn 20 src ++ zeros (20 - length src).
Lemma copy12_length src : length (copy12 src) = 32.
Proof. unfold copy12. rewrite !app_length, !zeros_length, firstn_length. lia. Qed.
Lemma copy12_20 src : length src = 20 -> copy12 src = zeros 12 ++ src.
Proof. intros L. unfold copy12. rewrite firstn_all2 by lia. rewrite L. simpl. now rewrite app_nil_r. Qed.

(* Go: res := make([]byte, 32); copy(res[32-len(bz):], bz)   for len bz <= 32 *)
Definition left_pad32 (bz : bytes) : bytes := zeros (32 - length bz) ++ bz.

(* decimal rendering (for canonical output lines) *)
Fixpoint dec_digits (fuel : nat) (n : N) (acc : bytes) : bytes :=
  match fuel with
  | O => acc
  | S f => let d := byte_of_N (48 + n mod 10) in
           if N.ltb n 10 then d :: acc else dec_digits f (n / 10) (d :: acc)
  end.
Definition dec_of_N (n : N) : bytes := dec_digits (S (N.to_nat (N.log2 n))) n [].
Definition dec_of_Z (z : Z) : bytes :=
  match z with Zneg p => x2d :: dec_of_N (Npos p) | _ => dec_of_N (Z.to_N z) end.
Definition N_of_dec (bs : bytes) : option N :=
  match bs with [] => None | _ =>
  fold_left (fun acc b => match acc with None => None | Some a =>
     let d := bN b in if (48 <=? d)%N && (d <=? 57)%N then Some (a * 10 + (d - 48))%N else None end) bs (Some 0%N) end.
Definition Z_of_dec (bs : bytes) : option Z :=
  match bs with
  | x2d :: r => option_map (fun n => Z.opp (Z.of_N n)) (N_of_dec r)
  | _ => option_map Z.of_N (N_of_dec bs)
  end.
