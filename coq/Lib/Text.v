(* strings.ToLower, strings.EqualFold and sdk.ValidateDenom on the modelled alphabet:
   ASCII plus the two non-ASCII runes whose simple-fold orbit contains an ASCII letter,
   U+017F (C5 BF, long s) and U+212A (E2 84 AA, Kelvin sign).  [text_ok] says a string is
   inside that alphabet; outside it the model answers Unmodelled. *)
From Cctp Require Import Lib.Bytes.
Local Open Scope N_scope.

Definition is_ascii (b : byte) : bool := bN b <? 128.
Definition ascii_upper (b : byte) : bool := (65 <=? bN b) && (bN b <=? 90).
Definition ascii_lower_of (b : byte) : byte := if ascii_upper b then byte_of_N (bN b + 32) else b.

Fixpoint text_ok (s : bytes) : bool :=
  match s with
  | [] => true
  | xc5 :: xbf :: r => text_ok r
  | xe2 :: x84 :: xaa :: r => text_ok r
  | b :: r => is_ascii b && text_ok r
  end.

(* strings.ToLower: ASCII upper -> lower; U+212A -> 'k'; U+017F is its own lower case *)
Fixpoint to_lower (s : bytes) : bytes :=
  match s with
  | [] => []
  | xc5 :: xbf :: r => xc5 :: xbf :: to_lower r
  | xe2 :: x84 :: xaa :: r => x6b :: to_lower r
  | b :: r => ascii_lower_of b :: to_lower r
  end.

(* canonical representative of each rune's simple-fold orbit *)
Fixpoint fold_canon (s : bytes) : bytes :=
  match s with
  | [] => []
  | xc5 :: xbf :: r => x73 :: fold_canon r
  | xe2 :: x84 :: xaa :: r => x6b :: fold_canon r
  | b :: r => ascii_lower_of b :: fold_canon r
  end.
Definition equal_fold (s t : bytes) : bool := beqb (fold_canon s) (fold_canon t).

(* sdk.ValidateDenom: ^[a-zA-Z][a-zA-Z0-9/:._-]{2,127}$ *)
Definition is_alpha (b : byte) : bool :=
  let n := bN b in ((65 <=? n) && (n <=? 90)) || ((97 <=? n) && (n <=? 122)).
Definition is_denom_char (b : byte) : bool :=
  let n := bN b in
  is_alpha b || ((48 <=? n) && (n <=? 57)) || (n =? 47) || (n =? 58) || (n =? 46) || (n =? 95) || (n =? 45).
Definition valid_denom (s : bytes) : bool :=
  match s with
  | [] => false
  | c :: r => is_alpha c && forallb is_denom_char r && Nat.leb 2 (length r) && Nat.leb (length r) 127
  end.
