package main

// registry (C19): histories of registry transactions over keys chosen to collide if any key derivation
// were not injective, with every single-item, scalar and paginated list query after each step: page
// sizes 1..n+1 in offset mode and in key mode (following next_key), forward and reverse.

import (
	"encoding/hex"
	"fmt"
	"regexp"
	"strings"

	"github.com/circlefin/noble-cctp/x/cctp/types"
)

func init() { profiles["registry"] = genRegistry }

var nextRe = regexp.MustCompile(` next=([0-9a-f]*)`)
var itemsRe = regexp.MustCompile(` items=(\S*)`)

func (g *Gen) lastNext() []byte {
	m := nextRe.FindStringSubmatch(g.x.lastQuery)
	if m == nil {
		return nil
	}
	b, _ := hex.DecodeString(m[1])
	return b
}
func (g *Gen) lastCount() int {
	m := itemsRe.FindStringSubmatch(g.x.lastQuery)
	if m == nil || m[1] == "" {
		return 0
	}
	return len(strings.Split(m[1], ";"))
}

var regDomains = []uint32{0, 1, 256, 0x01000000, 0xffffffff, 2}
var regDenoms = []string{"uusdc", "UUSDC", "uUsdc", "other", "uusdc/", "uusd", "u", ""}
var regAttesters = []string{"0x04aa", "0x04aa/", "0x04", "04aa", "0X04AA", "0x04aaff", "0x04bb", "0x", "zz"}

func regToken(g *Gen) []byte {
	t := make([]byte, 32)
	switch g.r.Intn(5) {
	case 0:
		t[31] = byte(g.r.Intn(3))
	case 1:
		t[0] = byte(g.r.Intn(3))
	case 2:
		t[15] = 1
	case 3:
		return g.patBytes([]int{0, 31, 33}[g.r.Intn(3)])
	}
	return t
}

// all list queries paged through completely for one page size
func (g *Gen) pageAll(ty string, limit int) {
	// offset mode
	for off := 0; ; off += limit {
		g.q(ty, pageArgs(nil, uint64(off), uint64(limit), g.r.Chance(1, 2), false))
		if g.x.lastClass != "ok" || g.lastCount() == 0 || off > 200 {
			break
		}
	}
	// key mode: first page by offset 0, then follow next_key
	g.q(ty, pageArgs(nil, 0, uint64(limit), false, false))
	for i := 0; i < 60 && g.x.lastClass == "ok"; i++ {
		nk := g.lastNext()
		if len(nk) == 0 {
			break
		}
		g.q(ty, pageArgs(nk, 0, uint64(limit), g.r.Chance(1, 4), false))
	}
	g.stats.Mut(fmt.Sprintf("paged-%s", ty))
}

func genRegistry(g *Gen, n int) {
	lists := []string{"Attesters", "PerMessageBurnLimits", "TokenPairs", "UsedNonces", "RemoteTokenMessengers"}
	for sc := 0; sc < n; sc++ {
		g.line("BEGIN id=%d", sc)
		f := flowScn(g, flowMix{})
		f.nonces = append(f.nonces, types.Nonce{SourceDomain: 0, Nonce: 3}, types.Nonce{SourceDomain: 0, Nonce: 7}, types.Nonce{SourceDomain: 1, Nonce: 0},
			types.Nonce{SourceDomain: 5, Nonce: 0}, types.Nonce{SourceDomain: 5, Nonce: 2})
		f.Init()
		g.stats.Scripts++
		steps := 25 + g.r.Intn(15)
		for i := 0; i < steps; i++ {
			who := func(holder string) string {
				if g.r.Chance(1, 10) {
					return f.A(g.r.Intn(4))
				}
				return holder
			}
			switch g.r.Intn(9) {
			case 0:
				g.tx("EnableAttester", who(f.attmgr), fmt.Sprintf("attester=%x", g.pick(regAttesters)), "")
			case 1:
				g.tx("DisableAttester", who(f.attmgr), fmt.Sprintf("attester=%x", g.pick(regAttesters)), "")
			case 2:
				g.tx("LinkTokenPair", who(f.tokctl), fmt.Sprintf("domain=%d token=%x local=%x", g.pickU32(regDomains), regToken(g), g.pick(regDenoms)), "")
			case 3:
				g.tx("UnlinkTokenPair", who(f.tokctl), fmt.Sprintf("domain=%d token=%x local=%x", g.pickU32(regDomains), regToken(g), g.pick(regDenoms)), "")
			case 4:
				g.tx("AddRemoteTokenMessenger", who(f.owner), fmt.Sprintf("domain=%d address=%x", g.pickU32(regDomains), g.patBytes([]int{32, 32, 32, 31, 0}[g.r.Intn(5)])), "")
			case 5:
				g.tx("RemoveRemoteTokenMessenger", who(f.owner), fmt.Sprintf("domain=%d", g.pickU32(regDomains)), "")
			case 6:
				g.tx("SetMaxBurnAmountPerMessage", who(f.tokctl), fmt.Sprintf("local=%x amount=%s", g.pick(regDenoms), g.pick([]string{"0", "5", "-", "-2", "1000000"})), "")
			case 7:
				f.Receive(true)
			case 8:
				f.Admin()
			}
			if g.r.Chance(1, 5) {
				// scalars at boundary values, each followed by every scalar query
				switch g.r.Intn(4) {
				case 0:
					g.tx("UpdateMaxMessageBodySize", f.owner, fmt.Sprintf("size=%d", []uint64{0, 1, 8000, 1<<64 - 1}[g.r.Intn(4)]), "")
				case 1:
					g.tx("UpdateSignatureThreshold", f.attmgr, fmt.Sprintf("amount=%d", 1+g.r.Intn(3)), "")
				case 2:
					g.tx(g.pick([]string{"PauseBurningAndMinting", "UnpauseBurningAndMinting", "PauseSendingAndReceivingMessages", "UnpauseSendingAndReceivingMessages"}), f.pauser, "", "")
				case 3:
					g.tx("SendMessage", f.A(0), fmt.Sprintf("dest=1 recipient=%x body=", g.r.Bytes(32)), "")
				}
				g.stats.Mut("scalar-setter-then-queries")
				for _, sq := range []string{"Roles", "BurningAndMintingPaused", "SendingAndReceivingMessagesPaused", "MaxMessageBodySize",
					"NextAvailableNonce", "SignatureThreshold"} {
					g.q(sq, "")
				}
			}
			// single-item queries over the colliding pools
			switch g.r.Intn(6) {
			case 0:
				g.q("Attester", fmt.Sprintf("attester=%x", g.pick(regAttesters)))
			case 1:
				g.q("PerMessageBurnLimit", fmt.Sprintf("denom=%x", g.pick(regDenoms)))
			case 2:
				tok := regToken(g)
				sp := hex.EncodeToString(tok)
				switch g.r.Intn(4) {
				case 0:
					sp = "0x" + sp
				case 1:
					sp = strings.TrimLeft(sp, "0") // shorter spellings are left-padded
					if len(sp)%2 == 1 {
						sp = "0" + sp
					}
				case 2:
					sp = strings.ToUpper(sp)
				}
				g.q("TokenPair", fmt.Sprintf("domain=%d token=%x", g.pickU32(regDomains), sp))
			case 3:
				p := f.pool[g.r.Intn(len(f.pool))]
				g.q("UsedNonce", fmt.Sprintf("domain=%d nonce=%d", p[0], p[1]))
				g.q("UsedNonce", fmt.Sprintf("domain=%d nonce=%d", p[1]&0xffffffff, p[0]))
			case 4:
				g.q("RemoteTokenMessenger", fmt.Sprintf("domain=%d", g.pickU32(regDomains)))
			case 5:
				for _, s := range []string{"Roles", "BurningAndMintingPaused", "SendingAndReceivingMessagesPaused", "MaxMessageBodySize",
					"NextAvailableNonce", "SignatureThreshold", "LocalDomain", "LocalMessageVersion", "BurnMessageVersion"} {
					g.q(s, "")
				}
			}
			if g.r.Chance(1, 4) {
				ty := lists[g.r.Intn(len(lists))]
				g.q(ty, pageArgs(nil, 0, 0, false, false)) // default page: limit 100 with total
				cnt := g.lastCount()
				for limit := 1; limit <= cnt+1 && limit <= 8; limit++ {
					g.pageAll(ty, limit)
				}
				// reverse, odd offsets, count_total variants, key + offset (an error)
				g.q(ty, pageArgs(nil, uint64(g.r.Intn(4)), uint64(1+g.r.Intn(4)), true, true))
				g.q(ty, pageArgs(nil, 0, 3, false, true))
				if nk := g.lastNext(); len(nk) > 0 {
					g.q(ty, pageArgs(nk, 0, 2, false, true))
					g.q(ty, pageArgs(nk, 1, 2, false, false))
				}
				if cnt >= 2 {
					// the cursor of the last entry, used in reverse
					g.q(ty, pageArgs(nil, 0, uint64(cnt-1), false, false))
					if nk := g.lastNext(); len(nk) > 0 {
						g.stats.Mut("reverse-from-last-key")
						g.q(ty, pageArgs(nk, 0, 2, false, true))
					}
				}
				g.q(ty, pageArgs([]byte("zzz-not-a-key"), 0, 2, false, g.r.Chance(1, 2)))
				g.q(ty, pageArgs(nil, 1<<63, 1<<63, true, false))
			}
		}
	}
}
