package main

// "dropped": scenarios around executions whose branch never reaches the chain (simulation, CheckTx, the early messages of a
// transaction whose later message fails).  Each scenario runs a state-changing message on a dropped branch, lets a second
// message READ that state on the same branch (so that anything memoised outside the store gets filled with it), and then
// delivers a transaction on the real chain whose outcome depends on the state the dropped branch wrote.  A keeper whose
// every read comes from the context's store answers from the committed state; a keeper that remembers anything across
// calls answers from the dropped branch.

import (
	"fmt"
	"math/big"
)

func init() { profiles["dropped"] = genDropped }

func (f *Flow) plainMsg(src uint32, nonce uint64) []byte {
	g := f.g
	return encMsg(0, src, 4, nonce, g.r.Bytes(32), g.r.Bytes(32), make([]byte, 32), g.r.Bytes(g.r.Intn(40)))
}

func genDropped(g *Gen, n int) {
	for sc := 0; sc < n; sc++ {
		g.line("BEGIN id=%d", sc)
		f := flowScn(g, flowMix{})
		f.bm, f.sr = false, false
		f.thr = 1
		f.maxBody = 300
		f.nextNonce = int64(g.r.Intn(50))
		f.limits = nil
		for i := range f.accts {
			f.bals[f.A(i)] = big.NewInt(1000000)
		}
		f.Init()
		g.stats.Scripts++
		user := f.A(3)
		nonce := uint64(1000)
		fresh := func() uint64 { nonce++; return nonce }
		rounds := 6 + g.r.Intn(6)
		for r := 0; r < rounds; r++ {
			switch g.r.Intn(10) {
			case 0: // an attester enabled only on a dropped branch must not count afterwards
				k := g.key()
				sp := g.spell(pubBytes(k))
				m0 := f.plainMsg(0, fresh())
				g.sim("EnableAttester", f.attmgr, fmt.Sprintf("attester=%x", sp), "")
				g.simChained("ReceiveMessage", user, fmt.Sprintf("message=%x attestation=%x", m0, f.Attest(m0)), "")
				m1 := f.plainMsg(1, fresh())
				g.tx("ReceiveMessage", user, fmt.Sprintf("message=%x attestation=%x", m1, sign(k, m1, false)), "")
				g.stats.Mut("dropped-enable-attester")
			case 1: // an attester disabled only on a dropped branch still counts
				idx := f.enabledKeys()
				if len(idx) < 2 {
					sp := g.spell(pubBytes(g.key()))
					g.tx("EnableAttester", f.attmgr, fmt.Sprintf("attester=%x", sp), "")
					continue
				}
				victim := idx[g.r.Intn(len(idx))]
				other := idx[0]
				if other == victim {
					other = idx[1]
				}
				m0 := f.plainMsg(0, fresh())
				g.sim("DisableAttester", f.attmgr, fmt.Sprintf("attester=%x", f.spelling[victim]), "")
				g.simChained("ReceiveMessage", user, fmt.Sprintf("message=%x attestation=%x", m0, sign(f.keys[other], m0, false)), "")
				m1 := f.plainMsg(1, fresh())
				g.tx("ReceiveMessage", user, fmt.Sprintf("message=%x attestation=%x", m1, sign(f.keys[victim], m1, false)), "")
				g.stats.Mut("dropped-disable-attester")
			case 2: // a pause flag flipped only on a dropped branch
				which := g.pick([]string{"SendingAndReceivingMessages", "BurningAndMinting"})
				paused := g.r.Chance(1, 2)
				if paused {
					g.tx("Pause"+which, f.pauser, "", "")
				} else {
					g.tx("Unpause"+which, f.pauser, "", "")
				}
				flip := "Unpause"
				if !paused {
					flip = "Pause"
				}
				g.sim(flip+which, f.pauser, "", "")
				g.simChained("SendMessage", user, fmt.Sprintf("dest=1 recipient=%x body=%x", g.r.Bytes(32), g.r.Bytes(8)), "")
				g.simChained("DepositForBurn", user, fmt.Sprintf("amount=5 dest=0 mint_recipient=%x burn_token=%x", g.r.Bytes(32), "uusdc"), "")
				g.tx("SendMessage", user, fmt.Sprintf("dest=1 recipient=%x body=%x", g.r.Bytes(32), g.r.Bytes(8)), "")
				g.tx("DepositForBurn", user, fmt.Sprintf("amount=5 dest=0 mint_recipient=%x burn_token=%x", g.r.Bytes(32), "uusdc"), "")
				g.q("BurningAndMintingPaused", "")
				g.q("SendingAndReceivingMessagesPaused", "")
				g.tx("Unpause"+which, f.pauser, "", "")
				g.stats.Mut("dropped-pause-flip")
			case 3: // a role handed over only on a dropped branch
				role := g.pick([]string{"UpdatePauser", "UpdateAttesterManager", "UpdateTokenController"})
				nominee := f.A(3)
				g.sim(role, f.owner, fmt.Sprintf("new=%x", nominee), "")
				switch role {
				case "UpdatePauser":
					g.simChained("PauseBurningAndMinting", nominee, "", "")
					g.tx("PauseBurningAndMinting", nominee, "", "")
					g.tx("UnpauseBurningAndMinting", f.pauser, "", "")
				case "UpdateAttesterManager":
					g.simChained("UpdateSignatureThreshold", nominee, "amount=1", "")
					sp := g.spell(pubBytes(g.key()))
					g.tx("EnableAttester", nominee, fmt.Sprintf("attester=%x", sp), "")
				case "UpdateTokenController":
					g.simChained("SetMaxBurnAmountPerMessage", nominee, "local=7575736463 amount=7", "")
					g.tx("SetMaxBurnAmountPerMessage", nominee, "local=7575736463 amount=7", "")
				}
				g.q("Roles", "")
				g.stats.Mut("dropped-role-update")
			case 4: // ownership accepted only on a dropped branch
				nominee := f.A(3)
				g.tx("UpdateOwner", f.owner, fmt.Sprintf("new=%x", nominee), "")
				g.sim("AcceptOwner", nominee, "", "")
				g.simChained("UpdatePauser", nominee, fmt.Sprintf("new=%x", nominee), "")
				g.tx("UpdatePauser", nominee, fmt.Sprintf("new=%x", nominee), "")
				g.tx("UpdateMaxMessageBodySize", f.owner, "size=300", "")
				g.q("Roles", "")
				g.stats.Mut("dropped-accept-owner")
			case 5: // outbound nonces drawn on a dropped branch are not consumed
				g.sim("SendMessage", user, fmt.Sprintf("dest=1 recipient=%x body=%x", g.r.Bytes(32), g.r.Bytes(8)), "")
				g.simChained("SendMessageWithCaller", user, fmt.Sprintf("dest=1 recipient=%x body=%x caller=%x", g.r.Bytes(32), g.r.Bytes(8), pad32(g.r.Bytes(20))), "")
				g.simChained("DepositForBurn", user, fmt.Sprintf("amount=5 dest=0 mint_recipient=%x burn_token=%x", g.r.Bytes(32), "uusdc"), "")
				g.tx("SendMessage", user, fmt.Sprintf("dest=1 recipient=%x body=%x", g.r.Bytes(32), g.r.Bytes(8)), "")
				g.q("NextAvailableNonce", "")
				g.stats.Mut("dropped-outbound-nonces")
			case 6: // a message received only on a dropped branch is still receivable, exactly once
				m := f.plainMsg(uint32(g.r.Intn(3)), fresh())
				att := f.Attest(m)
				g.sim("ReceiveMessage", user, fmt.Sprintf("message=%x attestation=%x", m, att), "")
				g.simChained("ReceiveMessage", user, fmt.Sprintf("message=%x attestation=%x", m, att), "")
				g.tx("ReceiveMessage", user, fmt.Sprintf("message=%x attestation=%x", m, att), "")
				g.tx("ReceiveMessage", user, fmt.Sprintf("message=%x attestation=%x", m, att), "")
				g.stats.Mut("dropped-receive")
			case 7: // configuration values changed only on a dropped branch
				switch g.r.Intn(3) {
				case 0:
					g.sim("UpdateMaxMessageBodySize", f.owner, "size=1", "")
					g.simChained("SendMessage", user, fmt.Sprintf("dest=1 recipient=%x body=%x", g.r.Bytes(32), g.r.Bytes(8)), "")
					g.tx("SendMessage", user, fmt.Sprintf("dest=1 recipient=%x body=%x", g.r.Bytes(32), g.r.Bytes(8)), "")
					g.q("MaxMessageBodySize", "")
				case 1:
					g.sim("SetMaxBurnAmountPerMessage", f.tokctl, "local=7575736463 amount=1", "")
					g.simChained("DepositForBurn", user, fmt.Sprintf("amount=5 dest=0 mint_recipient=%x burn_token=%x", g.r.Bytes(32), "uusdc"), "")
					g.tx("DepositForBurn", user, fmt.Sprintf("amount=5 dest=0 mint_recipient=%x burn_token=%x", g.r.Bytes(32), "uusdc"), "")
				case 2:
					g.sim("RemoveRemoteTokenMessenger", f.owner, "domain=0", "")
					g.simChained("DepositForBurn", user, fmt.Sprintf("amount=5 dest=0 mint_recipient=%x burn_token=%x", g.r.Bytes(32), "uusdc"), "")
					g.tx("DepositForBurn", user, fmt.Sprintf("amount=5 dest=0 mint_recipient=%x burn_token=%x", g.r.Bytes(32), "uusdc"), "")
					g.q("RemoteTokenMessenger", "domain=0")
				}
				g.stats.Mut("dropped-config")
			case 8: // the threshold raised only on a dropped branch
				idx := f.enabledKeys()
				g.sim("UpdateSignatureThreshold", f.attmgr, fmt.Sprintf("amount=%d", len(idx)+1), "")
				g.sim("UpdateSignatureThreshold", f.attmgr, fmt.Sprintf("amount=%d", len(idx)), "")
				m0 := f.plainMsg(0, fresh())
				g.simChained("ReceiveMessage", user, fmt.Sprintf("message=%x attestation=%x", m0, f.attestWith(m0, idx)), "")
				m1 := f.plainMsg(1, fresh())
				g.tx("ReceiveMessage", user, fmt.Sprintf("message=%x attestation=%x", m1, f.Attest(m1)), "")
				g.q("SignatureThreshold", "")
				g.stats.Mut("dropped-threshold")
			case 9: // a token pair unlinked / linked only on a dropped branch
				p := f.pairs[g.r.Intn(len(f.pairs))]
				g.sim("UnlinkTokenPair", f.tokctl, fmt.Sprintf("domain=%d token=%x local=%x", p.RemoteDomain, p.RemoteToken, p.LocalToken), "")
				g.simChained("LinkTokenPair", f.tokctl, fmt.Sprintf("domain=%d token=%x local=%x", p.RemoteDomain, p.RemoteToken, "other"), "")
				g.q("TokenPair", fmt.Sprintf("domain=%d token=%x", p.RemoteDomain, fmt.Sprintf("0x%x", p.RemoteToken)))
				g.tx("LinkTokenPair", f.tokctl, fmt.Sprintf("domain=%d token=%x local=%x", p.RemoteDomain, p.RemoteToken, "other"), "")
				g.stats.Mut("dropped-token-pair")
			}
		}
	}
}
