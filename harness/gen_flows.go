package main

// Generators for the user-facing flows: deposits, sends, receives and replacements, with named
// mutations (one per acceptance condition / boundary) and interleaved administrative actions.
// The scenario mirrors the chain's configuration from the outcomes of its own transactions, so
// that most requests are valid and every rejection branch is hit on purpose.

import (
	"bytes"
	"crypto/ecdsa"
	"encoding/hex"
	"fmt"
	"math/big"
	"sort"
	"strings"

	sdk "github.com/cosmos/cosmos-sdk/types"
	"github.com/ethereum/go-ethereum/crypto"

	"github.com/circlefin/noble-cctp/x/cctp/types"
)

func init() {
	profiles["flows"] = func(g *Gen, n int) { genFlows(g, n, flowMix{}) }
	profiles["receive-history"] = func(g *Gen, n int) { genFlows(g, n, flowMix{receive: 8, admin: 2, pool: true}) }
	profiles["outbound"] = func(g *Gen, n int) { genFlows(g, n, flowMix{deposit: 5, send: 3, replace: 4, admin: 1, oddAccount: true}) }
	profiles["mint-values"] = func(g *Gen, n int) { genFlows(g, n, flowMix{receive: 8, deposit: 1, admin: 1, genesisCase: true}) }
	profiles["replace"] = func(g *Gen, n int) { genFlows(g, n, flowMix{deposit: 3, send: 3, replace: 8, admin: 1}) }
	profiles["attest"] = genAttest
	profiles["receive-matrix"] = genReceiveMatrix
	profiles["deposit-matrix"] = genDepositMatrix
	profiles["pause-matrix"] = genPauseMatrix
	profiles["faults"] = genFaults
}

type flowMix struct {
	deposit, send, receive, replace, admin int
	oddAccount                             bool // one of the accounts has an address that is not 20 bytes long
	pool                                   bool // draw (domain, nonce) from a small colliding pool
	genesisCase                            bool // install mixed-case local tokens through genesis
}

type sentMsg struct {
	bz      []byte
	deposit bool
	from    string
}

type Flow struct {
	*Scn
	g    *Gen
	sent []sentMsg
	pool [][2]uint64
	used map[[2]uint64]bool
}

var two256m1 = new(big.Int).Sub(new(big.Int).Lsh(big.NewInt(1), 256), big.NewInt(1))

func flowScn(g *Gen, mix flowMix) *Flow {
	nKeys := 1 + g.r.Intn(4)
	s := NewScn(g, 4, nKeys)
	s.thr = uint32(1 + g.r.Intn(nKeys))
	for d := uint32(0); d < 3; d++ {
		s.messengers[d] = pad32(append([]byte{0xaa, byte(d)}, g.r.Bytes(6)...))
	}
	local := "uusdc"
	if mix.genesisCase && g.r.Chance(1, 2) {
		local = g.pick([]string{"uUSDC", "UUSDC", "uusdC"})
	}
	for d := uint32(0); d < 3; d++ {
		tok := pad32([]byte{0x70, byte(d)})
		if g.r.Chance(1, 4) {
			tok = g.r.Bytes(32)
		}
		s.pairs = append(s.pairs, types.TokenPair{RemoteDomain: d, RemoteToken: tok, LocalToken: local})
	}
	if g.r.Chance(1, 2) {
		s.limits = append(s.limits, types.PerMessageBurnLimit{Denom: "uusdc", Amount: mathInt(g.pickBig([]string{"1", "1000000", "1000", "115792089237316195423570985008687907853269984665640564039457584007913129639935"}))})
	}
	switch g.r.Intn(5) {
	case 0:
		s.nextNonce = -1
	case 1:
		s.nextNonce = int64(g.r.Intn(1000))
	case 2:
		s.nextNonce = -2 // 2^64-2, see Init override below
	}
	switch g.r.Intn(6) {
	case 0:
		s.maxBody = -1
	case 1:
		s.maxBody = 132
	case 2:
		s.maxBody = 131
	case 3:
		s.maxBody = 300
	}
	for i := range s.accts {
		switch g.r.Intn(4) {
		case 0:
			s.bals[s.A(i)] = big.NewInt(int64(g.r.Intn(2000)))
		default:
			s.bals[s.A(i)] = new(big.Int).Lsh(big.NewInt(1), 260)
		}
	}
	if mix.oddAccount {
		// one account whose address is not 20 bytes long (the SDK accepts 1..255): exercises copy(sender[12:], addr)
		old := s.accts[3].String()
		s.accts[3] = sdk.AccAddress(g.r.Bytes(g.pickInt([]int{1, 8, 19, 21, 32})))
		if b, ok := s.bals[old]; ok {
			delete(s.bals, old)
			s.bals[s.accts[3].String()] = b
		}
		if s.tokctl == old {
			s.tokctl = s.accts[3].String()
		}
		g.stats.Mut(fmt.Sprintf("account-of-%d-bytes", len(s.accts[3])))
	}
	f := &Flow{Scn: s, g: g, used: map[[2]uint64]bool{}}
	f.pool = [][2]uint64{{0, 0}, {0xffffffff, 0xffffffffffffffff}, {0, 1}, {1, 0}, {1, 1}, {2, 2}, {0, 1 << 32}, {1, 256}}
	for i := 0; i < 2; i++ {
		f.pool = append(f.pool, [2]uint64{uint64(g.r.Intn(3)), g.r.Next()})
	}
	if g.r.Chance(1, 3) {
		p := f.pool[g.r.Intn(len(f.pool))]
		s.nonces = append(s.nonces, types.Nonce{SourceDomain: uint32(p[0]), Nonce: p[1]})
		f.used[p] = true
	}
	if g.r.Chance(1, 5) && s.nextNonce >= 0 {
		// inbound records under Noble's own domain number whose nonces the outbound counter is about to reach: the two
		// collections have nothing to do with each other
		for i := int64(0); i < 3; i++ {
			s.nonces = append(s.nonces, types.Nonce{SourceDomain: 4, Nonce: uint64(s.nextNonce + i + int64(g.r.Intn(2)))})
		}
		s.nonces = dedupNonces(s.nonces)
		g.stats.Mut("own-domain-used-nonces")
	}
	if g.r.Chance(1, 4) {
		// remote domains that differ from a linked one only above bit 16 (bit 8 for the byte-minded): a messenger is
		// registered, no token pair is linked
		for d := uint32(0); d < 3; d++ {
			s.messengers[d+uint32(g.pickInt([]int{1 << 16, 1 << 16, 1 << 8, 1 << 24}))] = s.messengers[d]
		}
		g.stats.Mut("alias-domains")
	}
	if g.r.Chance(1, 12) {
		// a large attester set: more than a hundred enabled entries that sort before every real key (beyond any default
		// page size); honest attestations are signed by keys at the far end of the collection
		for i, k := 0, 101+g.r.Intn(20); i < k; i++ {
			s.fillers = append(s.fillers, fmt.Sprintf("0x03%06x", i))
		}
		g.stats.Mut("many-attesters")
	}
	if g.r.Chance(1, 10) {
		// a long past: more than a hundred messages already received (beyond any default page size)
		for i, k := 0, 101+g.r.Intn(30); i < k; i++ {
			s.nonces = append(s.nonces, types.Nonce{SourceDomain: uint32(7 + i%3), Nonce: uint64(5000 + i)})
		}
		g.stats.Mut("many-used-nonces")
	}
	return f
}

func (g *Gen) pickBig(l []string) *big.Int {
	z, _ := new(big.Int).SetString(l[g.r.Intn(len(l))], 10)
	return z
}

func (f *Flow) acctStr() string { return f.A(f.g.r.Intn(len(f.accts))) }

// record MessageSent events of the last transaction
func (f *Flow) harvest(from string, deposit bool) {
	if f.g.x.lastClass != "ok" {
		return
	}
	for _, e := range f.g.x.lastEvents {
		if strings.HasPrefix(e, "MessageSent message=") {
			bz, _ := hex.DecodeString(strings.TrimPrefix(e, "MessageSent message="))
			f.sent = append(f.sent, sentMsg{bz, deposit, from})
		}
	}
}

func (f *Flow) plan() string {
	g := f.g
	if g.r.Chance(1, 8) {
		g.stats.Mut("dep-plan")
		return g.pick([]string{"f", "df", "s", "ss", "ds", "sf", "fs", "dd", "p", "dp", "sp"})
	}
	return ""
}

// ---------- deposits ----------
func (f *Flow) amountAround() string {
	g := f.g
	var lim *big.Int
	for _, l := range f.limits {
		if strings.EqualFold(l.Denom, "uusdc") && !l.Amount.IsNil() {
			lim = l.Amount.BigInt()
		}
	}
	if lim != nil && g.r.Chance(1, 2) {
		d := int64(g.r.Intn(3) - 1)
		g.stats.Mut(fmt.Sprintf("amount-limit%+d", d))
		a := new(big.Int).Add(lim, big.NewInt(d))
		if g.r.Chance(1, 4) {
			// the same low bits, one or two machine words higher
			a.Add(a, new(big.Int).Lsh(big.NewInt(1), uint(g.pickInt([]int{64, 64, 128, 192}))))
			g.stats.Mut("amount-limit-plus-word")
		}
		return clamp256(a).String()
	}
	if g.r.Chance(1, 12) {
		a := new(big.Int).Lsh(big.NewInt(int64(1+g.r.Intn(3))), uint(g.pickInt([]int{63, 64, 64, 65, 128})))
		a.Add(a, big.NewInt(int64(g.r.Intn(3))))
		g.stats.Mut("amount-wide")
		return a.String()
	}
	switch g.r.Intn(12) {
	case 0:
		g.stats.Mut("amount-zero")
		return "0"
	case 1:
		g.stats.Mut("amount-negative")
		return "-1"
	case 2:
		g.stats.Mut("amount-absent")
		return "-"
	case 3:
		g.stats.Mut("amount-max")
		return two256m1.String()
	case 4:
		return g.randAmount().String()
	}
	return fmt.Sprint(1 + g.r.Intn(1000))
}

func (f *Flow) Deposit() {
	g := f.g
	from := f.acctStr()
	dest := uint32(g.r.Intn(3))
	mr := pad32(g.r.Bytes(20))
	if g.r.Chance(1, 3) {
		mr = g.r.Bytes(32)
	}
	tok := "uusdc"
	caller := pad32(g.r.Bytes(20))
	withCaller := g.r.Chance(1, 2)
	amt := f.amountAround()
	switch g.r.Intn(16) {
	case 0:
		mr = make([]byte, 32)
		g.stats.Mut("dep-recipient-zero")
	case 1:
		mr = mr[:g.pickInt([]int{0, 31})]
		g.stats.Mut("dep-recipient-short")
	case 2:
		mr = append(mr, 1)
		g.stats.Mut("dep-recipient-long")
	case 3:
		dest = uint32(3 + g.r.Intn(3))
		g.stats.Mut("dep-dest-unregistered")
	case 4:
		tok = g.pick([]string{"UUSDC", "uUsDc", "uusdC"})
		g.stats.Mut("dep-token-case")
	case 5:
		tok = g.pick([]string{"uusd", "other", "", "uu\xc5\xbfdc", "uusdc ", "uusd\xe2\x84\xaa"})
		g.stats.Mut("dep-token-other")
	case 6:
		from = g.pick([]string{"", "garbage", upper(from), "noble1qv9pzxqlyckngw6zf9g9whn9d3eh4qvg3u3gv759"})
		g.stats.Mut("dep-from-bad")
	case 7:
		if withCaller {
			caller = make([]byte, 32)
			g.stats.Mut("dep-caller-zero")
		}
	case 8:
		if withCaller {
			caller = caller[:g.pickInt([]int{0, 1, 31})]
			g.stats.Mut("dep-caller-short")
		}
	case 9:
		if withCaller {
			caller = append(caller, 7)
			g.stats.Mut("dep-caller-long")
		}
	case 10:
		mr = g.sparse32()
		g.stats.Mut("dep-recipient-one-byte")
	case 11:
		caller = g.sparse32()
		g.stats.Mut("dep-caller-one-byte")
	}
	plan := f.plan()
	if tok != "uusdc" && strings.EqualFold(tok, "uusdc") && g.r.Chance(3, 4) {
		// a case variant of the minting denom passes the module's own check (EqualFold); only the bank and the factory
		// would stop it.  With a permissive ledger the deposit goes through and the emitted burn token, limit lookup and
		// events for a mixed-case denom become observable.
		plan = "ss"
		g.stats.Mut("dep-token-case-permissive")
	}
	if withCaller {
		g.tx("DepositForBurnWithCaller", from, fmt.Sprintf("amount=%s dest=%d mint_recipient=%x burn_token=%x caller=%x", amt, dest, mr, tok, caller), plan)
	} else {
		g.tx("DepositForBurn", from, fmt.Sprintf("amount=%s dest=%d mint_recipient=%x burn_token=%x", amt, dest, mr, tok), plan)
	}
	f.harvest(from, true)
}

// wire-decodable math.Int values are at most 256 bits wide
func clamp256(z *big.Int) *big.Int {
	if z.CmpAbs(two256m1) > 0 {
		if z.Sign() < 0 {
			return new(big.Int).Neg(two256m1)
		}
		return two256m1
	}
	return z
}

func (g *Gen) pickInt(l []int) int { return l[g.r.Intn(len(l))] }

// ---------- sends ----------
func (f *Flow) Send() {
	g := f.g
	from := f.acctStr()
	dest := g.randU32()
	rcp := g.r.Bytes(32)
	bodyLen := g.pickInt([]int{0, 1, 20, 131, 132, 133, 299, 300, 301, 40})
	if f.maxBody > 0 && g.r.Chance(1, 3) {
		bodyLen = int(f.maxBody) + g.r.Intn(3) - 1
		g.stats.Mut("send-body-at-max")
	}
	caller := pad32(g.r.Bytes(20))
	withCaller := g.r.Chance(1, 2)
	switch g.r.Intn(14) {
	case 0:
		rcp = make([]byte, 32)
		g.stats.Mut("send-recipient-zero")
	case 1:
		rcp = rcp[:g.pickInt([]int{0, 31})]
		g.stats.Mut("send-recipient-short")
	case 2:
		rcp = append(rcp, 9)
		g.stats.Mut("send-recipient-long")
	case 3:
		from = g.pick([]string{"", "garbage", upper(from)})
		g.stats.Mut("send-from-bad")
	case 4:
		if withCaller {
			caller = make([]byte, 32)
			g.stats.Mut("send-caller-zero")
		}
	case 5:
		if withCaller {
			caller = caller[:g.pickInt([]int{0, 31})]
			g.stats.Mut("send-caller-short")
		}
	case 6:
		rcp = make([]byte, 20)
		g.stats.Mut("send-recipient-20-zero")
	case 9:
		if tm := f.messengers[dest]; tm != nil {
			rcp = append([]byte(nil), tm...)
			g.stats.Mut("send-recipient-is-the-token-messenger")
		}
	case 7:
		rcp = g.sparse32()
		g.stats.Mut("send-recipient-one-byte")
	case 8:
		caller = g.sparse32()
		g.stats.Mut("send-caller-one-byte")
	}
	body := g.patBytes(bodyLen)
	if withCaller {
		g.tx("SendMessageWithCaller", from, fmt.Sprintf("dest=%d recipient=%x body=%x caller=%x", dest, rcp, body, caller), "")
	} else {
		g.tx("SendMessage", from, fmt.Sprintf("dest=%d recipient=%x body=%x", dest, rcp, body), "")
	}
	f.harvest(from, false)
}

// ---------- attestations ----------
var secpN, _ = new(big.Int).SetString("fffffffffffffffffffffffffffffffebaaedce6af48a03bbfd25e8cd0364141", 16)

func highS(sig []byte) []byte {
	out := append([]byte(nil), sig...)
	s := new(big.Int).SetBytes(sig[32:64])
	s.Sub(secpN, s)
	copy(out[32:64], pad32(s.Bytes()))
	v := out[64]
	if v >= 27 {
		out[64] = 27 + (1 - (v - 27))
	} else {
		out[64] = 1 - v
	}
	return out
}

// attestWith signs msg with the given keys in the given order
func (f *Flow) attestWith(msg []byte, idx []int) []byte {
	var att []byte
	for _, i := range idx {
		att = append(att, sign(f.keys[i], msg, f.g.r.Chance(1, 3))...)
	}
	return att
}

// mutateAtt applies one named mutation to an honest attestation; returns the name ("" = honest)
func (f *Flow) mutateAtt(msg []byte, honestIdx []int) ([]byte, string) {
	g := f.g
	att := f.attestWith(msg, honestIdx)
	n := len(honestIdx)
	if n == 0 {
		return att, "att-no-signers"
	}
	k := g.r.Intn(30)
	switch k {
	case 0:
		if n >= 2 {
			rev := make([]int, n)
			for i := range honestIdx {
				rev[n-1-i] = honestIdx[i]
			}
			return f.attestWith(msg, rev), "att-reversed"
		}
	case 1:
		if n >= 2 {
			i := g.r.Intn(n - 1)
			sw := append([]int(nil), honestIdx...)
			sw[i], sw[i+1] = sw[i+1], sw[i]
			return f.attestWith(msg, sw), "att-swap-adjacent"
		}
	case 2:
		if n >= 2 {
			du := append([]int(nil), honestIdx...)
			i := 1 + g.r.Intn(n-1)
			du[i] = du[i-1]
			return f.attestWith(msg, du), "att-duplicate-signer"
		}
	case 3:
		if n >= 2 {
			i := 1 + g.r.Intn(n-1)
			out := append([]byte(nil), att...)
			copy(out[65*i:], highS(att[65*(i-1):65*i]))
			return out, "att-high-s-twin-as-second"
		}
	case 4:
		i := g.r.Intn(n)
		out := append([]byte(nil), att...)
		copy(out[65*i:], highS(att[65*i:65*i+65]))
		return out, "att-high-s-in-place"
	case 5:
		return att[:len(att)-1-g.r.Intn(3)], "att-truncated"
	case 6:
		return append(att, g.r.Bytes(1+g.r.Intn(3))...), "att-padded"
	case 7:
		return append(att, att[len(att)-65:]...), "att-extra-signature"
	case 8:
		if n >= 2 {
			return att[:len(att)-65], "att-missing-signature"
		}
	case 9:
		other := append([]byte(nil), msg...)
		if len(other) > 0 {
			other[g.r.Intn(len(other))] ^= 1
		} else {
			other = []byte{1}
		}
		return f.attestWith(other, honestIdx), "att-other-message"
	case 10, 11, 12:
		// one signer replaced by an unknown or disabled key, at first / middle / last position
		pos := []int{0, n / 2, n - 1}[k-10]
		var bad *ecdsa.PrivateKey
		name := "att-unknown-signer"
		for i := range f.keys {
			if !f.enabled[i] && f.keys[i] != nil && g.r.Chance(1, 2) {
				bad = f.keys[i]
				name = "att-disabled-signer"
			}
		}
		if bad == nil {
			bad = g.key()
		}
		// keep address order: build the list of signers, replace, sort by address
		ks := []*ecdsa.PrivateKey{}
		for _, i := range honestIdx {
			ks = append(ks, f.keys[i])
		}
		ks[pos] = bad
		sortKeys(ks)
		var out []byte
		for _, kk := range ks {
			out = append(out, sign(kk, msg, g.r.Chance(1, 3))...)
		}
		return out, fmt.Sprintf("%s-pos%d", name, k-10)
	case 13:
		out := append([]byte(nil), att...)
		i := g.r.Intn(n)
		out[65*i+64] = []byte{2, 3, 29, 255, 26}[g.r.Intn(5)]
		return out, "att-bad-v"
	case 14:
		return g.r.Bytes(len(att)), "att-random"
	case 15:
		return nil, "att-empty"
	case 16:
		out := append([]byte(nil), att...)
		out[g.r.Intn(len(out))] ^= 0x40
		return out, "att-bitflip"
	case 17, 18:
		// the mirror key n-d of an enabled attester (same X coordinate, other Y, another address, not enabled),
		// replacing a signer (17) or added next to it (18)
		i := g.r.Intn(n)
		mk, err := crypto.ToECDSA(pad32(new(big.Int).Sub(secpN, f.keys[honestIdx[i]].D).Bytes()))
		if err == nil {
			ks := []*ecdsa.PrivateKey{}
			for j, ix := range honestIdx {
				if j == i && k == 17 {
					ks = append(ks, mk)
				} else {
					ks = append(ks, f.keys[ix])
				}
			}
			name := "att-mirror-key-replaces-signer"
			if k == 18 && n >= 2 {
				// drop another signer, add the mirror key: still threshold-many signatures
				drop := (i + 1) % n
				ks = append(ks[:drop], ks[drop+1:]...)
				ks = append(ks, mk)
				name = "att-mirror-key-next-to-signer"
			} else if k == 18 {
				ks[0] = mk
			}
			sortKeys(ks)
			var out []byte
			for _, kk := range ks {
				out = append(out, sign(kk, msg, g.r.Chance(1, 3))...)
			}
			return out, name
		}
	}
	return att, ""
}

func sortKeys(ks []*ecdsa.PrivateKey) {
	for i := 1; i < len(ks); i++ {
		for j := i; j > 0 && bytes.Compare(ethAddr(ks[j-1]), ethAddr(ks[j])) > 0; j-- {
			ks[j-1], ks[j] = ks[j], ks[j-1]
		}
	}
}

func (f *Flow) honest() []int {
	idx := f.enabledKeys()
	if int(f.thr) < len(idx) {
		// any thr-subset in address order is honest
		for len(idx) > int(f.thr) {
			i := f.g.r.Intn(len(idx))
			idx = append(idx[:i], idx[i+1:]...)
		}
	}
	return idx
}

// ---------- receives ----------
type rcvOpt struct {
	module bool
	mut    string // forced mutation name, "" = random
}

func (f *Flow) pickPair(usePool bool) (uint32, uint64) {
	g := f.g
	if usePool {
		p := f.pool[g.r.Intn(len(f.pool))]
		return uint32(p[0]), p[1]
	}
	return uint32(g.r.Intn(3)), g.r.Next()
}

func (f *Flow) burnBody(src uint32) []byte {
	g := f.g
	var tok []byte
	for _, p := range f.pairs {
		if p.RemoteDomain == src {
			tok = p.RemoteToken
		}
	}
	if tok == nil && src >= 256 {
		// an alias domain: the token linked for the domain it resembles
		for _, p := range f.pairs {
			if p.RemoteDomain == src&0xffff || p.RemoteDomain == src&0xff || p.RemoteDomain == src&0xffffff {
				tok = p.RemoteToken
			}
		}
	}
	if tok == nil {
		tok = g.r.Bytes(32)
	}
	rcp := pad32(f.accts[g.r.Intn(len(f.accts))])
	if g.r.Chance(1, 3) {
		rcp = g.r.Bytes(32) // non-zero high bytes: only the low 20 name the account
		g.stats.Mut("rcv-recipient-highbytes")
	}
	amt := g.randAmount()
	if amt.Sign() == 0 && g.r.Chance(2, 3) {
		amt = big.NewInt(7)
	}
	return encBurn(0, tok, rcp, amt, g.r.Bytes(32))
}

func (f *Flow) Receive(usePool bool) {
	g := f.g
	from := f.acctStr()
	src, nonce := f.pickPair(usePool)
	if g.r.Chance(1, 6) {
		// a source domain that only resembles a linked one (when the scenario registered such messengers)
		var alias []uint32
		for d := range f.messengers {
			if d >= 256 {
				alias = append(alias, d)
			}
		}
		if len(alias) > 0 {
			sort.Slice(alias, func(i, j int) bool { return alias[i] < alias[j] })
			src = alias[g.r.Intn(len(alias))]
			g.stats.Mut("rcv-alias-domain")
		}
	}
	module := g.r.Chance(2, 3)
	sender := f.messengers[src]
	if sender == nil {
		sender = g.r.Bytes(32)
	}
	recipient := types.PaddedModuleAddress
	body := f.burnBody(src)
	if !module {
		recipient = g.r.Bytes(32)
		body = g.patBytes(g.pickInt([]int{0, 1, 131, 132, 133, 200}))
		sender = g.r.Bytes(32)
		if g.r.Chance(1, 6) {
			// not the module: the low 20 bytes are the module address but the high 12 bytes are not zero
			recipient = append(g.r.Bytes(12), types.ModuleAddress...)
			recipient[g.r.Intn(12)] |= 1
			g.stats.Mut("rcv-recipient-module-low20-only")
			if g.r.Chance(1, 2) {
				body, sender = f.burnBody(src), f.messengers[src]
				if sender == nil {
					sender = g.r.Bytes(32)
				}
			}
		}
	}
	version, dst := uint32(0), uint32(4)
	caller := make([]byte, 32)
	if g.r.Chance(1, 3) {
		addr := mustAcc(from)
		caller = pad32(addr)
		g.stats.Mut("rcv-caller-self")
	}
	mut := ""
	switch g.r.Intn(28) {
	case 0:
		dst = g.pickU32([]uint32{0, 3, 5, 0x04000000})
		mut = "rcv-wrong-destination"
	case 1:
		version = g.pickU32([]uint32{1, 0x01000000, 0xffffffff})
		mut = "rcv-wrong-version"
	case 2:
		caller = pad32(f.accts[(g.r.Intn(len(f.accts)))])
		if bytes.Equal(caller, pad32(mustAcc(from))) {
			caller[31] ^= 1
		}
		mut = "rcv-caller-other"
	case 3:
		caller = pad32(mustAcc(from))
		caller[g.r.Intn(12)] = 1
		mut = "rcv-caller-highbytes-nonzero"
	case 4:
		if module {
			body = body[:g.pickInt([]int{0, 131})]
			mut = "rcv-body-short"
		}
	case 5:
		if module {
			body = append(body, 0)
			mut = "rcv-body-long"
		}
	case 6:
		if module {
			body[3] = 1
			mut = "rcv-burn-version"
		}
	case 7:
		if module {
			body[4+g.r.Intn(32)] ^= 1
			mut = "rcv-token-unlinked"
		}
	case 8:
		if module {
			sender = g.r.Bytes(32)
			mut = "rcv-sender-not-messenger"
		}
	case 9:
		if module {
			src = uint32(3 + g.r.Intn(2))
			mut = "rcv-source-unregistered"
		}
	case 10:
		from = upper(from)
		mut = "rcv-from-uppercase"
	case 11:
		if module {
			sender = types.PaddedModuleAddress
			mut = "rcv-sender-is-module"
		}
	case 12:
		if module {
			sender = pad32(mustAcc(from))
			mut = "rcv-sender-is-submitter"
		}
	}
	msg := encMsg(version, src, dst, nonce, sender, recipient, caller, body)
	switch g.r.Intn(40) {
	case 0:
		msg = msg[:g.pickInt([]int{0, 1, 115})]
		mut += "+rcv-short-message"
	case 1:
		msg = msg[:116]
		mut += "+rcv-empty-body"
	}
	att, amut := f.mutateAtt(msg, f.honest())
	if amut != "" {
		mut += "+" + amut
	}
	if mut == "" {
		mut = "rcv-valid"
	}
	g.stats.Mut(mut)
	plan := ""
	if g.r.Chance(1, 8) {
		plan = g.pick([]string{"f", "s", "p"})
		g.stats.Mut("rcv-mint-plan-" + plan)
	}
	cls := g.tx("ReceiveMessage", from, fmt.Sprintf("message=%x attestation=%x", msg, att), plan)
	if cls == "ok" {
		f.used[[2]uint64{uint64(src), nonce}] = true
	}
	if usePool && g.r.Chance(1, 2) {
		g.q("UsedNonce", fmt.Sprintf("domain=%d nonce=%d", src, nonce))
	}
}

func (g *Gen) pickU32(l []uint32) uint32 { return l[g.r.Intn(len(l))] }

func mustAcc(bech string) []byte {
	_, bz, err := decodeBech32(bech)
	if err != nil {
		return make([]byte, 20)
	}
	return bz
}

// ---------- replacements ----------
func (f *Flow) Replace() {
	g := f.g
	// choose an original: one actually sent, or fabricated
	var orig []byte
	from := f.acctStr()
	deposit := g.r.Chance(1, 2)
	mut := ""
	var cands []sentMsg
	for _, m := range f.sent {
		if m.deposit == deposit {
			cands = append(cands, m)
		}
	}
	if len(cands) > 0 && g.r.Chance(4, 5) {
		m := cands[g.r.Intn(len(cands))]
		orig, from = m.bz, m.from
	} else {
		// fabricated original (attested below by the current attesters: they sign anything here)
		sender := pad32(mustAcc(from))
		body := g.patBytes(g.pickInt([]int{0, 10, 132}))
		if deposit {
			sender = types.PaddedModuleAddress
			body = encBurn(0, crypto.Keccak256([]byte("uusdc")), g.r.Bytes(32), g.randAmount(), pad32(mustAcc(from)))
		}
		orig = encMsg(0, 4, g.randU32(), g.randU64(), sender, g.r.Bytes(32), pad32(g.r.Bytes(20)), body)
		mut = "rep-fabricated"
	}
	orig = append([]byte(nil), orig...)
	if g.r.Chance(1, 5) {
		// the other replacement type on this original (e.g. replace-message on a module-sent burn message)
		deposit = !deposit
		mut += "+rep-cross-kind"
	}
	switch g.r.Intn(16) {
	case 0:
		from = f.acctStr()
		mut += "+rep-other-submitter"
	case 1:
		orig[7] ^= 1 // source domain
		mut += "+rep-foreign-domain"
	case 2:
		if len(orig) >= 116 {
			orig = orig[:g.pickInt([]int{0, 115})]
			mut += "+rep-short-original"
		}
	case 3:
		if deposit && len(orig) >= 248 {
			orig = orig[:247]
			mut += "+rep-short-burn-body"
		}
	case 4:
		if len(orig) > 30 {
			orig[20+g.r.Intn(32)] ^= 1
			mut += "+rep-sender-tampered"
		}
	case 5:
		if deposit && len(orig) >= 248 {
			orig[116+100+g.r.Intn(32)] ^= 1
			mut += "+rep-depositor-tampered"
		}
	}
	att, amut := f.mutateAtt(orig, f.honest())
	if amut != "" {
		mut += "+" + amut
	}
	newCaller := pad32(g.r.Bytes(20))
	switch g.r.Intn(8) {
	case 0:
		newCaller = make([]byte, 32)
		mut += "+rep-caller-zero"
	case 1:
		newCaller = newCaller[:g.pickInt([]int{0, 31})]
		mut += "+rep-caller-short"
	case 2:
		newCaller = append(newCaller, 1)
		mut += "+rep-caller-long"
	case 3:
		newCaller = g.sparse32()
		mut += "+rep-caller-one-byte"
	}
	if mut == "" {
		mut = "rep-valid"
	}
	if deposit {
		newRcp := g.r.Bytes(32)
		switch g.r.Intn(8) {
		case 3:
			newRcp = g.sparse32()
			mut += "+rep-recipient-one-byte"
		case 0:
			newRcp = make([]byte, 32)
			mut += "+rep-recipient-zero"
		case 1:
			newRcp = newRcp[:g.pickInt([]int{0, 31})]
			mut += "+rep-recipient-short"
		case 2:
			newRcp = append(newRcp, 1)
			mut += "+rep-recipient-long"
		case 4:
			if len(orig) >= 116+68 {
				newRcp = append([]byte(nil), orig[116+36:116+68]...) // the recipient the original already names: only the caller changes
				mut += "+rep-recipient-same"
			}
		case 5:
			if len(orig) >= 116 {
				newCaller = append([]byte(nil), orig[84:116]...) // ... or nothing changes at all
				if len(orig) >= 116+68 {
					newRcp = append([]byte(nil), orig[116+36:116+68]...)
				}
				mut += "+rep-nothing-changes"
			}
		}
		g.stats.Mut("D:" + mut)
		g.tx("ReplaceDepositForBurn", from, fmt.Sprintf("orig=%x att=%x new_caller=%x new_recipient=%x", orig, att, newCaller, newRcp), "")
	} else {
		body := g.patBytes(g.pickInt([]int{0, 5, 132, 300, 301}))
		g.stats.Mut("M:" + mut)
		g.tx("ReplaceMessage", from, fmt.Sprintf("orig=%x att=%x new_body=%x new_caller=%x", orig, att, body, newCaller), "")
	}
}

// ---------- administrative interleaving (keeps the scenario mirror in step) ----------
func (f *Flow) Admin() {
	g := f.g
	// do not stay paused for long: most flows need both flags off
	if f.bm && g.r.Chance(1, 2) {
		if g.tx("UnpauseBurningAndMinting", f.pauser, "", "") == "ok" {
			f.bm = false
		}
		return
	}
	if f.sr && g.r.Chance(1, 2) {
		if g.tx("UnpauseSendingAndReceivingMessages", f.pauser, "", "") == "ok" {
			f.sr = false
		}
		return
	}
	switch g.r.Intn(12) {
	case 0:
		if g.tx("PauseBurningAndMinting", f.pauser, "", "") == "ok" {
			f.bm = true
		}
	case 1:
		if g.tx("UnpauseBurningAndMinting", f.pauser, "", "") == "ok" {
			f.bm = false
		}
	case 2:
		if g.tx("PauseSendingAndReceivingMessages", f.pauser, "", "") == "ok" {
			f.sr = true
		}
	case 3:
		if g.tx("UnpauseSendingAndReceivingMessages", f.pauser, "", "") == "ok" {
			f.sr = false
		}
	case 4: // rotate: enable a new key
		k := g.key()
		sp := g.spell(pubBytes(k))
		if g.tx("EnableAttester", f.attmgr, fmt.Sprintf("attester=%x", sp), "") == "ok" {
			f.keys, f.spelling, f.enabled = append(f.keys, k), append(f.spelling, sp), append(f.enabled, true)
		}
	case 5: // disable one
		idx := f.enabledKeys()
		if len(idx) > 0 {
			i := idx[g.r.Intn(len(idx))]
			if g.tx("DisableAttester", f.attmgr, fmt.Sprintf("attester=%x", f.spelling[i]), "") == "ok" {
				f.enabled[i] = false
			}
		}
	case 6:
		t := uint32(1 + g.r.Intn(len(f.enabledKeys())+1))
		if g.tx("UpdateSignatureThreshold", f.attmgr, fmt.Sprintf("amount=%d", t), "") == "ok" {
			f.thr = t
		}
	case 7: // unlink / relink a pair
		if len(f.pairs) > 0 {
			i := g.r.Intn(len(f.pairs))
			p := f.pairs[i]
			if g.r.Chance(1, 2) {
				if g.tx("UnlinkTokenPair", f.tokctl, fmt.Sprintf("domain=%d token=%x local=%x", p.RemoteDomain, p.RemoteToken, p.LocalToken), "") == "ok" {
					f.pairs = append(f.pairs[:i], f.pairs[i+1:]...)
				}
			} else {
				np := types.TokenPair{RemoteDomain: uint32(g.r.Intn(3)), RemoteToken: g.r.Bytes(32), LocalToken: g.pick([]string{"uusdc", "UUSDC", "uUsdc"})}
				if g.tx("LinkTokenPair", f.tokctl, fmt.Sprintf("domain=%d token=%x local=%x", np.RemoteDomain, np.RemoteToken, np.LocalToken), "") == "ok" {
					f.pairs = append(f.pairs, np)
				}
			}
		}
	case 8:
		amt := g.pick([]string{"0", "1", "500", "1000000", "-1", two256m1.String()})
		den := g.pick([]string{"uusdc", "UUSDC", "uUsdc", "other"})
		if g.tx("SetMaxBurnAmountPerMessage", f.tokctl, fmt.Sprintf("local=%x amount=%s", den, amt), "") == "ok" {
			z, _ := new(big.Int).SetString(amt, 10)
			f.limits = append(f.limits, types.PerMessageBurnLimit{Denom: strings.ToLower(den), Amount: mathInt(z)})
		}
	case 9:
		sz := g.pickInt([]int{0, 131, 132, 133, 300, 8000})
		if g.tx("UpdateMaxMessageBodySize", f.owner, fmt.Sprintf("size=%d", sz), "") == "ok" {
			f.maxBody = int64(sz)
		}
	case 10:
		d := uint32(g.r.Intn(4))
		if _, ok := f.messengers[d]; ok {
			if g.tx("RemoveRemoteTokenMessenger", f.owner, fmt.Sprintf("domain=%d", d), "") == "ok" {
				delete(f.messengers, d)
			}
		} else {
			a := pad32(g.r.Bytes(8))
			if g.tx("AddRemoteTokenMessenger", f.owner, fmt.Sprintf("domain=%d address=%x", d, a), "") == "ok" {
				f.messengers[d] = a
			}
		}
	default:
		g.q("NextAvailableNonce", "")
	}
}

func genFlows(g *Gen, n int, mix flowMix) {
	if mix.deposit+mix.send+mix.receive+mix.replace+mix.admin == 0 {
		mix = flowMix{deposit: 3, send: 2, receive: 4, replace: 3, admin: 2, pool: true}
	}
	total := mix.deposit + mix.send + mix.receive + mix.replace + mix.admin
	for sc := 0; sc < n; sc++ {
		g.line("BEGIN id=%d", sc)
		f := flowScn(g, mix)
		f.Init()
		g.stats.Scripts++
		steps := 20 + g.r.Intn(30)
		for i := 0; i < steps; i++ {
			k := g.r.Intn(total)
			switch {
			case k < mix.deposit:
				f.Deposit()
			case k < mix.deposit+mix.send:
				f.Send()
			case k < mix.deposit+mix.send+mix.receive:
				f.Receive(mix.pool && g.r.Chance(3, 4))
			case k < mix.deposit+mix.send+mix.receive+mix.replace:
				f.Replace()
			default:
				f.Admin()
			}
			if g.r.Chance(1, 6) {
				g.q("NextAvailableNonce", "")
			}
		}
		if mix.pool {
			for _, p := range f.pool {
				g.q("UsedNonce", fmt.Sprintf("domain=%d nonce=%d", p[0], p[1]))
			}
			g.line("EXPORT %d", g.n())
		}
	}
}

// ---------- attest (C01): the verifier itself, and through receive / replace ----------
func genAttest(g *Gen, n int) {
	for sc := 0; sc*20 < n; sc++ {
		g.line("BEGIN id=%d", sc)
		f := flowScn(g, flowMix{})
		// attester sets of 1..6 keys
		for len(f.keys) < 1+g.r.Intn(6) {
			k := g.key()
			f.keys, f.spelling, f.enabled = append(f.keys, k), append(f.spelling, g.spell(pubBytes(k))), append(f.enabled, true)
		}
		f.thr = uint32(1 + g.r.Intn(len(f.keys)))
		// a disabled key that still exists
		dk := g.key()
		f.keys, f.spelling, f.enabled = append(f.keys, dk), append(f.spelling, g.spell(pubBytes(dk))), append(f.enabled, false)
		f.Init()
		g.stats.Scripts++
		for i := 0; i < 20; i++ {
			msg := g.patBytes(g.randLen([]int{0, 1, 116, 248}, 400))
			att, mut := f.mutateAtt(msg, f.honest())
			if mut == "" {
				mut = "att-honest"
			}
			g.stats.Mut(mut)
			thr := f.thr
			switch g.r.Intn(12) {
			case 0:
				thr = f.thr + 1
				g.stats.Mut("thr-plus-one")
			case 1:
				if f.thr > 1 {
					thr = f.thr - 1
					g.stats.Mut("thr-minus-one")
				}
			case 2:
				thr = 0
				g.stats.Mut("thr-zero")
			}
			var ats []string
			for j, sp := range f.spelling {
				if f.enabled[j] {
					ats = append(ats, hex.EncodeToString([]byte(sp)))
				}
			}
			g.line("VERIFY %d msg=%x att=%x thr=%d attesters=%s", g.n(), msg, att, thr, strings.Join(ats, ","))
			if g.r.Chance(1, 3) {
				f.Receive(false)
			}
			if g.r.Chance(1, 6) {
				f.Replace()
			}
		}
	}
}

func dedupNonces(l []types.Nonce) []types.Nonce {
	seen := map[types.Nonce]bool{}
	var out []types.Nonce
	for _, n := range l {
		if !seen[n] {
			seen[n] = true
			out = append(out, n)
		}
	}
	return out
}
