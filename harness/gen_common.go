package main

import (
	"bytes"
	"crypto/ecdsa"
	"encoding/binary"
	"fmt"
	"math/big"
	"sort"
	"strings"

	"cosmossdk.io/math"
	sdk "github.com/cosmos/cosmos-sdk/types"
	"github.com/ethereum/go-ethereum/crypto"

	"github.com/circlefin/noble-cctp/x/cctp/types"
)

// Scn is a chain set-up shared by the profiles: accounts, real secp256k1 attester keys, registries.
type Scn struct {
	g        *Gen
	accts    []sdk.AccAddress
	owner    string
	attmgr   string
	pauser   string
	tokctl   string
	keys     []*ecdsa.PrivateKey
	spelling []string // enabled spelling of each key's uncompressed public key
	enabled  []bool
	thr      uint32
	bm, sr   bool
	maxBody  int64 // -1 = absent in genesis
	nextNonce int64 // -1 = absent
	messengers map[uint32][]byte
	pairs    []types.TokenPair
	limits   []types.PerMessageBurnLimit
	nonces   []types.Nonce
	bals     map[string]*big.Int // bech32 -> uusdc balance
	fillers  []string            // further enabled attester strings that nobody signs with
}

func (g *Gen) acct() sdk.AccAddress { return sdk.AccAddress(g.r.Bytes(20)) }

func (g *Gen) key() *ecdsa.PrivateKey {
	for {
		k, err := crypto.ToECDSA(g.r.Bytes(32))
		if err == nil {
			return k
		}
	}
}

func pubBytes(k *ecdsa.PrivateKey) []byte { return crypto.FromECDSAPub(&k.PublicKey) }
func ethAddr(k *ecdsa.PrivateKey) []byte  { return crypto.PubkeyToAddress(k.PublicKey).Bytes() }

// spellings of a public key that common.FromHex decodes to the key
func (g *Gen) spell(pk []byte) string {
	h := fmt.Sprintf("%x", pk)
	switch g.r.Intn(5) {
	case 0:
		return "0x" + h
	case 1:
		return h
	case 2:
		return "0X" + strings.ToUpper(h)
	case 3:
		return "0x" + strings.ToUpper(h[:10]) + h[10:]
	}
	return "0x" + h
}

func NewScn(g *Gen, nAccts, nKeys int) *Scn {
	s := &Scn{g: g, thr: 1, maxBody: 8000, nextNonce: 0, messengers: map[uint32][]byte{}, bals: map[string]*big.Int{}}
	for i := 0; i < nAccts; i++ {
		s.accts = append(s.accts, g.acct())
	}
	s.owner, s.attmgr, s.pauser, s.tokctl = s.accts[0].String(), s.accts[1%nAccts].String(), s.accts[2%nAccts].String(), s.accts[3%nAccts].String()
	for i := 0; i < nKeys; i++ {
		k := g.key()
		s.keys = append(s.keys, k)
		s.spelling = append(s.spelling, g.spell(pubBytes(k)))
		s.enabled = append(s.enabled, true)
	}
	return s
}

func (s *Scn) A(i int) string { return s.accts[i%len(s.accts)].String() }

// Init emits the genesis block and initialises a fresh instance (step id n).
func (s *Scn) Init() {
	g := s.g
	for _, a := range s.accts {
		g.line("ACCT str=%x addr=%x", a.String(), []byte(a))
	}
	g.line("G-BEGIN")
	g.line("G role name=owner v=%x", s.owner)
	g.line("G role name=attmgr v=%x", s.attmgr)
	g.line("G role name=pauser v=%x", s.pauser)
	g.line("G role name=tokctl v=%x", s.tokctl)
	g.line("G flag name=bm v=%s", b01(s.bm))
	g.line("G flag name=sr v=%s", b01(s.sr))
	if s.maxBody >= 0 {
		g.line("G num name=maxbody v=%d", s.maxBody)
	}
	if s.nextNonce >= 0 {
		g.line("G num name=nextnonce v=%d", uint64(s.nextNonce))
	} else if s.nextNonce == -2 {
		g.line("G num name=nextnonce v=18446744073709551614")
	}
	g.line("G num name=threshold v=%d", s.thr)
	for i, sp := range s.spelling {
		if s.enabled[i] {
			g.line("G attester v=%x", sp)
		}
	}
	for _, sp := range s.fillers {
		g.line("G attester v=%x", sp)
	}
	doms := []int{}
	for d := range s.messengers {
		doms = append(doms, int(d))
	}
	sort.Ints(doms)
	for _, d := range doms {
		g.line("G messenger domain=%d addr=%x", d, s.messengers[uint32(d)])
	}
	for _, p := range s.pairs {
		g.line("G pair domain=%d token=%x local=%x", p.RemoteDomain, p.RemoteToken, p.LocalToken)
	}
	for _, l := range s.limits {
		g.line("G limit denom=%x amt=%s", l.Denom, intStr(l.Amount))
	}
	for _, n := range s.nonces {
		g.line("G nonce domain=%d nonce=%d", n.SourceDomain, n.Nonce)
	}
	g.line("G-END %d", g.n())
	names := []string{}
	for a := range s.bals {
		names = append(names, a)
	}
	sort.Strings(names)
	for _, a := range names {
		addr, _ := sdk.AccAddressFromBech32(a)
		g.line("BAL addr=%x denom=%x amt=%s", []byte(addr), g.x.denom, s.bals[a].String())
	}
}

// enabledKeys returns the indices of enabled keys sorted by Ethereum address.
func (s *Scn) enabledKeys() []int {
	var idx []int
	for i := range s.keys {
		if s.enabled[i] {
			idx = append(idx, i)
		}
	}
	sort.Slice(idx, func(a, b int) bool { return bytes.Compare(ethAddr(s.keys[idx[a]]), ethAddr(s.keys[idx[b]])) < 0 })
	return idx
}

func sign(k *ecdsa.PrivateKey, msg []byte, legacyV bool) []byte {
	sig, err := crypto.Sign(crypto.Keccak256(msg), k)
	if err != nil {
		panic(err)
	}
	if legacyV {
		sig[64] += 27
	}
	return sig
}

// Attest builds the honest attestation of msg by the first thr enabled keys in address order.
func (s *Scn) Attest(msg []byte) []byte {
	idx := s.enabledKeys()
	var att []byte
	for i := 0; i < int(s.thr) && i < len(idx); i++ {
		att = append(att, sign(s.keys[idx[i]], msg, s.g.r.Chance(1, 3))...)
	}
	return att
}

func pad32(b []byte) []byte {
	r := make([]byte, 32)
	if len(b) > 32 {
		b = b[len(b)-32:]
	}
	copy(r[32-len(b):], b)
	return r
}

// sparse32 is a 32-byte value that is non-zero in exactly one byte, in the high 12 bytes, at the 12/20 boundary or at the end:
// non-zero as a 32-byte value although its low 20 (or high 12) bytes are all zero.
func (g *Gen) sparse32() []byte {
	b := make([]byte, 32)
	b[g.pickInt([]int{0, 5, 11, 11, 12, 31})] = byte(1 + g.r.Intn(255))
	return b
}

func encMsg(version, src, dst uint32, nonce uint64, sender, recipient, caller, body []byte) []byte {
	b := make([]byte, 20)
	binary.BigEndian.PutUint32(b[0:], version)
	binary.BigEndian.PutUint32(b[4:], src)
	binary.BigEndian.PutUint32(b[8:], dst)
	binary.BigEndian.PutUint64(b[12:], nonce)
	b = append(b, sender...)
	b = append(b, recipient...)
	b = append(b, caller...)
	return append(b, body...)
}

func encBurn(version uint32, token, recipient []byte, amount *big.Int, sender []byte) []byte {
	b := make([]byte, 4)
	binary.BigEndian.PutUint32(b, version)
	b = append(b, token...)
	b = append(b, recipient...)
	b = append(b, pad32(amount.Bytes())...)
	return append(b, sender...)
}

func (g *Gen) pick(l []string) string { return l[g.r.Intn(len(l))] }

func upper(s string) string { return strings.ToUpper(s) }

// the neighbourhood of a valid address string: what a lenient or normalising validation would let through
// (surrounding white space, a trailing NUL, a 0x or bech32-looking decoration, the string twice, mixed case,
// the last character dropped or changed)
func nearAddrs(a string) []string {
	out := []string{" " + a, a + " ", "\t" + a, a + "\n", " " + a + " ", a + "\x00", "0x" + a, a + a, a + "," + a, "\u00a0" + a, a + "\u3000"}
	if len(a) > 8 {
		out = append(out, a[:len(a)-1], a[:len(a)-1]+"q", a[:len(a)-1]+"p", strings.ToUpper(a[:8])+a[8:], a[:7]+strings.ToUpper(a[7:]))
	}
	return out
}

// tx helpers ------------------------------------------------------------
func (g *Gen) tx(ty string, from string, rest string, plan string) string {
	body := fmt.Sprintf("%s from=%x", ty, from)
	if rest != "" {
		body += " " + rest
	}
	if plan != "" {
		body += " plan=" + plan
	}
	// Now and then a message is first executed on a branch that is dropped whatever the outcome (what a wallet's
	// simulation, CheckTx, or a transaction whose later message fails does): either this very message or one seen
	// earlier in the history (which may have become stale: a former role holder, a consumed nonce).
	if g.r.Chance(1, 7) {
		b := body
		if len(g.recent) > 0 && g.r.Chance(1, 2) {
			b = g.recent[g.r.Intn(len(g.recent))]
		}
		g.stats.Mut("dropped-execution")
		g.x.Line(fmt.Sprintf("SIM %d %s", g.n(), b))
		// ... possibly followed by further messages on the same dropped branch
		for k := 0; k < 2 && len(g.recent) > 0 && g.r.Chance(1, 2); k++ {
			b2 := body
			if g.r.Chance(2, 3) {
				b2 = g.recent[g.r.Intn(len(g.recent))]
			}
			g.stats.Mut("dropped-execution-chained")
			g.x.Line(fmt.Sprintf("SIM %d %s chain=1", g.n(), b2))
		}
	}
	if len(g.recent) < 24 {
		g.recent = append(g.recent, body)
	} else {
		g.recent[g.r.Intn(len(g.recent))] = body
	}
	g.x.Line(fmt.Sprintf("TX %d %s", g.n(), body))
	return g.x.lastClass
}
// sim runs a message on a branch that is dropped whatever the outcome (simulation, CheckTx, or an early message of a
// transaction whose later message fails); the generator's own bookkeeping must not treat it as delivered.
// simChained is a further message on the dropped branch of the SIM step before it (when that one succeeded).
func (g *Gen) simChained(ty string, from string, rest string, plan string) {
	l := fmt.Sprintf("SIM %d %s from=%x chain=1", g.n(), ty, from)
	if rest != "" {
		l += " " + rest
	}
	if plan != "" {
		l += " plan=" + plan
	}
	g.x.Line(l)
}
func (g *Gen) sim(ty string, from string, rest string, plan string) {
	l := fmt.Sprintf("SIM %d %s from=%x", g.n(), ty, from)
	if rest != "" {
		l += " " + rest
	}
	if plan != "" {
		l += " plan=" + plan
	}
	g.x.Line(l)
}
func (g *Gen) q(ty string, rest string) {
	l := fmt.Sprintf("Q %d %s", g.n(), ty)
	if rest != "" {
		l += " " + rest
	}
	g.x.Line(l)
}
func pageArgs(key []byte, offset, limit uint64, countTotal, reverse bool) string {
	return fmt.Sprintf("key=%x offset=%d limit=%d count_total=%s reverse=%s", key, offset, limit, b01(countTotal), b01(reverse))
}

func bigInt(n int64) *big.Int { return big.NewInt(n) }

func mathInt(z *big.Int) math.Int { return math.NewIntFromBigInt(z) }

func decodeBech32(s string) (string, []byte, error) {
	a, err := sdk.AccAddressFromBech32(s)
	return "", []byte(a), err
}
