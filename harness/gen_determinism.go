package main

// determinism (C18): every script is executed once (its trace goes to the model as usual) and then
// replayed (a) on a fresh instance, (b) on a fresh instance after an unrelated history executed in the
// same process, (c) concurrently on several goroutines next to goroutines executing other histories.
// Responses, events, dependency requests, typed state and the store root hash of every step must be
// identical in all replays.

import (
	"bufio"
	"bytes"
	"fmt"
	"strings"
	"sync"
)

func init() { profiles["determinism"] = genDeterminism }

func splitTrace(b []byte) (inputs []string, obs []string) {
	for _, l := range strings.Split(string(b), "\n") {
		if l == "" {
			continue
		}
		switch {
		case strings.HasPrefix(l, "I "):
			obs = append(obs, l)
		case strings.HasPrefix(l, "ORACLE"), l == "SYNC", strings.HasPrefix(l, "ENV"):
		default:
			inputs = append(inputs, l)
		}
	}
	return
}

func replayObs(inputs []string) []string { return replayObsCtx(inputs, false) }

// replayObsCtx replays a script; with cancelled set, the Go context carried by every sdk.Context is already cancelled (the
// liveness of that context is a fact about the process, not about the chain)
func replayObsCtx(inputs []string, cancelled bool) []string {
	var buf bytes.Buffer
	bw := bufio.NewWriter(&buf)
	x := NewExec(bw, nil)
	x.cancelled = cancelled
	for _, l := range inputs {
		x.Line(l)
	}
	bw.Flush()
	_, obs := splitTrace(buf.Bytes())
	return obs
}

func firstDiff(a, b []string) string {
	for i := 0; i < len(a) && i < len(b); i++ {
		if a[i] != b[i] {
			return fmt.Sprintf("line %d: %.120s | %.120s", i, a[i], b[i])
		}
	}
	if len(a) != len(b) {
		return fmt.Sprintf("lengths %d / %d", len(a), len(b))
	}
	return ""
}

// one generated script, captured
func captureScript(g *Gen, id int, steps int) []byte {
	var buf bytes.Buffer
	bw := bufio.NewWriter(&buf)
	saved := g.x
	g.x = NewExec(bw, g.stats)
	g.line("BEGIN id=%d", id)
	f := flowScn(g, flowMix{oddAccount: true})
	f.Init()
	for i := 0; i < steps; i++ {
		switch g.r.Intn(7) {
		case 0, 1:
			f.Deposit()
		case 2:
			f.Send()
		case 3, 4:
			f.Receive(true)
		case 5:
			f.Replace()
		default:
			f.Admin()
		}
		if g.r.Chance(1, 6) {
			g.q("UsedNonces", pageArgs(nil, 0, 0, false, false))
			g.q("Attesters", pageArgs(nil, 0, 3, true, false))
		}
	}
	g.line("EXPORT %d", g.n())
	// a second chain in the same process and the same script: same configuration but a different attester
	// set; every attested transaction of the first chain is submitted again, byte for byte.  Nothing the first
	// chain did may influence the answers (e.g. a process-wide cache of verified attestations would).
	bw.Flush()
	firstInputs, _ := splitTrace(buf.Bytes())
	for i := range f.keys {
		k := g.key()
		f.keys[i], f.spelling[i] = k, g.spell(pubBytes(k))
	}
	f.Init()
	g.stats.Mut("second-chain-other-attesters")
	for _, l := range firstInputs {
		ws := strings.SplitN(l, " ", 3)
		if len(ws) == 3 && ws[0] == "TX" && (strings.HasPrefix(ws[2], "ReceiveMessage ") || strings.HasPrefix(ws[2], "ReplaceMessage ") || strings.HasPrefix(ws[2], "ReplaceDepositForBurn ")) {
			g.line("TX %d %s", g.n(), ws[2])
		}
	}
	g.x = saved
	bw.Flush()
	return buf.Bytes()
}

func genDeterminism(g *Gen, n int) {
	for sc := 0; sc < n; sc++ {
		g.stats.Scripts++
		main := captureScript(g, sc, 15+g.r.Intn(15))
		g.x.out.Write(main)
		inputs, obs := splitTrace(main)
		// an unrelated history, generated from a forked PRNG so that the main sequence is unchanged
		og := &Gen{x: g.x, r: &Rng{s: g.r.Next()}, stats: NewStats(), step: 1 << 20}
		other := captureScript(og, 1<<20+sc, 12)
		otherInputs, _ := splitTrace(other)

		report := func(mode string, got []string) {
			n := g.n()
			g.x.emit("DETCHECK %d mode=%s", n, mode)
			if d := firstDiff(obs, got); d == "" {
				g.x.emit("I DET %d same", n)
			} else {
				g.x.emit("I DET %d diff %s", n, d)
			}
			g.stats.Mut("replay-" + mode)
		}
		// (a) fresh instance
		report("fresh", replayObs(inputs))
		// (a') fresh instance whose sdk.Context carries a cancelled Go context
		report("cancelled-go-context", replayObsCtx(inputs, true))
		// (b) same process, after an unrelated history
		replayObs(otherInputs)
		report("after-unrelated", replayObs(inputs))
		// (c) concurrently with other instances on other goroutines
		var wg sync.WaitGroup
		results := make([][]string, 4)
		for i := 0; i < 8; i++ {
			wg.Add(1)
			go func(i int) {
				defer wg.Done()
				if i%2 == 0 {
					results[i/2] = replayObs(inputs)
				} else {
					replayObs(otherInputs)
				}
			}(i)
		}
		wg.Wait()
		for i := range results {
			report(fmt.Sprintf("concurrent-%d", i), results[i])
		}
	}
}
