package main

// The real keeper on a real rootmulti+IAVL+MemDB store, with a reference ledger standing for
// x/bank and x/fiattokenfactory whose balances live in a second store of the same multistore,
// a tracing KVStoreService, and baseapp's message-branch rule (CacheContext, fresh event manager,
// recover, write only on success, commit after every transaction).

import (
	"bufio"
	"bytes"
	"context"
	"encoding/hex"
	"fmt"
	"math/big"
	"sort"
	"strings"

	corestore "cosmossdk.io/core/store"
	"cosmossdk.io/log"
	"cosmossdk.io/math"
	"cosmossdk.io/store"
	"cosmossdk.io/store/metrics"
	storetypes "cosmossdk.io/store/types"
	abci "github.com/cometbft/cometbft/abci/types"
	cmtproto "github.com/cometbft/cometbft/proto/tendermint/types"
	db "github.com/cosmos/cosmos-db"
	"github.com/cosmos/cosmos-sdk/codec"
	codectypes "github.com/cosmos/cosmos-sdk/codec/types"
	"github.com/cosmos/cosmos-sdk/runtime"
	sdk "github.com/cosmos/cosmos-sdk/types"
	"github.com/cosmos/gogoproto/proto"

	"github.com/circlefin/noble-cctp/x/cctp/keeper"
	"github.com/circlefin/noble-cctp/x/cctp/types"
	ftf "github.com/circlefin/noble-fiattokenfactory/x/fiattokenfactory/types"
)

type depRec struct{ line string }

type World struct {
	ms        storetypes.CommitMultiStore
	key       *storetypes.KVStoreKey
	lkey      *storetypes.KVStoreKey
	cdc       codec.BinaryCodec
	k         *keeper.Keeper
	srv       types.MsgServer
	denom     string
	out       *bufio.Writer
	plan      string
	callIdx   int
	calls     []string
	writes    []string // raw keys written (Set/Delete) by the current call, hex
	tracing   bool
	lastHash  []byte
	quiet     bool // suppress output (used by replays for C18)
	hashes    []string
	responses []string
	simCtx    sdk.Context // the dropped branch shared by chained SIM steps
	simActive bool
	cancelled bool // the Go context under every sdk.Context is cancelled
}

// ---------- tracing store service ----------
type traceService struct {
	inner corestore.KVStoreService
	w     *World
}
type traceStore struct {
	corestore.KVStore
	w *World
}

func (t traceService) OpenKVStore(ctx context.Context) corestore.KVStore {
	return traceStore{t.inner.OpenKVStore(ctx), t.w}
}
func (t traceStore) Set(key, value []byte) error {
	if t.w.tracing {
		t.w.writes = append(t.w.writes, classifyKey(key))
	}
	return t.KVStore.Set(key, value)
}
func (t traceStore) Delete(key []byte) error {
	if t.w.tracing {
		t.w.writes = append(t.w.writes, classifyKey(key))
	}
	return t.KVStore.Delete(key)
}

// ---------- reference ledger ----------
type bank struct{ w *World }
type fiat struct{ w *World }

func balKey(addr []byte, denom string) []byte {
	return []byte(hex.EncodeToString(addr) + "/" + denom)
}
func (w *World) getBal(ctx context.Context, addr []byte, denom string) *big.Int {
	st := sdk.UnwrapSDKContext(ctx).KVStore(w.lkey)
	bz := st.Get(balKey(addr, denom))
	z := new(big.Int)
	if bz != nil {
		z.SetString(string(bz), 10)
	}
	return z
}
func (w *World) addBal(ctx context.Context, addr []byte, denom string, d *big.Int) {
	st := sdk.UnwrapSDKContext(ctx).KVStore(w.lkey)
	z := w.getBal(ctx, addr, denom)
	z.Add(z, d)
	st.Set(balKey(addr, denom), []byte(z.String()))
}
func (w *World) directive() byte {
	i := w.callIdx
	w.callIdx++
	if i < len(w.plan) {
		return w.plan[i]
	}
	return 'd'
}
// depPanic is what a dependency raises under directive 'p' (a dependency running out of gas, or panicking on its own state):
// baseapp recovers it, the transaction fails and its branch is dropped - at transaction level the same as an error
type depPanic struct{}

func decide(d byte, rule bool) bool {
	switch d {
	case 'f', 'p':
		return false
	case 's':
		return true
	}
	return rule
}

func (b bank) GetBalance(ctx context.Context, addr sdk.AccAddress, denom string) sdk.Coin {
	return sdk.Coin{Denom: denom, Amount: math.NewIntFromBigInt(b.w.getBal(ctx, addr, denom))}
}
func (b bank) SendCoinsFromAccountToModule(ctx context.Context, senderAddr sdk.AccAddress, recipientModule string, amt sdk.Coins) error {
	w := b.w
	denom, a := "", new(big.Int)
	if len(amt) == 1 {
		denom, a = amt[0].Denom, amt[0].Amount.BigInt()
	} else {
		ds := []string{}
		for _, c := range amt {
			ds = append(ds, c.Denom)
			a.Add(a, c.Amount.BigInt())
		}
		denom = "#" + strings.Join(ds, ",")
	}
	rule := len(amt) == 1 && a.Sign() > 0 && a.Cmp(w.getBal(ctx, senderAddr, denom)) <= 0
	d := w.directive()
	ok := decide(d, rule)
	w.calls = append(w.calls, fmt.Sprintf("Transfer from=%x to=%x denom=%x amt=%s ok=%s", []byte(senderAddr), recipientModule, denom, a.String(), b01(ok)))
	if d == 'p' {
		panic(depPanic{})
	}
	if !ok {
		return fmt.Errorf("ledger: transfer refused")
	}
	w.addBal(ctx, senderAddr, denom, new(big.Int).Neg(a))
	w.addBal(ctx, types.ModuleAddress, denom, a)
	return nil
}
func (f fiat) GetMintingDenom(ctx context.Context) ftf.MintingDenom {
	return ftf.MintingDenom{Denom: f.w.denom}
}
func (f fiat) Burn(ctx sdk.Context, msg *ftf.MsgBurn) (*ftf.MsgBurnResponse, error) {
	w := f.w
	a := new(big.Int)
	if !msg.Amount.Amount.IsNil() {
		a = msg.Amount.Amount.BigInt()
	}
	addr, aerr := sdk.AccAddressFromBech32(msg.From)
	rule := msg.Amount.Denom == w.denom && a.Sign() > 0 && aerr == nil && a.Cmp(w.getBal(ctx, addr, msg.Amount.Denom)) <= 0
	d := w.directive()
	ok := decide(d, rule)
	w.calls = append(w.calls, fmt.Sprintf("Burn from=%x denom=%x amt=%s ok=%s", msg.From, msg.Amount.Denom, a.String(), b01(ok)))
	if d == 'p' {
		panic(depPanic{})
	}
	if !ok {
		return nil, fmt.Errorf("ledger: burn refused")
	}
	if aerr == nil {
		w.addBal(ctx, addr, msg.Amount.Denom, new(big.Int).Neg(a))
	}
	return &ftf.MsgBurnResponse{}, nil
}
func (f fiat) Mint(ctx sdk.Context, msg *ftf.MsgMint) (*ftf.MsgMintResponse, error) {
	w := f.w
	a := new(big.Int)
	if !msg.Amount.Amount.IsNil() {
		a = msg.Amount.Amount.BigInt()
	}
	addr, aerr := sdk.AccAddressFromBech32(msg.Address)
	rule := msg.Amount.Denom == w.denom && a.Sign() >= 0 && aerr == nil
	d := w.directive()
	ok := decide(d, rule)
	w.calls = append(w.calls, fmt.Sprintf("Mint from=%x to=%x denom=%x amt=%s ok=%s", msg.From, msg.Address, msg.Amount.Denom, a.String(), b01(ok)))
	if d == 'p' {
		panic(depPanic{})
	}
	if !ok {
		return nil, fmt.Errorf("ledger: mint refused")
	}
	if aerr == nil {
		w.addBal(ctx, addr, msg.Amount.Denom, a)
	}
	return &ftf.MsgMintResponse{}, nil
}

func b01(b bool) string {
	if b {
		return "1"
	}
	return "0"
}

// ---------- construction ----------
func NewWorld(out *bufio.Writer, denom string) *World {
	w := &World{out: out, denom: denom}
	logger := log.NewNopLogger()
	w.key = storetypes.NewKVStoreKey(types.StoreKey)
	w.lkey = storetypes.NewKVStoreKey("verifledger")
	w.ms = store.NewCommitMultiStore(db.NewMemDB(), logger, metrics.NewNoOpMetrics())
	w.ms.MountStoreWithDB(w.key, storetypes.StoreTypeIAVL, nil)
	w.ms.MountStoreWithDB(w.lkey, storetypes.StoreTypeIAVL, nil)
	if err := w.ms.LoadLatestVersion(); err != nil {
		panic(err)
	}
	w.cdc = codec.NewProtoCodec(codectypes.NewInterfaceRegistry())
	w.k = keeper.NewKeeper(w.cdc, logger, traceService{runtime.NewKVStoreService(w.key), w}, bank{w}, fiat{w})
	w.srv = keeper.NewMsgServerImpl(w.k)
	return w
}

func (w *World) ctx() sdk.Context {
	c := sdk.NewContext(w.ms, cmtproto.Header{}, false, log.NewNopLogger())
	if w.cancelled {
		gc, cancel := context.WithCancel(context.Background())
		cancel()
		c = c.WithContext(gc)
	}
	return c
}

func (w *World) emit(format string, a ...interface{}) {
	if w.quiet {
		return
	}
	fmt.Fprintf(w.out, format, a...)
	w.out.WriteByte('\n')
}

// SetBalance writes a ledger balance directly (part of a script's set-up).
func (w *World) SetBalance(addr []byte, denom string, amt *big.Int) {
	ctx := w.ctx()
	ctx.KVStore(w.lkey).Set(balKey(addr, denom), []byte(amt.String()))
	w.commit()
}

func (w *World) commit() {
	id := w.ms.Commit()
	w.lastHash = id.Hash
}

// classifyKey maps a raw store key to the canonical name of the entry it addresses
// (the same names the model's documented write sets use).
func classifyKey(k []byte) string {
	ks := string(k)
	scalar := func(p string) string { return p + p }
	switch {
	case ks == string(types.OwnerKey):
		return "owner"
	case ks == string(types.PendingOwnerKey):
		return "pending"
	case ks == string(types.AttesterManagerKey):
		return "attmgr"
	case ks == string(types.PauserKey):
		return "pauser"
	case ks == string(types.TokenControllerKey):
		return "tokctl"
	case ks == scalar(types.BurningAndMintingPausedKey):
		return "bm"
	case ks == scalar(types.SendingAndReceivingMessagesPausedKey):
		return "sr"
	case ks == scalar(types.MaxMessageBodySizeKey):
		return "maxbody"
	case ks == scalar(types.NextAvailableNonceKey):
		return "nextnonce"
	case ks == scalar(types.SignatureThresholdKey):
		return "threshold"
	}
	for _, pc := range []struct{ p, name string }{{types.AttesterKeyPrefix, "attester"}, {types.PerMessageBurnLimitKeyPrefix, "limit"},
		{types.TokenPairKeyPrefix, "pair"}, {types.UsedNonceKeyPrefix, "nonce"}, {types.RemoteTokenMessengerKeyPrefix, "messenger"}} {
		if s, ok := hasPrefix(k, pc.p); ok {
			return fmt.Sprintf("%s k=%x", pc.name, s)
		}
	}
	return fmt.Sprintf("unknown k=%x", k)
}

// ---------- state dump ----------
func hasPrefix(k []byte, p string) ([]byte, bool) {
	if bytes.HasPrefix(k, []byte(p)) {
		return k[len(p):], true
	}
	return nil, false
}

func (w *World) dumpLines() []string {
	ctx := w.ctx()
	var lines []string
	st := ctx.KVStore(w.key)
	it := st.Iterator(nil, nil)
	defer it.Close()
	scalar := func(p string) string { return p + p }
	for ; it.Valid(); it.Next() {
		k, v := it.Key(), it.Value()
		ks := string(k)
		unknown := func() { lines = append(lines, fmt.Sprintf("unknown k=%x v=%x", k, v)) }
		switch {
		case ks == string(types.OwnerKey):
			lines = append(lines, fmt.Sprintf("role name=owner v=%x", v))
		case ks == string(types.PendingOwnerKey):
			lines = append(lines, fmt.Sprintf("role name=pending v=%x", v))
		case ks == string(types.AttesterManagerKey):
			lines = append(lines, fmt.Sprintf("role name=attmgr v=%x", v))
		case ks == string(types.PauserKey):
			lines = append(lines, fmt.Sprintf("role name=pauser v=%x", v))
		case ks == string(types.TokenControllerKey):
			lines = append(lines, fmt.Sprintf("role name=tokctl v=%x", v))
		case ks == scalar(types.BurningAndMintingPausedKey):
			var x types.BurningAndMintingPaused
			if w.cdc.Unmarshal(v, &x) != nil {
				unknown()
			} else {
				lines = append(lines, "flag name=bm v="+b01(x.Paused))
			}
		case ks == scalar(types.SendingAndReceivingMessagesPausedKey):
			var x types.SendingAndReceivingMessagesPaused
			if w.cdc.Unmarshal(v, &x) != nil {
				unknown()
			} else {
				lines = append(lines, "flag name=sr v="+b01(x.Paused))
			}
		case ks == scalar(types.MaxMessageBodySizeKey):
			var x types.MaxMessageBodySize
			if w.cdc.Unmarshal(v, &x) != nil {
				unknown()
			} else {
				lines = append(lines, fmt.Sprintf("num name=maxbody v=%d", x.Amount))
			}
		case ks == scalar(types.NextAvailableNonceKey):
			var x types.Nonce
			if w.cdc.Unmarshal(v, &x) != nil || x.SourceDomain != 0 {
				unknown()
			} else {
				lines = append(lines, fmt.Sprintf("num name=nextnonce v=%d", x.Nonce))
			}
		case ks == scalar(types.SignatureThresholdKey):
			var x types.SignatureThreshold
			if w.cdc.Unmarshal(v, &x) != nil {
				unknown()
			} else {
				lines = append(lines, fmt.Sprintf("num name=threshold v=%d", x.Amount))
			}
		default:
			if s, ok := hasPrefix(k, types.AttesterKeyPrefix); ok {
				var x types.Attester
				if w.cdc.Unmarshal(v, &x) != nil {
					unknown()
				} else {
					lines = append(lines, fmt.Sprintf("attester k=%x v=%x", s, x.Attester))
				}
			} else if s, ok := hasPrefix(k, types.PerMessageBurnLimitKeyPrefix); ok {
				var x types.PerMessageBurnLimit
				if w.cdc.Unmarshal(v, &x) != nil {
					unknown()
				} else {
					lines = append(lines, fmt.Sprintf("limit k=%x denom=%x amt=%s", s, x.Denom, intStr(x.Amount)))
				}
			} else if s, ok := hasPrefix(k, types.TokenPairKeyPrefix); ok {
				var x types.TokenPair
				if w.cdc.Unmarshal(v, &x) != nil {
					unknown()
				} else {
					lines = append(lines, fmt.Sprintf("pair k=%x domain=%d token=%x local=%x", s, x.RemoteDomain, x.RemoteToken, x.LocalToken))
				}
			} else if s, ok := hasPrefix(k, types.UsedNonceKeyPrefix); ok {
				var x types.Nonce
				if w.cdc.Unmarshal(v, &x) != nil {
					unknown()
				} else {
					lines = append(lines, fmt.Sprintf("nonce k=%x domain=%d nonce=%d", s, x.SourceDomain, x.Nonce))
				}
			} else if s, ok := hasPrefix(k, types.RemoteTokenMessengerKeyPrefix); ok {
				var x types.RemoteTokenMessenger
				if w.cdc.Unmarshal(v, &x) != nil {
					unknown()
				} else {
					lines = append(lines, fmt.Sprintf("messenger k=%x domain=%d addr=%x", s, x.DomainId, x.Address))
				}
			} else {
				unknown()
			}
		}
	}
	lit := ctx.KVStore(w.lkey).Iterator(nil, nil)
	defer lit.Close()
	for ; lit.Valid(); lit.Next() {
		lines = append(lines, fmt.Sprintf("bal k=%x amt=%s", lit.Key(), string(lit.Value())))
	}
	return lines
}

func intStr(i math.Int) string {
	if i.IsNil() {
		return "0"
	}
	return i.String()
}

func (w *World) dumpState(n string) {
	for _, l := range w.dumpLines() {
		w.emit("I S %s %s", n, l)
	}
}

// rawDump returns every raw key/value of the module store (used by the genesis round trip).
func (w *World) rawDump() map[string]string {
	m := map[string]string{}
	it := w.ctx().KVStore(w.key).Iterator(nil, nil)
	defer it.Close()
	for ; it.Valid(); it.Next() {
		m[hex.EncodeToString(it.Key())] = hex.EncodeToString(it.Value())
	}
	return m
}

// ---------- running one message under the SDK branch rule ----------
type txResult struct {
	class  string // ok / err / panic
	resp   string
	events []string
	panicv interface{}
	reexec string // set when the handler wrote into its request: "same" or how a second execution of the same value differed
}

// runMsg executes one message the way baseapp does: on a branch of the committed state that is written back only when the
// handler succeeds.  With discard set the branch is dropped whatever the outcome (simulation / CheckTx, or an early
// message of a transaction whose later message fails).
func (w *World) runMsg(plan string, discard bool, chain bool, call func(ctx context.Context) (string, error), mutated func() bool) (res txResult) {
	w.plan, w.callIdx, w.calls, w.writes = plan, 0, nil, nil
	ctx := w.ctx()
	cctx, write := ctx.CacheContext()
	fresh := true
	if discard && chain && w.simActive {
		// the messages of one transaction (or one simulation) share a branch: this one sees what the previous ones wrote
		cctx = w.simCtx
		fresh = false
	}
	if !discard {
		w.simActive = false
	}
	cctx = cctx.WithEventManager(sdk.NewEventManager())
	w.tracing = true
	func() {
		defer func() {
			if r := recover(); r != nil {
				if _, dep := r.(depPanic); dep {
					res.class = "err" // baseapp recovers the panic of a dependency: the transaction fails like any other
					return
				}
				res.class, res.panicv = "panic", r
			}
		}()
		resp, err := call(cctx)
		if err != nil {
			res.class = "err"
			return
		}
		res.class, res.resp = "ok", resp
	}()
	w.tracing = false
	if fresh && mutated != nil && mutated() {
		// The handler wrote into its own request.  Is the request still the same request?  Execute the very same value once
		// more from the very same state (the first branch is not written back yet) and compare what comes out.
		var evs1 []string
		for _, e := range cctx.EventManager().Events() {
			evs1 = append(evs1, formatEvent(e))
		}
		calls1, writes1, idx1 := w.calls, w.writes, w.callIdx
		w.plan, w.callIdx, w.calls, w.writes = plan, 0, nil, nil
		c2, _ := ctx.CacheContext()
		c2 = c2.WithEventManager(sdk.NewEventManager())
		var res2 txResult
		func() {
			defer func() {
				if r := recover(); r != nil {
					res2.class = "panic"
					if _, dep := r.(depPanic); dep {
						res2.class = "err"
					}
				}
			}()
			resp, err := call(c2)
			if err != nil {
				res2.class = "err"
				return
			}
			res2.class, res2.resp = "ok", resp
		}()
		var evs2 []string
		for _, e := range c2.EventManager().Events() {
			evs2 = append(evs2, formatEvent(e))
		}
		same := res2.class == res.class && res2.resp == res.resp && strings.Join(evs1, "|") == strings.Join(evs2, "|") && strings.Join(w.calls, "|") == strings.Join(calls1, "|")
		if res.class != "ok" {
			same = res2.class == res.class
		}
		if same {
			res.reexec = "same"
		} else {
			res.reexec = fmt.Sprintf("first=%s%s second=%s%s", res.class, res.resp, res2.class, res2.resp)
		}
		w.calls, w.writes, w.callIdx = calls1, writes1, idx1
	}
	if discard {
		// the branch lives on for a chained successor only while every message on it succeeded
		w.simCtx, w.simActive = cctx, res.class == "ok"
	}
	if res.class == "ok" && !discard {
		write()
		for _, e := range cctx.EventManager().Events() {
			res.events = append(res.events, formatEvent(e))
		}
	}
	w.commit()
	return
}

func formatEvent(e sdk.Event) string {
	msg, err := sdk.ParseTypedEvent(abci.Event(e))
	if err != nil {
		return "Unparsed type=" + e.Type
	}
	return formatTypedEvent(msg)
}

func formatTypedEvent(msg proto.Message) string {
	switch ev := msg.(type) {
	case *types.AttesterEnabled:
		return fmt.Sprintf("AttesterEnabled attester=%x", ev.Attester)
	case *types.AttesterDisabled:
		return fmt.Sprintf("AttesterDisabled attester=%x", ev.Attester)
	case *types.SignatureThresholdUpdated:
		return fmt.Sprintf("SignatureThresholdUpdated old=%d new=%d", ev.OldSignatureThreshold, ev.NewSignatureThreshold)
	case *types.OwnerUpdated:
		return fmt.Sprintf("OwnerUpdated prev=%x new=%x", ev.PreviousOwner, ev.NewOwner)
	case *types.OwnershipTransferStarted:
		return fmt.Sprintf("OwnershipTransferStarted prev=%x new=%x", ev.PreviousOwner, ev.NewOwner)
	case *types.PauserUpdated:
		return fmt.Sprintf("PauserUpdated prev=%x new=%x", ev.PreviousPauser, ev.NewPauser)
	case *types.AttesterManagerUpdated:
		return fmt.Sprintf("AttesterManagerUpdated prev=%x new=%x", ev.PreviousAttesterManager, ev.NewAttesterManager)
	case *types.TokenControllerUpdated:
		return fmt.Sprintf("TokenControllerUpdated prev=%x new=%x", ev.PreviousTokenController, ev.NewTokenController)
	case *types.BurningAndMintingPausedEvent:
		return "BurningAndMintingPausedEvent"
	case *types.BurningAndMintingUnpausedEvent:
		return "BurningAndMintingUnpausedEvent"
	case *types.SendingAndReceivingPausedEvent:
		return "SendingAndReceivingPausedEvent"
	case *types.SendingAndReceivingUnpausedEvent:
		return "SendingAndReceivingUnpausedEvent"
	case *types.DepositForBurn:
		return fmt.Sprintf("DepositForBurn nonce=%d burn_token=%x amount=%s depositor=%x mint_recipient=%x dest=%d messenger=%x caller=%x",
			ev.Nonce, ev.BurnToken, intStr(ev.Amount), ev.Depositor, ev.MintRecipient, ev.DestinationDomain, ev.DestinationTokenMessenger, ev.DestinationCaller)
	case *types.MintAndWithdraw:
		return fmt.Sprintf("MintAndWithdraw mint_recipient=%x amount=%s token=%x", ev.MintRecipient, intStr(ev.Amount), ev.MintToken)
	case *types.TokenPairLinked:
		return fmt.Sprintf("TokenPairLinked local=%x domain=%d token=%x", ev.LocalToken, ev.RemoteDomain, ev.RemoteToken)
	case *types.TokenPairUnlinked:
		return fmt.Sprintf("TokenPairUnlinked local=%x domain=%d token=%x", ev.LocalToken, ev.RemoteDomain, ev.RemoteToken)
	case *types.MessageSent:
		return fmt.Sprintf("MessageSent message=%x", ev.Message)
	case *types.MessageReceived:
		return fmt.Sprintf("MessageReceived caller=%x src=%d nonce=%d sender=%x body=%x", ev.Caller, ev.SourceDomain, ev.Nonce, ev.Sender, ev.MessageBody)
	case *types.MaxMessageBodySizeUpdated:
		return fmt.Sprintf("MaxMessageBodySizeUpdated size=%d", ev.NewMaxMessageBodySize)
	case *types.RemoteTokenMessengerAdded:
		return fmt.Sprintf("RemoteTokenMessengerAdded domain=%d addr=%x", ev.Domain, ev.RemoteTokenMessenger)
	case *types.RemoteTokenMessengerRemoved:
		return fmt.Sprintf("RemoteTokenMessengerRemoved domain=%d addr=%x", ev.Domain, ev.RemoteTokenMessenger)
	case *types.SetBurnLimitPerMessage:
		return fmt.Sprintf("SetBurnLimitPerMessage token=%x amount=%s", ev.Token, intStr(ev.BurnLimitPerMessage))
	}
	return "UnknownEvent type=" + proto.MessageName(msg)
}

func sortedCopy(l []string) []string {
	c := append([]string(nil), l...)
	sort.Strings(c)
	return c
}
