package main

// shapes (C20): every transaction type and every query type with every field independently absent /
// empty / one-short / exact / one-long / huge / non-ASCII / malformed, in several reachable states; the
// message decoders and the CLI address parser on boundary and malformed inputs.  Every implementation
// call runs under recover(); any panic is a violation whatever the model says.

import (
	"fmt"
	"math/big"
	"strings"

	sdk "github.com/cosmos/cosmos-sdk/types"

	"github.com/circlefin/noble-cctp/x/cctp/types"
)

func init() { profiles["shapes"] = genShapes }

type fieldKind int

const (
	fFrom fieldKind = iota
	fBytes32
	fMsg
	fAtt
	fAmount
	fU32
	fU64
	fDenom
	fAttester
	fAddrStr
	fBody
)

type fieldSpec struct {
	name string
	kind fieldKind
}

var txShapes = map[string][]fieldSpec{
	"AcceptOwner":                        {},
	"AddRemoteTokenMessenger":            {{"domain", fU32}, {"address", fBytes32}},
	"DepositForBurn":                     {{"amount", fAmount}, {"dest", fU32}, {"mint_recipient", fBytes32}, {"burn_token", fDenom}},
	"DepositForBurnWithCaller":           {{"amount", fAmount}, {"dest", fU32}, {"mint_recipient", fBytes32}, {"burn_token", fDenom}, {"caller", fBytes32}},
	"DisableAttester":                    {{"attester", fAttester}},
	"EnableAttester":                     {{"attester", fAttester}},
	"LinkTokenPair":                      {{"domain", fU32}, {"token", fBytes32}, {"local", fDenom}},
	"PauseBurningAndMinting":             {},
	"PauseSendingAndReceivingMessages":   {},
	"ReceiveMessage":                     {{"message", fMsg}, {"attestation", fAtt}},
	"RemoveRemoteTokenMessenger":         {{"domain", fU32}},
	"ReplaceDepositForBurn":              {{"orig", fMsg}, {"att", fAtt}, {"new_caller", fBytes32}, {"new_recipient", fBytes32}},
	"ReplaceMessage":                     {{"orig", fMsg}, {"att", fAtt}, {"new_body", fBody}, {"new_caller", fBytes32}},
	"SendMessage":                        {{"dest", fU32}, {"recipient", fBytes32}, {"body", fBody}},
	"SendMessageWithCaller":              {{"dest", fU32}, {"recipient", fBytes32}, {"body", fBody}, {"caller", fBytes32}},
	"UnlinkTokenPair":                    {{"domain", fU32}, {"token", fBytes32}, {"local", fDenom}},
	"UnpauseBurningAndMinting":           {},
	"UnpauseSendingAndReceivingMessages": {},
	"UpdateOwner":                        {{"new", fAddrStr}},
	"UpdateAttesterManager":              {{"new", fAddrStr}},
	"UpdateTokenController":              {{"new", fAddrStr}},
	"UpdatePauser":                       {{"new", fAddrStr}},
	"UpdateMaxMessageBodySize":           {{"size", fU64}},
	"SetMaxBurnAmountPerMessage":         {{"local", fDenom}, {"amount", fAmount}},
	"UpdateSignatureThreshold":           {{"amount", fU32}},
}

var txOrder = []string{"AcceptOwner", "AddRemoteTokenMessenger", "DepositForBurn", "DepositForBurnWithCaller", "DisableAttester", "EnableAttester",
	"LinkTokenPair", "PauseBurningAndMinting", "PauseSendingAndReceivingMessages", "ReceiveMessage", "RemoveRemoteTokenMessenger",
	"ReplaceDepositForBurn", "ReplaceMessage", "SendMessage", "SendMessageWithCaller", "UnlinkTokenPair", "UnpauseBurningAndMinting",
	"UnpauseSendingAndReceivingMessages", "UpdateOwner", "UpdateAttesterManager", "UpdateTokenController", "UpdatePauser",
	"UpdateMaxMessageBodySize", "SetMaxBurnAmountPerMessage", "UpdateSignatureThreshold"}

var oddStrings = []string{"", "uusdc", "UUSDC", "uu\xc5\xbfdc", "uusd\xe2\x84\xaa", "\xff\xfe", "\xe6\x97\xa5\xe6\x9c\xac", "a", "uusdc/", "0x", "0x04",
	strings.Repeat("u", 200), "uusdc\x00", "İstanbul", "u u", "1uusdc"}

type shapeGen struct {
	f *Flow
	g *Gen
}

// values of one field: index 0 is a valid value, the rest are the odd shapes
func (s *shapeGen) values(fs fieldSpec, ty string) []string {
	g, f := s.g, s.f
	hexOf := func(b []byte) string { return fmt.Sprintf("%x", b) }
	switch fs.kind {
	case fBytes32:
		return []string{hexOf(g.r.Bytes(32)), "", hexOf([]byte{1}), hexOf(g.r.Bytes(31)), hexOf(make([]byte, 32)), hexOf(g.r.Bytes(33)), hexOf(g.r.Bytes(20)), hexOf(g.r.Bytes(64)), hexOf(g.r.Bytes(300))}
	case fBody:
		return []string{hexOf(g.r.Bytes(10)), "", hexOf(g.r.Bytes(132)), hexOf(g.r.Bytes(7999)), hexOf(g.r.Bytes(8000)), hexOf(g.r.Bytes(8001)), hexOf(g.r.Bytes(20000))}
	case fMsg:
		from := f.A(0)
		valid := encMsg(0, 0, 4, g.r.Next(), f.messengers[0], types.PaddedModuleAddress, make([]byte, 32), f.burnBody(0))
		own := encMsg(0, 4, 1, g.r.Next(), pad32(mustAcc(from)), g.r.Bytes(32), make([]byte, 32), g.r.Bytes(5))
		dep := encMsg(0, 4, 1, g.r.Next(), types.PaddedModuleAddress, g.r.Bytes(32), make([]byte, 32), encBurn(0, g.r.Bytes(32), g.r.Bytes(32), big.NewInt(5), pad32(mustAcc(from))))
		v0 := valid
		if ty == "ReplaceMessage" {
			v0 = own
		} else if ty == "ReplaceDepositForBurn" {
			v0 = dep
		}
		return []string{hexOf(v0), "", hexOf(v0[:1]), hexOf(v0[:115]), hexOf(v0[:116]), hexOf(v0[:117]), hexOf(v0[:len(v0)-1]), hexOf(append(append([]byte{}, v0...), 0)),
			hexOf(g.r.Bytes(116)), hexOf(g.r.Bytes(248)), hexOf(g.r.Bytes(5000)), hexOf(valid), hexOf(own), hexOf(dep)}
	case fAtt:
		return []string{"@", "", hexOf(g.r.Bytes(1)), hexOf(g.r.Bytes(64)), hexOf(g.r.Bytes(65)), hexOf(g.r.Bytes(66)), hexOf(g.r.Bytes(130)), hexOf(make([]byte, 65)), hexOf(g.r.Bytes(65 * 40))}
	case fAmount:
		return []string{"5", "-", "0", "-1", "1", two256m1.String(), "-" + two256m1.String(), "1000000"}
	case fU32:
		return []string{"0", "1", "4", "4294967295", "3"}
	case fU64:
		return []string{"8000", "0", "1", "18446744073709551615", "131", "132"}
	case fDenom:
		out := []string{}
		for _, x := range oddStrings {
			out = append(out, fmt.Sprintf("%x", x))
		}
		out[0], out[1] = out[1], out[0]
		return out
	case fAttester:
		out := []string{fmt.Sprintf("%x", "0x04abcd")}
		for _, x := range append([]string{f.spelling[0], "zz", "0x0", "0X", "04"}, oddStrings...) {
			out = append(out, fmt.Sprintf("%x", x))
		}
		return out
	case fAddrStr:
		out := []string{fmt.Sprintf("%x", f.A(1))}
		for _, x := range append([]string{upper(f.A(1)), "cosmos1", "noble1qv9pzxqlyckngw6zf9g9whn9d3eh4qvg3u3gv759", sdk.AccAddress(g.r.Bytes(32)).String(), sdk.AccAddress(g.r.Bytes(255)).String(), sdk.AccAddress(g.r.Bytes(1)).String()}, append(nearAddrs(f.A(1)), oddStrings...)...) {
			out = append(out, fmt.Sprintf("%x", x))
		}
		return out
	}
	return []string{""}
}

func (s *shapeGen) froms(ty string) []string {
	f, g := s.f, s.g
	holder := map[string]string{"owner": f.owner, "attmgr": f.attmgr, "pauser": f.pauser, "tokctl": f.tokctl}
	base := f.A(0)
	for _, t := range adminTxs() {
		if t.ty == ty && holder[t.role] != "" {
			base = holder[t.role]
		}
	}
	return []string{base, "", "garbage", upper(base), "noble1qv9pzxqlyckngw6zf9g9whn9d3eh4qvg3u3gv759", sdk.AccAddress(g.r.Bytes(32)).String(),
		sdk.AccAddress(g.r.Bytes(33)).String(), sdk.AccAddress(g.r.Bytes(255)).String(), sdk.AccAddress(g.r.Bytes(1)).String(), sdk.AccAddress(g.r.Bytes(19)).String(),
		"\xff\xfe", "cosmos1\xe6\x97\xa5", strings.Repeat("c", 300), " " + base, base + " ", base + "\n", base + "\x00", base[:len(base)-1]}
}

func (s *shapeGen) oneTx(ty string, vals map[string]string, from string) {
	g, f := s.g, s.f
	var parts []string
	for _, fs := range txShapes[ty] {
		v := vals[fs.name]
		if v == "@" { // an honest attestation of the message field of this request
			msgField := "message"
			if ty != "ReceiveMessage" {
				msgField = "orig"
			}
			var m []byte
			fmt.Sscanf(vals[msgField], "%x", &m)
			v = fmt.Sprintf("%x", f.attestWith(m, f.honest()))
		}
		parts = append(parts, fs.name+"="+v)
	}
	plan := ""
	if strings.HasPrefix(ty, "DepositForBurn") && g.r.Chance(1, 2) {
		plan = "ss" // permissive ledger: accounts without a balance reach the code after the transfer and the burn
	}
	g.tx(ty, from, strings.Join(parts, " "), plan)
}

func genShapes(g *Gen, n int) {
	states := []string{"fresh", "paused", "after-history", "one-account", "tight-threshold"}
	for sc := 0; sc < n; sc++ {
		st := states[sc%len(states)]
		g.line("BEGIN id=%d", sc)
		g.stats.Mut("state:" + st)
		f := flowScn(g, flowMix{})
		for j := range f.accts {
			f.bals[f.A(j)] = new(big.Int).Lsh(big.NewInt(1), 100)
		}
		f.limits = nil
		f.maxBody = 8000
		switch st {
		case "paused":
			f.bm, f.sr = true, true
		case "one-account":
			f.owner, f.attmgr, f.pauser, f.tokctl = f.A(0), f.A(0), f.A(0), f.A(0)
		case "tight-threshold":
			f.thr = uint32(len(f.keys))
		}
		f.Init()
		g.stats.Scripts++
		if st == "after-history" {
			for i := 0; i < 15; i++ {
				switch g.r.Intn(4) {
				case 0:
					f.Deposit()
				case 1:
					f.Send()
				case 2:
					f.Receive(true)
				default:
					f.Admin()
				}
			}
		}
		s := &shapeGen{f, g}
		nilAbsent := sc%2 == 1
		if nilAbsent {
			g.line("NILABSENT v=1")
		}
		for ti, ty := range txOrder {
			if ti > 0 && st != "after-history" {
				f.Init() // every transaction type starts from the same state: earlier types (pause, role updates) must not mask later ones
			}
			specs := txShapes[ty]
			base := map[string]string{}
			lists := map[string][]string{}
			for _, fs := range specs {
				lists[fs.name] = s.values(fs, ty)
				base[fs.name] = lists[fs.name][0]
			}
			froms := s.froms(ty)
			// the valid request, then every field varied on its own, then a few random combinations
			s.oneTx(ty, base, froms[0])
			for _, fr := range froms[1:] {
				s.oneTx(ty, base, fr)
			}
			for _, fs := range specs {
				for _, v := range lists[fs.name][1:] {
					vals := map[string]string{}
					for k, x := range base {
						vals[k] = x
					}
					vals[fs.name] = v
					s.oneTx(ty, vals, froms[0])
					g.stats.Mut("field:" + ty + "." + fs.name)
				}
			}
			for k := 0; k < 6; k++ {
				vals := map[string]string{}
				for _, fs := range specs {
					vals[fs.name] = lists[fs.name][g.r.Intn(len(lists[fs.name]))]
				}
				s.oneTx(ty, vals, froms[g.r.Intn(len(froms))])
			}
		}
		if nilAbsent {
			g.line("NILABSENT v=0")
		}
		// all 19 queries with odd arguments
		for _, q := range []string{"LocalDomain", "LocalMessageVersion", "BurnMessageVersion", "Roles", "BurningAndMintingPaused", "SendingAndReceivingMessagesPaused",
			"MaxMessageBodySize", "NextAvailableNonce", "SignatureThreshold"} {
			g.q(q, "")
		}
		for _, x := range oddStrings {
			g.q("Attester", fmt.Sprintf("attester=%x", x))
			g.q("PerMessageBurnLimit", fmt.Sprintf("denom=%x", x))
			g.q("TokenPair", fmt.Sprintf("domain=%d token=%x", g.randU32(), x))
		}
		for _, x := range []string{"0x" + strings.Repeat("ab", 32), strings.Repeat("ab", 33), "0xzz", "abc", "0x", strings.Repeat("0", 64)} {
			g.q("TokenPair", fmt.Sprintf("domain=0 token=%x", x))
		}
		g.q("UsedNonce", fmt.Sprintf("domain=%d nonce=%d", g.randU32(), g.randU64()))
		g.q("RemoteTokenMessenger", fmt.Sprintf("domain=%d", g.randU32()))
		for _, ty := range []string{"Attesters", "PerMessageBurnLimits", "TokenPairs", "UsedNonces", "RemoteTokenMessengers"} {
			for _, pa := range []string{pageArgs(nil, 0, 0, false, false), pageArgs(nil, 0, 1, true, true), pageArgs(nil, 1<<64-1, 1<<64-1, true, false),
				pageArgs([]byte{0}, 0, 1, false, true), pageArgs([]byte{0xff, 0xff}, 0, 1, false, true), pageArgs([]byte("x"), 5, 1, false, false),
				pageArgs(nil, 3, 2, false, true), pageArgs(g.r.Bytes(40), 0, 100, true, g.r.Chance(1, 2))} {
				g.q(ty, pa)
			}
		}
		// decoders and the CLI parser
		for i := 0; i < 40; i++ {
			g.line("CODEC %d decmsg bz=%x", g.n(), g.patBytes(g.randLen(codecLens, 400)))
			g.line("CODEC %d decburn bz=%x", g.n(), g.patBytes(g.randLen(codecLens, 400)))
		}
		for _, a := range []string{"", "a", "0", "0x", "0X", "0x0", "0xzz", "0x" + strings.Repeat("ab", 32), "0x" + strings.Repeat("ab", 33), "0x" + strings.Repeat("a", 63),
			"1", "11", "111111", "z", "Il0O", "3yZe7d", strings.Repeat("z", 44), strings.Repeat("z", 45), strings.Repeat("1", 33), "\xff", "\xe6\x97\xa5", "ab\x80", "0x\xff",
			"So11111111111111111111111111111111111111112", " ", "0x ", "\x00"} {
			g.line("CLIADDR %d s=%x", g.n(), a)
		}
		for i := 0; i < 30; i++ {
			g.line("CLIADDR %d s=%x", g.n(), g.patBytes(g.r.Intn(70)))
		}
		// a multi-byte character at every offset around the ten-byte blocks a base-58 decoder may cut the string into
		b58 := "123456789ABCDEFGHJKLMNPQRSTUVWXYZabcdefghijkmnopqrstuvwxyz"
		for _, ch := range []string{"\u00e9", "\u00ff", "\u00a0", "\u017f", "\u65e5", "\U0001f600"} {
			for _, at := range []int{8, 9, 10, 11, 18, 19, 20, 29, 39} {
				var sb strings.Builder
				for i := 0; i < at; i++ {
					if g.r.Chance(1, 2) {
						sb.WriteByte('1')
					} else {
						sb.WriteByte(b58[g.r.Intn(len(b58))])
					}
				}
				sb.WriteString(ch)
				for i := g.r.Intn(4); i > 0; i-- {
					sb.WriteByte(b58[g.r.Intn(len(b58))])
				}
				g.line("CLIADDR %d s=%x", g.n(), sb.String())
			}
		}
	}
}
