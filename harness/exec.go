package main

// Execution of script lines against the implementation. Every input line is echoed to the trace,
// followed by the implementation's observations (prefixed "I "), in the canonical format shared
// with the model's driver (coq/Model/Driver.v).

import (
	"bytes"
	"bufio"
	"context"
	"encoding/hex"
	"fmt"
	"math/big"
	"sort"
	"strconv"
	"strings"

	"cosmossdk.io/math"
	sdk "github.com/cosmos/cosmos-sdk/types"
	"github.com/cosmos/cosmos-sdk/types/query"
	"github.com/ethereum/go-ethereum/crypto"

	"github.com/circlefin/noble-cctp/x/cctp"
	"github.com/circlefin/noble-cctp/x/cctp/client/cli"
	"github.com/circlefin/noble-cctp/x/cctp/keeper"
	"github.com/circlefin/noble-cctp/x/cctp/types"
)

type Args map[string]string

func parseArgs(ws []string) Args {
	a := Args{}
	for _, w := range ws {
		if i := strings.IndexByte(w, '='); i >= 0 {
			a[w[:i]] = w[i+1:]
		}
	}
	return a
}
func (a Args) hex(k string) []byte {
	v, ok := a[k]
	if !ok {
		panic("script: missing " + k)
	}
	b, err := hex.DecodeString(v)
	if err != nil {
		panic("script: bad hex " + k)
	}
	if b == nil {
		b = []byte{}
	}
	return b
}
func (a Args) str(k string) string { return string(a.hex(k)) }
func (a Args) u64(k string) uint64 {
	v, err := strconv.ParseUint(a[k], 10, 64)
	if err != nil {
		panic("script: bad uint " + k + "=" + a[k])
	}
	return v
}
func (a Args) u32(k string) uint32 { return uint32(a.u64(k)) }
func (a Args) boolean(k string) bool { return a[k] == "1" }
func (a Args) optInt(k string) math.Int {
	v := a[k]
	if v == "-" {
		return math.Int{}
	}
	z, ok := new(big.Int).SetString(v, 10)
	if !ok {
		panic("script: bad int " + k)
	}
	return math.NewIntFromBigInt(z)
}

type Exec struct {
	w     *World
	out   *bufio.Writer
	denom string
	gen   *types.GenesisState
	// observers for generators
	lastClass  string
	lastResp   string
	lastEvents []string
	lastQuery  string
	nsteps     int
	stats      *Stats
	oracleSeen map[string]bool
	nilAbsent  bool // C20: pass absent (nil) byte fields instead of empty ones
	cancelled  bool       // worlds created by this executor hand out sdk.Contexts whose Go context is already cancelled
	argSlices  []argSlice // the byte-slice arguments handed to the handler of the current step, with a copy of their content
}

type argSlice struct {
	key      string
	now, was []byte
}

func NewExec(out *bufio.Writer, stats *Stats) *Exec {
	return &Exec{out: out, denom: "uusdc", stats: stats, oracleSeen: map[string]bool{}}
}

func (x *Exec) emit(format string, a ...interface{}) {
	fmt.Fprintf(x.out, format, a...)
	x.out.WriteByte('\n')
}

// oracle lines: the harness calls go-ethereum's Ecrecover itself, independently of the keeper,
// on the digest of the message and every aligned 65-byte chunk (after v-normalisation).
func (x *Exec) oracle(msg, att []byte) {
	digest := crypto.Keccak256(msg)
	for i := 0; i+65 <= len(att); i += 65 {
		sig := append([]byte(nil), att[i:i+65]...)
		if sig[64] == 27 || sig[64] == 28 {
			sig[64] -= 27
		}
		key := hex.EncodeToString(digest) + ":" + hex.EncodeToString(sig)
		if x.oracleSeen[key] {
			continue
		}
		x.oracleSeen[key] = true
		pk, err := crypto.Ecrecover(digest, sig)
		if err != nil {
			x.emit("ORACLE d=%x s=%x pk=-", digest, sig)
		} else {
			x.emit("ORACLE d=%x s=%x pk=%x", digest, sig, pk)
		}
	}
}

func (x *Exec) bz(a Args, k string) []byte {
	for _, s := range x.argSlices {
		if s.key == k {
			return s.now // the same request value when the step's call is executed a second time
		}
	}
	b := a.hex(k)
	if x.nilAbsent && len(b) == 0 {
		return nil
	}
	x.argSlices = append(x.argSlices, argSlice{k, b, append([]byte(nil), b...)})
	return b
}

// Line executes one input line.
func (x *Exec) Line(line string) {
	ws := strings.Fields(line)
	if len(ws) == 0 {
		return
	}
	switch ws[0] {
	case "I", "ORACLE", "SYNC":
		return // regenerated
	case "BEGIN":
		x.emit("%s", line)
		x.w = NewWorld(x.out, x.denom)
		x.oracleSeen = map[string]bool{}
		x.emit("ENV hrp=%x denom=%x module=%x", sdk.GetConfig().GetBech32AccountAddrPrefix(), x.denom, []byte(types.ModuleAddress))
	case "DENOM":
		x.denom = parseArgs(ws[1:]).str("v")
		x.emit("%s", line)
	case "NILABSENT":
		x.nilAbsent = parseArgs(ws[1:]).boolean("v")
		x.emit("%s", line)
	case "BAL":
		a := parseArgs(ws[1:])
		z, _ := new(big.Int).SetString(a["amt"], 10)
		x.w.SetBalance(a.hex("addr"), a.str("denom"), z)
		x.emit("%s", line)
		x.w.dumpState("0")
		x.emit("SYNC")
	case "G-BEGIN":
		x.gen = &types.GenesisState{}
		x.emit("%s", line)
	case "G":
		x.genLine(ws[1], parseArgs(ws[2:]))
		x.emit("%s", line)
	case "G-END":
		x.emit("%s", line)
		n := ws[1]
		verr := x.gen.Validate()
		x.emit("I GV %s %s", n, okerr(verr == nil))
		// initialise a fresh instance, keeping the ledger
		func() {
			defer func() {
				if r := recover(); r != nil {
					x.emit("I GI %s panic", n)
				}
			}()
			nw := NewWorld(x.out, x.denom)
			nw.cancelled = x.cancelled
			if x.w != nil {
				// carry ledger balances over
				it := x.w.ctx().KVStore(x.w.lkey).Iterator(nil, nil)
				ctx := nw.ctx()
				for ; it.Valid(); it.Next() {
					ctx.KVStore(nw.lkey).Set(it.Key(), it.Value())
				}
				it.Close()
			}
			cctp.InitGenesis(nw.ctx(), nw.k, *x.gen)
			nw.commit()
			x.w = nw
			x.emit("I GI %s ok", n)
			x.w.dumpState(n)
		}()
		x.emit("SYNC")
	case "TX", "SIM":
		n, ty, a := ws[1], ws[2], parseArgs(ws[3:])
		x.tx(line, n, ty, a, ws[0] == "SIM")
	case "Q":
		n, ty, a := ws[1], ws[2], parseArgs(ws[3:])
		x.emit("%s", line)
		x.query(n, ty, a)
	case "CODEC":
		x.emit("%s", line)
		x.codec(ws[1], ws[2], parseArgs(ws[3:]))
	case "VERIFY":
		a := parseArgs(ws[2:])
		x.oracle(a.hex("msg"), a.hex("att"))
		x.emit("%s", line)
		x.verify(ws[1], a)
	case "CLIADDR":
		x.emit("%s", line)
		a := parseArgs(ws[2:])
		func() {
			defer func() {
				if r := recover(); r != nil {
					x.emit("I A %s panic", ws[1])
					x.lastClass = "panic"
				}
			}()
			bz, err := cli.ParseAddressForVerif(a.str("s"))
			if err != nil {
				x.emit("I A %s err", ws[1])
				x.lastClass = "err"
			} else {
				x.emit("I A %s ok bz=%x", ws[1], bz)
				x.lastClass = "ok"
			}
		}()
	case "EXPORT":
		x.emit("%s", line)
		x.export(ws[1])
	case "ROUNDTRIP":
		x.emit("%s", line)
		x.roundtrip(ws[1])
	default:
		x.emit("%s", line)
	}
}

func okerr(b bool) string {
	if b {
		return "ok"
	}
	return "err"
}

func (x *Exec) genLine(kind string, a Args) {
	g := x.gen
	switch kind {
	case "role":
		v := a.str("v")
		switch a["name"] {
		case "owner":
			g.Owner = v
		case "attmgr":
			g.AttesterManager = v
		case "pauser":
			g.Pauser = v
		case "tokctl":
			g.TokenController = v
		}
	case "flag":
		v := a.boolean("v")
		if a["name"] == "bm" {
			g.BurningAndMintingPaused = &types.BurningAndMintingPaused{Paused: v}
		} else {
			g.SendingAndReceivingMessagesPaused = &types.SendingAndReceivingMessagesPaused{Paused: v}
		}
	case "num":
		switch a["name"] {
		case "maxbody":
			g.MaxMessageBodySize = &types.MaxMessageBodySize{Amount: a.u64("v")}
		case "nextnonce":
			g.NextAvailableNonce = &types.Nonce{Nonce: a.u64("v")}
		case "threshold":
			g.SignatureThreshold = &types.SignatureThreshold{Amount: a.u32("v")}
		}
	case "attester":
		g.AttesterList = append(g.AttesterList, types.Attester{Attester: a.str("v")})
	case "limit":
		g.PerMessageBurnLimitList = append(g.PerMessageBurnLimitList, types.PerMessageBurnLimit{Denom: a.str("denom"), Amount: a.optInt("amt")})
	case "pair":
		g.TokenPairList = append(g.TokenPairList, types.TokenPair{RemoteDomain: a.u32("domain"), RemoteToken: a.hex("token"), LocalToken: a.str("local")})
	case "nonce":
		g.UsedNoncesList = append(g.UsedNoncesList, types.Nonce{SourceDomain: a.u32("domain"), Nonce: a.u64("nonce")})
	case "messenger":
		g.TokenMessengerList = append(g.TokenMessengerList, types.RemoteTokenMessenger{DomainId: a.u32("domain"), Address: a.hex("addr")})
	}
}

func genesisLines(g *types.GenesisState) []string {
	var l []string
	l = append(l, fmt.Sprintf("role name=owner v=%x", g.Owner), fmt.Sprintf("role name=attmgr v=%x", g.AttesterManager),
		fmt.Sprintf("role name=pauser v=%x", g.Pauser), fmt.Sprintf("role name=tokctl v=%x", g.TokenController))
	if g.BurningAndMintingPaused != nil {
		l = append(l, "flag name=bm v="+b01(g.BurningAndMintingPaused.Paused))
	}
	if g.SendingAndReceivingMessagesPaused != nil {
		l = append(l, "flag name=sr v="+b01(g.SendingAndReceivingMessagesPaused.Paused))
	}
	if g.MaxMessageBodySize != nil {
		l = append(l, fmt.Sprintf("num name=maxbody v=%d", g.MaxMessageBodySize.Amount))
	}
	if g.NextAvailableNonce != nil {
		l = append(l, fmt.Sprintf("num name=nextnonce v=%d", g.NextAvailableNonce.Nonce))
	}
	if g.SignatureThreshold != nil {
		l = append(l, fmt.Sprintf("num name=threshold v=%d", g.SignatureThreshold.Amount))
	}
	for _, e := range g.AttesterList {
		l = append(l, fmt.Sprintf("attester v=%x", e.Attester))
	}
	for _, e := range g.PerMessageBurnLimitList {
		l = append(l, fmt.Sprintf("limit denom=%x amt=%s", e.Denom, intStr(e.Amount)))
	}
	for _, e := range g.TokenPairList {
		l = append(l, fmt.Sprintf("pair domain=%d token=%x local=%x", e.RemoteDomain, e.RemoteToken, e.LocalToken))
	}
	for _, e := range g.UsedNoncesList {
		l = append(l, fmt.Sprintf("nonce domain=%d nonce=%d", e.SourceDomain, e.Nonce))
	}
	for _, e := range g.TokenMessengerList {
		l = append(l, fmt.Sprintf("messenger domain=%d addr=%x", e.DomainId, e.Address))
	}
	return l
}

func (x *Exec) export(n string) {
	defer func() {
		if r := recover(); r != nil {
			x.emit("I XR %s panic", n)
		}
	}()
	g := cctp.ExportGenesis(x.w.ctx(), x.w.k)
	v := "valid"
	if g.Validate() != nil {
		v = "invalid"
	}
	x.emit("I XR %s ok %s", n, v)
	for _, l := range genesisLines(g) {
		x.emit("I X %s %s", n, l)
	}
}

// roundtrip evaluates the property itself on the implementation: export the current state, import
// it into an empty instance and compare every raw store entry.
func (x *Exec) roundtrip(n string) {
	defer func() {
		if r := recover(); r != nil {
			x.emit("I RT %s panic", n)
		}
	}()
	g := cctp.ExportGenesis(x.w.ctx(), x.w.k)
	nw := NewWorld(x.out, x.denom)
	cctp.InitGenesis(nw.ctx(), nw.k, *g)
	nw.commit()
	a, b := x.w.rawDump(), nw.rawDump()
	var diff []string
	for k, v := range a {
		if b[k] != v {
			diff = append(diff, k)
		} else if _, ok := b[k]; !ok {
			diff = append(diff, k)
		}
	}
	for k := range b {
		if _, ok := a[k]; !ok {
			diff = append(diff, k)
		}
	}
	sort.Strings(diff)
	if len(diff) == 0 {
		x.emit("I RT %s same", n)
	} else {
		x.emit("I RT %s diff keys=%s", n, strings.Join(diff, ","))
	}
}

func (x *Exec) codec(n, op string, a Args) {
	defer func() {
		if r := recover(); r != nil {
			x.emit("I C %s panic", n)
			x.lastClass = "panic"
		}
	}()
	x.lastClass = "ok"
	switch op {
	case "decmsg":
		m, err := new(types.Message).Parse(a.hex("bz"))
		if err != nil {
			x.emit("I C %s err", n)
			x.lastClass = "err"
			return
		}
		x.emit("I C %s ok version=%d src=%d dst=%d nonce=%d sender=%x recipient=%x caller=%x body=%x", n, m.Version, m.SourceDomain, m.DestinationDomain, m.Nonce, m.Sender, m.Recipient, m.DestinationCaller, m.MessageBody)
	case "encmsg":
		m := types.Message{Version: a.u32("version"), SourceDomain: a.u32("src"), DestinationDomain: a.u32("dst"), Nonce: a.u64("nonce"),
			Sender: a.hex("sender"), Recipient: a.hex("recipient"), DestinationCaller: a.hex("caller"), MessageBody: a.hex("body")}
		bz, err := m.Bytes()
		if err != nil {
			x.emit("I C %s err", n)
			x.lastClass = "err"
			return
		}
		x.emit("I C %s ok bz=%x", n, bz)
	case "decburn":
		m, err := new(types.BurnMessage).Parse(a.hex("bz"))
		if err != nil {
			x.emit("I C %s err", n)
			x.lastClass = "err"
			return
		}
		x.emit("I C %s ok version=%d token=%x recipient=%x amount=%s sender=%x", n, m.Version, m.BurnToken, m.MintRecipient, intStr(m.Amount), m.MessageSender)
	case "encburn":
		m := types.BurnMessage{Version: a.u32("version"), BurnToken: a.hex("token"), MintRecipient: a.hex("recipient"), Amount: a.optInt("amount"), MessageSender: a.hex("sender")}
		bz, err := m.Bytes()
		if err != nil {
			x.emit("I C %s err", n)
			x.lastClass = "err"
			return
		}
		x.emit("I C %s ok bz=%x", n, bz)
	case "padtoken":
		// types.RemoteTokenPadded: the hex spelling of a remote token as the fixed 32-byte burn-token field
		bz, err := types.RemoteTokenPadded(a.str("s"))
		if err != nil {
			x.emit("I C %s err", n)
			x.lastClass = "err"
			return
		}
		x.emit("I C %s ok bz=%x", n, bz)
	}
}

func (x *Exec) verify(n string, a Args) {
	var ats []types.Attester
	for _, h := range strings.Split(a["attesters"], ",") {
		if h == "" {
			continue
		}
		b, _ := hex.DecodeString(h)
		ats = append(ats, types.Attester{Attester: string(b)})
	}
	defer func() {
		if r := recover(); r != nil {
			x.emit("I V %s panic", n)
			x.lastClass = "panic"
		}
	}()
	att := append([]byte(nil), a.hex("att")...)
	err := keeper.VerifyAttestationSignatures(a.hex("msg"), att, ats, a.u32("thr"))
	if err != nil {
		x.emit("I V %s reject", n)
		x.lastClass = "reject"
	} else {
		x.emit("I V %s accept", n)
		x.lastClass = "accept"
	}
}

func (x *Exec) tx(line, n, ty string, a Args, discard bool) {
	w := x.w
	from := a.str("from")
	var call func(ctx context.Context) (string, error)
	s := w.srv
	switch ty {
	case "AcceptOwner":
		call = func(c context.Context) (string, error) {
			_, e := s.AcceptOwner(c, &types.MsgAcceptOwner{From: from})
			return "", e
		}
	case "AddRemoteTokenMessenger":
		call = func(c context.Context) (string, error) {
			_, e := s.AddRemoteTokenMessenger(c, &types.MsgAddRemoteTokenMessenger{From: from, DomainId: a.u32("domain"), Address: x.bz(a, "address")})
			return "", e
		}
	case "DepositForBurn":
		call = func(c context.Context) (string, error) {
			r, e := s.DepositForBurn(c, &types.MsgDepositForBurn{From: from, Amount: a.optInt("amount"), DestinationDomain: a.u32("dest"), MintRecipient: x.bz(a, "mint_recipient"), BurnToken: a.str("burn_token")})
			if e != nil {
				return "", e
			}
			return fmt.Sprintf(" nonce=%d", r.Nonce), nil
		}
	case "DepositForBurnWithCaller":
		call = func(c context.Context) (string, error) {
			r, e := s.DepositForBurnWithCaller(c, &types.MsgDepositForBurnWithCaller{From: from, Amount: a.optInt("amount"), DestinationDomain: a.u32("dest"), MintRecipient: x.bz(a, "mint_recipient"), BurnToken: a.str("burn_token"), DestinationCaller: x.bz(a, "caller")})
			if e != nil {
				return "", e
			}
			return fmt.Sprintf(" nonce=%d", r.Nonce), nil
		}
	case "DisableAttester":
		call = func(c context.Context) (string, error) {
			_, e := s.DisableAttester(c, &types.MsgDisableAttester{From: from, Attester: a.str("attester")})
			return "", e
		}
	case "EnableAttester":
		call = func(c context.Context) (string, error) {
			_, e := s.EnableAttester(c, &types.MsgEnableAttester{From: from, Attester: a.str("attester")})
			return "", e
		}
	case "LinkTokenPair":
		call = func(c context.Context) (string, error) {
			_, e := s.LinkTokenPair(c, &types.MsgLinkTokenPair{From: from, RemoteDomain: a.u32("domain"), RemoteToken: x.bz(a, "token"), LocalToken: a.str("local")})
			return "", e
		}
	case "PauseBurningAndMinting":
		call = func(c context.Context) (string, error) {
			_, e := s.PauseBurningAndMinting(c, &types.MsgPauseBurningAndMinting{From: from})
			return "", e
		}
	case "PauseSendingAndReceivingMessages":
		call = func(c context.Context) (string, error) {
			_, e := s.PauseSendingAndReceivingMessages(c, &types.MsgPauseSendingAndReceivingMessages{From: from})
			return "", e
		}
	case "ReceiveMessage":
		x.oracle(a.hex("message"), a.hex("attestation"))
		call = func(c context.Context) (string, error) {
			r, e := s.ReceiveMessage(c, &types.MsgReceiveMessage{From: from, Message: x.bz(a, "message"), Attestation: append([]byte(nil), x.bz(a, "attestation")...)})
			if e != nil {
				return "", e
			}
			if r.Success {
				return " success=1", nil
			}
			return " success=0", nil
		}
	case "RemoveRemoteTokenMessenger":
		call = func(c context.Context) (string, error) {
			_, e := s.RemoveRemoteTokenMessenger(c, &types.MsgRemoveRemoteTokenMessenger{From: from, DomainId: a.u32("domain")})
			return "", e
		}
	case "ReplaceDepositForBurn":
		x.oracle(a.hex("orig"), a.hex("att"))
		call = func(c context.Context) (string, error) {
			_, e := s.ReplaceDepositForBurn(c, &types.MsgReplaceDepositForBurn{From: from, OriginalMessage: x.bz(a, "orig"), OriginalAttestation: append([]byte(nil), x.bz(a, "att")...), NewDestinationCaller: x.bz(a, "new_caller"), NewMintRecipient: x.bz(a, "new_recipient")})
			return "", e
		}
	case "ReplaceMessage":
		x.oracle(a.hex("orig"), a.hex("att"))
		call = func(c context.Context) (string, error) {
			_, e := s.ReplaceMessage(c, &types.MsgReplaceMessage{From: from, OriginalMessage: x.bz(a, "orig"), OriginalAttestation: append([]byte(nil), x.bz(a, "att")...), NewMessageBody: x.bz(a, "new_body"), NewDestinationCaller: x.bz(a, "new_caller")})
			return "", e
		}
	case "SendMessage":
		call = func(c context.Context) (string, error) {
			r, e := s.SendMessage(c, &types.MsgSendMessage{From: from, DestinationDomain: a.u32("dest"), Recipient: x.bz(a, "recipient"), MessageBody: x.bz(a, "body")})
			if e != nil {
				return "", e
			}
			return fmt.Sprintf(" nonce=%d", r.Nonce), nil
		}
	case "SendMessageWithCaller":
		call = func(c context.Context) (string, error) {
			r, e := s.SendMessageWithCaller(c, &types.MsgSendMessageWithCaller{From: from, DestinationDomain: a.u32("dest"), Recipient: x.bz(a, "recipient"), MessageBody: x.bz(a, "body"), DestinationCaller: x.bz(a, "caller")})
			if e != nil {
				return "", e
			}
			return fmt.Sprintf(" nonce=%d", r.Nonce), nil
		}
	case "UnlinkTokenPair":
		call = func(c context.Context) (string, error) {
			_, e := s.UnlinkTokenPair(c, &types.MsgUnlinkTokenPair{From: from, RemoteDomain: a.u32("domain"), RemoteToken: x.bz(a, "token"), LocalToken: a.str("local")})
			return "", e
		}
	case "UnpauseBurningAndMinting":
		call = func(c context.Context) (string, error) {
			_, e := s.UnpauseBurningAndMinting(c, &types.MsgUnpauseBurningAndMinting{From: from})
			return "", e
		}
	case "UnpauseSendingAndReceivingMessages":
		call = func(c context.Context) (string, error) {
			_, e := s.UnpauseSendingAndReceivingMessages(c, &types.MsgUnpauseSendingAndReceivingMessages{From: from})
			return "", e
		}
	case "UpdateOwner":
		call = func(c context.Context) (string, error) {
			_, e := s.UpdateOwner(c, &types.MsgUpdateOwner{From: from, NewOwner: a.str("new")})
			return "", e
		}
	case "UpdateAttesterManager":
		call = func(c context.Context) (string, error) {
			_, e := s.UpdateAttesterManager(c, &types.MsgUpdateAttesterManager{From: from, NewAttesterManager: a.str("new")})
			return "", e
		}
	case "UpdateTokenController":
		call = func(c context.Context) (string, error) {
			_, e := s.UpdateTokenController(c, &types.MsgUpdateTokenController{From: from, NewTokenController: a.str("new")})
			return "", e
		}
	case "UpdatePauser":
		call = func(c context.Context) (string, error) {
			_, e := s.UpdatePauser(c, &types.MsgUpdatePauser{From: from, NewPauser: a.str("new")})
			return "", e
		}
	case "UpdateMaxMessageBodySize":
		call = func(c context.Context) (string, error) {
			_, e := s.UpdateMaxMessageBodySize(c, &types.MsgUpdateMaxMessageBodySize{From: from, MessageSize: a.u64("size")})
			return "", e
		}
	case "SetMaxBurnAmountPerMessage":
		call = func(c context.Context) (string, error) {
			_, e := s.SetMaxBurnAmountPerMessage(c, &types.MsgSetMaxBurnAmountPerMessage{From: from, LocalToken: a.str("local"), Amount: a.optInt("amount")})
			return "", e
		}
	case "UpdateSignatureThreshold":
		call = func(c context.Context) (string, error) {
			_, e := s.UpdateSignatureThreshold(c, &types.MsgUpdateSignatureThreshold{From: from, Amount: a.u32("amount")})
			return "", e
		}
	default:
		panic("script: unknown tx type " + ty)
	}
	x.emit("%s", line)
	x.argSlices = nil
	res := w.runMsg(a["plan"], discard, a["chain"] == "1", call, func() bool {
		for _, s := range x.argSlices {
			if !bytes.Equal(s.now, s.was) {
				return true
			}
		}
		return false
	})
	// A handler that writes into the byte slices of its request changes what a second execution of the same decoded value
	// sees.  When that happens the same value is executed once more from the same state: MUT reports how it differed.
	if res.reexec != "" && res.reexec != "same" {
		x.emit("I MUT %s %s", n, res.reexec)
	}
	x.argSlices = nil
	x.nsteps++
	if discard {
		// only the outcome is observable; the chain must be exactly as before
		if x.stats != nil {
			x.stats.Tx("sim:"+ty, res.class)
		}
		x.emit("I R %s %s%s", n, res.class, res.resp)
		x.emit("I H %s %x", n, w.lastHash)
		w.dumpState(n)
		x.emit("SYNC")
		return
	}
	x.lastClass, x.lastResp, x.lastEvents = res.class, res.resp, res.events
	if x.stats != nil {
		x.stats.Tx(ty, res.class)
	}
	x.emit("I R %s %s%s", n, res.class, res.resp)
	for i, e := range res.events {
		x.emit("I E %s %d %s", n, i, e)
	}
	for i, c := range w.calls {
		x.emit("I D %s %d %s", n, i, c)
	}
	if res.class == "ok" {
		for _, k := range w.writes {
			x.emit("I W %s %s", n, k)
		}
	} else {
		// did the handler write to its branch before failing (kept from the chain only by the SDK's discard rule)?
		if len(w.writes) == 0 {
			x.emit("I WF %s clean", n)
		} else {
			x.emit("I WF %s dirty", n)
		}
	}
	x.emit("I H %s %x", n, w.lastHash)
	w.dumpState(n)
	x.emit("SYNC")
}

func pageReq(a Args) *query.PageRequest {
	return &query.PageRequest{Key: a.hex("key"), Offset: a.u64("offset"), Limit: a.u64("limit"), CountTotal: a.boolean("count_total"), Reverse: a.boolean("reverse")}
}
func pageStr(items []string, p *query.PageResponse, a Args) string {
	next, total := "", "-"
	if p != nil {
		next = hex.EncodeToString(p.NextKey)
		if len(a.hex("key")) == 0 && (a.u64("limit") == 0 || a.boolean("count_total")) {
			total = strconv.FormatUint(p.Total, 10)
		} else if p.Total != 0 {
			total = "unexpected" + strconv.FormatUint(p.Total, 10)
		}
	}
	return fmt.Sprintf(" items=%s next=%s total=%s", strings.Join(items, ";"), next, total)
}

func (x *Exec) query(n, ty string, a Args) {
	k := x.w.k
	ctx := x.w.ctx()
	x.w.tracing, x.w.writes = true, nil
	defer func() {
		x.w.tracing = false
		if r := recover(); r != nil {
			x.emit("I QR %s panic", n)
			x.lastClass = "panic"
		}
		if len(x.w.writes) > 0 {
			x.emit("I QW %s %d", n, len(x.w.writes))
		}
	}()
	out, err := func() (string, error) {
		switch ty {
		case "LocalDomain":
			r, e := k.LocalDomain(ctx, &types.QueryLocalDomainRequest{})
			if e != nil {
				return "", e
			}
			return fmt.Sprintf(" v=%d", r.DomainId), nil
		case "LocalMessageVersion":
			r, e := k.LocalMessageVersion(ctx, &types.QueryLocalMessageVersionRequest{})
			if e != nil {
				return "", e
			}
			return fmt.Sprintf(" v=%d", r.Version), nil
		case "BurnMessageVersion":
			r, e := k.BurnMessageVersion(ctx, &types.QueryBurnMessageVersionRequest{})
			if e != nil {
				return "", e
			}
			return fmt.Sprintf(" v=%d", r.Version), nil
		case "Roles":
			r, e := k.Roles(ctx, &types.QueryRolesRequest{})
			if e != nil {
				return "", e
			}
			return fmt.Sprintf(" owner=%x attmgr=%x pauser=%x tokctl=%x", r.Owner, r.AttesterManager, r.Pauser, r.TokenController), nil
		case "BurningAndMintingPaused":
			r, e := k.BurningAndMintingPaused(ctx, &types.QueryGetBurningAndMintingPausedRequest{})
			if e != nil {
				return "", e
			}
			return " v=" + b01(r.Paused.Paused), nil
		case "SendingAndReceivingMessagesPaused":
			r, e := k.SendingAndReceivingMessagesPaused(ctx, &types.QueryGetSendingAndReceivingMessagesPausedRequest{})
			if e != nil {
				return "", e
			}
			return " v=" + b01(r.Paused.Paused), nil
		case "MaxMessageBodySize":
			r, e := k.MaxMessageBodySize(ctx, &types.QueryGetMaxMessageBodySizeRequest{})
			if e != nil {
				return "", e
			}
			return fmt.Sprintf(" v=%d", r.Amount.Amount), nil
		case "NextAvailableNonce":
			r, e := k.NextAvailableNonce(ctx, &types.QueryGetNextAvailableNonceRequest{})
			if e != nil {
				return "", e
			}
			return fmt.Sprintf(" v=%d", r.Nonce.Nonce), nil
		case "SignatureThreshold":
			r, e := k.SignatureThreshold(ctx, &types.QueryGetSignatureThresholdRequest{})
			if e != nil {
				return "", e
			}
			return fmt.Sprintf(" v=%d", r.Amount.Amount), nil
		case "Attester":
			r, e := k.Attester(ctx, &types.QueryGetAttesterRequest{Attester: a.str("attester")})
			if e != nil {
				return "", e
			}
			return fmt.Sprintf(" attester=%x", r.Attester.Attester), nil
		case "Attesters":
			r, e := k.Attesters(ctx, &types.QueryAllAttestersRequest{Pagination: pageReq(a)})
			if e != nil {
				return "", e
			}
			var it []string
			for _, v := range r.Attesters {
				it = append(it, hex.EncodeToString([]byte(v.Attester)))
			}
			return pageStr(it, r.Pagination, a), nil
		case "PerMessageBurnLimit":
			r, e := k.PerMessageBurnLimit(ctx, &types.QueryGetPerMessageBurnLimitRequest{Denom: a.str("denom")})
			if e != nil {
				return "", e
			}
			return fmt.Sprintf(" item=%x:%s", r.BurnLimit.Denom, intStr(r.BurnLimit.Amount)), nil
		case "PerMessageBurnLimits":
			r, e := k.PerMessageBurnLimits(ctx, &types.QueryAllPerMessageBurnLimitsRequest{Pagination: pageReq(a)})
			if e != nil {
				return "", e
			}
			var it []string
			for _, v := range r.BurnLimits {
				it = append(it, fmt.Sprintf("%x:%s", v.Denom, intStr(v.Amount)))
			}
			return pageStr(it, r.Pagination, a), nil
		case "TokenPair":
			r, e := k.TokenPair(ctx, &types.QueryGetTokenPairRequest{RemoteDomain: a.u32("domain"), RemoteToken: a.str("token")})
			if e != nil {
				return "", e
			}
			return fmt.Sprintf(" item=%d:%x:%x", r.Pair.RemoteDomain, r.Pair.RemoteToken, r.Pair.LocalToken), nil
		case "TokenPairs":
			r, e := k.TokenPairs(ctx, &types.QueryAllTokenPairsRequest{Pagination: pageReq(a)})
			if e != nil {
				return "", e
			}
			var it []string
			for _, v := range r.TokenPairs {
				it = append(it, fmt.Sprintf("%d:%x:%x", v.RemoteDomain, v.RemoteToken, v.LocalToken))
			}
			return pageStr(it, r.Pagination, a), nil
		case "UsedNonce":
			r, e := k.UsedNonce(ctx, &types.QueryGetUsedNonceRequest{SourceDomain: a.u32("domain"), Nonce: a.u64("nonce")})
			if e != nil {
				return "", e
			}
			return fmt.Sprintf(" item=%d:%d", r.Nonce.SourceDomain, r.Nonce.Nonce), nil
		case "UsedNonces":
			r, e := k.UsedNonces(ctx, &types.QueryAllUsedNoncesRequest{Pagination: pageReq(a)})
			if e != nil {
				return "", e
			}
			var it []string
			for _, v := range r.UsedNonces {
				it = append(it, fmt.Sprintf("%d:%d", v.SourceDomain, v.Nonce))
			}
			return pageStr(it, r.Pagination, a), nil
		case "RemoteTokenMessenger":
			r, e := k.RemoteTokenMessenger(ctx, &types.QueryRemoteTokenMessengerRequest{DomainId: a.u32("domain")})
			if e != nil {
				return "", e
			}
			return fmt.Sprintf(" item=%d:%x", r.RemoteTokenMessenger.DomainId, r.RemoteTokenMessenger.Address), nil
		case "RemoteTokenMessengers":
			r, e := k.RemoteTokenMessengers(ctx, &types.QueryRemoteTokenMessengersRequest{Pagination: pageReq(a)})
			if e != nil {
				return "", e
			}
			var it []string
			for _, v := range r.RemoteTokenMessengers {
				it = append(it, fmt.Sprintf("%d:%x", v.DomainId, v.Address))
			}
			return pageStr(it, r.Pagination, a), nil
		}
		panic("script: unknown query " + ty)
	}()
	if err != nil {
		x.emit("I QR %s err", n)
		x.lastClass = "err"
		return
	}
	x.emit("I QR %s ok%s", n, out)
	x.lastClass, x.lastQuery = "ok", out
}
