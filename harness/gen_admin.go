package main

import (
	"fmt"

	"github.com/cosmos/cosmos-sdk/types/bech32"

	"github.com/circlefin/noble-cctp/x/cctp/types"
)

func init() {
	profiles["roles-matrix"] = genRolesMatrix
	profiles["roles-lifecycle"] = genRolesLifecycle
	profiles["attester-closure"] = genAttesterClosure
	profiles["admin-random"] = genAdminRandom
}

type adminTx struct {
	ty   string
	role string // owner attmgr pauser tokctl pending
	rest func(s *Scn) string
}

// arguments chosen so that an authorised submission succeeds on the standard set-up
func adminTxs() []adminTx {
	return []adminTx{
		{"UpdateOwner", "owner", func(s *Scn) string { return fmt.Sprintf("new=%x", s.A(1)) }},
		{"UpdateAttesterManager", "owner", func(s *Scn) string { return fmt.Sprintf("new=%x", s.A(2)) }},
		{"UpdatePauser", "owner", func(s *Scn) string { return fmt.Sprintf("new=%x", s.A(0)) }},
		{"UpdateTokenController", "owner", func(s *Scn) string { return fmt.Sprintf("new=%x", s.A(1)) }},
		{"UpdateMaxMessageBodySize", "owner", func(s *Scn) string { return "size=4242" }},
		{"AddRemoteTokenMessenger", "owner", func(s *Scn) string { return fmt.Sprintf("domain=7 address=%x", pad32([]byte{7, 7})) }},
		{"RemoveRemoteTokenMessenger", "owner", func(s *Scn) string { return "domain=0" }},
		{"EnableAttester", "attmgr", func(s *Scn) string { return fmt.Sprintf("attester=%x", "0x04abcdef") }},
		{"DisableAttester", "attmgr", func(s *Scn) string { return fmt.Sprintf("attester=%x", s.spelling[0]) }},
		{"UpdateSignatureThreshold", "attmgr", func(s *Scn) string { return "amount=2" }},
		{"PauseBurningAndMinting", "pauser", func(s *Scn) string { return "" }},
		{"UnpauseBurningAndMinting", "pauser", func(s *Scn) string { return "" }},
		{"PauseSendingAndReceivingMessages", "pauser", func(s *Scn) string { return "" }},
		{"UnpauseSendingAndReceivingMessages", "pauser", func(s *Scn) string { return "" }},
		{"LinkTokenPair", "tokctl", func(s *Scn) string { return fmt.Sprintf("domain=3 token=%x local=%x", pad32([]byte{9}), "uusdc") }},
		{"UnlinkTokenPair", "tokctl", func(s *Scn) string { return fmt.Sprintf("domain=0 token=%x local=%x", pad32([]byte{1}), "uusdc") }},
		{"SetMaxBurnAmountPerMessage", "tokctl", func(s *Scn) string { return fmt.Sprintf("local=%x amount=1000000", "uusdc") }},
		{"AcceptOwner", "pending", func(s *Scn) string { return "" }},
	}
}

func stdScn(g *Gen, nAccts int) *Scn {
	s := NewScn(g, nAccts, 2)
	s.messengers[0] = pad32([]byte{0xaa, 0xbb})
	s.pairs = []types.TokenPair{{RemoteDomain: 0, RemoteToken: pad32([]byte{1}), LocalToken: "uusdc"}}
	return s
}

// roles-matrix (C10, C15): every assignment of the four roles and the pending slot over three
// accounts x the 18 privileged transaction types x the three submitters.
func genRolesMatrix(g *Gen, n int) {
	g.line("BEGIN id=0")
	s := stdScn(g, 3)
	s.spelling = []string{"0x04aa", "0x04bb"}
	txs := adminTxs()
	var assigns [][5]int
	for o := 0; o < 3; o++ {
		for am := 0; am < 3; am++ {
			for p := 0; p < 3; p++ {
				for tc := 0; tc < 3; tc++ {
					for pend := -1; pend < 3; pend++ {
						assigns = append(assigns, [5]int{o, am, p, tc, pend})
					}
				}
			}
		}
	}
	if n < len(assigns) {
		// a seeded subset
		for i := len(assigns) - 1; i > 0; i-- {
			j := g.r.Intn(i + 1)
			assigns[i], assigns[j] = assigns[j], assigns[i]
		}
		assigns = assigns[:n]
	}
	for ai, as := range assigns {
		g.line("BEGIN id=%d", ai+1)
		s.owner, s.attmgr, s.pauser, s.tokctl = s.A(as[0]), s.A(as[1]), s.A(as[2]), s.A(as[3])
		setup := func() {
			s.Init()
			if as[4] >= 0 {
				g.tx("UpdateOwner", s.owner, fmt.Sprintf("new=%x", s.A(as[4])), "")
			}
		}
		setup()
		g.stats.Scripts++
		holder := map[string]string{"owner": s.owner, "attmgr": s.attmgr, "pauser": s.pauser, "tokctl": s.tokctl, "pending": ""}
		if as[4] >= 0 {
			holder["pending"] = s.A(as[4])
		}
		for _, t := range txs {
			for sub := 0; sub < 3; sub++ {
				from := s.A(sub)
				auth := from == holder[t.role]
				cls := g.tx(t.ty, from, t.rest(s), "")
				if auth {
					g.stats.Mut("authorised")
					if cls != "ok" {
						g.stats.Note("authorised-but-" + cls)
					}
					setup()
				} else {
					g.stats.Mut("unauthorised")
					if cls == "ok" {
						g.stats.Note("UNAUTHORISED-OK")
						setup()
					}
				}
			}
			// and one submitter who only resembles the holder
			if la := g.lookalikes(holder[t.role]); len(la) > 0 {
				g.stats.Mut("unauthorised-lookalike")
				if g.tx(t.ty, la[g.r.Intn(len(la))], t.rest(s), "") == "ok" {
					g.stats.Note("UNAUTHORISED-OK")
					setup()
				}
			}
		}
	}
}

// submitters that resemble a role holder without being it: the holder's bytes extended or truncated (accounts of other
// lengths are valid), the upper-case spelling of its bech32 string, the same bytes under another prefix
func (g *Gen) lookalikes(holder string) []string {
	_, bz, err := decodeBech32(holder)
	if err != nil || len(bz) == 0 {
		return nil
	}
	out := []string{
		mustBech32("cosmos", append(append([]byte{}, bz...), g.r.Bytes(12)...)),
		mustBech32("cosmos", append(append([]byte{}, bz...), 0)),
		mustBech32("cosmos", append(g.r.Bytes(12), bz...)),
		upper(holder),
		mustBech32("noble", bz),
	}
	if len(bz) > 1 {
		out = append(out, mustBech32("cosmos", bz[:len(bz)-1]))
	}
	return out
}

var badAddrs = []string{"", " ", "\t", "garbage", "cosmos1qqqqqq", "noble1qv9pzxqlyckngw6zf9g9whn9d3eh4qvg3u3gv759",
	mustBech32("cosmos", []byte{}), mustBech32("cosmos", make([]byte, 256)), mustBech32("cosmos", make([]byte, 255)), mustBech32("cosmos", []byte{7})}

func mustBech32(hrp string, data []byte) string {
	s, err := bech32.ConvertAndEncode(hrp, data)
	if err != nil {
		panic(err)
	}
	return s
}

// roles-lifecycle (C11): random walks over the five role transactions by three accounts with
// valid, malformed, wrong-prefix, empty and upper-case new holders, interleaved with one
// representative of every unrelated transaction type.
func genRolesLifecycle(g *Gen, n int) {
	for sc := 0; sc < n; sc++ {
		g.line("BEGIN id=%d", sc)
		s := stdScn(g, 3)
		s.bals[s.A(0)] = bigInt(1000)
		s.Init()
		g.stats.Scripts++
		steps := 25 + g.r.Intn(25)
		for i := 0; i < steps; i++ {
			from := s.A(g.r.Intn(3))
			arg := s.A(g.r.Intn(3))
			switch g.r.Intn(12) {
			case 0:
				arg = badAddrs[g.r.Intn(len(badAddrs))]
				g.stats.Mut("bad-new-holder")
			case 1:
				arg = upper(arg)
				g.stats.Mut("uppercase-new-holder")
			case 2:
				arg = g.pick(nearAddrs(arg))
				g.stats.Mut("near-valid-new-holder")
			}
			switch g.r.Intn(9) {
			case 0, 1:
				if g.tx("UpdateOwner", from, fmt.Sprintf("new=%x", arg), "") == "ok" && g.r.Chance(1, 3) {
					// with a nomination now pending: the owner nominates nobody (blank strings are not addresses)
					g.tx("UpdateOwner", from, fmt.Sprintf("new=%x", g.pick([]string{"", " ", "\t", "\n", "  "})), "")
					g.stats.Mut("blank-nomination-while-pending")
				}
			case 2, 3:
				g.tx("AcceptOwner", from, "", "")
			case 4:
				g.tx("UpdateAttesterManager", from, fmt.Sprintf("new=%x", arg), "")
			case 5:
				g.tx("UpdatePauser", from, fmt.Sprintf("new=%x", arg), "")
			case 6:
				g.tx("UpdateTokenController", from, fmt.Sprintf("new=%x", arg), "")
			default:
				g.unrelatedTx(s, from)
			}
			if g.r.Chance(1, 4) {
				g.q("Roles", "")
			}
		}
	}
}

// one representative of every transaction type that must not touch the roles
func (g *Gen) unrelatedTx(s *Scn, from string) {
	txs := adminTxs()
	k := g.r.Intn(len(txs) + 3)
	if k < len(txs) {
		t := txs[k]
		if t.role == "owner" && t.ty != "UpdateMaxMessageBodySize" && t.ty != "AddRemoteTokenMessenger" && t.ty != "RemoveRemoteTokenMessenger" {
			k = len(txs)
		} else if t.role == "pending" {
			k = len(txs)
		} else {
			g.tx(t.ty, from, t.rest(s), "")
			return
		}
	}
	switch k - len(txs) {
	case 0:
		g.tx("SendMessage", from, fmt.Sprintf("dest=0 recipient=%x body=%x", pad32([]byte{5}), g.r.Bytes(g.r.Intn(40))), "")
	case 1:
		g.tx("DepositForBurn", from, fmt.Sprintf("amount=%d dest=0 mint_recipient=%x burn_token=%x", 1+g.r.Intn(5), pad32([]byte{6}), "uusdc"), "")
	default:
		g.tx("SendMessageWithCaller", from, fmt.Sprintf("dest=0 recipient=%x body=%x caller=%x", pad32([]byte{5}), g.r.Bytes(g.r.Intn(40)), pad32([]byte{8})), "")
	}
}

// attester-closure (C13): every start state over a universe of attester strings (every non-empty
// subset, every threshold 1..|set|) x every enable / disable / threshold transaction.
func genAttesterClosure(g *Gen, n int) {
	univ := []string{"0x04aa", "0x04bb", "04cc", "0X04DD", "0x04aabb"}
	if n > 400 {
		univ = append(univ, "0x04ee")
	}
	extra := []string{"", "0x", "zz", "0x04aa/", "0x04AA"}
	for mask := 1; mask < 1<<len(univ); mask++ {
		cnt := 0
		for i := range univ {
			if mask>>i&1 == 1 {
				cnt++
			}
		}
		for thr := 1; thr <= cnt; thr++ {
			g.line("BEGIN id=%d", mask*16+thr)
			s := NewScn(g, 2, 0)
			s.attmgr = s.A(1)
			s.thr = uint32(thr)
			for i, a := range univ {
				if mask>>i&1 == 1 {
					s.spelling = append(s.spelling, a)
					s.enabled = append(s.enabled, true)
					s.keys = append(s.keys, nil)
				}
			}
			g.stats.Scripts++
			s.Init()
			do := func(ty, rest string) {
				from := s.attmgr
				if g.r.Chance(1, 10) {
					from = s.A(0)
				}
				cls := g.tx(ty, from, rest, "")
				g.q("Attesters", pageArgs(nil, 0, 0, false, false))
				g.q("SignatureThreshold", "")
				if cls == "ok" {
					s.Init()
				}
			}
			for _, a := range append(append([]string{}, univ...), extra...) {
				do("EnableAttester", fmt.Sprintf("attester=%x", a))
				do("DisableAttester", fmt.Sprintf("attester=%x", a))
			}
			for t := 0; t <= len(univ)+1; t++ {
				do("UpdateSignatureThreshold", fmt.Sprintf("amount=%d", t))
			}
			do("UpdateSignatureThreshold", "amount=4294967295")
		}
	}
}

// admin-random (C15, C19 support): random administrative histories with right and wrong submitters.
func genAdminRandom(g *Gen, n int) {
	for sc := 0; sc < n; sc++ {
		g.line("BEGIN id=%d", sc)
		s := stdScn(g, 4)
		if g.r.Chance(1, 5) {
			// a genesis that leaves one of the three delegated roles blank (Validate accepts an empty address): nobody holds
			// that role - in particular not the owner - until the owner assigns it
			switch g.r.Intn(3) {
			case 0:
				s.attmgr = ""
			case 1:
				s.pauser = ""
			case 2:
				s.tokctl = ""
			}
			g.stats.Mut("blank-role-in-genesis")
		}
		s.Init()
		g.stats.Scripts++
		txs := adminTxs()
		for i := 0; i < 40; i++ {
			t := txs[g.r.Intn(len(txs))]
			from := map[string]string{"owner": s.owner, "attmgr": s.attmgr, "pauser": s.pauser, "tokctl": s.tokctl, "pending": s.A(1)}[t.role]
			if from == "" || g.r.Chance(1, 6) {
				from = s.owner // the owner is the natural candidate for a role nobody holds
			}
			if g.r.Chance(1, 5) {
				from = s.A(g.r.Intn(4))
			} else if g.r.Chance(1, 8) {
				if la := g.lookalikes(from); len(la) > 0 {
					from = la[g.r.Intn(len(la))]
					g.stats.Mut("lookalike-submitter")
				}
			}
			args := g.randAdminArgs(s, t)
			if holder := map[string]string{"owner": s.owner, "attmgr": s.attmgr, "pauser": s.pauser, "tokctl": s.tokctl}[t.role]; t.role != "pending" && holder == "" && g.r.Chance(3, 4) {
				args = t.rest(s) // arguments an authorised submission would succeed with: only the missing role can stop it
			}
			g.tx(t.ty, from, args, "")
		}
	}
}

func (g *Gen) randAdminArgs(s *Scn, t adminTx) string {
	switch t.ty {
	case "AddRemoteTokenMessenger":
		l := 32
		if g.r.Chance(1, 5) {
			l = []int{0, 31, 33}[g.r.Intn(3)]
		}
		return fmt.Sprintf("domain=%d address=%x", g.r.Intn(4), g.patBytes(l))
	case "RemoveRemoteTokenMessenger":
		return fmt.Sprintf("domain=%d", g.r.Intn(4))
	case "EnableAttester", "DisableAttester":
		return fmt.Sprintf("attester=%x", g.pick([]string{"0x04aa", "0x04bb", "04cc", s.spelling[0], s.spelling[1], "", "0x"}))
	case "UpdateSignatureThreshold":
		return fmt.Sprintf("amount=%d", g.r.Intn(5))
	case "LinkTokenPair", "UnlinkTokenPair":
		l := 32
		if g.r.Chance(1, 6) {
			l = []int{0, 31, 33}[g.r.Intn(3)]
		}
		tok := make([]byte, l)
		if l > 0 {
			tok[l-1] = byte(g.r.Intn(3))
		}
		return fmt.Sprintf("domain=%d token=%x local=%x", g.r.Intn(3), tok, g.pick([]string{"uusdc", "UUSDC", "uUsDc", "other", ""}))
	case "SetMaxBurnAmountPerMessage":
		return fmt.Sprintf("local=%x amount=%s", g.pick([]string{"uusdc", "UUSDC", "uUsDc", "other"}), g.pick([]string{"0", "1", "1000000", "-5", "-", "115792089237316195423570985008687907853269984665640564039457584007913129639935"}))
	case "UpdateMaxMessageBodySize":
		return fmt.Sprintf("size=%d", []uint64{0, 1, 131, 132, 133, 8000, 1 << 63}[g.r.Intn(7)])
	}
	return t.rest(s)
}
