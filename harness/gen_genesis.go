package main

// genesis (C17): arbitrary genesis states with deliberately colliding keys in each of the five keyed
// lists, optional fields present or absent, empty / invalid roles; Validate, InitGenesis, ExportGenesis
// and the export -> import round trip, also after transaction histories.

import (
	"strings"
	"fmt"
)

func init() { profiles["genesis"] = genGenesis }

// k indices below n: distinct unless repeats are allowed
func distinctIdx(g *Gen, n, k int, repeats bool) []int {
	var out []int
	if repeats {
		for i := 0; i < k; i++ {
			out = append(out, g.r.Intn(n))
		}
		return out
	}
	perm := make([]int, n)
	for i := range perm {
		perm[i] = i
	}
	for i := n - 1; i > 0; i-- {
		j := g.r.Intn(i + 1)
		perm[i], perm[j] = perm[j], perm[i]
	}
	if k > n {
		k = n
	}
	return perm[:k]
}

func insertAt(l []string, at int, x string) []string {
	if at > len(l) {
		at = len(l)
	}
	return append(append(append([]string{}, l[:at]...), x), l[at:]...)
}

func genGenesis(g *Gen, n int) {
	for sc := 0; sc < n; sc++ {
		g.line("BEGIN id=%d", sc)
		g.stats.Scripts++
		accts := []string{g.acct().String(), g.acct().String(), g.acct().String()}
		// most scripts are valid except for ONE deliberate fault, so that each validation rule decides alone
		mode := []string{"chaos", "valid", "one-fault", "one-fault", "one-fault"}[g.r.Intn(5)]
		fault := ""
		if mode == "one-fault" {
			fault = g.pick([]string{"role", "flag", "threshold", "dup-attester", "dup-limit", "dup-pair", "dup-nonce", "dup-messenger"})
		}
		g.stats.Mut("mode:" + mode + ":" + fault)
		chaos := mode == "chaos"
		role := func() string {
			if !chaos && !(fault == "role" && g.r.Chance(1, 2)) {
				return accts[g.r.Intn(3)]
			}
			switch g.r.Intn(10) {
			case 0:
				g.stats.Mut("role-empty")
				return ""
			case 1:
				g.stats.Mut("role-invalid")
				return g.pick([]string{"garbage", "cosmos1qqqq", upper(accts[0])[:10]})
			case 2:
				g.stats.Mut("role-uppercase")
				return upper(accts[g.r.Intn(3)])
			}
			return accts[g.r.Intn(3)]
		}
		g.line("G-BEGIN")
		g.line("G role name=owner v=%x", role())
		g.line("G role name=attmgr v=%x", role())
		g.line("G role name=pauser v=%x", role())
		g.line("G role name=tokctl v=%x", role())
		if !((chaos && g.r.Chance(1, 10)) || (fault == "flag" && g.r.Chance(1, 2))) {
			g.line("G flag name=bm v=%d", g.r.Intn(2))
		} else {
			g.stats.Mut("bm-absent")
		}
		if !((chaos && g.r.Chance(1, 10)) || (fault == "flag" && g.r.Chance(1, 2))) {
			g.line("G flag name=sr v=%d", g.r.Intn(2))
		} else {
			g.stats.Mut("sr-absent")
		}
		if g.r.Chance(2, 3) {
			g.line("G num name=maxbody v=%d", g.randU64())
		} else {
			g.stats.Mut("maxbody-absent")
		}
		if g.r.Chance(2, 3) {
			g.line("G num name=nextnonce v=%d", g.randU64())
		} else {
			g.stats.Mut("nextnonce-absent")
		}
		tk := g.r.Intn(6)
		if !chaos && fault != "threshold" && tk == 1 {
			tk = 2
		}
		if fault == "threshold" {
			tk = 1
		}
		switch tk {
		case 0:
			g.stats.Mut("threshold-absent")
		case 1:
			g.stats.Mut("threshold-zero")
			g.line("G num name=threshold v=0")
		default:
			g.line("G num name=threshold v=%d", 1+g.r.Intn(3))
		}
		dup := func(name string) bool {
			if (chaos && g.r.Chance(1, 5)) || fault == "dup-"+name {
				g.stats.Mut("dup-" + name)
				return true
			}
			return false
		}
		// where the duplicate goes: next to its twin, or separated from it by other entries
		place := func(n int, i int) int {
			switch g.r.Intn(3) {
			case 0:
				return i + 1 // adjacent
			case 1:
				return n // at the end
			}
			return 0 // at the front
		}
		_ = place
		// attesters
		atts := []string{"0x04aa", "0x04bb", "04cc", "0X04AA", "0x04aa/", "", "0x04a"}
		na := g.r.Intn(5)
		if fault == "dup-attester" {
			na = 2 + g.r.Intn(3)
		}
		var chosenA []string
		for _, i := range distinctIdx(g, len(atts), na, chaos) {
			chosenA = append(chosenA, atts[i])
		}
		if na > 0 && dup("attester") {
			i := g.r.Intn(len(chosenA))
			chosenA = insertAt(chosenA, place(len(chosenA), i), chosenA[i])
		}
		for _, a := range chosenA {
			g.line("G attester v=%x", a)
		}
		// burn limits: denoms that differ only in case are distinct keys at genesis
		dens := []string{"uusdc", "UUSDC", "uUsdc", "other", "", "uusdc/"}
		nl := g.r.Intn(4)
		if fault == "dup-limit" {
			nl = 2 + g.r.Intn(3)
		}
		var chosenL []string
		for _, i := range distinctIdx(g, len(dens), nl, chaos) {
			chosenL = append(chosenL, dens[i])
		}
		if nl > 0 && dup("limit") {
			i := g.r.Intn(len(chosenL))
			chosenL = insertAt(chosenL, place(len(chosenL), i), chosenL[i])
		}
		for _, d := range chosenL {
			g.line("G limit denom=%x amt=%s", d, g.pick([]string{"0", "1", "1000000", "-7", "115792089237316195423570985008687907853269984665640564039457584007913129639935"}))
		}
		// token pairs
		type pr struct {
			d uint32
			t []byte
		}
		np := g.r.Intn(5)
		if fault == "dup-pair" {
			np = 2 + g.r.Intn(3)
		}
		var chosenP []pr
		for _, i := range distinctIdx(g, 9, np, chaos) {
			tok := pad32([]byte{byte(i % 3)})
			if chaos && g.r.Chance(1, 5) {
				tok = g.patBytes([]int{0, 20, 31, 33}[g.r.Intn(4)]) // non-32-byte tokens are dead entries
			}
			chosenP = append(chosenP, pr{uint32(i / 3), tok})
		}
		if np > 0 && dup("pair") {
			i := g.r.Intn(len(chosenP))
			chosenP = append(chosenP[:0:0], append(append(append([]pr{}, chosenP[:min(place(len(chosenP), i), len(chosenP))]...), chosenP[i]), chosenP[min(place(len(chosenP), i), len(chosenP)):]...)...)
		}
		for _, p := range chosenP {
			g.line("G pair domain=%d token=%x local=%x", p.d, p.t, g.pick([]string{"uusdc", "uUSDC", "x"}))
		}
		// used nonces
		nn := g.r.Intn(5)
		if fault == "dup-nonce" {
			nn = 2 + g.r.Intn(3)
		}
		var chosenN [][2]uint64
		pool := [][2]uint64{{0, 0}, {0, 1}, {1, 0}, {0xffffffff, 0xffffffffffffffff}, {1, 256}, {256, 1}}
		for _, i := range distinctIdx(g, len(pool), nn, chaos) {
			chosenN = append(chosenN, pool[i])
		}
		if nn > 0 && dup("nonce") {
			i := g.r.Intn(len(chosenN))
			at := min(place(len(chosenN), i), len(chosenN))
			chosenN = append(append(append([][2]uint64{}, chosenN[:at]...), chosenN[i]), chosenN[at:]...)
		}
		for _, p := range chosenN {
			g.line("G nonce domain=%d nonce=%d", p[0], p[1])
		}
		// messengers
		nm := g.r.Intn(4)
		if fault == "dup-messenger" {
			nm = 2 + g.r.Intn(2)
		}
		var chosenM []uint32
		for _, i := range distinctIdx(g, 4, nm, chaos) {
			chosenM = append(chosenM, []uint32{0, 1, 256, 0xffffffff}[i])
		}
		if nm > 0 && dup("messenger") {
			i := g.r.Intn(len(chosenM))
			at := min(place(len(chosenM), i), len(chosenM))
			chosenM = append(append(append([]uint32{}, chosenM[:at]...), chosenM[i]), chosenM[at:]...)
		}
		for _, d := range chosenM {
			g.line("G messenger domain=%d addr=%x", d, g.patBytes([]int{32, 32, 32, 0, 20}[g.r.Intn(5)]))
		}
		// now and then one collection is large (more than a hundred entries: beyond any default page size)
		if mode == "valid" && g.r.Chance(1, 3) {
			big := 101 + g.r.Intn(40)
			which := g.pick([]string{"nonce", "nonce", "attester", "pair", "messenger", "limit"})
			g.stats.Mut("large-" + which)
			for i := 0; i < big; i++ {
				switch which {
				case "nonce":
					g.line("G nonce domain=%d nonce=%d", 7+i%3, 5000+i)
				case "attester":
					g.line("G attester v=%x", fmt.Sprintf("0x04%04x", 0x1000+i))
				case "pair":
					g.line("G pair domain=%d token=%x local=%x", 1000+i, pad32([]byte{9, byte(i)}), "uusdc")
				case "messenger":
					g.line("G messenger domain=%d addr=%x", 1000+i, g.patBytes(32))
				case "limit":
					g.line("G limit denom=%x amt=%d", fmt.Sprintf("denom%03d", i), i)
				}
			}
		}
		g.line("G-END %d", g.n())
		g.line("EXPORT %d", g.n())
		g.line("ROUNDTRIP %d", g.n())
		// single-item queries for what the genesis installed, dead entries included (a query must find or not find, and
		// write nothing)
		for _, p := range chosenP {
			g.q("TokenPair", fmt.Sprintf("domain=%d token=%x", p.d, fmt.Sprintf("0x%x", p.t)))
			if len(p.t) < 32 {
				g.q("TokenPair", fmt.Sprintf("domain=%d token=%x", p.d, fmt.Sprintf("0x%x", pad32(p.t))))
			}
		}
		for _, a := range chosenA {
			g.q("Attester", fmt.Sprintf("attester=%x", a))
		}
		for _, d := range chosenL {
			g.q("PerMessageBurnLimit", fmt.Sprintf("denom=%x", d))
			g.q("PerMessageBurnLimit", fmt.Sprintf("denom=%x", strings.ToLower(d)))
			g.q("PerMessageBurnLimit", fmt.Sprintf("denom=%x", strings.ToUpper(d)))
		}
		for _, d := range chosenM {
			g.q("RemoteTokenMessenger", fmt.Sprintf("domain=%d", d))
		}
		for _, p := range chosenN {
			g.q("UsedNonce", fmt.Sprintf("domain=%d nonce=%d", p[0], p[1]))
		}
		g.line("EXPORT %d", g.n())
	}
	// states reached by histories: export and round trip
	for sc := 0; sc*4 < n; sc++ {
		g.line("BEGIN id=%d", 100000+sc)
		f := flowScn(g, flowMix{})
		f.Init()
		g.stats.Scripts++
		for i := 0; i < 30; i++ {
			switch g.r.Intn(6) {
			case 0:
				f.Deposit()
			case 1:
				f.Receive(true)
			case 2:
				g.tx("UpdateOwner", f.owner, fmt.Sprintf("new=%x", f.A(g.r.Intn(4))), "")
				g.stats.Mut("pending-owner-set")
			case 3:
				if g.tx("AcceptOwner", f.A(g.r.Intn(4)), "", "") == "ok" {
					g.stats.Mut("pending-owner-accepted")
				}
			default:
				f.Admin()
			}
			if g.r.Chance(1, 5) {
				g.line("EXPORT %d", g.n())
				g.line("ROUNDTRIP %d", g.n())
			}
		}
		g.line("EXPORT %d", g.n())
		g.line("ROUNDTRIP %d", g.n())
	}
}
