package main

// genesis (C17): arbitrary genesis states with deliberately colliding keys in each of the five keyed
// lists, optional fields present or absent, empty / invalid roles; Validate, InitGenesis, ExportGenesis
// and the export -> import round trip, also after transaction histories.

import (
	"fmt"
)

func init() { profiles["genesis"] = genGenesis }

func genGenesis(g *Gen, n int) {
	for sc := 0; sc < n; sc++ {
		g.line("BEGIN id=%d", sc)
		g.stats.Scripts++
		accts := []string{g.acct().String(), g.acct().String(), g.acct().String()}
		role := func() string {
			switch g.r.Intn(10) {
			case 0:
				g.stats.Mut("role-empty")
				return ""
			case 1:
				g.stats.Mut("role-invalid")
				return g.pick([]string{"garbage", "cosmos1qqqq", upper(accts[0])[:10]})
			case 2:
				g.stats.Mut("role-uppercase")
				return upper(accts[g.r.Intn(3)])
			}
			return accts[g.r.Intn(3)]
		}
		g.line("G-BEGIN")
		g.line("G role name=owner v=%x", role())
		g.line("G role name=attmgr v=%x", role())
		g.line("G role name=pauser v=%x", role())
		g.line("G role name=tokctl v=%x", role())
		if !g.r.Chance(1, 10) {
			g.line("G flag name=bm v=%d", g.r.Intn(2))
		} else {
			g.stats.Mut("bm-absent")
		}
		if !g.r.Chance(1, 10) {
			g.line("G flag name=sr v=%d", g.r.Intn(2))
		} else {
			g.stats.Mut("sr-absent")
		}
		if g.r.Chance(2, 3) {
			g.line("G num name=maxbody v=%d", g.randU64())
		} else {
			g.stats.Mut("maxbody-absent")
		}
		if g.r.Chance(2, 3) {
			g.line("G num name=nextnonce v=%d", g.randU64())
		} else {
			g.stats.Mut("nextnonce-absent")
		}
		switch g.r.Intn(6) {
		case 0:
			g.stats.Mut("threshold-absent")
		case 1:
			g.stats.Mut("threshold-zero")
			g.line("G num name=threshold v=0")
		default:
			g.line("G num name=threshold v=%d", 1+g.r.Intn(3))
		}
		dup := func(name string) bool {
			if g.r.Chance(1, 5) {
				g.stats.Mut("dup-" + name)
				return true
			}
			return false
		}
		// attesters
		atts := []string{"0x04aa", "0x04bb", "04cc", "0X04AA", "0x04aa/", "", "0x04a"}
		na := g.r.Intn(5)
		var chosenA []string
		for i := 0; i < na; i++ {
			chosenA = append(chosenA, atts[g.r.Intn(len(atts))])
		}
		if na > 0 && dup("attester") {
			chosenA = append(chosenA, chosenA[g.r.Intn(len(chosenA))])
		}
		for _, a := range chosenA {
			g.line("G attester v=%x", a)
		}
		// burn limits: denoms that differ only in case are distinct keys at genesis
		dens := []string{"uusdc", "UUSDC", "uUsdc", "other", "", "uusdc/"}
		nl := g.r.Intn(4)
		var chosenL []string
		for i := 0; i < nl; i++ {
			chosenL = append(chosenL, dens[g.r.Intn(len(dens))])
		}
		if nl > 0 && dup("limit") {
			chosenL = append(chosenL, chosenL[g.r.Intn(len(chosenL))])
		}
		for _, d := range chosenL {
			g.line("G limit denom=%x amt=%s", d, g.pick([]string{"0", "1", "1000000", "-7", "115792089237316195423570985008687907853269984665640564039457584007913129639935"}))
		}
		// token pairs
		type pr struct {
			d uint32
			t []byte
		}
		np := g.r.Intn(5)
		var chosenP []pr
		for i := 0; i < np; i++ {
			tok := pad32([]byte{byte(g.r.Intn(3))})
			if g.r.Chance(1, 5) {
				tok = g.patBytes([]int{0, 20, 31, 33}[g.r.Intn(4)]) // non-32-byte tokens are dead entries
			}
			chosenP = append(chosenP, pr{uint32(g.r.Intn(3)), tok})
		}
		if np > 0 && dup("pair") {
			chosenP = append(chosenP, chosenP[g.r.Intn(len(chosenP))])
		}
		for _, p := range chosenP {
			g.line("G pair domain=%d token=%x local=%x", p.d, p.t, g.pick([]string{"uusdc", "uUSDC", "x"}))
		}
		// used nonces
		nn := g.r.Intn(5)
		var chosenN [][2]uint64
		pool := [][2]uint64{{0, 0}, {0, 1}, {1, 0}, {0xffffffff, 0xffffffffffffffff}, {1, 256}, {256, 1}}
		for i := 0; i < nn; i++ {
			chosenN = append(chosenN, pool[g.r.Intn(len(pool))])
		}
		if nn > 0 && dup("nonce") {
			chosenN = append(chosenN, chosenN[g.r.Intn(len(chosenN))])
		}
		for _, p := range chosenN {
			g.line("G nonce domain=%d nonce=%d", p[0], p[1])
		}
		// messengers
		nm := g.r.Intn(4)
		var chosenM []uint32
		for i := 0; i < nm; i++ {
			chosenM = append(chosenM, []uint32{0, 1, 256, 0xffffffff}[g.r.Intn(4)])
		}
		if nm > 0 && dup("messenger") {
			chosenM = append(chosenM, chosenM[g.r.Intn(len(chosenM))])
		}
		for _, d := range chosenM {
			g.line("G messenger domain=%d addr=%x", d, g.patBytes([]int{32, 32, 32, 0, 20}[g.r.Intn(5)]))
		}
		g.line("G-END %d", g.n())
		g.line("EXPORT %d", g.n())
		g.line("ROUNDTRIP %d", g.n())
	}
	// states reached by histories: export and round trip
	for sc := 0; sc*4 < n; sc++ {
		g.line("BEGIN id=%d", 100000+sc)
		f := flowScn(g, flowMix{})
		f.Init()
		g.stats.Scripts++
		for i := 0; i < 30; i++ {
			switch g.r.Intn(6) {
			case 0:
				f.Deposit()
			case 1:
				f.Receive(true)
			case 2:
				g.tx("UpdateOwner", f.owner, fmt.Sprintf("new=%x", f.A(g.r.Intn(4))), "")
				g.stats.Mut("pending-owner-set")
			case 3:
				if g.tx("AcceptOwner", f.A(g.r.Intn(4)), "", "") == "ok" {
					g.stats.Mut("pending-owner-accepted")
				}
			default:
				f.Admin()
			}
			if g.r.Chance(1, 5) {
				g.line("EXPORT %d", g.n())
				g.line("ROUNDTRIP %d", g.n())
			}
		}
		g.line("EXPORT %d", g.n())
		g.line("ROUNDTRIP %d", g.n())
	}
}
