package main

// Enumerated matrices: receive conditions (C03), deposit preconditions (C08), pause flags x flows
// (C12), dependency-fault plans (C14).

import (
	"fmt"
	"math/big"

	"github.com/circlefin/noble-cctp/x/cctp/types"
)

// ---------- C03: a valid receive with a chosen subset of acceptance conditions broken ----------
var rcvConds = []string{"sr-paused", "bad-attestation", "short", "wrong-dest", "wrong-version", "nonce-used", "caller-other",
	"bm-paused", "body-length", "burn-version", "unlinked", "no-messenger", "sender-mismatch", "mint-fails"}

func (f *Flow) receiveWith(broken map[string]bool, module bool, variant int) {
	g := f.g
	from := f.A(0)
	src, nonce := uint32(g.r.Intn(3)), g.r.Next()
	sender := f.messengers[src]
	recipient := types.PaddedModuleAddress
	body := f.burnBody(src)
	if !module {
		recipient = g.r.Bytes(32)
		body = g.patBytes(g.pickInt([]int{0, 132, 200}))
	}
	version, dst := uint32(0), uint32(4)
	caller := make([]byte, 32)
	if variant%2 == 1 {
		caller = pad32(mustAcc(from))
	}
	plan := ""
	if broken["wrong-dest"] {
		dst = g.pickU32([]uint32{0, 5})
	}
	if broken["wrong-version"] {
		version = 1
	}
	if broken["caller-other"] {
		caller = pad32(mustAcc(f.A(1)))
		if variant%3 == 1 {
			caller = pad32(mustAcc(from))
			caller[3] = 9
		}
	}
	if broken["body-length"] {
		if len(body) > 0 {
			body = body[:len(body)-1]
		}
		if variant%2 == 1 {
			body = append(body, 1, 2)
		}
	}
	if broken["burn-version"] && len(body) >= 4 {
		body[3] = 1
	}
	if broken["unlinked"] && len(body) >= 36 {
		body[35] ^= 0x55
	}
	if broken["sender-mismatch"] {
		sender = g.r.Bytes(32)
	}
	if broken["no-messenger"] {
		src = 7
		// a pair for domain 7 exists in this scenario (see genReceiveMatrix) so that only the messenger is missing
		body = encBurnWithToken(body, pad32([]byte{0x77}))
	}
	if broken["mint-fails"] {
		plan = "f"
	}
	if broken["nonce-used"] {
		if variant%2 == 0 {
			// used by an earlier successful receive of another message with the same pair
			m0 := encMsg(0, src, 4, nonce, g.r.Bytes(32), g.r.Bytes(32), make([]byte, 32), nil)
			if f.sr {
				g.tx("UnpauseSendingAndReceivingMessages", f.pauser, "", "")
			}
			g.tx("ReceiveMessage", from, fmt.Sprintf("message=%x attestation=%x", m0, f.attestWith(m0, f.honest())), "")
			if f.sr {
				g.tx("PauseSendingAndReceivingMessages", f.pauser, "", "")
			}
		} else {
			src, nonce = 2, 424242 // listed in genesis
			sender = f.messengers[2]
			if module && !broken["no-messenger"] {
				body = f.burnBody(2)
				if broken["body-length"] {
					body = body[:131]
				}
				if broken["burn-version"] {
					body[3] = 1
				}
				if broken["unlinked"] {
					body[35] ^= 0x55
				}
			}
			if broken["sender-mismatch"] {
				sender = g.r.Bytes(32)
			}
		}
	}
	msg := encMsg(version, src, dst, nonce, sender, recipient, caller, body)
	if broken["short"] {
		msg = msg[:g.pickInt([]int{0, 115})]
	}
	att := f.attestWith(msg, f.honest())
	if broken["bad-attestation"] {
		switch variant % 3 {
		case 0:
			att = att[:len(att)-1]
		case 1:
			att = f.attestWith(append([]byte{1}, msg...), f.honest())
		default:
			att = append(att, att[:65]...)
		}
	}
	g.tx("ReceiveMessage", from, fmt.Sprintf("message=%x attestation=%x", msg, att), plan)
}

func encBurnWithToken(body, tok []byte) []byte {
	if len(body) < 36 {
		return body
	}
	out := append([]byte(nil), body...)
	copy(out[4:36], tok)
	return out
}

func genReceiveMatrix(g *Gen, n int) {
	var subsets [][]string
	subsets = append(subsets, nil)
	for i := range rcvConds {
		subsets = append(subsets, []string{rcvConds[i]})
	}
	for i := range rcvConds {
		for j := i + 1; j < len(rcvConds); j++ {
			subsets = append(subsets, []string{rcvConds[i], rcvConds[j]})
		}
	}
	full := n >= 16384
	if full {
		subsets = nil
		for m := 0; m < 1<<len(rcvConds); m++ {
			var s []string
			for i := range rcvConds {
				if m>>i&1 == 1 {
					s = append(s, rcvConds[i])
				}
			}
			subsets = append(subsets, s)
		}
	} else {
		for len(subsets) < n {
			var s []string
			for i := range rcvConds {
				if g.r.Chance(1, 4) {
					s = append(s, rcvConds[i])
				}
			}
			subsets = append(subsets, s)
		}
	}
	perScript := 12
	var f *Flow
	for i, sub := range subsets {
		if i%perScript == 0 {
			g.line("BEGIN id=%d", i/perScript)
			f = flowScn(g, flowMix{})
			f.nonces = append(f.nonces, types.Nonce{SourceDomain: 2, Nonce: 424242})
			f.pairs = append(f.pairs, types.TokenPair{RemoteDomain: 7, RemoteToken: pad32([]byte{0x77}), LocalToken: "uusdc"})
			f.Init()
			g.stats.Scripts++
		}
		broken := map[string]bool{}
		for _, c := range sub {
			broken[c] = true
			g.stats.Mut("cond:" + c)
		}
		g.stats.Mut(fmt.Sprintf("subset-size-%d", len(sub)))
		// flags
		want := func(cur bool, target bool, pause, unpause string) bool {
			if cur != target {
				ty := unpause
				if target {
					ty = pause
				}
				g.tx(ty, f.pauser, "", "")
			}
			return target
		}
		f.sr = want(f.sr, broken["sr-paused"], "PauseSendingAndReceivingMessages", "UnpauseSendingAndReceivingMessages")
		f.bm = want(f.bm, broken["bm-paused"], "PauseBurningAndMinting", "UnpauseBurningAndMinting")
		for _, module := range []bool{true, false} {
			f.receiveWith(broken, module, i)
		}
	}
}

// ---------- C08: deposit preconditions ----------
var depConds = []string{"amount", "over-limit", "token", "recipient", "no-messenger", "bm-paused", "sr-paused", "body-size", "cannot-pay", "burn-fails", "caller", "from"}

func genDepositMatrix(g *Gen, n int) {
	var subsets [][]string
	subsets = append(subsets, nil)
	for i := range depConds {
		subsets = append(subsets, []string{depConds[i]})
	}
	for i := range depConds {
		for j := i + 1; j < len(depConds); j++ {
			subsets = append(subsets, []string{depConds[i], depConds[j]})
		}
	}
	if n >= 4096 {
		subsets = nil
		for m := 0; m < 1<<len(depConds); m++ {
			var s []string
			for i := range depConds {
				if m>>i&1 == 1 {
					s = append(s, depConds[i])
				}
			}
			subsets = append(subsets, s)
		}
	} else {
		for len(subsets) < n {
			var s []string
			for i := range depConds {
				if g.r.Chance(1, 4) {
					s = append(s, depConds[i])
				}
			}
			subsets = append(subsets, s)
		}
	}
	limits := []string{"0", "1", "1000000", "57896044618658097711785492504343953926634992332820282019728792003956564819968", two256m1.String(), "-3", "none"}
	perScript := 10
	var f *Flow
	var lim string
	for i, sub := range subsets {
		if i%perScript == 0 {
			g.line("BEGIN id=%d", i/perScript)
			f = flowScn(g, flowMix{})
			f.limits = nil
			lim = limits[(i/perScript)%len(limits)]
			if lim != "none" {
				z, _ := new(big.Int).SetString(lim, 10)
				den := "uusdc"
				f.limits = append(f.limits, types.PerMessageBurnLimit{Denom: den, Amount: mathInt(z)})
			}
			f.maxBody = 132
			for j := range f.accts {
				f.bals[f.A(j)] = new(big.Int).Lsh(big.NewInt(1), 300)
			}
			f.bals[f.A(3)] = big.NewInt(5)
			f.Init()
			g.stats.Scripts++
		}
		broken := map[string]bool{}
		for _, c := range sub {
			broken[c] = true
			g.stats.Mut("cond:" + c)
		}
		g.stats.Mut(fmt.Sprintf("subset-size-%d", len(sub)))
		setFlag := func(cur, target bool, pause, unpause string) bool {
			if cur != target {
				ty := unpause
				if target {
					ty = pause
				}
				g.tx(ty, f.pauser, "", "")
			}
			return target
		}
		f.sr = setFlag(f.sr, broken["sr-paused"], "PauseSendingAndReceivingMessages", "UnpauseSendingAndReceivingMessages")
		f.bm = setFlag(f.bm, broken["bm-paused"], "PauseBurningAndMinting", "UnpauseBurningAndMinting")
		wantBody := int64(132)
		if broken["body-size"] {
			wantBody = 131
		}
		if f.maxBody != wantBody {
			g.tx("UpdateMaxMessageBodySize", f.owner, fmt.Sprintf("size=%d", wantBody), "")
			f.maxBody = wantBody
		}
		// amounts around the limit
		var amts []string
		if lim != "none" {
			z, _ := new(big.Int).SetString(lim, 10)
			if broken["over-limit"] {
				// limit+1, the maximum, and amounts above the limit whose low 64 (128) bits are at most the limit
				w := uint(g.pickInt([]int{64, 64, 128}))
				amts = []string{clamp256(new(big.Int).Add(z, big.NewInt(1))).String(), two256m1.String(),
					clamp256(new(big.Int).Add(new(big.Int).Lsh(big.NewInt(1), w), new(big.Int).Mod(z, new(big.Int).Lsh(big.NewInt(1), 63)))).String(),
					clamp256(new(big.Int).Lsh(big.NewInt(1), w)).String()}
				if z.Cmp(new(big.Int).Lsh(big.NewInt(1), w)) >= 0 {
					amts = amts[:2] // the limit itself is wider than a word: those amounts may be within it
				}
			} else {
				amts = []string{z.String(), clamp256(new(big.Int).Sub(z, big.NewInt(1))).String(), "1"}
			}
		} else {
			amts = []string{"1", two256m1.String(), "1000"}
		}
		if broken["amount"] {
			amts = []string{"0", "-1", "-"}
		}
		for vi, amt := range amts {
			from := f.A(0)
			if broken["cannot-pay"] {
				from = f.A(3)
			}
			if broken["from"] {
				from = g.pick([]string{"", "garbage", upper(from)})
			}
			dest := uint32(vi % 3)
			if broken["no-messenger"] {
				dest = 9
			}
			tok := g.pick([]string{"uusdc", "uusdc", "UUSDC", "uUsdc"})
			if broken["token"] {
				tok = g.pick([]string{"uusd", "other", "", "uusdcx"})
			}
			mr := g.r.Bytes(32)
			if vi%3 == 1 {
				mr = g.sparse32()
			}
			if broken["recipient"] {
				mr = [][]byte{make([]byte, 32), {}, make([]byte, 31)}[vi%3]
				if vi%3 == 2 {
					mr[0] = 1
				}
			}
			plan := ""
			if tok != "uusdc" && !broken["token"] {
				plan = "ss" // permissive ledger: only the module's own checks can stop a case variant
			}
			if broken["burn-fails"] {
				plan = "df"
				if tok != "uusdc" {
					plan = "sf"
				}
			}
			if vi%2 == 0 {
				g.tx("DepositForBurn", from, fmt.Sprintf("amount=%s dest=%d mint_recipient=%x burn_token=%x", amt, dest, mr, tok), plan)
			} else {
				caller := pad32(g.r.Bytes(20))
				if g.r.Chance(1, 3) {
					caller = g.sparse32()
				}
				if broken["caller"] {
					caller = [][]byte{make([]byte, 32), {}, g.r.Bytes(31), g.r.Bytes(33)}[g.r.Intn(4)]
				}
				g.tx("DepositForBurnWithCaller", from, fmt.Sprintf("amount=%s dest=%d mint_recipient=%x burn_token=%x caller=%x", amt, dest, mr, tok, caller), plan)
			}
		}
	}
}

// ---------- C12: pause flags x flows ----------
func genPauseMatrix(g *Gen, n int) {
	for sc := 0; sc < n; sc++ {
		for flags := 0; flags < 4; flags++ {
			g.line("BEGIN id=%d", sc*4+flags)
			f := flowScn(g, flowMix{})
			f.bm, f.sr = flags&1 == 1, flags&2 == 2
			f.maxBody = 8000
			for j := range f.accts {
				f.bals[f.A(j)] = new(big.Int).Lsh(big.NewInt(1), 200)
			}
			f.limits = nil
			f.Init()
			g.stats.Scripts++
			g.stats.Mut(fmt.Sprintf("flags-bm%d-sr%d", flags&1, flags>>1))
			flows := func() {
				from := f.A(0)
				// otherwise valid inputs for the eight flows
				g.tx("SendMessage", from, fmt.Sprintf("dest=1 recipient=%x body=%x", g.r.Bytes(32), g.r.Bytes(10)), "")
				f.harvest(from, false)
				if tm := f.messengers[1]; tm != nil {
					// a plain message to the very address the remote token messenger has: still a plain message
					g.tx("SendMessage", from, fmt.Sprintf("dest=1 recipient=%x body=%x", tm, g.r.Bytes(10)), "")
					g.tx("SendMessageWithCaller", from, fmt.Sprintf("dest=1 recipient=%x body=%x caller=%x", tm, g.r.Bytes(10), pad32(g.r.Bytes(20))), "")
				}
				g.tx("SendMessageWithCaller", from, fmt.Sprintf("dest=1 recipient=%x body=%x caller=%x", g.r.Bytes(32), g.r.Bytes(10), pad32(g.r.Bytes(20))), "")
				g.tx("DepositForBurn", from, fmt.Sprintf("amount=5 dest=0 mint_recipient=%x burn_token=%x", g.r.Bytes(32), "uusdc"), "")
				f.harvest(from, true)
				g.tx("DepositForBurnWithCaller", from, fmt.Sprintf("amount=5 dest=1 mint_recipient=%x burn_token=%x caller=%x", g.r.Bytes(32), "uusdc", pad32(g.r.Bytes(20))), "")
				// replacements of fabricated but validly attested originals
				om := encMsg(0, 4, 1, g.r.Next(), pad32(mustAcc(from)), g.r.Bytes(32), make([]byte, 32), g.r.Bytes(8))
				g.tx("ReplaceMessage", from, fmt.Sprintf("orig=%x att=%x new_body=%x new_caller=%x", om, f.attestWith(om, f.honest()), g.r.Bytes(9), pad32(g.r.Bytes(20))), "")
				od := encMsg(0, 4, 1, g.r.Next(), types.PaddedModuleAddress, g.r.Bytes(32), make([]byte, 32), encBurn(0, g.r.Bytes(32), g.r.Bytes(32), big.NewInt(77), pad32(mustAcc(from))))
				g.tx("ReplaceDepositForBurn", from, fmt.Sprintf("orig=%x att=%x new_caller=%x new_recipient=%x", od, f.attestWith(od, f.honest()), pad32(g.r.Bytes(20)), g.r.Bytes(32)), "")
				if len(od) >= 116+68 {
					// the same replacement keeping the mint recipient the original names: only the caller changes
					g.tx("ReplaceDepositForBurn", from, fmt.Sprintf("orig=%x att=%x new_caller=%x new_recipient=%x", od, f.attestWith(od, f.honest()), pad32(g.r.Bytes(20)), od[116+36:116+68]), "")
				}
				// receive: module-addressed and not
				m1 := encMsg(0, 0, 4, g.r.Next(), f.messengers[0], types.PaddedModuleAddress, make([]byte, 32), f.burnBody(0))
				g.tx("ReceiveMessage", from, fmt.Sprintf("message=%x attestation=%x", m1, f.attestWith(m1, f.honest())), "")
				m2 := encMsg(0, 1, 4, g.r.Next(), g.r.Bytes(32), g.r.Bytes(32), make([]byte, 32), g.r.Bytes(30))
				g.tx("ReceiveMessage", from, fmt.Sprintf("message=%x attestation=%x", m2, f.attestWith(m2, f.honest())), "")
				// not addressed to the module although the low 20 bytes of the recipient are the module address
				rc := append(g.r.Bytes(12), types.ModuleAddress...)
				rc[0] |= 1
				m3 := encMsg(0, 2, 4, g.r.Next(), f.messengers[2], rc, make([]byte, 32), f.burnBody(2))
				g.tx("ReceiveMessage", from, fmt.Sprintf("message=%x attestation=%x", m3, f.attestWith(m3, f.honest())), "")
				g.q("BurningAndMintingPaused", "")
				g.q("SendingAndReceivingMessagesPaused", "")
			}
			flows()
			// pause / unpause sequences by all accounts, flows after each
			seqLen := 4
			for i := 0; i < seqLen; i++ {
				ty := g.pick([]string{"PauseBurningAndMinting", "UnpauseBurningAndMinting", "PauseSendingAndReceivingMessages", "UnpauseSendingAndReceivingMessages"})
				who := f.pauser
				if g.r.Chance(1, 4) {
					who = f.A(g.r.Intn(4))
				}
				g.tx(ty, who, "", "")
				if g.r.Chance(1, 3) {
					g.tx(ty, who, "", "") // idempotence
				}
				// administrative actions stay available while paused
				if g.r.Chance(1, 2) {
					f.Admin()
				}
				flows()
			}
		}
	}
}

// ---------- C14: dependency-fault plans and late failures ----------
func genFaults(g *Gen, n int) {
	plans := []string{"", "f", "s", "df", "ff", "sf", "fs", "ds", "ss", "dd", "p", "dp", "sp"}
	lates := []string{"none", "sr-paused", "body-size", "caller-short", "caller-long", "messenger-zero", "recipient-short", "recipient-long"}
	for sc := 0; sc < n; sc++ {
		g.line("BEGIN id=%d", sc)
		f := flowScn(g, flowMix{})
		for j := range f.accts {
			f.bals[f.A(j)] = new(big.Int).Lsh(big.NewInt(1), 200)
		}
		f.bals[f.A(3)] = big.NewInt(3)
		f.limits = nil
		f.maxBody = 8000
		// a registered messenger that is all zero (only possible through genesis) makes the inner send fail after the burn
		f.messengers[5] = make([]byte, 32)
		f.Init()
		g.stats.Scripts++
		for pre := 0; pre < g.r.Intn(6); pre++ { // history point
			f.Send()
		}
		for _, late := range lates {
			for _, plan := range plans {
				from := f.A(g.pickInt([]int{0, 0, 3}))
				dest := uint32(0)
				mr := g.r.Bytes(32)
				caller := pad32(g.r.Bytes(20))
				withCaller := g.r.Chance(1, 2)
				g.stats.Mut("late:" + late)
				g.stats.Mut("plan:" + plan)
				restore := func() {}
				switch late {
				case "sr-paused":
					g.tx("PauseSendingAndReceivingMessages", f.pauser, "", "")
					restore = func() { g.tx("UnpauseSendingAndReceivingMessages", f.pauser, "", "") }
				case "body-size":
					g.tx("UpdateMaxMessageBodySize", f.owner, "size=131", "")
					restore = func() { g.tx("UpdateMaxMessageBodySize", f.owner, "size=8000", "") }
				case "caller-short":
					withCaller, caller = true, caller[:31]
				case "caller-long":
					withCaller, caller = true, append(caller, 1)
				case "messenger-zero":
					dest = 5
				case "recipient-short":
					mr = mr[:31]
				case "recipient-long":
					mr = append(mr, 1)
				}
				if withCaller {
					g.tx("DepositForBurnWithCaller", from, fmt.Sprintf("amount=2 dest=%d mint_recipient=%x burn_token=%x caller=%x", dest, mr, "uusdc", caller), plan)
				} else {
					g.tx("DepositForBurn", from, fmt.Sprintf("amount=2 dest=%d mint_recipient=%x burn_token=%x", dest, mr, "uusdc"), plan)
				}
				restore()
			}
		}
		// receives under mint faults, with a retry that must succeed once
		for pi, plan := range []string{"f", "s", "", "f", "f", "f", "p", "p"} {
			src, nonce := uint32(g.r.Intn(3)), g.r.Next()
			body := f.burnBody(src)
			if pi == 4 || pi == 5 {
				// boundary amounts under a failing mint: zero and the maximum
				amt := big.NewInt(0)
				if pi == 5 {
					amt = two256m1
				}
				copy(body[68:100], pad32(amt.Bytes()))
				g.stats.Mut("rcv-plan-f-boundary-amount")
			}
			m := encMsg(0, src, 4, nonce, f.messengers[src], types.PaddedModuleAddress, make([]byte, 32), body)
			att := f.attestWith(m, f.honest())
			g.stats.Mut("rcv-plan:" + plan)
			g.tx("ReceiveMessage", f.A(0), fmt.Sprintf("message=%x attestation=%x", m, att), plan)
			g.q("UsedNonce", fmt.Sprintf("domain=%d nonce=%d", src, nonce))
			g.tx("ReceiveMessage", f.A(1), fmt.Sprintf("message=%x attestation=%x", m, att), "")
			g.tx("ReceiveMessage", f.A(1), fmt.Sprintf("message=%x attestation=%x", m, att), "")
		}
	}
}
