package main

import (
	"bufio"
	"encoding/json"
	"flag"
	"fmt"
	"os"
	"sort"
	"strings"
)

// splitmix64: every random choice of a run derives from one state seeded by -seed.
type Rng struct{ s uint64 }

func (r *Rng) Next() uint64 {
	r.s += 0x9e3779b97f4a7c15
	z := r.s
	z = (z ^ (z >> 30)) * 0xbf58476d1ce4e5b9
	z = (z ^ (z >> 27)) * 0x94d049bb133111eb
	return z ^ (z >> 31)
}
func (r *Rng) Intn(n int) int {
	if n <= 0 {
		return 0
	}
	return int(r.Next() % uint64(n))
}
func (r *Rng) Bytes(n int) []byte {
	b := make([]byte, n)
	for i := range b {
		b[i] = byte(r.Next())
	}
	return b
}
func (r *Rng) Chance(num, den int) bool { return r.Intn(den) < num }

// Stats: the measured input distribution, written into the evidence file.
type Stats struct {
	TxOutcomes map[string]int `json:"tx_outcomes"`
	Mutations  map[string]int `json:"mutations"`
	Scripts    int            `json:"scripts"`
	Steps      int            `json:"steps"`
	Notes      map[string]int `json:"notes"`
}

func NewStats() *Stats {
	return &Stats{TxOutcomes: map[string]int{}, Mutations: map[string]int{}, Notes: map[string]int{}}
}
func (s *Stats) Tx(ty, class string) { s.TxOutcomes[ty+":"+class]++; s.Steps++ }
func (s *Stats) Mut(name string)     { s.Mutations[name]++ }
func (s *Stats) Note(name string)    { s.Notes[name]++ }

type profileFn func(g *Gen, n int)

var profiles = map[string]profileFn{}

func main() {
	profile := flag.String("profile", "", "generator profile")
	seed := flag.Uint64("seed", 1, "PRNG seed")
	n := flag.Int("n", 100, "number of cases / scripts")
	outPath := flag.String("out", "", "trace file")
	statsPath := flag.String("stats", "", "stats json file")
	replay := flag.String("replay", "", "re-execute the input lines of this script/trace")
	list := flag.Bool("list", false, "list profiles")
	flag.Parse()
	if *list {
		var names []string
		for k := range profiles {
			names = append(names, k)
		}
		sort.Strings(names)
		fmt.Println(strings.Join(names, "\n"))
		return
	}
	out := bufio.NewWriterSize(os.Stdout, 1<<20)
	if *outPath != "" {
		f, err := os.Create(*outPath)
		if err != nil {
			panic(err)
		}
		defer f.Close()
		out = bufio.NewWriterSize(f, 1<<20)
	}
	defer out.Flush()
	stats := NewStats()
	x := NewExec(out, stats)
	if *replay != "" {
		f, err := os.Open(*replay)
		if err != nil {
			panic(err)
		}
		sc := bufio.NewScanner(f)
		sc.Buffer(make([]byte, 1<<20), 1<<26)
		for sc.Scan() {
			x.Line(sc.Text())
		}
	} else {
		fn, ok := profiles[*profile]
		if !ok {
			fmt.Fprintln(os.Stderr, "unknown profile", *profile)
			os.Exit(2)
		}
		g := &Gen{x: x, r: &Rng{s: *seed}, stats: stats}
		fn(g, *n)
	}
	if *statsPath != "" {
		b, _ := json.MarshalIndent(stats, "", " ")
		os.WriteFile(*statsPath, b, 0o644)
	}
}
