package main

import (
	"fmt"
	"math/big"
	"strings"
)

// Gen carries the executor, the PRNG and the step counter shared by all profiles.
type Gen struct {
	x     *Exec
	r     *Rng
	stats *Stats
	step  int
	// recent transaction lines (without their step number), replayed now and then as dropped executions
	recent []string
}

func (g *Gen) n() int { g.step++; return g.step }

func (g *Gen) line(format string, a ...interface{}) { g.x.Line(fmt.Sprintf(format, a...)) }

func init() { profiles["codec"] = genCodec }

var codecLens = []int{0, 1, 4, 20, 52, 84, 115, 116, 117, 131, 132, 133, 247, 248, 249, 400}
var fieldLens = []int{0, 1, 31, 32, 32, 32, 32, 33, 64}

func (g *Gen) randLen(special []int, max int) int {
	if g.r.Chance(3, 4) {
		return special[g.r.Intn(len(special))]
	}
	return g.r.Intn(max + 1)
}

// patterned bytes: all-zero, all-ff, counting, random
func (g *Gen) patBytes(n int) []byte {
	b := make([]byte, n)
	switch g.r.Intn(5) {
	case 0:
	case 1:
		for i := range b {
			b[i] = 0xff
		}
	case 2:
		for i := range b {
			b[i] = byte(i + 1)
		}
	default:
		copy(b, g.r.Bytes(n))
	}
	return b
}

func (g *Gen) randAmount() *big.Int {
	two := big.NewInt(2)
	pow := func(k int64) *big.Int { return new(big.Int).Exp(two, big.NewInt(k), nil) }
	switch g.r.Intn(12) {
	case 0:
		return big.NewInt(0)
	case 1:
		return big.NewInt(1)
	case 2:
		return new(big.Int).Sub(pow(64), big.NewInt(1))
	case 3:
		return pow(64)
	case 4:
		return new(big.Int).Add(pow(64), big.NewInt(1))
	case 5:
		return pow(128)
	case 6:
		return pow(255)
	case 7:
		return new(big.Int).Sub(pow(256), big.NewInt(1))
	case 8:
		return big.NewInt(int64(g.r.Intn(1000000)))
	default:
		return new(big.Int).SetBytes(g.r.Bytes(1 + g.r.Intn(32)))
	}
}

func (g *Gen) randU32() uint32 {
	switch g.r.Intn(6) {
	case 0:
		return 0
	case 1:
		return 4
	case 2:
		return 0xffffffff
	case 3:
		return uint32(g.r.Intn(8))
	}
	return uint32(g.r.Next())
}
func (g *Gen) randU64() uint64 {
	switch g.r.Intn(6) {
	case 0:
		return 0
	case 1:
		return 0xffffffffffffffff
	case 2:
		return 1 << 32
	case 3:
		return uint64(g.r.Intn(100))
	}
	return g.r.Next()
}

func genCodec(g *Gen, n int) {
	// the hex spelling of a remote token -> the 32-byte field (types/token_pair.go)
	hexd := "0123456789abcdefABCDEF"
	for k := 0; k*40 < n; k++ {
		var toks []string
		full := fmt.Sprintf("%x", g.r.Bytes(32))
		toks = append(toks, full, "0x"+full, "0X"+full, strings.ToUpper(full), "00"+full, "0x00"+full, "0x0000"+full, full[:62], "0x"+full[:62], full[:63], "0x"+full[:63],
			full+"00", "+"+full, "-"+full, "0x+"+full[:63], "0x-"+full[:63], " "+full, full+" ", "", "0x", "0", "0x0", "zz", "0xzz", full[:10]+"g"+full[11:], "0x_"+full[:63])
		for t := 0; t < 10; t++ {
			l := g.pickInt([]int{1, 2, 3, 31, 32, 33, 63, 64, 65, 66, 67, 68, 130})
			b := make([]byte, l)
			for q := range b {
				b[q] = hexd[g.r.Intn(len(hexd))]
			}
			toks = append(toks, string(b), "0x"+string(b))
		}
		for _, tk := range toks {
			g.line("CODEC %d padtoken s=%x", g.n(), tk)
		}
		g.stats.Mut("padtoken")
	}
	g.line("BEGIN id=1")
	for i := 0; i < n; i++ {
		switch g.r.Intn(4) {
		case 0:
			l := g.randLen(codecLens, 400)
			g.stats.Mut(fmt.Sprintf("decmsg-len-%s", lenClass(l, 116)))
			g.line("CODEC %d decmsg bz=%x", g.n(), g.patBytes(l))
		case 1:
			l := g.randLen(codecLens, 400)
			g.stats.Mut(fmt.Sprintf("decburn-len-%s", lenClass(l, 132)))
			g.line("CODEC %d decburn bz=%x", g.n(), g.patBytes(l))
		case 2:
			ls, lr, lc := fieldLens[g.r.Intn(len(fieldLens))], fieldLens[g.r.Intn(len(fieldLens))], fieldLens[g.r.Intn(len(fieldLens))]
			if ls == 32 && lr == 32 && lc == 32 {
				g.stats.Mut("encmsg-wellformed")
			} else {
				g.stats.Mut("encmsg-badfield")
			}
			g.line("CODEC %d encmsg version=%d src=%d dst=%d nonce=%d sender=%x recipient=%x caller=%x body=%x", g.n(),
				g.randU32(), g.randU32(), g.randU32(), g.randU64(), g.patBytes(ls), g.patBytes(lr), g.patBytes(lc), g.patBytes(g.randLen([]int{0, 1, 132}, 300)))
		case 3:
			lt, lr, ls := fieldLens[g.r.Intn(len(fieldLens))], fieldLens[g.r.Intn(len(fieldLens))], fieldLens[g.r.Intn(len(fieldLens))]
			if lt == 32 && lr == 32 && ls == 32 {
				g.stats.Mut("encburn-wellformed")
			} else {
				g.stats.Mut("encburn-badfield")
			}
			g.line("CODEC %d encburn version=%d token=%x recipient=%x amount=%s sender=%x", g.n(),
				g.randU32(), g.patBytes(lt), g.patBytes(lr), g.randAmount().String(), g.patBytes(ls))
		}
	}
	g.stats.Scripts++
}

func lenClass(l, min int) string {
	switch {
	case l < min:
		return "short"
	case l == min:
		return "exact"
	}
	return "long"
}
