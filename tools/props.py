"""Per-property configuration of ./check: generator profiles (name, quick count, thorough count),
projection rules (step-type regex, observation kind, optional sub-filter regex on the line) and
monitors evaluated directly on the implementation's trace."""
import monitors as M

TRUSTED_BASE = [
    'Coq 8.16.1 kernel and its vm_compute machine (no native_compute); Print Assumptions of every property theorem: closed under the global context (no axioms); coqchk -o in the thorough tier: Axioms <none>',
    'extraction with the directives of ExtrOcamlBasic only (Extract Inductive bool, option, unit, list, prod, sumbool, sumor; Extract Inlined Constant andb, orb); numbers and bytes stay Coq datatypes; OCaml 4.13.1; Extract/modelrun.ml (string <-> byte list glue); cross-checked on every run by re-evaluating a trace prefix inside Coq with vm_compute',
    'the Go harness (reference ledger for x/bank and x/fiattokenfactory, re-implementation of baseapp\'s CacheContext/rollback rule, tracing store service, generators, canonical printers) and this Python comparison',
    'tools/goextract (go/ast translator producing Gen/*.v on every run: constants, write sets, source scan, the four codec functions as Gen/CodecIR values, and all 25 message handlers plus their two shared helpers as monadic Gallina programs over the primitives of Gen/GoSem.v, each with a machine-checked proof that it equals the hand-written model handler for every request and state) together with the meaning Gen/GoSem.v and Gen/CodecIR.v give to the Go constructs it accepts (the keeper storage methods, bech32/keccak/hex/FromHex library calls, math.Int methods, struct literals, copy into a fresh buffer, `x == nil` on a request byte field read as false)',
]
COMMON_ASSUMPTIONS = [
    'the model is tied to the code by lock-step differential execution, not by proof: each model step starts from the implementation\'s own state dump',
    'modelled rather than verified: bank / fiattokenfactory (reference ledger), baseapp rollback, IAVL as an ordered map, protobuf wire decoding, secp256k1 recovery (oracle table filled by go-ethereum), Unicode outside ASCII + U+017F + U+212A',
]

HOOK_COMMITS = ['ecfdecf6134e655e1b3825531d69c192388fc6ba']

ANY = r'.*'


ADMIN_RE = r'TX:(' + '|'.join(M.ADMIN_ROLE) + r')$'
ROLE_TX_RE = r'TX:(UpdateOwner|AcceptOwner|UpdateAttesterManager|UpdatePauser|UpdateTokenController)$'
ATT_TX_RE = r'TX:(EnableAttester|DisableAttester|UpdateSignatureThreshold)$'


def _unauth_map(sc):
    m = getattr(sc, '_unauth', None)
    if m is None:
        m = {}
        for (_sc, n, inp, cmd, ty, a, pre, obs) in M.walk([sc]):
            if cmd == 'TX' and ty in M.ADMIN_ROLE:
                st = M.state_of(pre)
                m[n] = st['role'].get(M.ADMIN_ROLE[ty]) != a.get('from')
        sc._unauth = m
    return m


def unauthorised(sc, n):
    return _unauth_map(sc).get(n, False)


CONFIG = {
    'C01': {
        'profiles': [('dropped', 40, 800), ('attest', 400, 6000), ('flows', 15, 400)],
        'rules': [(r'VERIFY', 'V', None), (r'TX:(ReceiveMessage|ReplaceMessage|ReplaceDepositForBurn)$', 'R', r'^(ok|err|panic)'),
                  # "enabled attester" means: enabled and not since disabled - the attester set after every attester transaction
                  (ATT_TX_RE, 'S', r'^attester '), (ATT_TX_RE, 'R', r'^(ok|err|panic)')],
        'monitors': [M.mon_c01],
        'level_text': 'Theorems for every message, attestation, attester list, threshold and EVERY recovery function: the verifier accepts exactly when the threshold is non-zero, the attestation is exactly threshold-many 65-byte chunks, each chunk (27/28 normalised to 0/1) recovers over keccak256(message) to the hex decoding of an enabled attester string, and the signer addresses are strictly increasing; hence an accepted attestation carries threshold-many pairwise distinct enabled keys (no duplicate, twin or reordering passes), wrong lengths are rejected, the verifier never panics, and receive / both replacements succeed only if it accepts with the attesters and threshold read from the current store. Tied to the Go verifier by differential execution of honest attestations by real secp256k1 keys under 16 mutation operators, directly and through the handlers; the quorum rule is also recomputed on the implementation trace from go-ethereum recoveries made by the harness.',
        'assumptions': ['not proved: that a recovered key means its holder signed (ECDSA unforgeability) and that honest signatures recover to the signer (exercised with real keys and both v encodings)'],
    },
    'C02': {
        'profiles': [('dropped', 30, 600), ('receive-history', 60, 1500), ('flows', 25, 600), ('receive-matrix', 100, 2000)],
        'rules': [(r'TX:ReceiveMessage', 'R', None), (ANY, 'S', r'^nonce '), (r'Q:UsedNonces?$', 'QR', None), (r'EXPORT', 'X', r'^nonce ')],
        'monitors': [M.mon_c02],
        'level_text': 'Theorems over all histories of any length from any chain and all pairs in uint32 x uint64: at most one receive of a pair succeeds (none if the pair was already used), a used pair stays used under every transaction type, a pair is used only if the start state listed it or a receive of it succeeded, the pairs accepted along a history are pairwise distinct, were all free at its start and are all used at its end, the store key is injective and decoded headers are in range. The Go keeper is tied to the model by differential execution of receive histories over colliding pools of pairs with retries after failures, attester rotation, pausing and re-linking; the at-most-once monitor runs on the implementation trace.',
    },
    'C03': {
        'profiles': [('receive-matrix', 150, 16384), ('flows', 20, 500), ('mint-values', 15, 400)],
        'rules': [(r'TX:ReceiveMessage', 'R', None), (r'TX:ReceiveMessage', 'D', None), (r'TX:ReceiveMessage', 'S', r'^(nonce|bal) ')],
        'monitors': [M.mon_c03],
        'level_text': 'Theorem (an iff, for all messages, attestations, submitters, states, ledgers and dependency plans): a receive succeeds exactly when the conjunction of the documented acceptance conditions holds, the mint-side conditions being consulted only for module-addressed messages; otherwise the chain, ledger and event stream are unchanged - so all combinations of violated conditions are covered at once. The Go handler is tied to the model by differential execution of a condition matrix (every subset of size <= 2 of 14 breakable conditions plus random subsets; thorough: all 2^14 subsets), each for module and non-module recipients. Tied to the Go source twice: by TRANSLATION (tools/goextract reads the handler(s) from /repo on every run and emits Gallina programs; the theorem file proves they equal the model handlers for every request and state wherever the model gives a verdict - evidence lists which functions were translated on this run and which, if any, the translator could not read) and by differential execution.',
    },
    'C08': {
        'profiles': [('deposit-matrix', 200, 4096), ('flows', 20, 500), ('outbound', 20, 500)],
        'rules': [(r'TX:DepositForBurn(WithCaller)?$', 'R', r'^(ok|err|panic)')],
        'monitors': [M.mon_c08],
        'level_text': 'Theorem (an iff, for all inputs, states, ledgers and dependency plans, both variants): a deposit succeeds exactly when the documented preconditions hold (positive amount within the limit stored under the lower-cased token, burn token = minting denom up to case folding and a valid denom, non-zero 32-byte recipient, non-zero 32-byte messenger, both flags off, 132 <= max body size, debit and burn succeed, non-zero 32-byte caller for the with-caller variant); limit and body-size boundaries are corollaries for every limit. The Go handlers are tied to the model by differential execution of a precondition matrix x amounts around seven limits, with faithful and permissive ledgers. Tied to the Go source twice: by TRANSLATION (tools/goextract reads the handler(s) from /repo on every run and emits Gallina programs; the theorem file proves they equal the model handlers for every request and state wherever the model gives a verdict - evidence lists which functions were translated on this run and which, if any, the translator could not read) and by differential execution.',
        'assumptions': ['environment: the module account address string is a valid address (env_ok, checked by computation on every run); the minting denom is ASCII'],
    },
    'C04': {
        'profiles': [('mint-values', 30, 600), ('flows', 25, 600), ('receive-matrix', 60, 1000)],
        'rules': [(ANY, 'D', r' Mint '), (r'TX:.*', 'E', r'(MintAndWithdraw|MessageReceived)'), (r'TX:ReceiveMessage', 'S', r'^bal '), (r'TX:ReceiveMessage', 'R', None)],
        'monitors': [M.mon_c04],
        'level_text': 'Theorems: a successful module-addressed receive makes exactly one dependency call, a mint in the module\'s own name of the 256-bit big-endian amount at body[68..100], in the lower-cased linked denom, to the account named by the low 20 bytes of the mint-recipient field, and emits MintAndWithdraw and MessageReceived with those values; other receives, failed transactions and every other transaction type mint nothing; over any history total minted equals the sum of the stated amounts of the accepted messages (distinct by C02). The Go handler is tied to the model by differential execution with amounts up to 2^256-1, recipients with non-zero high bytes and mixed-case local tokens installed through genesis; mint requests, both events and ledger balances are compared, and recomputed independently on the implementation trace.',
    },
    'C05': {
        'profiles': [('outbound', 40, 1000), ('flows', 25, 600), ('faults', 4, 40)],
        'rules': [(ANY, 'D', r' (Transfer|Burn) '), (r'TX:(SendMessage|SendMessageWithCaller|DepositForBurn|DepositForBurnWithCaller|ReplaceMessage|ReplaceDepositForBurn|ReceiveMessage)$', 'E', r'MessageSent'), (r'TX:(SendMessage|SendMessageWithCaller|DepositForBurn|DepositForBurnWithCaller|ReplaceMessage|ReplaceDepositForBurn|ReceiveMessage)$', 'S', r'^bal '), (r'TX:(SendMessage|SendMessageWithCaller|DepositForBurn|DepositForBurnWithCaller|ReplaceMessage|ReplaceDepositForBurn|ReceiveMessage)$', 'R', r'^(ok|err|panic)')],
        'monitors': [M.mon_c05],
        'level_text': 'Theorems: a successful deposit made exactly the transfer of the stated amount from the depositor to the module and the burn of that amount from the module, emitted one message speaking as the module whose burn body states that amount and the depositor, and changed the ledger by exactly those two effects; no other transaction type transfers or burns; sends carry the submitter\'s own padded address as sender and replacements keep the original sender, which replace-message checks to be the submitter and replace-deposit (speaking as the module) checks to be the module with the submitter as depositor. Tied to the Go handlers by differential execution (dependency requests, decoded MessageSent, balances), with the equalities recomputed on the implementation trace.',
        'assumptions': ['history-level conservation across replacements relies on honest attesters only attesting emitted messages (the harness signs fabricated originals too, which the monitor accounts for by checking each replacement against its own original)', 'math.Int values are at most 256 bits wide (wire decoding enforces it)'],
    },
    'C06': {
        'profiles': [('outbound', 40, 1000), ('replace', 25, 600), ('flows', 20, 500)],
        'rules': [(r'TX:(SendMessage|SendMessageWithCaller|DepositForBurn|DepositForBurnWithCaller|ReplaceMessage|ReplaceDepositForBurn|ReceiveMessage)$', 'E', r'(MessageSent|DepositForBurn)'), (r'TX:(SendMessage|SendMessageWithCaller|DepositForBurn|DepositForBurnWithCaller|ReplaceMessage|ReplaceDepositForBurn|ReceiveMessage)$', 'R', None)],
        'monitors': [M.mon_c06],
        'level_text': 'Theorems for the five producing transaction types: the emitted bytes equal the independent reference layout (Spec/Layout.v) of exactly version 0, source 4, the requested destination, the response nonce, the padded submitter (module for deposits), the requested recipient (registered messenger for deposits), the requested caller or 32 zero bytes, and the requested body (for deposits the version-0 burn message with keccak256 of the lower-cased denom, requested recipient, amount and padded depositor); the DepositForBurn event repeats those values; a replacement\'s event names the same burn token as the original deposit\'s. Tied to the Go handlers by differential execution and by an independent field-by-field decoder (own Keccak-256) on the implementation trace. Tied to the Go source twice: by TRANSLATION (tools/goextract reads the handler(s) from /repo on every run and emits Gallina programs; the theorem file proves they equal the model handlers for every request and state wherever the model gives a verdict - evidence lists which functions were translated on this run and which, if any, the translator could not read) and by differential execution.',
    },
    'C09': {
        'profiles': [('replace', 40, 1000), ('outbound', 20, 500)],
        'rules': [(r'TX:(ReplaceMessage|ReplaceDepositForBurn)$', 'R', None), (r'TX:(ReplaceMessage|ReplaceDepositForBurn)$', 'E', None),
                  (r'TX:(ReplaceMessage|ReplaceDepositForBurn)$', 'S', None), (r'TX:(ReplaceMessage|ReplaceDepositForBurn)$', 'D', None)],
        'monitors': [M.mon_c09],
        'level_text': 'Theorems: replace-message succeeds only when sending is not paused, the original verifies under the attesters and threshold stored now, has source domain 4 and the submitter as sender, and re-emits it with only body and caller changed; replace-deposit-for-burn additionally needs minting not paused, a 132-byte burn body whose depositor is the submitter, a non-zero new recipient and the module as original sender, and keeps burn token, amount, depositor and version; both leave store and ledger untouched and make no dependency call, accepted or not. Tied to the Go handlers by differential execution over own / foreign / fabricated / tampered / unattested / rotated-set originals. Tied to the Go source twice: by TRANSLATION (tools/goextract reads the handler(s) from /repo on every run and emits Gallina programs; the theorem file proves they equal the model handlers for every request and state wherever the model gives a verdict - evidence lists which functions were translated on this run and which, if any, the translator could not read) and by differential execution.',
    },
    'C12': {
        'profiles': [('dropped', 40, 800), ('pause-matrix', 6, 60), ('flows', 20, 500)],
        'rules': [(r'TX:(SendMessage|SendMessageWithCaller|DepositForBurn|DepositForBurnWithCaller|ReplaceMessage|ReplaceDepositForBurn|ReceiveMessage)$', 'R', r'^(ok|err|panic)'), (ANY, 'S', r'^flag '), (r'TX:(Pause|Unpause).*', 'R', None), (r'TX:(Pause|Unpause).*', 'E', None),
                  (r'Q:(BurningAndMintingPaused|SendingAndReceivingMessagesPaused)', 'QR', None)],
        'monitors': [M.mon_c12],
        'level_text': 'Theorems: with sending-and-receiving paused none of the eight flows succeeds; with burning-and-minting paused no deposit, deposit replacement or module-addressed receive succeeds, while sends, message replacements and other receives are provably independent of that flag (non-interference of the handler function); all 18 administrative handlers are independent of both flags; each flag changes only through its own pause/unpause by the pauser; pausing is idempotent and unpause after pause restores the store; along every history without a pause/unpause of a set flag the flag stays set and the number of successful flows it names is 0. Tied to the Go handlers by exhaustive execution of 4 flag states x 8 flows with otherwise valid inputs, before and after pause/unpause sequences by all accounts. Tied to the Go source twice: by TRANSLATION (tools/goextract reads the handler(s) from /repo on every run and emits Gallina programs; the theorem file proves they equal the model handlers for every request and state wherever the model gives a verdict - evidence lists which functions were translated on this run and which, if any, the translator could not read) and by differential execution.',
    },
    'C14': {
        'profiles': [('dropped', 30, 600), ('faults', 6, 80), ('flows', 20, 500)],
        'rules': [(r'TX:(DepositForBurn|DepositForBurnWithCaller|ReceiveMessage)$', 'R', r'^(ok|err|panic)'), (r'TX:(DepositForBurn|DepositForBurnWithCaller|ReceiveMessage)$', 'D', None),
                  (r'TX:(DepositForBurn|DepositForBurnWithCaller|ReceiveMessage)$', 'S', None), (r'TX:(DepositForBurn|DepositForBurnWithCaller|ReceiveMessage)$', 'E', None)],
        'monitors': [M.mon_c14],
        'level_text': 'Theorems for all states, requests and all dependency plans: a deposit succeeds only if the debit and the burn both succeeded, a message was emitted and the nonce reserved; a plan that fails the transfer or the burn makes the deposit an error; a module-addressed receive succeeds only if the mint succeeded; the validation failures detected after the burn (sending paused, oversized body, malformed caller, zero/short messenger, wrong-size recipient) are errors; a transaction that is not accepted leaves chain, ledger and events exactly as before, while the handler\'s own branch is provably dirty (vm_compute example). Tied to the Go code by enumeration of dependency plans x late-failure kinds; partial in that baseapp\'s branch-and-discard rule is re-implemented in the harness, not verified.',
        'assumptions': ['the SDK discards the state branch and events of a message whose handler returned an error: re-implemented in the harness (CacheContext, write only on success) and as deliver in the model'],
    },
    'C07': {
        'profiles': [('dropped', 30, 600), ('outbound', 60, 1500), ('flows', 25, 600), ('replace', 25, 600)],
        'rules': [(r'TX:(SendMessage|SendMessageWithCaller|DepositForBurn|DepositForBurnWithCaller|ReplaceMessage|ReplaceDepositForBurn)$', 'R', None),
                  (ANY, 'S', r'^num name=nextnonce'), (r'Q:NextAvailableNonce', 'QR', None),
                  (r'TX:(SendMessage|SendMessageWithCaller|DepositForBurn|DepositForBurnWithCaller|ReplaceMessage|ReplaceDepositForBurn)$', 'E', r'MessageSent')],
        'monitors': [M.mon_c07],
        'level_text': 'Theorems: a successful producer returns the counter value it found, emits a message carrying that nonce and advances the counter by one; every other transaction (failed attempts, replacements, all other types) leaves the counter alone; along every history the counter equals start + number of successes mod 2^64, and the nonces answered by the producing transactions of the history, in order, are the consecutive uint64 values from the starting counter, one per success, pairwise distinct until 2^64 have been handed out; replacements re-emit the original nonce. The Go keeper is tied to the model by differential execution of interleaved sends, deposits, replacements and failures from several starting counters (absent, 0, random, 2^64-2).',
        'assumptions': ['the uint64 wrap after 2^64 - start successful sends is the code\'s arithmetic and is written into the model (mod 2^64); it is not treated as a finding'],
    },
    'C17': {
        'profiles': [('genesis', 150, 4000)],
        'rules': [(r'G-END', 'GV', None), (r'G-END', 'GI', None), (r'G-END', 'S', None), (r'EXPORT', 'XR', None), (r'EXPORT', 'X', None)],
        'monitors': [M.mon_c17],
        'level_text': 'Theorems: validation accepts only genesis states whose five keyed lists have pairwise distinct store keys; for every validated and initialised genesis the export has the same roles and flags, the documented defaults for absent counters and a permutation of each list; for every state reachable from an initialised genesis, import of its export reproduces the store up to the pending-owner slot (store well-formedness and exportability are proved invariants). The full round-trip statement is refuted for the code as it stands (no genesis field for the pending owner: recorded known finding), with the witness in the property file. Tied to the Go code by differential execution of Validate / InitGenesis / ExportGenesis on generated genesis states with colliding keys in each list, and by evaluating export -> import on the real store (raw key/value comparison) after histories. InitGenesis and ExportGenesis are also tied by TRANSLATION: tools/goextract translates both functions of x/cctp/genesis.go on every run (loops over the genesis lists, pointer fields, the threshold panic) and C17_go_genesis_functions_are_the_model proves that the translated InitGenesis run on an empty store leaves exactly the model store and the translated ExportGenesis returns exactly the model export on every chain whose pause flags are set and GenesisState.Validate is translated too: the translated function accepts exactly the genesis states the model validate accepts (the keeper storage methods are tied by differential execution only).',
        'assumptions': ['token-pair keys are Keccak-256 digests: distinct (domain, token) pairs share a key only on a hash collision, which validation (comparing the derived keys) would reject anyway'],
    },
    'C19': {
        'profiles': [('dropped', 30, 600), ('registry', 25, 600), ('admin-random', 20, 400)],
        'rules': [(r'Q:.*', 'QR', None), (r'TX:(EnableAttester|DisableAttester|LinkTokenPair|UnlinkTokenPair|AddRemoteTokenMessenger|RemoveRemoteTokenMessenger|SetMaxBurnAmountPerMessage)$', 'R', None),
                  (ANY, 'S', r'^(attester|limit|pair|messenger|nonce) ')],
        'monitors': [M.mon_c19],
        'level_text': 'Theorems: each registry transaction is exactly one insert / remove / upsert on its own collection at the key it names (duplicates and unknown removals rejected), the ordered map obeys the exact-map laws (one entry created, exactly that entry deleted, distinct keys independent), key derivations are injective (token pairs: up to a Keccak-256 collision), single-item queries find an entry iff it exists and return the entry stored for that key, scalar queries return the stored values; for the model of cosmos-sdk query.Paginate a page is firstn limit (skipn offset l) resp. firstn limit (from_key cursor l) with the next key and total, and following next_key (key mode) or advancing the offset (offset mode) returns every entry exactly once in key order for every page size >= 1, the hypotheses (sorted, non-empty keys) being invariants of every reachable store. Tied to the Go keeper by differential execution of registry histories over colliding key pools with all queries and complete paging in both modes, forward and reverse; an independent reference (maps maintained from transaction outcomes, own Keccak) runs on the implementation trace. Tied to the Go source twice: by TRANSLATION (tools/goextract reads the handler(s) from /repo on every run and emits Gallina programs; the theorem file proves they equal the model handlers for every request and state wherever the model gives a verdict - evidence lists which functions were translated on this run and which, if any, the translator could not read) and by differential execution. The fourteen single-answer gRPC queries are translated from the Go source as well and proved to answer exactly what run_query answers (C19_go_queries_are_the_model); the five paginated queries are tied by differential execution against the Paginate model.',
        'assumptions': ['query.Paginate is modelled from the cosmos-sdk v0.50.7 source (Lib/Paginate.v), not verified; offset + limit < 2^64 in the page theorems (the uint64 wrap is written into the model)'],
    },
    'C20': {
        'profiles': [('shapes', 10, 200), ('registry', 8, 100)],
        'rules': [(r'TX:.*', 'R', r'^panic'), (r'Q:.*', 'QR', r'^panic'), (r'CODEC:.*', 'C', r'^panic'), (r'CLIADDR', 'A', r'^panic'), (r'VERIFY', 'V', r'^panic')],
        'monitors': [M.mon_c20],
        'level_text': 'Theorems: in every state whose four role slots are set (an invariant of every chain initialised from a genesis, proved) no transaction of any of the 25 types, with any field values (absent amounts, empty / short / long byte fields, malformed addresses, any text of the modelled alphabet) and any dependency plan, panics; the verifier never panics; the decoders are total; the CLI address parser never panics; a query panics only inside cosmos-sdk\'s Paginate for a reverse request whose cursor is the last key (refutation witness in the property file; recorded known finding). Tied to the Go code by running every entry point under recover() over every field shape varied independently in five reachable states, with nil and empty absent fields; ANY implementation panic is a violation whatever the model says.',
        'assumptions': ['partial: panic sites inside dependencies that were not found by reading can only be found by the sampling; text outside ASCII + U+017F + U+212A is exercised on the implementation only (the model answers Unmodelled)'],
    },
    'C18': {
        'profiles': [('dropped', 10, 100), ('determinism', 12, 200), ('replace', 10, 200)],
        'rules': [(r'TX:.*', 'R', None), (r'TX:.*', 'E', None), (r'TX:.*', 'S', None), (r'TX:.*', 'D', None), (r'Q:.*', 'QR', None), (r'EXPORT', 'X', None)],
        'monitors': [M.mon_request_untouched, M.mon_c18],
        'level_text': 'Partial by nature. Proved: the model\'s transition is a function of (environment, chain, dependency plan, transaction) with no other input; a system of several instances under ANY interleaving leaves each instance exactly where its own history alone would (induction over the schedule); the store is canonical (insertions at distinct keys commute); and the Go source as it is now has no import of time / rand / os / sync / unsafe / runtime, no go or select statement, no range over a map and no write to a package-level variable in the state machine (scan regenerated from the source on every run). Not provable in any Gallina model - map iteration order, scheduling, data races - is covered as support by replaying every script on a fresh instance, after an unrelated history in the same process, and concurrently on 8 goroutines (thorough: under the race detector), comparing responses, events, dependency requests, typed state and the IAVL root hash with the first execution and with the model.',
        'assumptions': ['runtime behaviour (map order, scheduler, races) is sampled by replays, not proved'],
    },
    'C10': {
        'profiles': [('dropped', 40, 800), ('roles-matrix', 324, 324), ('admin-random', 30, 600)],
        # the property speaks about submitters who do not hold the role: only those steps are compared
        'rules': [(ADMIN_RE, 'R', None, unauthorised), (ADMIN_RE, 'S', None, unauthorised), (ADMIN_RE, 'E', None, unauthorised),
                  (ADMIN_RE, 'WF', None, unauthorised)],   # the theorem also says the handler's own branch is untouched

        'monitors': [M.mon_c10],
        'level_text': 'Theorem for all states with the four role slots set (an invariant of every initialised chain, also proved), all 18 privileged transaction types and all submitters other than the holder of the matching role: the outcome is an error (never a panic) and store, ledger, events and dependency calls are untouched. The Go handlers are tied to the model by exhaustive differential execution of the whole matrix (every assignment of five role slots over three accounts x 18 types x 3 submitters) in both tiers. In addition C10_go_handlers_reject_wrong_role is proved about the 18 handlers AS TRANSLATED from the Go source of /repo on every run (tools/goextract -> Gen/GoH_*.v): each rejects every submitter who does not hold the role of the role table and returns the state untouched (evidence lists which handlers were translated on this run).',
        'assumptions': ['accounts are identified by the From string as the code does; an upper-case spelling of the holder is a different submitter'],
    },
    'C11': {
        'profiles': [('dropped', 30, 600), ('roles-lifecycle', 60, 1500), ('roles-matrix', 60, 324)],
        'rules': [(ANY, 'S', r'^role '), (ROLE_TX_RE, 'R', None), (ROLE_TX_RE, 'E', None), (r'Q:Roles', 'QR', None)],
        'monitors': [M.mon_c11],
        'level_text': 'Theorem: for every transaction of every type by every submitter, accepted or not, the five role slots move exactly as the lifecycle automaton (Spec/Lifecycle.v) says, and therefore along every history; supersession, no replay of an acceptance, ownership only by acceptance of the pending owner, other roles only by the owner\'s update and only to valid addresses are proved on the automaton. The Go handlers are tied to the model by differential execution of role histories with valid, malformed, wrong-prefix, empty, upper-case and decorated-valid (white space, NUL, 0x, doubled, truncated) new holders, interleaved with every other transaction type. Tied to the Go source twice: by TRANSLATION (tools/goextract reads the handler(s) from /repo on every run and emits Gallina programs; the theorem file proves they equal the model handlers for every request and state wherever the model gives a verdict - evidence lists which functions were translated on this run and which, if any, the translator could not read) and by differential execution.',
    },
    'C13': {
        'profiles': [('dropped', 30, 600), ('attester-closure', 100, 1000), ('admin-random', 30, 600)],
        'rules': [(ATT_TX_RE, 'R', None), (ANY, 'S', r'^(attester |num name=threshold)'), (ATT_TX_RE, 'E', None),
                  (ATT_TX_RE, 'WF', None),   # rejected attester transactions do not even touch their own branch (the named rejections are handler equalities)
                  (r'Q:(Attesters|SignatureThreshold)', 'QR', None)],
        'monitors': [M.mon_c13],
        'level_text': 'Theorem: 1 <= threshold <= number of enabled attesters is preserved by every transaction of every type with any arguments by any submitter, hence along every history of any length (up to the 2^32 point where Go\'s uint32(len) wraps, stated); the six named rejections are proved to be errors without effect. The Go handlers are tied to the model by exhaustive differential execution from every start state over a universe of 4 (thorough: 5) attester strings. Tied to the Go source twice: by TRANSLATION (tools/goextract reads the handler(s) from /repo on every run and emits Gallina programs; the theorem file proves they equal the model handlers for every request and state wherever the model gives a verdict - evidence lists which functions were translated on this run and which, if any, the translator could not read) and by differential execution.',
    },
    'C15': {
        'profiles': [('admin-random', 40, 800), ('roles-matrix', 40, 324), ('flows', 25, 600), ('replace', 20, 500), ('genesis', 60, 600)],
        'rules': [(r'TX:.*', 'S', None), (r'TX:.*', 'R', r'^(ok|err|panic)'),
                  # a transaction that fails writes nothing to the chain whatever its handler did; whether the handler wrote to its own
                  # branch before failing is compared with the proven handler (a difference has no failing input at transaction level)
                  (r'TX:.*', 'WF', None)],
        'model_monitors': [M.mon_c15],
        'level_text': 'Theorem: for every transaction type, input, state and dependency plan the store after the transaction agrees with the store before on every entry outside the documented write set (Spec/WriteDoc.v); transactions that are not accepted change nothing; collections a type does not write are unchanged as lists. Tied to the Go code twice: the tracing store service records every raw key written by every call and they must lie inside the documented set evaluated by the extracted specification for the concrete request; the per-handler write primitives are regenerated from the Go source on every run.',
    },

    'C16': {
        'profiles': [('codec', 3000, 100000)],
        'rules': [(r'CODEC:.*', 'C', None)],
        'level_text': 'Theorems for all byte strings and all values: the model codec equals an independent literal-offset layout of the CCTP formats, decode-then-encode and encode-then-decode are identities on valid sizes / well-formed values, wrong sizes are rejected. The Go Parse/Bytes functions are tied to the model twice: (1) by translation - tools/goextract translates Message.Parse/Bytes and BurnMessage.Parse/Bytes of /repo into a small codec representation on every run (guards, offsets and widths with constants resolved by value, readers/writers, temporaries resolved) and C16_go_source_translates_to_the_model proves that what was generated is well-formed and means exactly the model decoders/encoders for every input; (2) by differential execution on generated and boundary-length inputs.',
        'assumptions': ['the meaning Gen/CodecIR.v gives to the accepted Go statement forms (slice reads, BigEndian.UintK/PutUintK, big.Int SetBytes/FillBytes, copy into a tiling of the result buffer) is trusted with the translator', 'integers of a decoded Message are uint32/uint64 in Go; the encode->decode theorem states those ranges as message_wf / burn_wf'],
    },
}

import os
ALLK = ['R','E','D','S','QR','V','A','C','GV','GI','XR','X','WF']
CONFIG['DEV'] = {
    'claimed': False, 'na_reason': 'development aid, not a property',
    'profiles': [(x, int(os.environ.get('DEV_N', '5')), 50) for x in os.environ.get('DEV_PROFILES', 'admin-random').split(',')],
    'rules': [(ANY, k, None) for k in ALLK],
    'level_text': 'dev',
}
