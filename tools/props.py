"""Per-property configuration of ./check: generator profiles (name, quick count, thorough count),
projection rules (step-type regex, observation kind, optional sub-filter regex on the line) and
monitors evaluated directly on the implementation's trace."""
import monitors as M

TRUSTED_BASE = [
    'Coq 8.16.1 kernel and its vm_compute machine (no native_compute)',
    'extraction with ExtrOcamlBasic directives only (bool, option, list, prod, unit, sumbool); numbers and bytes stay Coq datatypes; OCaml 4.13.1; Extract/modelrun.ml (string <-> byte list glue)',
    'the Go harness (reference ledger for x/bank and x/fiattokenfactory, re-implementation of baseapp\'s CacheContext/rollback rule, tracing store service, generators, canonical printers) and this Python comparison',
    'tools/goextract (syntactic go/ast translator producing Gen/*.v)',
]
COMMON_ASSUMPTIONS = [
    'the model is tied to the code by lock-step differential execution, not by proof: each model step starts from the implementation\'s own state dump',
    'modelled rather than verified: bank / fiattokenfactory (reference ledger), baseapp rollback, IAVL as an ordered map, protobuf wire decoding, secp256k1 recovery (oracle table filled by go-ethereum), Unicode outside ASCII + U+017F + U+212A',
]

HOOK_COMMITS = ['ecfdecf6134e655e1b3825531d69c192388fc6ba']

ANY = r'.*'

CONFIG = {
    'C16': {
        'profiles': [('codec', 3000, 100000)],
        'rules': [(r'CODEC:.*', 'C', None)],
        'level_text': 'Theorems for all byte strings and all values: the model codec equals an independent literal-offset layout of the CCTP formats, decode-then-encode and encode-then-decode are identities on valid sizes / well-formed values, wrong sizes are rejected. The Go Parse/Bytes functions are tied to the model by differential execution on generated and boundary-length inputs.',
        'assumptions': ['integers of a decoded Message are uint32/uint64 in Go; the encode->decode theorem states those ranges as message_wf / burn_wf'],
    },
}
