#!/bin/bash
# usage: tools/try_mutant.sh <patch.diff> <property>...   applies the patch to /repo, runs the quick checks, reverts.
P=$(realpath $1); shift
git -C /repo apply "$P" || { echo "patch does not apply"; exit 2; }
trap 'git -C /repo checkout -- . ; git -C /repo clean -fdq x/ ; git -C /repo status --short | head -3' EXIT
for p in "$@"; do
  VERIF_NO_EVIDENCE=1 /verif/check $p --tier quick 2>&1 | grep -E "VIOLATION|KNOWN|steps," | cut -c1-400 | head -6
done
