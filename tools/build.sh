#!/bin/bash
# Builds everything a check needs, incrementally, from /verif and from /repo's current working tree:
#   1. Gen/*.v regenerated from the Go source by tools/goextract (when present)
#   2. the whole Coq development (full .vo build, coq_makefile)
#   3. the extracted model + OCaml driver (build/ml/modelrun)
#   4. the Go harness against /repo with -tags verif (build/harness)
# Serialised by a lock so that checks started concurrently share one build.
set -u
V=/verif
B=$V/build
mkdir -p $B/ml $B/logs
exec 9>$B/.lock
flock 9
export GOFLAGS=-mod=mod GOPROXY=off GOSUMDB=off GOTOOLCHAIN=local GOWORK=off CGO_ENABLED=1
export GOCACHE=${GOCACHE:-/root/.cache/go-build}
fail() { echo "BUILD-FAILED stage=$1"; exit 3; }

# 1. generated facts
if [ -d $V/tools/goextract ]; then
  ( cd $V/tools/goextract && go build -o $B/goextract . ) > $B/logs/goextract-build.log 2>&1 || fail goextract-build
  $B/goextract -repo /repo -out $V/coq/Gen > $B/logs/goextract.log 2>&1 || fail goextract-run
fi

# 2. Coq
cd $V/coq
if [ ! -f Makefile ] || [ _CoqProject -nt Makefile ]; then
  coq_makefile -f _CoqProject -o Makefile > /dev/null 2>&1 || fail coq_makefile
fi
# -k: a proof or generated-fact file that no longer checks must not hide the others; each check re-compiles its own
# property file and reports exactly the obligation that broke.  The model itself (needed for extraction) must build.
timeout 3000 make -k -j16 > $B/logs/coq.log 2>&1 || echo "COQ-PARTIAL: some files did not compile (see build/logs/coq.log)"
for f in Model/Driver.vo Spec/WriteDoc.vo; do [ -f $V/coq/$f ] || { tail -30 $B/logs/coq.log; fail coq-model; }; done

# 3. extraction + OCaml driver (re-extracted whenever a model file was recompiled)
if [ ! -x $B/ml/modelrun ] || [ $V/coq/Extract/modelrun.ml -nt $B/ml/modelrun ] || [ $V/coq/Extract/Extract.v -nt $B/ml/modelrun ] \
   || find $V/coq/Model $V/coq/Lib $V/coq/Spec -name '*.vo' -newer $B/ml/modelrun | grep -q . ; then
  ( cd $B/ml && cp $V/coq/Extract/Extract.v . && coqc -R $V/coq Cctp Extract.v > /dev/null && \
    cp $V/coq/Extract/modelrun.ml . && ocamlfind ocamlopt -O3 -w -a model.mli model.ml modelrun.ml -o modelrun ) > $B/logs/ocaml.log 2>&1 || { tail -20 $B/logs/ocaml.log; fail ocaml; }
fi

# 4. harness
( cd $V/harness && cp /repo/go.sum . && go build -tags verif -o $B/harness . ) > $B/logs/harness.log 2>&1 || { tail -30 $B/logs/harness.log; fail harness; }
echo BUILD-OK
