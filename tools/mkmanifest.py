#!/usr/bin/env python3
"""Regenerates /verif/MANIFEST.json from tools/props.py (claimed checks) and properties.jsonl."""
import json, sys
sys.path.insert(0, '/verif/tools')
import props
ids = [json.loads(l)['id'] for l in open('/verif/properties.jsonl')]
checks, na = [], []
for pid in ids:
    c = props.CONFIG.get(pid)
    if not c or not c.get('claimed', True):
        na.append({'property_id': pid, 'reason': (c or {}).get('na_reason', 'check not built yet (work in progress); the design claims it, see DESIGN.md section 5')})
        continue
    checks.append({
        'property_id': pid,
        'quick_cmd': './check %s --tier quick' % pid,
        'thorough_cmd': './check %s --tier thorough' % pid,
        'evidence_file': '/verif/evidence/%s.json' % pid,
        'replay_cmd_template': './check %s --replay {path}' % pid,
        'engine': 'coq-model',
        'level_claimed': {'category': 'proof', 'text': c['level_text'], 'design_ref': 'DESIGN.md section 5, ' + pid},
        'level_note': c.get('level_note', 'Trusted: Coq 8.16.1 kernel (vm_compute, no native_compute), no axioms (Print Assumptions: closed under the global context); the tie between model and code is lock-step differential execution through extraction (ExtrOcamlBasic only) and the Go harness, not a proof; bank/fiattokenfactory, baseapp rollback, IAVL, protobuf decoding and secp256k1 are modelled, see DESIGN.md section 7.'),
        'technique': c.get('technique', 'Coq theorems over a hand-written executable Gallina model + per-step correspondence (differential execution) with the Go keeper'),
    })
m = {
    'version': 1,
    'setup_cmd': './tools/build.sh',
    'hooks': {'guard': 'verif', 'enable': 'go build -tags verif (the harness module replaces github.com/circlefin/noble-cctp by /repo and is built with -tags verif)',
              'baseline_off_cmd': 'cd /repo && go test -vet=off -count=1 ./... && (cd api && go test -vet=off -count=1 ./...)',
              'source_commits': props.HOOK_COMMITS, 'add_only': True},
    'engines': [{'name': 'coq-model', 'path': '/verif/coq', 'serves_properties': [c['property_id'] for c in checks],
                 'kind_free_text': 'machine-checked proof in Coq 8.16.1 over an executable model, tied to the Go code by differential execution (extracted OCaml driver vs Go harness on the real keeper) and by facts regenerated from the Go source'}],
    'checks': checks,
    'not_applicable': na,
    'notes': 'See DESIGN.md. known_findings.json lists genuine defects (fixed by fix: commits, or recorded).',
}
json.dump(m, open('/verif/MANIFEST.json', 'w'), indent=1)
print('claimed', len(checks), 'not claimed', len(na))
