// goextract regenerates, from the Go source of /repo on every run, the static facts that some theorems
// are about: integer and string constants (Gen/Consts.v), the store-writing primitives reachable from
// every entry point (Gen/WriteSets.v), and a scan for sources of nondeterminism (Gen/Scan.v).
// It uses go/parser and go/ast only (syntactic; reachability over-approximated by function / method name).
package main

import (
	"flag"
	"fmt"
	"go/ast"
	"go/parser"
	"go/token"
	"os"
	"path/filepath"
	"sort"
	"strconv"
	"strings"
)

type fn struct {
	name, recv, file string
	calls            map[string]bool
	setKeys, delKeys map[string]bool // key constants used by Set / Delete calls in this body
	writes           bool
	usesSvc          bool
	rangesMap        []string
	goStmts, selects int
}

func coqStr(s string) string { return `"` + strings.ReplaceAll(s, `"`, `""`) + `"` }

func main() {
	repo := flag.String("repo", "/repo", "repository root")
	out := flag.String("out", "", "output directory (coq/Gen)")
	flag.Parse()
	fset := token.NewFileSet()
	dirs := []string{"x/cctp/keeper", "x/cctp/types", "x/cctp", "x/cctp/client/cli"}
	fns := map[string]*fn{}
	ints := map[string]int64{}
	strs := map[string]string{}
	byteVars := map[string]string{}
	imports := map[string][]string{} // import path -> files
	pkgVars := map[string]string{}   // package-level var -> file
	varWrites := []string{}
	ctxLiveness := []string{} // uses of ctx.Err / ctx.Done / ctx.Deadline: whether the Go context is still live is a fact about the process
	mapDecls := map[string]bool{}
	scalarInts := map[string]int64{}  // value of the scalar package-level variables initialised by an integer literal
	pkgScalars := map[string]bool{}   // package-level vars of a basic value type (only an assignment, ++/-- or & can change them)
	keeperFields := map[string]bool{} // fields of the keeper structs that are not of a basic value type
	basic := map[string]bool{"string": true, "bool": true, "int": true, "int8": true, "int16": true, "int32": true, "int64": true,
		"uint": true, "uint8": true, "uint16": true, "uint32": true, "uint64": true, "byte": true, "rune": true, "float32": true, "float64": true}
	// pre-pass: package-level variables and keeper fields of every file, so that a write is recognised whatever the file order
	for _, d := range dirs {
		files, _ := filepath.Glob(filepath.Join(*repo, d, "*.go"))
		sort.Strings(files)
		for _, f := range files {
			base := filepath.Base(f)
			if strings.HasSuffix(base, "_test.go") || strings.HasSuffix(base, ".pb.go") || strings.HasSuffix(base, ".pb.gw.go") || strings.HasSuffix(base, "_verif.go") {
				continue
			}
			af, err := parser.ParseFile(fset, f, nil, 0)
			if err != nil {
				fmt.Fprintln(os.Stderr, err)
				os.Exit(1)
			}
			rel, _ := filepath.Rel(*repo, f)
			for _, decl := range af.Decls {
				gd, ok := decl.(*ast.GenDecl)
				if !ok {
					continue
				}
				for _, sp := range gd.Specs {
					if vs, ok := sp.(*ast.ValueSpec); ok && gd.Tok == token.VAR {
						for i, nm := range vs.Names {
							pkgVars[nm.Name] = rel
							scalar := false
							if id, ok := vs.Type.(*ast.Ident); ok && basic[id.Name] {
								scalar = true
							}
							if vs.Type == nil && i < len(vs.Values) {
								if _, ok := vs.Values[i].(*ast.BasicLit); ok {
									scalar = true
								}
							}
							if scalar {
								pkgScalars[nm.Name] = true
								if i < len(vs.Values) {
									if bl, ok := vs.Values[i].(*ast.BasicLit); ok && bl.Kind == token.INT {
										if n, err := strconv.ParseInt(bl.Value, 0, 64); err == nil {
											scalarInts[nm.Name] = n
										}
									}
								}
							}
						}
					}
					if ts, ok := sp.(*ast.TypeSpec); ok && d == "x/cctp/keeper" {
						if st, ok := ts.Type.(*ast.StructType); ok && (ts.Name.Name == "Keeper" || ts.Name.Name == "msgServer") {
							for _, fl := range st.Fields.List {
								if id, ok := fl.Type.(*ast.Ident); ok && basic[id.Name] {
									continue
								}
								if len(fl.Names) == 0 {
									keeperFields[ts.Name.Name+"."+strings.TrimPrefix(fmt.Sprint(fl.Type), "&")] = true
									if se, ok := fl.Type.(*ast.StarExpr); ok {
										delete(keeperFields, ts.Name.Name+"."+strings.TrimPrefix(fmt.Sprint(fl.Type), "&"))
										keeperFields[ts.Name.Name+"."+fmt.Sprint(se.X)] = true
									}
								}
								for _, nm := range fl.Names {
									keeperFields[ts.Name.Name+"."+nm.Name] = true
								}
							}
						}
					}
				}
			}
		}
	}
	isPkgVar := func(e ast.Expr) (string, bool) {
		for {
			switch v := e.(type) {
			case *ast.IndexExpr:
				e = v.X
				continue
			case *ast.SliceExpr:
				e = v.X
				continue
			case *ast.ParenExpr:
				e = v.X
				continue
			case *ast.Ident:
				_, ok := pkgVars[v.Name]
				return v.Name, ok && v.Name != "_"
			}
			return "", false
		}
	}
	for _, d := range dirs {
		files, _ := filepath.Glob(filepath.Join(*repo, d, "*.go"))
		sort.Strings(files)
		for _, f := range files {
			base := filepath.Base(f)
			if strings.HasSuffix(base, "_test.go") || strings.HasSuffix(base, ".pb.go") || strings.HasSuffix(base, ".pb.gw.go") || strings.HasSuffix(base, "_verif.go") {
				continue
			}
			af, err := parser.ParseFile(fset, f, nil, 0)
			if err != nil {
				fmt.Fprintln(os.Stderr, err)
				os.Exit(1)
			}
			rel, _ := filepath.Rel(*repo, f)
			for _, im := range af.Imports {
				p, _ := strconv.Unquote(im.Path.Value)
				imports[p] = append(imports[p], rel)
			}
			for _, decl := range af.Decls {
				switch x := decl.(type) {
				case *ast.GenDecl:
					for _, sp := range x.Specs {
						vs, ok := sp.(*ast.ValueSpec)
						if !ok {
							continue
						}
						for i, nm := range vs.Names {
							if x.Tok == token.VAR {
								pkgVars[nm.Name] = rel
								if i < len(vs.Values) {
									if ce, ok := vs.Values[i].(*ast.CallExpr); ok && len(ce.Args) == 1 {
										if bl, ok := ce.Args[0].(*ast.BasicLit); ok && bl.Kind == token.STRING {
											if at, ok := ce.Fun.(*ast.ArrayType); ok && fmt.Sprint(at.Elt) == "byte" {
												s, _ := strconv.Unquote(bl.Value)
												byteVars[nm.Name] = s
											}
										}
									}
								}
								continue
							}
							if i >= len(vs.Values) {
								continue
							}
							switch v := vs.Values[i].(type) {
							case *ast.BasicLit:
								if v.Kind == token.INT {
									n, _ := strconv.ParseInt(v.Value, 0, 64)
									ints[nm.Name] = n
								} else if v.Kind == token.STRING {
									s, _ := strconv.Unquote(v.Value)
									strs[nm.Name] = s
								}
							case *ast.Ident:
								if s, ok := strs[v.Name]; ok {
									strs[nm.Name] = s
								}
							case *ast.BinaryExpr:
								if l, ok := v.X.(*ast.BasicLit); ok && l.Kind == token.STRING {
									if r, ok := v.Y.(*ast.Ident); ok {
										ls, _ := strconv.Unquote(l.Value)
										strs[nm.Name] = ls + strs[r.Name]
									}
								}
							}
						}
					}
				case *ast.FuncDecl:
					if x.Body == nil {
						continue
					}
					fx := &fn{name: x.Name.Name, file: rel, calls: map[string]bool{}, setKeys: map[string]bool{}, delKeys: map[string]bool{}}
					if x.Recv != nil && len(x.Recv.List) > 0 {
						fx.recv = fmt.Sprint(x.Recv.List[0].Type)
						if se, ok := x.Recv.List[0].Type.(*ast.StarExpr); ok {
							fx.recv = fmt.Sprint(se.X)
						}
					}
					keysSeen := map[string]bool{}
					ast.Inspect(x.Body, func(n ast.Node) bool {
						switch v := n.(type) {
						case *ast.CallExpr:
							if se, ok := v.Fun.(*ast.SelectorExpr); ok && len(v.Args) == 0 && (se.Sel.Name == "Err" || se.Sel.Name == "Done" || se.Sel.Name == "Deadline") {
								if id, ok := se.X.(*ast.Ident); ok && (id.Name == "ctx" || id.Name == "goCtx" || id.Name == "c") && !strings.HasPrefix(rel, "x/cctp/client/") {
									ctxLiveness = append(ctxLiveness, rel+":"+x.Name.Name+":"+id.Name+"."+se.Sel.Name)
								}
							}
							if id, ok := v.Fun.(*ast.Ident); ok && id.Name == "copy" && len(v.Args) == 2 {
								if nm, ok := isPkgVar(v.Args[0]); ok && x.Name.Name != "init" {
									varWrites = append(varWrites, rel+":"+x.Name.Name+":copy("+nm+")")
								}
							}
							if se, ok := v.Fun.(*ast.SelectorExpr); ok && (strings.HasPrefix(se.Sel.Name, "PutUint") || se.Sel.Name == "FillBytes") && len(v.Args) >= 1 {
								if nm, ok := isPkgVar(v.Args[0]); ok && x.Name.Name != "init" {
									varWrites = append(varWrites, rel+":"+x.Name.Name+":"+se.Sel.Name+"("+nm+")")
								}
							}
							if se, ok := v.Fun.(*ast.SelectorExpr); ok {
								fx.calls[se.Sel.Name] = true
								if se.Sel.Name == "Set" || se.Sel.Name == "Delete" {
									fx.writes = true
								}
							} else if id, ok := v.Fun.(*ast.Ident); ok {
								fx.calls[id.Name] = true
							}
						case *ast.SelectorExpr:
							if id, ok := v.X.(*ast.Ident); ok && id.Name == "types" && strings.Contains(v.Sel.Name, "Key") {
								keysSeen[v.Sel.Name] = true
							}
							if v.Sel.Name == "storeService" {
								fx.usesSvc = true
							}
						case *ast.GoStmt:
							fx.goStmts++
						case *ast.SelectStmt:
							fx.selects++
						case *ast.RangeStmt:
							if id, ok := v.X.(*ast.Ident); ok && mapDecls[x.Name.Name+"."+id.Name] {
								fx.rangesMap = append(fx.rangesMap, id.Name)
							}
						case *ast.IncDecStmt:
							if nm, ok := isPkgVar(v.X); ok && x.Name.Name != "init" {
								varWrites = append(varWrites, rel+":"+x.Name.Name+":"+nm)
							}
						case *ast.UnaryExpr:
							if v.Op == token.AND {
								if nm, ok := isPkgVar(v.X); ok {
									varWrites = append(varWrites, rel+":"+x.Name.Name+":&"+nm)
								}
							}
						case *ast.AssignStmt:
							for _, lhs := range v.Lhs {
								if _, isId := lhs.(*ast.Ident); isId {
									continue
								}
								if nm, ok := isPkgVar(lhs); ok && x.Name.Name != "init" {
									varWrites = append(varWrites, rel+":"+x.Name.Name+":"+nm+"[]")
								}
							}
							for i, lhs := range v.Lhs {
								if id, ok := lhs.(*ast.Ident); ok {
									if v.Tok == token.DEFINE && i < len(v.Rhs) {
										if ce, ok := v.Rhs[i].(*ast.CallExpr); ok {
											if fid, ok := ce.Fun.(*ast.Ident); ok && fid.Name == "make" && len(ce.Args) > 0 {
												if _, ok := ce.Args[0].(*ast.MapType); ok {
													mapDecls[x.Name.Name+"."+id.Name] = true
												}
											}
										}
										if _, ok := v.Rhs[i].(*ast.CompositeLit); ok {
											if cl := v.Rhs[i].(*ast.CompositeLit); cl.Type != nil {
												if _, ok := cl.Type.(*ast.MapType); ok {
													mapDecls[x.Name.Name+"."+id.Name] = true
												}
											}
										}
									} else if v.Tok != token.DEFINE {
										if _, ok := pkgVars[id.Name]; ok && x.Name.Name != "init" && id.Name != "_" {
											varWrites = append(varWrites, rel+":"+x.Name.Name+":"+id.Name)
										}
									}
								}
							}
						}
						return true
					})
					if fx.writes && fx.usesSvc {
						for k := range keysSeen {
							if fx.calls["Delete"] {
								fx.delKeys[k] = true
							}
							if fx.calls["Set"] {
								fx.setKeys[k] = true
							}
						}
					}
					key := fx.name
					if fx.recv != "" && fx.recv != "Keeper" && fx.recv != "msgServer" {
						key = fx.recv + "." + fx.name
					}
					fns[key] = fx
				}
			}
		}
	}
	// write primitives: keeper methods that touch the store service and call Set/Delete
	prim := map[string]bool{}
	for n, f := range fns {
		if f.usesSvc && f.writes {
			prim[n] = true
		}
	}
	var reach func(n string, seen, out map[string]bool)
	reach = func(n string, seen, out map[string]bool) {
		if seen[n] {
			return
		}
		seen[n] = true
		f := fns[n]
		if f == nil {
			return
		}
		if prim[n] {
			out[n] = true
		}
		for c := range f.calls {
			reach(c, seen, out)
		}
	}
	keysOf := func(n string) []string {
		out := map[string]bool{}
		reach(n, map[string]bool{}, out)
		ks := map[string]bool{}
		for p := range out {
			for k := range fns[p].setKeys {
				ks[k] = true
			}
			for k := range fns[p].delKeys {
				ks[k] = true
			}
		}
		var l []string
		for k := range ks {
			l = append(l, k)
		}
		sort.Strings(l)
		return l
	}
	var entries []string
	for n, f := range fns {
		if f.recv == "msgServer" && ast.IsExported(n) {
			entries = append(entries, n)
		}
		if f.recv == "Keeper" && strings.HasPrefix(f.file, "x/cctp/keeper/grpc_query") && ast.IsExported(n) {
			entries = append(entries, n)
		}
	}
	entries = append(entries, "InitGenesis", "ExportGenesis", "Validate")
	sort.Strings(entries)

	w := func(name, body string) {
		os.MkdirAll(*out, 0o755)
		hdr := "(* GENERATED by tools/goextract from the Go source of /repo on every run. Do not edit. *)\nFrom Coq Require Import List String ZArith.\nImport ListNotations.\nOpen Scope string_scope.\n\n"
		if old, err := os.ReadFile(filepath.Join(*out, name)); err == nil && string(old) == hdr+body {
			return // unchanged: keep the timestamp so that nothing is recompiled
		}
		if err := os.WriteFile(filepath.Join(*out, name), []byte(hdr+body), 0o644); err != nil {
			fmt.Fprintln(os.Stderr, err)
			os.Exit(1)
		}
	}
	// Consts.v
	var sb strings.Builder
	var names []string
	for n := range ints {
		names = append(names, n)
	}
	sort.Strings(names)
	sb.WriteString("Definition go_int_consts : list (string * Z) := [\n")
	for i, n := range names {
		sep := ";"
		if i == len(names)-1 {
			sep = ""
		}
		fmt.Fprintf(&sb, "  (%s, %d%%Z)%s\n", coqStr(n), ints[n], sep)
	}
	sb.WriteString("].\n\n")
	names = nil
	for n := range strs {
		names = append(names, n)
	}
	for n, v := range byteVars {
		strs[n] = v
		names = append(names, n)
	}
	sort.Strings(names)
	sb.WriteString("Definition go_string_consts : list (string * string) := [\n")
	for i, n := range names {
		sep := ";"
		if i == len(names)-1 {
			sep = ""
		}
		fmt.Fprintf(&sb, "  (%s, %s)%s\n", coqStr(n), coqStr(strs[n]), sep)
	}
	sb.WriteString("].\n")
	w("Consts.v", sb.String())
	// WriteSets.v
	sb.Reset()
	sb.WriteString("(* entry point -> key constants of the store-writing primitives reachable from it *)\nDefinition go_write_sets : list (string * list string) := [\n")
	for i, n := range entries {
		sep := ";"
		if i == len(entries)-1 {
			sep = ""
		}
		var ks []string
		for _, k := range keysOf(n) {
			ks = append(ks, coqStr(k))
		}
		fmt.Fprintf(&sb, "  (%s, [%s])%s\n", coqStr(n), strings.Join(ks, "; "), sep)
	}
	sb.WriteString("].\n\n(* functions that touch the store service at all *)\nDefinition go_store_functions : list string := [\n")
	var svc []string
	for n, f := range fns {
		if f.usesSvc {
			svc = append(svc, coqStr(n))
		}
	}
	sort.Strings(svc)
	sb.WriteString("  " + strings.Join(svc, ";\n  ") + "\n].\n")
	w("WriteSets.v", sb.String())
	// Scan.v
	sb.Reset()
	bad := []string{"time", "math/rand", "crypto/rand", "os", "sync", "sync/atomic", "unsafe", "runtime", "math/rand/v2"}
	var hits []string
	for _, b := range bad {
		for _, f := range imports[b] {
			if strings.HasPrefix(f, "x/cctp/client/") || f == "x/cctp/module.go" {
				continue // the cobra CLI and the module wiring are outside the state machine
			}
			hits = append(hits, coqStr(b+" in "+f))
		}
	}
	sort.Strings(hits)
	fmt.Fprintf(&sb, "Definition go_nondeterministic_imports : list string := [%s].\n\n", strings.Join(hits, "; "))
	var conc, rng []string
	for n, f := range fns {
		if strings.HasPrefix(f.file, "x/cctp/client/") {
			continue
		}
		if f.goStmts+f.selects > 0 {
			conc = append(conc, coqStr(n))
		}
		for _, m := range f.rangesMap {
			// Validate ranges over nothing; maps there are only indexed. Any range over a map-typed local is listed.
			rng = append(rng, coqStr(n+":"+m))
		}
	}
	sort.Strings(conc)
	sort.Strings(rng)
	fmt.Fprintf(&sb, "Definition go_goroutines_and_selects : list string := [%s].\n\n", strings.Join(conc, "; "))
	fmt.Fprintf(&sb, "Definition go_ranges_over_maps : list string := [%s].\n\n", strings.Join(rng, "; "))
	var pv []string
	for n, f := range pkgVars {
		if strings.HasPrefix(f, "x/cctp/client/") || f == "x/cctp/module.go" || strings.HasSuffix(f, "codec.go") || strings.HasSuffix(f, "errors.go") || n == "_" {
			continue
		}
		if pkgScalars[n] {
			continue // a basic value: it changes only through the writes listed below
		}
		pv = append(pv, coqStr(n))
	}
	sort.Strings(pv)
	fmt.Fprintf(&sb, "Definition go_package_vars : list string := [%s].\n\n", strings.Join(pv, "; "))
	var kf []string
	for n := range keeperFields {
		kf = append(kf, coqStr(n))
	}
	sort.Strings(kf)
	fmt.Fprintf(&sb, "Definition go_keeper_reference_fields : list string := [%s].\n\n", strings.Join(kf, "; "))
	sort.Strings(varWrites)
	var vw []string
	for _, x := range varWrites {
		vw = append(vw, coqStr(x))
	}
	fmt.Fprintf(&sb, "Definition go_package_var_writes : list string := [%s].\n", strings.Join(vw, "; "))
	sort.Strings(ctxLiveness)
	var cl []string
	for _, x := range ctxLiveness {
		cl = append(cl, coqStr(x))
	}
	fmt.Fprintf(&sb, "\nDefinition go_context_liveness_uses : list string := [%s].\n", strings.Join(cl, "; "))
	w("Scan.v", sb.String())
	// CodecGo.v: the four codec functions translated into the representation of Gen/CodecIR.v
	w("CodecGo.v", translateCodecs(*repo, ints))
	// HandlersGo.v: the administrative handlers translated into monadic Gallina, each with its equality proof
	for _, wr := range varWrites {
		parts := strings.Split(wr, ":")
		delete(scalarInts, strings.Trim(parts[len(parts)-1], "&[]"))
	}
	for name, body := range safeTranslateHandlers(*repo, ints, scalarInts) {
		w(name, body)
	}
	for name, body := range translateGenesis(*repo, ints, scalarInts) {
		w(name, body)
	}
	for name, body := range translateQueries(*repo, ints, scalarInts) {
		w(name, body)
	}
}
