module goextract

go 1.22
