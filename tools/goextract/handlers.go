package main

// Translator for the message handlers: each msgServer method of the tables below (and the two unexported helpers they share)
// is read from the Go AST and emitted as a monadic Gallina program over the primitives of coq/Gen/GoSem.v, together with the
// statement (and proof script) that it equals the hand-written model handler for every request and every state.  A function
// whose body contains a statement or expression form outside the accepted ones is NOT emitted: it is listed in
// go_untranslated with the reason (and so is every function that calls it), and for it the tie between model and code
// remains the differential execution alone.
//
// Accepted statement forms
//   ctx := sdk.UnwrapSDKContext(goCtx)          bech32Prefix := sdk.GetConfig().GetBech32AccountAddrPrefix()
//   x := k.GetR(ctx)                            x, found := k.GetT(ctx, args...)   (with _ allowed; = as well as :=)
//   x := <pure expression>                      var x types.Nonce                  x.F = <expr>      copy(x[n:], y)
//   x, err := <fallible call> / _, err = ... / err := ... / err = ...   IMMEDIATELY followed by
//        if err != nil { return <error> }       or      return <value>, err
//   if err := <fallible call>; err != nil { return <error> }
//   if <bool> { return <error> }                if <bool> { ... return ... }       if <bool> { ... } [else { ... }]
//   k.SetT(ctx, args...) / k.DeleteT(ctx, args...)
//   return &types.Msg...Response{...}, err|nil      return err|nil|<error>      return n, err|nil      return 0, <error>
// Fallible calls: sdk.AccAddressFromBech32, new(types.Message).Parse, new(types.BurnMessage).Parse, <BurnMessage>.Bytes(),
//   <Message>.Bytes(), bech32.ConvertAndEncode, sdk.Bech32ifyAddressBytes, sdk.ValidateDenom, VerifyAttestationSignatures,
//   k.bank.SendCoinsFromAccountToModule, k.fiattokenfactory.Burn / Mint, ctx.EventManager().EmitTypedEvent, the translated
//   helpers k.sendMessage / k.depositForBurn and the translated handlers k.SendMessage / SendMessageWithCaller / ReplaceMessage.

import (
	"fmt"
	"go/ast"
	"go/parser"
	"go/token"
	"path/filepath"
	"sort"
	"strconv"
	"strings"
)

// the functions, in dependency order (a function may call the ones before it)
var adminHandlers = []string{"AcceptOwner", "AddRemoteTokenMessenger", "DisableAttester", "EnableAttester", "LinkTokenPair",
	"PauseBurningAndMinting", "PauseSendingAndReceivingMessages", "RemoveRemoteTokenMessenger", "SetMaxBurnAmountPerMessage",
	"UnlinkTokenPair", "UnpauseBurningAndMinting", "UnpauseSendingAndReceivingMessages", "UpdateAttesterManager",
	"UpdateMaxMessageBodySize", "UpdateOwner", "UpdatePauser", "UpdateSignatureThreshold", "UpdateTokenController"}
var flowFunctions = []string{"sendMessage", "SendMessage", "SendMessageWithCaller", "ReplaceMessage", "depositForBurn",
	"DepositForBurn", "DepositForBurnWithCaller", "ReplaceDepositForBurn", "ReceiveMessage"}

type gfield struct{ name, ty string }

func goType(e ast.Expr) string {
	switch v := e.(type) {
	case *ast.Ident:
		switch v.Name {
		case "string":
			return "str"
		case "uint32":
			return "u32"
		case "uint64":
			return "u64"
		case "bool":
			return "bool"
		}
		return "?" + v.Name
	case *ast.ArrayType:
		if id, ok := v.Elt.(*ast.Ident); ok && id.Name == "byte" && v.Len == nil {
			return "bytes"
		}
		if id, ok := v.Elt.(*ast.Ident); ok && v.Len == nil {
			return "list:" + id.Name
		}
	case *ast.StarExpr:
		if id, ok := v.X.(*ast.Ident); ok {
			return "opt:" + id.Name
		}
	case *ast.SelectorExpr:
		if v.Sel.Name == "Int" {
			return "Int"
		}
	}
	return "?"
}

func coqType(t string) string {
	switch t {
	case "str", "bytes", "acc":
		return "bytes"
	case "u32", "u64":
		return "N"
	case "bool":
		return "bool"
	case "IntOpt":
		return "option Z"
	case "Int":
		return "Z"
	}
	return "?"
}

type getter struct {
	args  []string
	res   string
	found bool
}

var getters = map[string]getter{
	"GetOwner":                             {nil, "str", false},
	"GetAttesterManager":                   {nil, "str", false},
	"GetPauser":                            {nil, "str", false},
	"GetTokenController":                   {nil, "str", false},
	"GetPendingOwner":                      {nil, "str", true},
	"GetSignatureThreshold":                {nil, "struct:SignatureThreshold", true},
	"GetRemoteTokenMessenger":              {[]string{"u32"}, "struct:RemoteTokenMessenger", true},
	"GetAttester":                          {[]string{"str"}, "struct:Attester", true},
	"GetAllAttesters":                      {nil, "slice", false},
	"GetTokenPair":                         {[]string{"u32", "bytes"}, "struct:TokenPair", true},
	"GetBurningAndMintingPaused":           {nil, "struct:BurningAndMintingPaused", true},
	"GetSendingAndReceivingMessagesPaused": {nil, "struct:SendingAndReceivingMessagesPaused", true},
	"GetMaxMessageBodySize":                {nil, "struct:MaxMessageBodySize", true},
	"GetPerMessageBurnLimit":               {[]string{"str"}, "struct:PerMessageBurnLimit", true},
	"ReserveAndIncrementNonce":             {nil, "struct:Nonce", false},
	"GetNextAvailableNonce":                {nil, "struct:Nonce", true},
	"GetTokenPairHex":                      {[]string{"u32", "str"}, "struct:TokenPair", true},
	"GetAllPerMessageBurnLimits":           {nil, "list:PerMessageBurnLimit", false},
	"GetAllTokenPairs":                     {nil, "list:TokenPair", false},
	"GetAllUsedNonces":                     {nil, "list:Nonce", false},
	"GetRemoteTokenMessengers":             {nil, "list:RemoteTokenMessenger", false},
	"GetUsedNonce":                         {[]string{"struct:Nonce"}, "bool", false},
}

var setters = map[string][]string{
	"SetOwner":                             {"str"},
	"SetPendingOwner":                      {"str"},
	"DeletePendingOwner":                   {},
	"SetAttesterManager":                   {"str"},
	"SetPauser":                            {"str"},
	"SetTokenController":                   {"str"},
	"SetMaxMessageBodySize":                {"struct:MaxMessageBodySize"},
	"SetBurningAndMintingPaused":           {"struct:BurningAndMintingPaused"},
	"SetSendingAndReceivingMessagesPaused": {"struct:SendingAndReceivingMessagesPaused"},
	"SetSignatureThreshold":                {"struct:SignatureThreshold"},
	"SetRemoteTokenMessenger":              {"struct:RemoteTokenMessenger"},
	"DeleteRemoteTokenMessenger":           {"u32"},
	"SetAttester":                          {"struct:Attester"},
	"DeleteAttester":                       {"str"},
	"SetTokenPair":                         {"struct:TokenPair"},
	"DeleteTokenPair":                      {"u32", "bytes"},
	"SetPerMessageBurnLimit":               {"struct:PerMessageBurnLimit"},
	"SetUsedNonce":                         {"struct:Nonce"},
	"SetNextAvailableNonce":                {"struct:Nonce"},
}

// structs of x/cctp/types built by go_mk_<Name>; the others with a literal are events (go_ev_<Name>) or requests
var stateStructs = map[string]bool{"Attester": true, "RemoteTokenMessenger": true, "TokenPair": true, "PerMessageBurnLimit": true,
	"MaxMessageBodySize": true, "SignatureThreshold": true, "BurningAndMintingPaused": true, "SendingAndReceivingMessagesPaused": true,
	"Nonce": true, "Message": true, "BurnMessage": true}

type untranslatable string

type pendingCall struct {
	prog, binder, binderTy, errVar string
}

type funcInfo struct {
	name   string
	params []gfield // Gallina parameters (after ctx)
	kind   string   // handler | err | u64err
	msgTy  string   // request struct for handlers
	uses   []string // translated functions it calls, transitively
}

type hTr struct {
	t       *codecTr
	structs map[string][]gfield
	scalars map[string]int64
	funcs   map[string]*funcInfo // functions translated so far (callable)
	recvK   string
	msgVar  string
	msgTy   string
	kind    string
	env     map[string]string
	lits    map[string]map[string]string // local holding a request / factory message literal: field -> "type\x00gallina"
	lower   map[string]bool
	lines   []string
	pending *pendingCall
	rebound map[string]bool   // locals re-bound in the block being translated
	uses    map[string]bool   // translated functions this one calls
	usesE   map[string]bool   // translated functions whose definition mentions the environment (they take it as first argument)
	record  bool              // the request is one Gallina value (genesis), its fields are read through accessors
	derefs  map[string]string // Go expression known to be a non-nil pointer here -> the Gallina name of what it points to
	nderef  int
	valTy   string // result type of a value-returning function (kind "val")
	ntmp    int
}

func (h *hTr) bad(format string, a ...interface{}) { panic(untranslatable(fmt.Sprintf(format, a...))) }

func zeroOf(ty string) string {
	switch ty {
	case "str", "bytes":
		return "[]"
	case "u32", "u64":
		return "0%N"
	case "bool":
		return "false"
	case "Int":
		return "0%Z"
	}
	return "?"
}

func isUnsigned(t string) bool { return t == "u32" || t == "u64" }

// value of type `have` where `want` is expected
func (h *hTr) coerce(x, have, want, what string) string {
	switch {
	case have == want, want == "u64" && have == "u32", want == "bytes" && have == "acc", want == "str" && have == "acc":
		return x
	case have == "lit" && isUnsigned(want):
		return x + "%N"
	case have == "IntOpt" && want == "Int":
		return "(go_int " + x + ")"
	case have == "bytes" && want == "str", have == "str" && want == "bytes":
		return x // string(b) / []byte(s): the model represents both as byte lists
	case have == "slice" && want == "list:Attester":
		return "(values " + x + ")"
	case strings.HasPrefix(want, "?") && have == "struct:"+want[1:]:
		return x
	}
	h.bad("%s: %s where %s is expected", what, have, want)
	return ""
}

// strings.ToLower / strings.EqualFold: the model covers ASCII plus the two code points Go folds into it and reports anything
// else as "unmodelled"; the equalities are stated up to that verdict (eq_or_unmodelled), so nothing is emitted here
func (h *hTr) lowerGuard(x string) { h.lower[x] = true }

// expression -> (Gallina, type)
func (h *hTr) expr(e ast.Expr) (string, string) {
	switch v := e.(type) {
	case *ast.ParenExpr:
		return h.expr(v.X)
	case *ast.BasicLit:
		if v.Kind == token.INT {
			return v.Value, "lit"
		}
		if v.Kind == token.STRING && v.Value == `""` {
			return "[]", "str"
		}
	case *ast.Ident:
		if v.Name == "true" || v.Name == "false" {
			return v.Name, "bool"
		}
		if ty, ok := h.env[v.Name]; ok {
			if ty == "err" || ty == "lit:" {
				h.bad("%s used as a value", v.Name)
			}
			return "v_" + v.Name, ty
		}
		if n, ok := h.scalars[v.Name]; ok {
			return strconv.FormatInt(n, 10), "lit"
		}
		if v.Name == "zeroByteArray" {
			return "(zeros 32)", "bytes"
		}
	case *ast.SliceExpr:
		if v.High == nil && v.Low != nil && !v.Slice3 {
			if n, ok := h.t.konst(v.Low); ok {
				x, ty := h.expr(v.X)
				if ty == "bytes" {
					return fmt.Sprintf("(skipn %d %s)", n, x), "bytes"
				}
			}
		}
	case *ast.SelectorExpr:
		if id, ok := v.X.(*ast.Ident); ok {
			if id.Name == h.msgVar && h.msgVar != "" && h.record {
				for _, f := range h.structs[h.msgTy] {
					if f.name == v.Sel.Name {
						return fmt.Sprintf("(go_f_%s_%s a_%s)", h.msgTy, f.name, h.msgVar), f.ty
					}
				}
				h.bad("unknown field %s", v.Sel.Name)
			}
			if id.Name == h.msgVar && h.msgVar != "" {
				for _, f := range h.structs[h.msgTy] {
					if f.name == v.Sel.Name {
						if f.ty == "Int" {
							return "a_" + f.name, "IntOpt"
						}
						return "a_" + f.name, f.ty
					}
				}
				h.bad("unknown request field %s", v.Sel.Name)
			}
			if id.Name == "types" {
				if n, ok := h.scalars[v.Sel.Name]; ok {
					return strconv.FormatInt(n, 10), "lit"
				}
				if v.Sel.Name == "PaddedModuleAddress" {
					return "(copy12 (module_addr e))", "bytes"
				}
			}
			if fs, ok := h.lits[id.Name]; ok {
				if x, ok := fs[v.Sel.Name]; ok {
					parts := strings.SplitN(x, "\x00", 2)
					return parts[1], parts[0]
				}
			}
		}
		if d, ok := h.derefs[h.t.show(v.X)]; ok {
			// p.F on a pointer known to be non-nil here
			parts := strings.SplitN(d, "\x00", 2)
			sn := strings.TrimPrefix(parts[0], "struct:")
			for _, f := range h.structs[sn] {
				if f.name == v.Sel.Name {
					return fmt.Sprintf("(go_f_%s_%s %s)", sn, f.name, parts[1]), f.ty
				}
			}
		}
		x, ty := h.expr(v.X)
		if ty == "resp" && v.Sel.Name == "Nonce" {
			return "(go_resp_nonce " + x + ")", "u64"
		}
		if ty == "mintdenom" && v.Sel.Name == "Denom" {
			return "(mint_denom e)", "str"
		}
		if strings.HasPrefix(ty, "struct:") {
			s := strings.TrimPrefix(ty, "struct:")
			for _, f := range h.structs[s] {
				if f.name == v.Sel.Name {
					return fmt.Sprintf("(go_f_%s_%s %s)", s, f.name, x), f.ty
				}
			}
		}
		h.bad("field access %s", h.t.show(e))
	case *ast.StarExpr:
		if d, ok := h.derefs[h.t.show(v.X)]; ok {
			parts := strings.SplitN(d, "\x00", 2)
			return parts[1], parts[0]
		}
	case *ast.UnaryExpr:
		if v.Op == token.NOT {
			x, ty := h.expr(v.X)
			if ty == "bool" {
				return "(negb " + x + ")", "bool"
			}
		}
		if v.Op == token.AND {
			// &x of a local struct value
			if id, ok := v.X.(*ast.Ident); ok && strings.HasPrefix(h.env[id.Name], "struct:") {
				return "(Some v_" + id.Name + ")", "opt:" + strings.TrimPrefix(h.env[id.Name], "struct:")
			}
		}
	case *ast.CallExpr:
		if m, as, ok := h.keeperCall(e); ok {
			// a keeper getter inside an expression: the call is made first (reads are pure)
			if g, known := getters[m]; known && !g.found {
				h.ntmp++
				name := fmt.Sprintf("tmp%d", h.ntmp)
				h.lines = append(h.lines, fmt.Sprintf("%s <- go_%s%s ;;", name, m, h.args(m, as, g.args)))
				return name, g.res
			}
		}
		fn := h.t.show(v.Fun)
		switch {
		case fn == "types.DefaultGenesis" && len(v.Args) == 0:
			return "go_DefaultGenesis", "struct:GenesisState"
		case fn == "len" && len(v.Args) == 1:
			x, ty := h.expr(v.Args[0])
			if ty == "str" || ty == "bytes" || ty == "slice" || ty == "acc" {
				return "(length " + x + ")", "len"
			}
		case fn == "make" && len(v.Args) == 2 && h.t.show(v.Args[0]) == "[]byte":
			if n, ok := h.t.konst(v.Args[1]); ok {
				return fmt.Sprintf("(zeros %d)", n), "bytes"
			}
			if n, ok := h.scalarExpr(v.Args[1]); ok {
				return fmt.Sprintf("(zeros %d)", n), "bytes"
			}
			x, ty := h.expr(v.Args[1])
			if ty == "len" {
				return "(zeros " + x + ")", "bytes"
			}
		case (fn == "uint32" || fn == "uint64") && len(v.Args) == 1:
			if ce, ok := v.Args[0].(*ast.CallExpr); ok && h.t.show(ce.Fun) == "len" && len(ce.Args) == 1 {
				x, ty := h.expr(ce.Args[0])
				if ty == "str" || ty == "bytes" || ty == "slice" {
					if fn == "uint32" {
						return "(go_len32 " + x + ")", "u32"
					}
					return "(N.of_nat (length " + x + "))", "u64" // a length is below 2^63
				}
			}
			x, ty := h.expr(v.Args[0])
			if ty == "u32" && fn == "uint64" || ty == "u"+fn[4:] {
				return x, "u" + fn[4:]
			}
		case fn == "string" && len(v.Args) == 1:
			x, ty := h.expr(v.Args[0])
			if ty == "str" || ty == "bytes" {
				return x, "str"
			}
		case (fn == "AttesterKey" || fn == "types.AttesterKey") && len(v.Args) == 1:
			x, ty := h.expr(v.Args[0])
			if ty == "bytes" || ty == "str" {
				return "(attester_key " + x + ")", "bytes"
			}
		case (fn == "PerMessageBurnLimitKey" || fn == "types.PerMessageBurnLimitKey") && len(v.Args) == 1:
			x, ty := h.expr(v.Args[0])
			if ty == "str" {
				return "(limit_key " + x + ")", "bytes"
			}
		case (fn == "TokenPairKey" || fn == "types.TokenPairKey") && len(v.Args) == 2:
			d, td := h.expr(v.Args[0])
			t, tt := h.expr(v.Args[1])
			if td == "u32" && tt == "bytes" {
				return "(pair_key " + d + " " + t + ")", "bytes"
			}
		case (fn == "UsedNonceKey" || fn == "types.UsedNonceKey") && len(v.Args) == 2:
			n, tn := h.expr(v.Args[0])
			d, td := h.expr(v.Args[1])
			if tn == "u64" && td == "u32" {
				return "(nonce_key " + d + " " + n + ")", "bytes"
			}
		case (fn == "RemoteTokenMessengerKey" || fn == "types.RemoteTokenMessengerKey") && len(v.Args) == 1:
			d, td := h.expr(v.Args[0])
			if td == "u32" {
				return "(messenger_key " + d + ")", "bytes"
			}
		case fn == "make" && len(v.Args) == 1 && h.t.show(v.Args[0]) == "map[string]struct{}":
			return "[]", "set"
		case fn == "[]byte" && len(v.Args) == 1:
			x, ty := h.expr(v.Args[0])
			if ty == "str" || ty == "bytes" {
				return x, "bytes"
			}
		case fn == "common.FromHex" && len(v.Args) == 1:
			x, ty := h.expr(v.Args[0])
			if ty == "str" {
				return "(from_hex " + x + ")", "bytes"
			}
		case fn == "strings.ToLower" && len(v.Args) == 1:
			x, ty := h.expr(v.Args[0])
			if ty == "str" {
				h.lowerGuard(x)
				return "(to_lower " + x + ")", "str"
			}
		case fn == "strings.EqualFold" && len(v.Args) == 2:
			a, ta := h.expr(v.Args[0])
			b, tb := h.expr(v.Args[1])
			if ta == "str" && tb == "str" {
				h.lowerGuard(b)
				return "(equal_fold " + a + " " + b + ")", "bool"
			}
		case fn == "bytes.Equal" && len(v.Args) == 2:
			a, ta := h.expr(v.Args[0])
			b, tb := h.expr(v.Args[1])
			if (ta == "bytes" || ta == "acc") && (tb == "bytes" || tb == "acc") {
				return "(beqb " + a + " " + b + ")", "bool"
			}
		case fn == "crypto.Keccak256" && len(v.Args) == 1:
			x, ty := h.expr(v.Args[0])
			if ty == "bytes" || ty == "str" {
				return "(keccak256 " + x + ")", "bytes"
			}
		case fn == "hex.EncodeToString" && len(v.Args) == 1:
			x, ty := h.expr(v.Args[0])
			if ty == "bytes" {
				return "(hex_encode " + x + ")", "str"
			}
		case fn == "types.ModuleAddress.String" && len(v.Args) == 0:
			return "(module_str e)", "str"
		case fn == "math.NewIntFromBigInt" && len(v.Args) == 1:
			x, ty := h.expr(v.Args[0])
			if ty == "Int" || ty == "IntOpt" {
				return h.coerce(x, ty, "Int", fn), "Int"
			}
		case fn == "sdk.NewCoin" && len(v.Args) == 2:
			d, td := h.expr(v.Args[0])
			a, ta := h.expr(v.Args[1])
			if td == "str" && (ta == "Int" || ta == "IntOpt") {
				return "(" + d + ", " + h.coerce(a, ta, "Int", fn) + ")", "coin"
			}
		case fn == "sdk.NewCoins" && len(v.Args) == 1:
			x, ty := h.expr(v.Args[0])
			if ty == "coin" {
				return x, "coin"
			}
		case fn == "sdk.GetConfig().GetBech32AccountAddrPrefix" && len(v.Args) == 0:
			return "tt", "prefix"
		case fn == h.recvK+".fiattokenfactory.GetMintingDenom":
			return "tt", "mintdenom"
		default:
			// methods of math.Int
			if se, ok := v.Fun.(*ast.SelectorExpr); ok {
				x, ty := h.expr(se.X)
				if ty == "Int" || ty == "IntOpt" {
					val := h.coerce(x, ty, "Int", fn)
					switch {
					case se.Sel.Name == "IsNil" && len(v.Args) == 0 && ty == "IntOpt":
						return "(go_is_nil " + x + ")", "bool"
					case se.Sel.Name == "IsNil" && len(v.Args) == 0:
						return "false", "bool"
					case se.Sel.Name == "IsPositive" && len(v.Args) == 0:
						return "(Z.ltb 0 " + val + ")", "bool"
					case se.Sel.Name == "BigInt" && len(v.Args) == 0:
						return x, ty
					case len(v.Args) == 1:
						y, ty2 := h.expr(v.Args[0])
						if ty2 != "Int" && ty2 != "IntOpt" {
							break
						}
						w := h.coerce(y, ty2, "Int", fn)
						switch se.Sel.Name {
						case "GT":
							return "(Z.ltb " + w + " " + val + ")", "bool"
						case "LT":
							return "(Z.ltb " + val + " " + w + ")", "bool"
						case "GTE":
							return "(Z.leb " + w + " " + val + ")", "bool"
						case "LTE":
							return "(Z.leb " + val + " " + w + ")", "bool"
						case "Equal":
							return "(Z.eqb " + val + " " + w + ")", "bool"
						}
					}
				}
			}
		}
	case *ast.CompositeLit:
		if at, ok := v.Type.(*ast.ArrayType); ok && h.t.show(at) == "[]byte" && len(v.Elts) == 0 {
			return "[]", "bytes"
		}
		if h.t.show(v.Type) == "sdk.Coin" {
			fs := h.litFields(v, []gfield{{"Denom", "str"}, {"Amount", "Int"}}, "sdk.Coin")
			d, _ := litGet(fs, "Denom")
			a, _ := litGet(fs, "Amount")
			if d != "" && a != "" {
				return "(" + d + ", " + a + ")", "coin"
			}
		}
		se, ok := v.Type.(*ast.SelectorExpr)
		if !ok || h.t.show(se.X) != "types" {
			break
		}
		name := se.Sel.Name
		fields, known := h.structs[name]
		if !known {
			break
		}
		given := h.litFields(v, fields, name)
		var args []string
		for _, f := range fields {
			if x, ok := given[f.name]; ok {
				args = append(args, strings.SplitN(x, "\x00", 2)[1])
			} else {
				args = append(args, zeroOf(f.ty))
			}
		}
		pre, ty := "go_ev_", "event"
		if stateStructs[name] {
			pre, ty = "go_mk_", "struct:"+name
		}
		if strings.HasPrefix(name, "Query") && strings.HasSuffix(name, "Response") {
			pre, ty = "go_qr_", "qresp"
		}
		if len(args) == 0 {
			return pre + name, ty
		}
		return "(" + pre + name + " " + strings.Join(args, " ") + ")", ty
	case *ast.BinaryExpr:
		switch v.Op {
		case token.LAND, token.LOR:
			a, ta := h.expr(v.X)
			b, tb := h.expr(v.Y)
			if ta == "bool" && tb == "bool" {
				return fmt.Sprintf("(%s %s %s)", a, map[token.Token]string{token.LAND: "&&", token.LOR: "||"}[v.Op], b), "bool"
			}
		case token.EQL, token.NEQ, token.LSS, token.LEQ, token.GTR, token.GEQ:
			if h.t.show(v.Y) == "nil" {
				x, ty := h.expr(v.X)
				if strings.HasPrefix(ty, "opt:") {
					if v.Op == token.NEQ {
						return "(go_is_some " + x + ")", "bool"
					}
					return "(negb (go_is_some " + x + "))", "bool"
				}
				if ty == "bytes" {
					// the decoded request cannot tell a nil slice from an empty one; neither can anything the handlers do with it
					if v.Op == token.EQL {
						return "(go_is_nil_slice " + x + ")", "bool"
					}
					return "(negb (go_is_nil_slice " + x + "))", "bool"
				}
				break
			}
			a, ta := h.expr(v.X)
			b, tb := h.expr(v.Y)
			if ta == "lit" && tb != "lit" {
				ta = tb
				if isUnsigned(tb) {
					a += "%N"
				}
			}
			if tb == "lit" && ta != "lit" {
				tb = ta
				if isUnsigned(ta) {
					b += "%N"
				}
			}
			if isUnsigned(ta) && isUnsigned(tb) {
				tb = ta
			}
			if ta != tb {
				break
			}
			var eq, lt, le string
			switch ta {
			case "str", "bytes":
				eq = "beqb"
			case "u32", "u64":
				eq, lt, le = "N.eqb", "N.ltb", "N.leb"
			case "len":
				eq, lt, le = "Nat.eqb", "Nat.ltb", "Nat.leb"
			default:
				h.bad("comparison of %s values: %s", ta, h.t.show(e))
			}
			switch v.Op {
			case token.EQL:
				return fmt.Sprintf("(%s %s %s)", eq, a, b), "bool"
			case token.NEQ:
				return fmt.Sprintf("(negb (%s %s %s))", eq, a, b), "bool"
			}
			if lt == "" {
				break
			}
			switch v.Op {
			case token.LSS:
				return fmt.Sprintf("(%s %s %s)", lt, a, b), "bool"
			case token.LEQ:
				return fmt.Sprintf("(%s %s %s)", le, a, b), "bool"
			case token.GTR:
				return fmt.Sprintf("(%s %s %s)", lt, b, a), "bool"
			case token.GEQ:
				return fmt.Sprintf("(%s %s %s)", le, b, a), "bool"
			}
		}
	}
	h.bad("expression %s", h.t.show(e))
	return "", ""
}

// expr without giving up on the whole function
func (h *hTr) tryExpr(e ast.Expr) (x, ty string) {
	defer func() {
		if r := recover(); r != nil {
			if _, ok := r.(untranslatable); ok {
				x, ty = "", ""
				return
			}
			panic(r)
		}
	}()
	return h.expr(e)
}

func (h *hTr) scalarExpr(e ast.Expr) (int64, bool) {
	switch v := e.(type) {
	case *ast.Ident:
		n, ok := h.scalars[v.Name]
		return n, ok
	case *ast.SelectorExpr:
		if id, ok := v.X.(*ast.Ident); ok && id.Name == "types" {
			n, ok := h.scalars[v.Sel.Name]
			return n, ok
		}
	}
	return 0, false
}

// the fields of a keyed struct literal, each as "type\x00gallina" coerced to the declared field type
func (h *hTr) litFields(v *ast.CompositeLit, fields []gfield, name string) map[string]string {
	given := map[string]string{}
	for _, el := range v.Elts {
		kv, ok := el.(*ast.KeyValueExpr)
		if !ok {
			h.bad("positional struct literal %s", name)
		}
		k := h.t.show(kv.Key)
		var want string
		for _, f := range fields {
			if f.name == k {
				want = f.ty
			}
		}
		if want == "" {
			h.bad("unknown field %s.%s", name, k)
		}
		x, ty := h.expr(kv.Value)
		given[k] = want + "\x00" + h.coerce(x, ty, want, "field "+name+"."+k)
	}
	return given
}

// k.Method(ctx, args...) on the keeper receiver
func (h *hTr) keeperCall(e ast.Expr) (string, []ast.Expr, bool) {
	ce, ok := e.(*ast.CallExpr)
	if !ok {
		return "", nil, false
	}
	se, ok := ce.Fun.(*ast.SelectorExpr)
	if !ok {
		return "", nil, false
	}
	if id, ok := se.X.(*ast.Ident); !ok || id.Name != h.recvK {
		return "", nil, false
	}
	if len(ce.Args) == 0 || (h.t.show(ce.Args[0]) != "ctx" && h.t.show(ce.Args[0]) != "goCtx") {
		return "", nil, false
	}
	return se.Sel.Name, ce.Args[1:], true
}

func (h *hTr) args(name string, as []ast.Expr, want []string) string {
	if len(as) != len(want) {
		h.bad("%s: %d arguments", name, len(as))
	}
	var out []string
	for i, a := range as {
		x, ty := h.expr(a)
		out = append(out, h.coerce(x, ty, want[i], fmt.Sprintf("%s argument %d", name, i)))
	}
	if len(out) == 0 {
		return ""
	}
	return " " + strings.Join(out, " ")
}

// fields of a local that holds a struct literal which is not a model value (request, factory message)
func (h *hTr) litOf(e ast.Expr) map[string]string {
	ue, ok := e.(*ast.UnaryExpr)
	if ok && ue.Op == token.AND {
		e = ue.X
	}
	if id, ok := e.(*ast.Ident); ok {
		if fs, ok := h.lits[id.Name]; ok {
			return fs
		}
	}
	h.bad("%s is not a literal built in this function", h.t.show(e))
	return nil
}

func litGet(fs map[string]string, k string) (string, string) {
	if x, ok := fs[k]; ok {
		p := strings.SplitN(x, "\x00", 2)
		return p[1], p[0]
	}
	return "", ""
}

// a call that returns an error: (program, type of its value)
func (h *hTr) fallible(e ast.Expr) (string, string, bool) {
	ce, ok := e.(*ast.CallExpr)
	if !ok {
		return "", "", false
	}
	fn := h.t.show(ce.Fun)
	one := func(want ...string) (string, bool) {
		if len(ce.Args) != 1 {
			return "", false
		}
		x, ty := h.expr(ce.Args[0])
		for _, w := range want {
			if ty == w {
				return x, true
			}
		}
		return "", false
	}
	switch fn {
	case "sdk.AccAddressFromBech32":
		if x, ok := one("str"); ok {
			return "lift_opt (acc_address (hrp e) " + x + ")", "acc", true
		}
	case "new(types.Message).Parse":
		if x, ok := one("bytes"); ok {
			return "lift_opt (decode_message " + x + ")", "struct:Message", true
		}
	case "new(types.BurnMessage).Parse":
		if x, ok := one("bytes"); ok {
			return "lift_opt (decode_burn " + x + ")", "struct:BurnMessage", true
		}
	case "sdk.ValidateDenom":
		if x, ok := one("str"); ok {
			return "guard (valid_denom " + x + ")", "unit", true
		}
	case "bech32.ConvertAndEncode", "sdk.Bech32ifyAddressBytes":
		if len(ce.Args) == 2 {
			_, tp := h.expr(ce.Args[0])
			x, ty := h.expr(ce.Args[1])
			if tp == "prefix" && ty == "bytes" {
				return "lift_opt (bech32_of e " + x + ")", "str", true
			}
		}
	case "VerifyAttestationSignatures":
		if len(ce.Args) == 4 {
			return "go_verify e" + h.args(fn, ce.Args, []string{"bytes", "bytes", "slice", "u32"}), "unit", true
		}
	case "ctx.EventManager().EmitTypedEvent":
		if len(ce.Args) == 1 {
			if ue, ok := ce.Args[0].(*ast.UnaryExpr); ok && ue.Op == token.AND {
				x, ty := h.expr(ue.X)
				if ty == "event" {
					return "go_emit " + x, "unit", true
				}
			}
		}
	case h.recvK + ".bank.SendCoinsFromAccountToModule":
		if len(ce.Args) == 4 && h.t.show(ce.Args[2]) == "types.ModuleName" {
			a, ta := h.expr(ce.Args[1])
			c, tc := h.expr(ce.Args[3])
			if ta == "acc" && tc == "coin" {
				return fmt.Sprintf("dep_transfer e %s (fst %s) (snd %s)", a, c, c), "unit", true
			}
		}
	case h.recvK + ".fiattokenfactory.Burn":
		if len(ce.Args) == 2 {
			fs := h.litOf(ce.Args[1])
			from, _ := litGet(fs, "From")
			amt, ta := litGet(fs, "Amount")
			if from != "" && ta == "coin" && fs["\x00type"] == "MsgBurn" {
				return fmt.Sprintf("dep_burn e %s (fst %s) (snd %s)", from, amt, amt), "unit", true
			}
		}
	case h.recvK + ".fiattokenfactory.Mint":
		if len(ce.Args) == 2 {
			fs := h.litOf(ce.Args[1])
			from, _ := litGet(fs, "From")
			to, _ := litGet(fs, "Address")
			amt, ta := litGet(fs, "Amount")
			if from != "" && to != "" && ta == "coin" && fs["\x00type"] == "MsgMint" {
				return fmt.Sprintf("dep_mint e %s %s (fst %s) (snd %s)", from, to, amt, amt), "unit", true
			}
		}
	}
	// <value>.Bytes()
	if se, ok := ce.Fun.(*ast.SelectorExpr); ok && se.Sel.Name == "Bytes" && len(ce.Args) == 0 {
		if id, isId := se.X.(*ast.Ident); isId && strings.HasPrefix(h.env[id.Name], "struct:") {
			x, ty := h.expr(se.X)
			switch ty {
			case "struct:BurnMessage":
				return "lift_opt (encode_burn " + x + ")", "bytes", true
			case "struct:Message":
				return "lift_opt (encode_message " + x + ")", "bytes", true
			}
		}
	}
	// translated helpers and handlers
	if m, as, ok := h.keeperCall(e); ok {
		if fi, known := h.funcs[m]; known {
			h.uses[m] = true
			if fi.kind == "handler" {
				if len(as) != 1 {
					h.bad("%s: arguments", m)
				}
				fs := h.litOf(as[0])
				if fs["\x00type"] != fi.msgTy {
					h.bad("%s called with a %s", m, fs["\x00type"])
				}
				var xs []string
				for _, f := range h.structs[fi.msgTy] {
					x, _ := litGet(fs, f.name)
					if x == "" {
						x = zeroOf(f.ty)
						if f.ty == "Int" {
							x = "None"
						}
					}
					xs = append(xs, x)
				}
				if h.usesE[m] {
					return "go_" + m + " e " + strings.Join(xs, " "), "resp", true
				}
				return "go_" + m + " " + strings.Join(xs, " "), "resp", true
			}
			var want []string
			for _, p := range fi.params {
				want = append(want, p.ty)
			}
			ty := "unit"
			if fi.kind == "u64err" {
				ty = "u64"
			}
			if h.usesE[m] {
				return "go_fn_" + m + " e" + h.args(m, as, want), ty, true
			}
			return "go_fn_" + m + h.args(m, as, want), ty, true
		}
	}
	return "", "", false
}

// is this the error return of the function being translated?
func (h *hTr) isErrorReturn(s ast.Stmt) bool {
	rs, ok := s.(*ast.ReturnStmt)
	if !ok {
		return false
	}
	switch h.kind {
	case "handler", "query":
		return len(rs.Results) == 2 && h.t.show(rs.Results[0]) == "nil" && h.t.show(rs.Results[1]) != "nil"
	case "err":
		return len(rs.Results) == 1 && h.t.show(rs.Results[0]) != "nil" && h.env[h.t.show(rs.Results[0])] != "err"
	case "u64err":
		return len(rs.Results) == 2 && h.t.show(rs.Results[0]) == "0" && h.t.show(rs.Results[1]) != "nil"
	}
	return false
}

func (h *hTr) isErrorBlock(b *ast.BlockStmt) bool {
	if len(b.List) != 1 {
		return false
	}
	rs, ok := b.List[0].(*ast.ReturnStmt)
	if !ok {
		return false
	}
	switch h.kind {
	case "handler", "query":
		return len(rs.Results) == 2 && h.t.show(rs.Results[0]) == "nil" && h.t.show(rs.Results[1]) != "nil"
	case "err":
		return len(rs.Results) == 1 && h.t.show(rs.Results[0]) != "nil"
	case "u64err":
		return len(rs.Results) == 2 && h.t.show(rs.Results[0]) == "0" && h.t.show(rs.Results[1]) != "nil"
	}
	return false
}

func (h *hTr) bindLine(prog, binder string) string {
	if binder == "_" || binder == "" {
		return prog + " ;;;"
	}
	return "v_" + binder + " <- " + prog + " ;;"
}

// the value returned on success
func (h *hTr) successValue(rs *ast.ReturnStmt) string {
	switch h.kind {
	case "handler":
		cl, ok := rs.Results[0].(*ast.UnaryExpr)
		if ok && cl.Op == token.AND {
			if lit, ok := cl.X.(*ast.CompositeLit); ok && strings.HasPrefix(h.t.show(lit.Type), "types.Msg") && strings.HasSuffix(h.t.show(lit.Type), "Response") {
				switch len(lit.Elts) {
				case 0:
					return "ret RNone"
				case 1:
					kv, ok := lit.Elts[0].(*ast.KeyValueExpr)
					if ok && h.t.show(kv.Key) == "Nonce" {
						x, ty := h.expr(kv.Value)
						return "ret (RNonce " + h.coerce(x, ty, "u64", "response nonce") + ")"
					}
					if ok && h.t.show(kv.Key) == "Success" && h.t.show(kv.Value) == "true" {
						return "ret RSuccess"
					}
				}
			}
		}
	case "err":
		return "ret tt"
	case "u64err":
		x, ty := h.expr(rs.Results[0])
		return "ret " + h.coerce(x, ty, "u64", "returned value")
	}
	h.bad("%s", h.t.show(rs))
	return ""
}

func (h *hTr) ret(rs *ast.ReturnStmt) {
	want := map[string]int{"handler": 2, "err": 1, "u64err": 2}[h.kind]
	if len(rs.Results) != want {
		h.bad("%s", h.t.show(rs))
	}
	er := h.t.show(rs.Results[want-1])
	if h.pending != nil {
		// return <value>, err   right after the fallible call that set err
		if er != h.pending.errVar {
			h.bad("a fallible call is not followed by its check: %s", h.t.show(rs))
		}
		p := h.pending
		h.pending = nil
		h.lines = append(h.lines, h.bindLine(p.prog, p.binder))
		if p.binder != "_" && p.binder != "" {
			h.env[p.binder] = p.binderTy
		}
		if h.kind == "err" {
			h.lines = append(h.lines, "ret tt")
			return
		}
		h.lines = append(h.lines, h.successValue(rs))
		return
	}
	if h.isErrorReturn(rs) {
		if h.env[er] == "err" {
			h.bad("returns an error variable that was already consumed: %s", h.t.show(rs))
		}
		h.lines = append(h.lines, "fail")
		return
	}
	if er != "nil" {
		h.bad("returns an error that is not the result of the preceding call: %s", h.t.show(rs))
	}
	if h.kind == "err" {
		h.lines = append(h.lines, "ret tt")
		return
	}
	h.lines = append(h.lines, h.successValue(rs))
}

func (h *hTr) assignFallible(names []string, prog, ty string, s ast.Stmt) {
	var binder, errVar string
	switch len(names) {
	case 1:
		errVar = names[0]
	case 2:
		binder, errVar = names[0], names[1]
	default:
		h.bad("%s", h.t.show(s))
	}
	if errVar == "_" {
		h.bad("discarded error: %s", h.t.show(s))
	}
	if ty == "unit" && binder != "" && binder != "_" {
		h.bad("%s", h.t.show(s))
	}
	h.pending = &pendingCall{prog: prog, binder: binder, binderTy: ty, errVar: errVar}
	if h.rebound != nil && binder != "" && binder != "_" {
		if as, ok := s.(*ast.AssignStmt); ok && as.Tok != token.DEFINE {
			h.rebound[binder] = true
		}
	}
	h.env[errVar] = "err"
}

func (h *hTr) consumePendingOnCheck(cond ast.Expr, body *ast.BlockStmt) bool {
	if h.pending == nil {
		return false
	}
	be, ok := cond.(*ast.BinaryExpr)
	if !ok || be.Op != token.NEQ || h.t.show(be.Y) != "nil" || h.t.show(be.X) != h.pending.errVar || !h.isErrorBlock(body) {
		h.bad("a fallible call must be followed by `if %s != nil { return <error> }`: found if %s", h.pending.errVar, h.t.show(cond))
	}
	p := h.pending
	h.pending = nil
	h.lines = append(h.lines, h.bindLine(p.prog, p.binder))
	if p.binder != "_" && p.binder != "" {
		h.env[p.binder] = p.binderTy
	}
	return true
}

func (h *hTr) bindLocal(name, x, ty string) { h.bindLocalD(name, x, ty, false) }

// define = the Go statement declares the name (:= or var): in a nested block that never changes an outer variable
func (h *hTr) bindLocalD(name, x, ty string, define bool) {
	if h.rebound != nil && !define {
		h.rebound[name] = true
	}
	h.lines = append(h.lines, fmt.Sprintf("let v_%s := %s in", name, x))
	h.env[name] = ty
}

func (h *hTr) subBlock(list []ast.Stmt) (lines []string, endsInReturn bool, rebound map[string]bool) {
	if len(list) == 0 {
		h.bad("empty block")
	}
	outer, outerEnv, outerLower, outerRebound, outerLits := h.lines, h.env, h.lower, h.rebound, h.lits
	h.lines, h.env, h.lower, h.rebound, h.lits = nil, map[string]string{}, map[string]bool{}, map[string]bool{}, map[string]map[string]string{}
	for k, x := range outerEnv {
		h.env[k] = x
	}
	for k, x := range outerLower {
		h.lower[k] = x
	}
	for k, x := range outerLits {
		h.lits[k] = x
	}
	h.block(list)
	_, endsInReturn = list[len(list)-1].(*ast.ReturnStmt)
	lines, rebound = h.lines, map[string]bool{}
	for k := range h.rebound {
		if _, isOuter := outerEnv[k]; isOuter {
			rebound[k] = true
		}
	}
	h.lines, h.env, h.lower, h.rebound, h.lits = outer, outerEnv, outerLower, outerRebound, outerLits
	return
}

func (h *hTr) block(list []ast.Stmt) {
	for i, s := range list {
		if h.pending != nil {
			// the statement after a fallible call must consume its error
			switch v := s.(type) {
			case *ast.IfStmt:
				if v.Init == nil && v.Else == nil && h.consumePendingOnCheck(v.Cond, v.Body) {
					continue
				}
			case *ast.ReturnStmt:
			default:
				h.bad("a fallible call is not followed by its check: %s", h.t.show(s))
			}
		}
		h.stmt(s)
		if _, isRet := s.(*ast.ReturnStmt); isRet && i != len(list)-1 {
			h.bad("statements after return")
		}
	}
	if h.pending != nil {
		h.bad("the error of the last call of a block is not checked")
	}
}

func (h *hTr) stmt(s ast.Stmt) {
	switch v := s.(type) {
	case *ast.DeclStmt:
		gd, ok := v.Decl.(*ast.GenDecl)
		if ok && gd.Tok == token.VAR && len(gd.Specs) == 1 {
			vs := gd.Specs[0].(*ast.ValueSpec)
			if len(vs.Names) == 1 && len(vs.Values) == 0 && h.t.show(vs.Type) == "types.Nonce" {
				h.bindLocalD(vs.Names[0].Name, "(go_mk_Nonce 0%N 0%N)", "struct:Nonce", true)
				return
			}
		}
		h.bad("%s", h.t.show(s))
	case *ast.AssignStmt:
		if len(v.Rhs) != 1 {
			h.bad("%s", h.t.show(s))
		}
		rhs := v.Rhs[0]
		// x.F = e on a struct value
		if len(v.Lhs) == 1 && v.Tok == token.ASSIGN {
			if se, ok := v.Lhs[0].(*ast.SelectorExpr); ok {
				if id, ok := se.X.(*ast.Ident); ok && strings.HasPrefix(h.env[id.Name], "struct:") {
					sn := strings.TrimPrefix(h.env[id.Name], "struct:")
					for _, f := range h.structs[sn] {
						if f.name == se.Sel.Name {
							if m, as, ok := h.keeperCall(rhs); ok {
								g, known := getters[m]
								if !known || g.found {
									h.bad("%s", h.t.show(s))
								}
								h.lines = append(h.lines, fmt.Sprintf("tmp <- go_%s%s ;;", m, h.args(m, as, g.args)))
								h.bindLocal(id.Name, fmt.Sprintf("(go_set_%s_%s v_%s %s)", sn, f.name, id.Name, h.coerce("tmp", g.res, f.ty, h.t.show(s))), "struct:"+sn)
								return
							}
							x, ty := h.expr(rhs)
							h.bindLocal(id.Name, fmt.Sprintf("(go_set_%s_%s v_%s %s)", sn, f.name, id.Name, h.coerce(x, ty, f.ty, h.t.show(s))), "struct:"+sn)
							return
						}
					}
				}
				h.bad("%s", h.t.show(s))
			}
		}
		// m[k] = struct{}{} on a set
		if len(v.Lhs) == 1 && v.Tok == token.ASSIGN {
			if ie, ok := v.Lhs[0].(*ast.IndexExpr); ok {
				if id, ok := ie.X.(*ast.Ident); ok && h.env[id.Name] == "set" && h.t.show(rhs) == "struct{}{}" {
					k, ty := h.expr(ie.Index)
					if ty == "str" || ty == "bytes" {
						h.bindLocal(id.Name, "("+k+" :: v_"+id.Name+")", "set")
						return
					}
				}
				h.bad("%s", h.t.show(s))
			}
		}
		// _, ok := m[k] on a set
		if len(v.Lhs) == 2 && v.Tok == token.DEFINE {
			if ie, ok := rhs.(*ast.IndexExpr); ok {
				if id, ok := ie.X.(*ast.Ident); ok && h.env[id.Name] == "set" && h.t.show(v.Lhs[0]) == "_" {
					k, ty := h.expr(ie.Index)
					okv, isId := v.Lhs[1].(*ast.Ident)
					if isId && (ty == "str" || ty == "bytes") {
						h.bindLocalD(okv.Name, "(existsb (beqb "+k+") v_"+id.Name+")", "bool", true)
						return
					}
				}
				h.bad("%s", h.t.show(s))
			}
		}
		names := []string{}
		for _, l := range v.Lhs {
			id, ok := l.(*ast.Ident)
			if !ok {
				h.bad("%s", h.t.show(s))
			}
			names = append(names, id.Name)
		}
		if len(names) == 1 && names[0] == "ctx" && strings.HasPrefix(h.t.show(rhs), "sdk.UnwrapSDKContext(") {
			return
		}
		if prog, ty, ok := h.fallible(rhs); ok {
			h.assignFallible(names, prog, ty, s)
			return
		}
		// keeper getters
		if m, as, ok := h.keeperCall(rhs); ok {
			g, known := getters[m]
			if !known {
				h.bad("keeper method %s", m)
			}
			a := h.args(m, as, g.args)
			if !g.found {
				if len(names) != 1 {
					h.bad("%s", h.t.show(s))
				}
				h.lines = append(h.lines, fmt.Sprintf("v_%s <- go_%s%s ;;", names[0], m, a))
				if h.rebound != nil && v.Tok != token.DEFINE {
					h.rebound[names[0]] = true
				}
				h.env[names[0]] = g.res
				return
			}
			if len(names) != 2 {
				h.bad("%s", h.t.show(s))
			}
			pat := []string{"_", "_"}
			if names[0] != "_" {
				pat[0] = "v_" + names[0]
				h.env[names[0]] = g.res
			}
			if names[1] != "_" {
				pat[1] = "v_" + names[1]
				h.env[names[1]] = "bool"
			}
			if h.rebound != nil && v.Tok != token.DEFINE {
				h.rebound[names[0]], h.rebound[names[1]] = true, true
			}
			h.lines = append(h.lines, fmt.Sprintf("pr <- go_%s%s ;; let '(%s, %s) := pr in", m, a, pat[0], pat[1]))
			return
		}
		if len(names) != 1 {
			h.bad("%s", h.t.show(s))
		}
		// literals that are not model values: requests and factory messages
		if cl, ok := rhs.(*ast.CompositeLit); ok {
			tn := h.t.show(cl.Type)
			var fields []gfield
			var short string
			switch {
			case strings.HasPrefix(tn, "types.Msg") && h.structs[strings.TrimPrefix(tn, "types.")] != nil:
				short = strings.TrimPrefix(tn, "types.")
				fields = h.structs[short]
			case tn == "fiattokenfactorytypes.MsgBurn":
				short, fields = "MsgBurn", []gfield{{"From", "str"}, {"Amount", "coin"}}
			case tn == "fiattokenfactorytypes.MsgMint":
				short, fields = "MsgMint", []gfield{{"From", "str"}, {"Address", "str"}, {"Amount", "coin"}}
			}
			if fields != nil {
				fs := map[string]string{}
				for _, el := range cl.Elts {
					kv, ok := el.(*ast.KeyValueExpr)
					if !ok {
						h.bad("positional struct literal %s", tn)
					}
					k := h.t.show(kv.Key)
					var want string
					for _, f := range fields {
						if f.name == k {
							want = f.ty
						}
					}
					if want == "" {
						h.bad("unknown field %s.%s", tn, k)
					}
					x, ty := h.expr(kv.Value)
					if want == "Int" {
						// math.Int fields of a request stay optional values
						if ty == "IntOpt" {
							fs[k] = "IntOpt\x00" + x
						} else {
							fs[k] = "IntOpt\x00(Some " + h.coerce(x, ty, "Int", k) + ")"
						}
						continue
					}
					fs[k] = want + "\x00" + h.coerce(x, ty, want, "field "+tn+"."+k)
				}
				fs["\x00type"] = short
				h.lits[names[0]] = fs
				h.env[names[0]] = "lit:"
				return
			}
		}
		x, ty := h.expr(rhs)
		if ty == "lit" {
			h.bad("untyped constant %s", h.t.show(s))
		}
		h.bindLocalD(names[0], x, ty, v.Tok == token.DEFINE)
	case *ast.IfStmt:
		if v.Init != nil {
			h.stmt(v.Init)
			if h.pending != nil {
				if v.Else != nil || !h.consumePendingOnCheck(v.Cond, v.Body) {
					h.bad("if %s", h.t.show(v.Cond))
				}
				return
			}
		}
		if h.kind == "query" && v.Else == nil && v.Init == nil && h.msgVar != "" && h.t.show(v.Cond) == h.msgVar+" == nil" && h.isErrorBlock(v.Body) {
			return // a gRPC request is never nil when it reaches the keeper through the generated server
		}
		// if p != nil { A } else { B } on a pointer field: A runs with *p bound
		if be, ok := v.Cond.(*ast.BinaryExpr); ok && be.Op == token.NEQ && h.t.show(be.Y) == "nil" && v.Else != nil {
			if x, ty := h.tryExpr(be.X); strings.HasPrefix(ty, "opt:") {
				eb, ok := v.Else.(*ast.BlockStmt)
				if !ok {
					h.bad("else if")
				}
				h.nderef++
				name := fmt.Sprintf("v_deref%d", h.nderef)
				key := h.t.show(be.X)
				old, had := h.derefs[key]
				h.derefs[key] = "struct:" + strings.TrimPrefix(ty, "opt:") + "\x00" + name
				thenLines, thenRet, thenRe := h.subBlock(v.Body.List)
				if had {
					h.derefs[key] = old
				} else {
					delete(h.derefs, key)
				}
				elseLines, elseRet, elseRe := h.subBlock(eb.List)
				if thenRet || elseRet || len(thenRe) != 0 || len(elseRe) != 0 {
					h.bad("pointer test with returns or assignments inside")
				}
				h.lines = append(h.lines, fmt.Sprintf("(match %s with Some %s => (%s ret tt) | None => (%s ret tt) end) ;;;", x, name, strings.Join(thenLines, " "), strings.Join(elseLines, " ")))
				return
			}
		}
		var c, ty string
		cond, negated := v.Cond, false
		if ue, ok := cond.(*ast.UnaryExpr); ok && ue.Op == token.NOT {
			cond, negated = ue.X, true
		}
		if v.Else == nil && len(v.Body.List) == 1 {
			// if cond { panic(...) }
			if es, ok := v.Body.List[0].(*ast.ExprStmt); ok {
				if ce, ok := es.X.(*ast.CallExpr); ok && h.t.show(ce.Fun) == "panic" {
					c, ty = h.expr(v.Cond)
					if ty != "bool" {
						h.bad("condition %s", h.t.show(v.Cond))
					}
					h.lines = append(h.lines, "go_panic_if "+c+" ;;;")
					return
				}
			}
		}
		if m, as, ok := h.keeperCall(cond); ok {
			// if k.GetUsedNonce(ctx, n) { ... }: the call is made first, its result tested
			g, known := getters[m]
			if !known || g.found || g.res != "bool" {
				h.bad("condition %s", h.t.show(v.Cond))
			}
			h.lines = append(h.lines, fmt.Sprintf("cnd <- go_%s%s ;;", m, h.args(m, as, g.args)))
			c, ty = "cnd", "bool"
			if negated {
				c = "(negb cnd)"
			}
		} else {
			c, ty = h.expr(v.Cond)
		}
		if ty != "bool" {
			h.bad("condition %s", h.t.show(v.Cond))
		}
		if v.Else == nil && h.isErrorBlock(v.Body) {
			h.lines = append(h.lines, "go_fail_if "+c+" ;;;")
			return
		}
		thenLines, thenRet, thenRe := h.subBlock(v.Body.List)
		if v.Else == nil {
			if thenRet {
				h.lines = append(h.lines, "if "+c+" then ("+strings.Join(thenLines, " ")+") else")
				return
			}
			if len(thenRe) == 1 {
				var name string
				for k := range thenRe {
					name = k
				}
				h.lines = append(h.lines, fmt.Sprintf("v_%s <- (if %s then (%s ret v_%s) else ret v_%s) ;;", name, c, strings.Join(thenLines, " "), name, name))
				return
			}
			if len(thenRe) != 0 {
				h.bad("an if without else assigns more than one outer variable")
			}
			h.lines = append(h.lines, "(if "+c+" then ("+strings.Join(thenLines, " ")+" ret tt) else ret tt) ;;;")
			return
		}
		eb, ok := v.Else.(*ast.BlockStmt)
		if !ok {
			h.bad("else if")
		}
		elseLines, elseRet, elseRe := h.subBlock(eb.List)
		if thenRet || elseRet {
			h.bad("if/else with a return inside")
		}
		joined := map[string]bool{}
		for k := range thenRe {
			joined[k] = true
		}
		for k := range elseRe {
			joined[k] = true
		}
		switch len(joined) {
		case 0:
			h.lines = append(h.lines, "(if "+c+" then ("+strings.Join(thenLines, " ")+" ret tt) else ("+strings.Join(elseLines, " ")+" ret tt)) ;;;")
		case 1:
			var name string
			for k := range joined {
				name = k
			}
			h.lines = append(h.lines, fmt.Sprintf("v_%s <- (if %s then (%s ret v_%s) else (%s ret v_%s)) ;;", name, c, strings.Join(thenLines, " "), name, strings.Join(elseLines, " "), name))
		default:
			h.bad("if/else assigns more than one outer variable")
		}
	case *ast.ExprStmt:
		if ce, ok := v.X.(*ast.CallExpr); ok && h.t.show(ce.Fun) == "copy" && len(ce.Args) == 2 {
			if se, ok := ce.Args[0].(*ast.SliceExpr); ok && se.High == nil && se.Low != nil && !se.Slice3 {
				if id, ok := se.X.(*ast.Ident); ok && h.env[id.Name] == "bytes" {
					if off, ok := h.t.konst(se.Low); ok {
						y, ty := h.expr(ce.Args[1])
						if ty == "bytes" || ty == "acc" {
							h.bindLocal(id.Name, fmt.Sprintf("(go_copy_into %d v_%s %s)", off, id.Name, y), "bytes")
							return
						}
					}
				}
			}
			h.bad("%s", h.t.show(s))
		}
		m, as, ok := h.keeperCall(v.X)
		if !ok {
			h.bad("%s", h.t.show(s))
		}
		want, known := setters[m]
		if !known {
			h.bad("keeper method %s", m)
		}
		h.lines = append(h.lines, "go_"+m+h.args(m, as, want)+" ;;;")
	case *ast.RangeStmt:
		// for _, elem := range list { ... }
		if v.Tok != token.DEFINE || v.Value == nil || (v.Key != nil && h.t.show(v.Key) != "_") {
			h.bad("%s", h.t.show(s))
		}
		elem, ok := v.Value.(*ast.Ident)
		if !ok {
			h.bad("%s", h.t.show(s))
		}
		x, ty := h.expr(v.X)
		if !strings.HasPrefix(ty, "list:") {
			h.bad("range over a %s", ty)
		}
		outerTy, had := h.env[elem.Name]
		h.env[elem.Name] = "struct:" + strings.TrimPrefix(ty, "list:")
		body, endsRet, re := h.subBlock(v.Body.List)
		if had {
			h.env[elem.Name] = outerTy
		} else {
			delete(h.env, elem.Name)
		}
		if endsRet || len(re) > 1 {
			h.bad("range body with a return or assignments to several outer variables")
		}
		if len(re) == 1 {
			var acc string
			for k := range re {
				acc = k
			}
			h.lines = append(h.lines, fmt.Sprintf("v_%s <- go_loop (fun v_%s v_%s => %s ret v_%s) %s v_%s ;;", acc, elem.Name, acc, strings.Join(body, " "), acc, x, acc))
			return
		}
		h.lines = append(h.lines, fmt.Sprintf("go_for_each (fun v_%s => %s ret tt) %s ;;;", elem.Name, strings.Join(body, " "), x))
	case *ast.ReturnStmt:
		if h.kind == "query" {
			if len(v.Results) != 2 {
				h.bad("%s", h.t.show(s))
			}
			if h.t.show(v.Results[0]) == "nil" && h.t.show(v.Results[1]) != "nil" {
				h.lines = append(h.lines, "fail")
				return
			}
			if h.t.show(v.Results[1]) != "nil" {
				h.bad("%s", h.t.show(s))
			}
			ue, ok := v.Results[0].(*ast.UnaryExpr)
			if !ok || ue.Op != token.AND {
				h.bad("%s", h.t.show(s))
			}
			x, ty := h.expr(ue.X)
			if ty != "qresp" {
				h.bad("returns a %s", ty)
			}
			h.lines = append(h.lines, "ret "+x)
			return
		}
		if h.kind == "val" {
			if len(v.Results) != 1 {
				h.bad("%s", h.t.show(s))
			}
			x, ty := h.expr(v.Results[0])
			if ty != h.valTy {
				h.bad("returns a %s", ty)
			}
			h.lines = append(h.lines, "ret "+x)
			return
		}
		h.ret(v)
	default:
		h.bad("%s", h.t.show(s))
	}
}

func pbStructs(repo string, fset *token.FileSet) map[string][]gfield {
	out := map[string][]gfield{}
	files, _ := filepath.Glob(filepath.Join(repo, "x/cctp/types", "*.pb.go"))
	for _, f := range files {
		af, err := parser.ParseFile(fset, f, nil, 0)
		if err != nil {
			continue
		}
		for _, d := range af.Decls {
			gd, ok := d.(*ast.GenDecl)
			if !ok {
				continue
			}
			for _, sp := range gd.Specs {
				ts, ok := sp.(*ast.TypeSpec)
				if !ok {
					continue
				}
				st, ok := ts.Type.(*ast.StructType)
				if !ok {
					continue
				}
				var fs []gfield
				for _, fl := range st.Fields.List {
					for _, nm := range fl.Names {
						fs = append(fs, gfield{nm.Name, goType(fl.Type)})
					}
				}
				out[ts.Name.Name] = fs
			}
		}
	}
	return out
}

// the model side of every equality
func modelSide(name string, pn []string) (rhs string, wrap string) {
	switch name {
	case "sendMessage":
		return "send_message " + strings.Join(pn, " "), ""
	case "depositForBurn":
		return "deposit_for_burn e " + strings.Join(pn, " "), "lift_nonce"
	}
	return "handler e (" + name + " " + strings.Join(pn, " ") + ")", ""
}

func translateHandlers(repo string, ints map[string]int64, scalarVars map[string]int64) map[string]string {
	fset := token.NewFileSet()
	ct := &codecTr{fset: fset, ints: ints}
	structs := pbStructs(repo, fset)
	scalars := map[string]int64{}
	for k, v := range ints {
		scalars[k] = v
	}
	for k, v := range scalarVars {
		scalars[k] = v
	}
	all := append(append([]string{}, adminHandlers...), flowFunctions...)
	found := map[string]*ast.FuncDecl{}
	wanted := map[string]bool{}
	for _, n := range all {
		wanted[n] = true
	}
	files, _ := filepath.Glob(filepath.Join(repo, "x/cctp/keeper", "*.go"))
	sort.Strings(files)
	for _, f := range files {
		if strings.HasSuffix(f, "_test.go") || strings.HasSuffix(f, "_verif.go") {
			continue
		}
		af, err := parser.ParseFile(fset, f, nil, 0)
		if err != nil {
			continue
		}
		for _, d := range af.Decls {
			fd, ok := d.(*ast.FuncDecl)
			if !ok || fd.Recv == nil || fd.Body == nil || len(fd.Recv.List) != 1 {
				continue
			}
			if strings.TrimPrefix(ct.show(fd.Recv.List[0].Type), "*") != "msgServer" {
				continue
			}
			if wanted[fd.Name.Name] {
				found[fd.Name.Name] = fd
			}
		}
	}
	imports := "From Coq Require Import Bool Arith.\nFrom Cctp Require Import Lib.Bytes Lib.SMap Lib.Text Lib.Hex Lib.Keccak Lib.Bech32 Model.Codec Model.State Model.Attest Model.Ledger Model.Handlers Spec.Roles Proofs.MonadFacts Gen.GoSem"
	out := map[string]string{}
	funcs := map[string]*funcInfo{}
	usesE := map[string]bool{}
	isAdmin := map[string]bool{}
	for _, n := range adminHandlers {
		isAdmin[n] = true
	}
	wordE := func(lines []string) bool {
		for _, l := range lines {
			for _, tok := range strings.FieldsFunc(l, func(r rune) bool {
				return !(r == '_' || r >= 'a' && r <= 'z' || r >= 'A' && r <= 'Z' || r >= '0' && r <= '9')
			}) {
				if tok == "e" {
					return true
				}
			}
		}
		return false
	}
	for _, n := range all {
		gname, file := "go_"+n, "GoH_"+n+".v"
		fd := found[n]
		h := &hTr{t: ct, structs: structs, scalars: scalars, funcs: funcs, env: map[string]string{}, lits: map[string]map[string]string{},
			lower: map[string]bool{}, uses: map[string]bool{}, usesE: usesE}
		fi := &funcInfo{name: n}
		var reason string
		if fd == nil {
			reason = "no msgServer method of this name"
		} else {
			func() {
				defer func() {
					if r := recover(); r != nil {
						if u, ok := r.(untranslatable); ok {
							reason = string(u)
							return
						}
						reason = fmt.Sprint(r)
					}
				}()
				if len(fd.Recv.List[0].Names) != 1 || fd.Type.Params == nil || len(fd.Type.Params.List) < 1 {
					h.bad("signature")
				}
				h.recvK = fd.Recv.List[0].Names[0].Name
				ps := fd.Type.Params.List
				res := ""
				if fd.Type.Results != nil {
					var rs []string
					for _, r := range fd.Type.Results.List {
						rs = append(rs, ct.show(r.Type))
					}
					res = strings.Join(rs, ",")
				}
				isHandler := len(ps) == 2 && len(ps[1].Names) == 1 && strings.HasPrefix(ct.show(ps[1].Type), "*types.Msg")
				if isHandler {
					h.kind, fi.kind = "handler", "handler"
					h.msgVar = ps[1].Names[0].Name
					h.msgTy = strings.TrimPrefix(ct.show(ps[1].Type), "*types.")
					fi.msgTy = h.msgTy
					if _, ok := structs[h.msgTy]; !ok {
						h.bad("request type %s", h.msgTy)
					}
					for _, f := range structs[h.msgTy] {
						ty := f.ty
						if ty == "Int" {
							ty = "IntOpt"
						}
						fi.params = append(fi.params, gfield{"a_" + f.name, ty})
					}
				} else {
					switch res {
					case "error":
						h.kind = "err"
					case "uint64,error":
						h.kind = "u64err"
					default:
						h.bad("result type %s", res)
					}
					fi.kind = h.kind
					for i, p := range ps {
						for _, nm := range p.Names {
							if i == 0 && nm.Name == "ctx" {
								continue
							}
							ty := goType(p.Type)
							if ty == "Int" {
								ty = "IntOpt"
							}
							if strings.HasPrefix(ty, "?") {
								h.bad("parameter %s of type %s", nm.Name, ct.show(p.Type))
							}
							h.env[nm.Name] = ty
							fi.params = append(fi.params, gfield{"v_" + nm.Name, ty})
						}
					}
				}
				h.block(fd.Body.List)
				if len(h.lines) == 0 {
					h.bad("empty body")
				}
				last := h.lines[len(h.lines)-1]
				if !strings.HasPrefix(last, "ret ") && last != "fail" {
					h.bad("does not end in a return")
				}
			}()
		}
		if n == "sendMessage" || n == "depositForBurn" {
			gname, file = "go_fn_"+n, "GoF_"+n+".v"
		}
		var sb strings.Builder
		if reason != "" {
			sb.WriteString("(* NOT TRANSLATED: " + strings.ReplaceAll(reason, "*)", "* )") + " *)\n")
			fmt.Fprintf(&sb, "Definition %s_translated : bool := false.\nDefinition %s_reason : string := %s.\n", gname, gname, coqStr(reason))
			fmt.Fprintf(&sb, "Definition %s_ok : Prop := True.\nLemma %s_ok_proof : %s_ok.\nProof. exact I. Qed.\n", gname, gname, gname)
			if isAdmin[n] {
				fmt.Fprintf(&sb, "Definition %s_auth : Prop := True.\nLemma %s_auth_proof : %s_auth.\nProof. exact I. Qed.\n", gname, gname, gname)
			}
			out[file] = sb.String()
			continue
		}
		// every translated function this one calls, transitively
		seen := map[string]bool{}
		for m := range h.uses {
			seen[m] = true
			for _, d := range funcs[m].uses {
				seen[d] = true
			}
		}
		pos := map[string]int{}
		for i, m := range all {
			pos[m] = i
		}
		for m := range seen {
			fi.uses = append(fi.uses, m)
		}
		sort.Slice(fi.uses, func(i, j int) bool { return pos[fi.uses[i]] > pos[fi.uses[j]] }) // callers before callees
		imp := imports
		var unf []string
		for _, m := range fi.uses {
			g, f := "go_"+m, "GoH_"+m
			if funcs[m].kind != "handler" {
				g, f = "go_fn_"+m, "GoF_"+m
			}
			imp += " Gen." + f
			unf = append(unf, g)
		}
		sb.WriteString(imp + ".\nClose Scope string_scope.\n\nSection Go.\n  Variable e : env.\n\n")
		var params, pn []string
		for _, p := range fi.params {
			params = append(params, fmt.Sprintf("(%s : %s)", p.name, coqType(p.ty)))
			pn = append(pn, p.name)
		}
		rty := map[string]string{"handler": "resp", "err": "unit", "u64err": "N"}[fi.kind]
		fmt.Fprintf(&sb, "  (* %s *)\n  Definition %s %s : M %s :=\n    %s.\n\n", filepath.Base(fset.Position(fd.Pos()).Filename), gname, strings.Join(params, " "), rty, strings.Join(h.lines, "\n    "))
		usesE[n] = wordE(h.lines)
		rhs, wrap := modelSide(n, pn)
		lhs := gname + " " + strings.Join(pn, " ")
		if wrap != "" {
			lhs = wrap + " (" + lhs + ")"
		}
		unfold := gname
		if len(unf) > 0 {
			unfold += ", " + strings.Join(unf, ", ")
		}
		fmt.Fprintf(&sb, "  Lemma %s_is_model %s h : eq_or_unmodelled (%s h) (%s h).\n  Proof. timeout 900 (go_model_unfold; unfold %s; go_eq). Qed.\n\n", gname, strings.Join(pn, " "), lhs, rhs, unfold)
		fmt.Fprintf(&sb, "  Definition %s_ok_at : Prop := let _ := e in forall %s h, eq_or_unmodelled (%s h) (%s h).\n  Lemma %s_ok_at_proof : %s_ok_at.\n  Proof. exact %s_is_model. Qed.\n",
			gname, strings.Join(pn, " "), lhs, rhs, gname, gname, gname)
		if isAdmin[n] {
			// the translated handler itself rejects every submitter who does not hold the role, leaving the state as it was
			fmt.Fprintf(&sb, "\n  Lemma %s_unauthorised %s h r : roles_set (h_st h) -> role_of (%s %s) = Some r -> holder r (h_st h) <> Some a_From ->\n    %s %s h = (RErr, h).\n  Proof. timeout 300 (unfold %s; go_unauth). Qed.\n",
				gname, strings.Join(pn, " "), n, strings.Join(pn, " "), gname, strings.Join(pn, " "), gname)
			fmt.Fprintf(&sb, "  Definition %s_auth_at : Prop := let _ := e in forall %s h r, roles_set (h_st h) -> role_of (%s %s) = Some r -> holder r (h_st h) <> Some a_From ->\n    %s %s h = (RErr, h).\n  Lemma %s_auth_at_proof : %s_auth_at.\n  Proof. exact %s_unauthorised. Qed.\n",
				gname, strings.Join(pn, " "), n, strings.Join(pn, " "), gname, strings.Join(pn, " "), gname, gname, gname)
		}
		sb.WriteString("End Go.\n\nFrom Coq Require Import String.\nOpen Scope string_scope.\n")
		fmt.Fprintf(&sb, "Definition %s_translated : bool := true.\nDefinition %s_reason : string := \"\".\n", gname, gname)
		fmt.Fprintf(&sb, "Definition %s_ok : Prop := forall e : env, %s_ok_at e.\nLemma %s_ok_proof : %s_ok.\nProof. intros e. apply %s_ok_at_proof. Qed.\n", gname, gname, gname, gname, gname)
		if isAdmin[n] {
			fmt.Fprintf(&sb, "Definition %s_auth : Prop := forall e : env, %s_auth_at e.\nLemma %s_auth_proof : %s_auth.\nProof. intros e. apply %s_auth_at_proof. Qed.\n", gname, gname, gname, gname, gname)
		}
		out[file] = sb.String()
		funcs[n] = fi
	}
	return out
}

// never let a defect of the translator stop the build: a crash leaves every function marked as not translated
func safeTranslateHandlers(repo string, ints map[string]int64, scalarVars map[string]int64) (out map[string]string) {
	defer func() {
		if r := recover(); r != nil {
			out = map[string]string{}
			reason := coqStr(fmt.Sprintf("the translator failed: %v", r))
			admin := map[string]bool{}
			for _, n := range adminHandlers {
				admin[n] = true
			}
			for _, n := range append(append([]string{}, adminHandlers...), flowFunctions...) {
				gname, file := "go_"+n, "GoH_"+n+".v"
				if n == "sendMessage" || n == "depositForBurn" {
					gname, file = "go_fn_"+n, "GoF_"+n+".v"
				}
				body := fmt.Sprintf("Definition %s_translated : bool := false.\nDefinition %s_reason : string := %s.\nDefinition %s_ok : Prop := True.\nLemma %s_ok_proof : %s_ok.\nProof. exact I. Qed.\n", gname, gname, reason, gname, gname, gname)
				if admin[n] {
					body += fmt.Sprintf("Definition %s_auth : Prop := True.\nLemma %s_auth_proof : %s_auth.\nProof. exact I. Qed.\n", gname, gname, gname)
				}
				out[file] = body
			}
		}
	}()
	return translateHandlers(repo, ints, scalarVars)
}

// InitGenesis / ExportGenesis of x/cctp/genesis.go, translated with the same machinery (loops over the genesis lists,
// pointer fields, panic).  Gen/GoG_InitGenesis.v and Gen/GoG_ExportGenesis.v.
func translateGenesis(repo string, ints map[string]int64, scalarVars map[string]int64) (out map[string]string) {
	out = map[string]string{}
	notTranslated := func(name, reason string) string {
		return fmt.Sprintf("(* NOT TRANSLATED: %s *)\nDefinition go_%s_translated : bool := false.\nDefinition go_%s_reason : string := %s.\nDefinition go_%s_ok : Prop := True.\nLemma go_%s_ok_proof : go_%s_ok.\nProof. exact I. Qed.\n",
			strings.ReplaceAll(reason, "*)", "* )"), name, name, coqStr(reason), name, name, name)
	}
	defer func() {
		if r := recover(); r != nil {
			for _, n := range []string{"InitGenesis", "ExportGenesis", "Validate"} {
				out["GoG_"+n+".v"] = notTranslated(n, fmt.Sprintf("the translator failed: %v", r))
			}
		}
	}()
	fset := token.NewFileSet()
	ct := &codecTr{fset: fset, ints: ints}
	structs := pbStructs(repo, fset)
	scalars := map[string]int64{}
	for k, v := range ints {
		scalars[k] = v
	}
	for k, v := range scalarVars {
		scalars[k] = v
	}
	af, err := parser.ParseFile(fset, filepath.Join(repo, "x/cctp/genesis.go"), nil, 0)
	found := map[string]*ast.FuncDecl{}
	if err == nil {
		for _, d := range af.Decls {
			if fd, ok := d.(*ast.FuncDecl); ok && fd.Recv == nil && fd.Body != nil {
				found[fd.Name.Name] = fd
			}
		}
	}
	imports := "From Coq Require Import Bool Arith.\nFrom Cctp Require Import Lib.Bytes Lib.SMap Lib.Text Lib.Hex Lib.Bech32 Model.Codec Model.State Model.Attest Model.Ledger Model.Handlers Model.Genesis Proofs.MonadFacts Gen.GoSem Gen.GoSemGenesis.\nClose Scope string_scope.\n\n"
	// GenesisState.Validate of x/cctp/types/genesis.go
	if af2, err := parser.ParseFile(fset, filepath.Join(repo, "x/cctp/types/genesis.go"), nil, 0); err == nil {
		for _, d := range af2.Decls {
			if fd, ok := d.(*ast.FuncDecl); ok && fd.Recv != nil && fd.Body != nil && fd.Name.Name == "Validate" && len(fd.Recv.List) == 1 &&
				strings.TrimPrefix(ct.show(fd.Recv.List[0].Type), "*") == "GenesisState" {
				found["Validate"] = fd
			}
		}
	}
	for _, n := range []string{"InitGenesis", "ExportGenesis", "Validate"} {
		fd := found[n]
		if fd == nil {
			out["GoG_"+n+".v"] = notTranslated(n, "no function of this name")
			continue
		}
		h := &hTr{t: ct, structs: structs, scalars: scalars, funcs: map[string]*funcInfo{}, env: map[string]string{}, lits: map[string]map[string]string{},
			lower: map[string]bool{}, uses: map[string]bool{}, usesE: map[string]bool{}, derefs: map[string]string{}, record: true}
		var reason string
		func() {
			defer func() {
				if r := recover(); r != nil {
					if u, ok := r.(untranslatable); ok {
						reason = string(u)
						return
					}
					reason = fmt.Sprint(r)
				}
			}()
			ps := fd.Type.Params.List
			if n == "Validate" {
				if len(ps) != 0 || len(fd.Recv.List[0].Names) != 1 || fd.Type.Results == nil || len(fd.Type.Results.List) != 1 || ct.show(fd.Type.Results.List[0].Type) != "error" {
					h.bad("signature")
				}
				h.kind, h.msgVar, h.msgTy, h.recvK = "err", fd.Recv.List[0].Names[0].Name, "GenesisState", "\x00none"
			} else if len(ps) < 2 || len(ps[1].Names) != 1 || ct.show(ps[1].Type) != "*keeper.Keeper" {
				h.bad("signature")
			} else {
				h.recvK = ps[1].Names[0].Name
			}
			switch n {
			case "InitGenesis":
				if len(ps) != 3 || len(ps[2].Names) != 1 || ct.show(ps[2].Type) != "types.GenesisState" || fd.Type.Results != nil {
					h.bad("signature")
				}
				h.kind, h.msgVar, h.msgTy = "unit", ps[2].Names[0].Name, "GenesisState"
			case "ExportGenesis":
				if len(ps) != 2 || fd.Type.Results == nil || len(fd.Type.Results.List) != 1 || ct.show(fd.Type.Results.List[0].Type) != "*types.GenesisState" {
					h.bad("signature")
				}
				h.kind, h.valTy = "val", "struct:GenesisState"
			}
			h.block(fd.Body.List)
			if h.kind == "unit" {
				h.lines = append(h.lines, "ret tt")
			}
			if len(h.lines) == 0 || !strings.HasPrefix(h.lines[len(h.lines)-1], "ret ") {
				h.bad("does not end in a return")
			}
		}()
		if reason != "" {
			out["GoG_"+n+".v"] = notTranslated(n, reason)
			continue
		}
		var sb strings.Builder
		sb.WriteString(imports)
		if n == "Validate" {
			fmt.Fprintf(&sb, "Section Go.\n  Variable e : env.\n  Definition go_Validate (a_%s : genesis) : M unit :=\n    %s.\nEnd Go.\n\n", h.msgVar, strings.Join(h.lines, "\n    "))
			sb.WriteString("(* the translated Validate accepts exactly the genesis states the model's validate accepts, and touches nothing *)\n")
			sb.WriteString("Definition go_Validate_ok : Prop := forall e g h, go_Validate e g h = (if validate e g then ROk tt else RErr, h).\n")
			sb.WriteString("Lemma go_Validate_ok_proof : go_Validate_ok.\nProof. timeout 600 (unfold go_Validate_ok, go_Validate; go_genesis_validate). Qed.\n")
		} else if n == "InitGenesis" {
			fmt.Fprintf(&sb, "Definition go_InitGenesis (a_%s : genesis) : M unit :=\n  %s.\n\n", h.msgVar, strings.Join(h.lines, "\n  "))
			sb.WriteString("(* run on an empty store, the translated InitGenesis produces exactly the model's store, and panics exactly when the model does *)\n")
			fmt.Fprintf(&sb, "Definition go_InitGenesis_ok : Prop := forall g h, h_st h = empty_store ->\n  match init_genesis g with\n  | Some s => go_InitGenesis g h = (ROk tt, go_with_st h s)\n  | None => fst (go_InitGenesis g h) = RPanic\n  end.\n")
			sb.WriteString("Lemma go_InitGenesis_ok_proof : go_InitGenesis_ok.\nProof. timeout 600 (unfold go_InitGenesis_ok, go_InitGenesis; go_genesis_init). Qed.\n")
		} else {
			fmt.Fprintf(&sb, "Definition go_ExportGenesis : M genesis :=\n  %s.\n\n", strings.Join(h.lines, "\n  "))
			sb.WriteString("(* on a chain whose pause flags are set (every initialised chain) the translated ExportGenesis returns the model's export, changes nothing, and panics exactly when the model does (a role slot unset) *)\n")
			sb.WriteString("Definition go_ExportGenesis_ok : Prop := forall h, bm_paused (h_st h) <> None -> sr_paused (h_st h) <> None ->\n  match export_genesis (h_st h) with\n  | Some g => go_ExportGenesis h = (ROk g, h)\n  | None => fst (go_ExportGenesis h) = RPanic\n  end.\n")
			sb.WriteString("Lemma go_ExportGenesis_ok_proof : go_ExportGenesis_ok.\nProof. timeout 600 (unfold go_ExportGenesis_ok, go_ExportGenesis; go_genesis_export). Qed.\n")
		}
		sb.WriteString("\nFrom Coq Require Import String.\nOpen Scope string_scope.\n")
		fmt.Fprintf(&sb, "Definition go_%s_translated : bool := true.\nDefinition go_%s_reason : string := \"\".\n", n, n)
		out["GoG_"+n+".v"] = sb.String()
	}
	return out
}

// the fourteen single-answer gRPC queries of keeper/grpc_query_*.go (the five paginated ones hand a closure to the SDK's
// query.Paginate and are not translated)
var queryTable = [][3]string{ // Go method, model constructor, request fields passed to it (pb order)
	{"LocalDomain", "QLocalDomain", ""}, {"LocalMessageVersion", "QMessageVersion", ""}, {"BurnMessageVersion", "QBurnMessageVersion", ""},
	{"Roles", "QRoles", ""}, {"BurningAndMintingPaused", "QBurningAndMintingPaused", ""},
	{"SendingAndReceivingMessagesPaused", "QSendingAndReceivingPaused", ""}, {"MaxMessageBodySize", "QMaxMessageBodySize", ""},
	{"NextAvailableNonce", "QNextAvailableNonce", ""}, {"SignatureThreshold", "QSignatureThreshold", ""},
	{"Attester", "QAttester", "Attester"}, {"PerMessageBurnLimit", "QBurnLimit", "Denom"},
	{"TokenPair", "QTokenPair", "RemoteDomain RemoteToken"}, {"UsedNonce", "QUsedNonce", "SourceDomain Nonce"},
	{"RemoteTokenMessenger", "QMessenger", "DomainId"},
}

func translateQueries(repo string, ints map[string]int64, scalarVars map[string]int64) (out map[string]string) {
	out = map[string]string{}
	notTranslated := func(name, reason string) string {
		return fmt.Sprintf("(* NOT TRANSLATED: %s *)\nDefinition go_q_%s_translated : bool := false.\nDefinition go_q_%s_reason : string := %s.\nDefinition go_q_%s_ok : Prop := True.\nLemma go_q_%s_ok_proof : go_q_%s_ok.\nProof. exact I. Qed.\n",
			strings.ReplaceAll(reason, "*)", "* )"), name, name, coqStr(reason), name, name, name)
	}
	defer func() {
		if r := recover(); r != nil {
			for _, q := range queryTable {
				out["GoQ_"+q[0]+".v"] = notTranslated(q[0], fmt.Sprintf("the translator failed: %v", r))
			}
		}
	}()
	fset := token.NewFileSet()
	ct := &codecTr{fset: fset, ints: ints}
	structs := pbStructs(repo, fset)
	scalars := map[string]int64{}
	for k, v := range ints {
		scalars[k] = v
	}
	for k, v := range scalarVars {
		scalars[k] = v
	}
	found := map[string]*ast.FuncDecl{}
	files, _ := filepath.Glob(filepath.Join(repo, "x/cctp/keeper", "grpc_query*.go"))
	sort.Strings(files)
	for _, f := range files {
		if strings.HasSuffix(f, "_test.go") {
			continue
		}
		af, err := parser.ParseFile(fset, f, nil, 0)
		if err != nil {
			continue
		}
		for _, d := range af.Decls {
			if fd, ok := d.(*ast.FuncDecl); ok && fd.Recv != nil && fd.Body != nil && len(fd.Recv.List) == 1 && strings.TrimPrefix(ct.show(fd.Recv.List[0].Type), "*") == "Keeper" {
				found[fd.Name.Name] = fd
			}
		}
	}
	imports := "From Coq Require Import Bool Arith.\nFrom Cctp Require Import Lib.Bytes Lib.SMap Lib.Text Lib.Hex Lib.Paginate Model.Codec Model.State Model.Attest Model.Ledger Model.Handlers Model.Genesis Model.Queries Proofs.MonadFacts Gen.GoSem Gen.GoSemGenesis Gen.GoSemQuery.\nClose Scope string_scope.\n\n"
	for _, q := range queryTable {
		n := q[0]
		fd := found[n]
		if fd == nil {
			out["GoQ_"+n+".v"] = notTranslated(n, "no Keeper method of this name in grpc_query*.go")
			continue
		}
		h := &hTr{t: ct, structs: structs, scalars: scalars, funcs: map[string]*funcInfo{}, env: map[string]string{}, lits: map[string]map[string]string{},
			lower: map[string]bool{}, uses: map[string]bool{}, usesE: map[string]bool{}, derefs: map[string]string{}, kind: "query"}
		var reason string
		var params, pn []string
		func() {
			defer func() {
				if r := recover(); r != nil {
					if u, ok := r.(untranslatable); ok {
						reason = string(u)
						return
					}
					reason = fmt.Sprint(r)
				}
			}()
			ps := fd.Type.Params.List
			if len(fd.Recv.List[0].Names) != 1 || len(ps) != 2 || len(ps[1].Names) != 1 || !strings.HasPrefix(ct.show(ps[1].Type), "*types.Query") {
				h.bad("signature")
			}
			h.recvK = fd.Recv.List[0].Names[0].Name
			h.msgVar = ps[1].Names[0].Name
			h.msgTy = strings.TrimPrefix(ct.show(ps[1].Type), "*types.")
			if h.msgVar == "_" {
				h.msgVar = ""
			}
			for _, f := range strings.Fields(q[2]) {
				var ty string
				for _, sf := range structs[h.msgTy] {
					if sf.name == f {
						ty = sf.ty
					}
				}
				if ty == "" {
					h.bad("request field %s", f)
				}
				params = append(params, fmt.Sprintf("(a_%s : %s)", f, coqType(ty)))
				pn = append(pn, "a_"+f)
			}
			h.block(fd.Body.List)
			if len(h.lines) == 0 || (!strings.HasPrefix(h.lines[len(h.lines)-1], "ret ") && h.lines[len(h.lines)-1] != "fail") {
				h.bad("does not end in a return")
			}
		}()
		if reason != "" {
			out["GoQ_"+n+".v"] = notTranslated(n, reason)
			continue
		}
		var sb strings.Builder
		sb.WriteString(imports)
		fmt.Fprintf(&sb, "Definition go_q_%s %s : M qresp :=\n  %s.\n\n", n, strings.Join(params, " "), strings.Join(h.lines, "\n  "))
		args := strings.Join(pn, " ")
		qc := q[1]
		if args != "" {
			qc = "(" + q[1] + " " + args + ")"
		}
		sb.WriteString("(* the translated query answers what the model's run_query answers, fails where it fails, panics where it panics, and changes nothing *)\n")
		fmt.Fprintf(&sb, "Definition go_q_%s_ok : Prop := forall %s h, go_q_%s %s h = (match run_query (h_st h) %s with QOk r => ROk r | QErr => RErr | QPanic => RPanic end, h).\n", n, strings.TrimSpace(args+" "), n, args, qc)
		fmt.Fprintf(&sb, "Lemma go_q_%s_ok_proof : go_q_%s_ok.\nProof. timeout 300 (unfold go_q_%s_ok, go_q_%s; go_query_eq). Qed.\n", n, n, n, n)
		sb.WriteString("\nFrom Coq Require Import String.\nOpen Scope string_scope.\n")
		fmt.Fprintf(&sb, "Definition go_q_%s_translated : bool := true.\nDefinition go_q_%s_reason : string := \"\".\n", n, n)
		out["GoQ_"+n+".v"] = sb.String()
	}
	return out
}
