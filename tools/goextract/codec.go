package main

// Translator for the four wire codecs: Message.Parse / Message.Bytes / BurnMessage.Parse / BurnMessage.Bytes are read from the
// Go source and emitted as values of the intermediate representation of coq/Gen/CodecIR.v.  Anything outside the accepted
// statement forms is listed as "unknown" (the Coq check then fails and the check falls back to searching for a failing input).

import (
	"bytes"
	"fmt"
	"go/ast"
	"go/parser"
	"go/printer"
	"go/token"
	"path/filepath"
	"sort"
	"strings"
)

type codecTr struct {
	fset *token.FileSet
	ints map[string]int64
}

func (t *codecTr) show(n ast.Node) string {
	var b bytes.Buffer
	printer.Fprint(&b, t.fset, n)
	return strings.Join(strings.Fields(b.String()), " ")
}

// constant integer expression
func (t *codecTr) konst(e ast.Expr) (int64, bool) {
	switch v := e.(type) {
	case *ast.BasicLit:
		if v.Kind == token.INT {
			var n int64
			_, err := fmt.Sscan(v.Value, &n)
			return n, err == nil
		}
	case *ast.Ident:
		n, ok := t.ints[v.Name]
		return n, ok
	case *ast.SelectorExpr:
		if id, ok := v.X.(*ast.Ident); ok && id.Name == "types" {
			n, ok := t.ints[v.Sel.Name]
			return n, ok
		}
	case *ast.ParenExpr:
		return t.konst(v.X)
	case *ast.BinaryExpr:
		a, ok1 := t.konst(v.X)
		b, ok2 := t.konst(v.Y)
		if ok1 && ok2 {
			switch v.Op {
			case token.ADD:
				return a + b, true
			case token.SUB:
				return a - b, true
			case token.MUL:
				return a * b, true
			}
		}
	}
	return 0, false
}

// len(<ident>) or len(msg.F): returns the name
func lenOf(e ast.Expr, recv string) (string, bool) {
	ce, ok := e.(*ast.CallExpr)
	if !ok || len(ce.Args) != 1 {
		return "", false
	}
	if id, ok := ce.Fun.(*ast.Ident); !ok || id.Name != "len" {
		return "", false
	}
	switch a := ce.Args[0].(type) {
	case *ast.Ident:
		return a.Name, true
	case *ast.SelectorExpr:
		if id, ok := a.X.(*ast.Ident); ok && id.Name == recv {
			return recv + "." + a.Sel.Name, true
		}
	}
	return "", false
}

func fieldOf(e ast.Expr, recv string) (string, bool) {
	if se, ok := e.(*ast.SelectorExpr); ok {
		if id, ok := se.X.(*ast.Ident); ok && id.Name == recv {
			return se.Sel.Name, true
		}
	}
	return "", false
}

func selName(e ast.Expr) string {
	if se, ok := e.(*ast.SelectorExpr); ok {
		return se.Sel.Name
	}
	return ""
}

type decField struct {
	name   string
	lo     int64
	hi     int64
	open   bool
	reader string
}

// slice of the input buffer with constant bounds
func (t *codecTr) inputSlice(e ast.Expr, buf string) (lo, hi int64, open, ok bool) {
	se, isSl := e.(*ast.SliceExpr)
	if !isSl || se.Slice3 {
		return
	}
	if id, isId := se.X.(*ast.Ident); !isId || id.Name != buf {
		return
	}
	if se.Low != nil {
		var k bool
		if lo, k = t.konst(se.Low); !k {
			return
		}
	}
	if se.High == nil {
		return lo, 0, true, true
	}
	hi, k := t.konst(se.High)
	if !k {
		// bz[a:len(bz)] is the open form
		if nm, isLen := lenOf(se.High, ""); isLen && nm == buf {
			return lo, 0, true, true
		}
		return
	}
	return lo, hi, false, true
}

func (t *codecTr) translateParse(fd *ast.FuncDecl, recv string) string {
	var guards, unknown []string
	var fields []decField
	buf := ""
	if fd.Type.Params != nil && len(fd.Type.Params.List) == 1 && len(fd.Type.Params.List[0].Names) == 1 {
		buf = fd.Type.Params.List[0].Names[0].Name
	} else {
		unknown = append(unknown, "signature")
	}
	for _, st := range fd.Body.List {
		switch s := st.(type) {
		case *ast.IfStmt:
			be, ok := s.Cond.(*ast.BinaryExpr)
			nm, isLen := "", false
			if ok {
				nm, isLen = lenOf(be.X, recv)
			}
			c, isK := int64(0), false
			if ok {
				c, isK = t.konst(be.Y)
			}
			if !ok || !isLen || nm != buf || !isK || s.Init != nil || s.Else != nil {
				unknown = append(unknown, "if "+t.show(s.Cond))
				continue
			}
			switch be.Op {
			case token.LSS:
				guards = append(guards, fmt.Sprintf("GLt %d", c))
			case token.NEQ:
				guards = append(guards, fmt.Sprintf("GNe %d", c))
			case token.LEQ:
				guards = append(guards, fmt.Sprintf("GLt %d", c+1))
			default:
				guards = append(guards, "GOther "+coqStr(t.show(s.Cond)))
			}
			// the guarded branch must return an error
			if len(s.Body.List) != 1 {
				unknown = append(unknown, "guard body")
			} else if rs, ok := s.Body.List[0].(*ast.ReturnStmt); !ok || len(rs.Results) != 2 || t.show(rs.Results[0]) != "nil" || t.show(rs.Results[1]) == "nil" {
				unknown = append(unknown, "guard does not return an error")
			}
		case *ast.AssignStmt:
			if len(s.Lhs) != 1 || len(s.Rhs) != 1 || s.Tok != token.ASSIGN {
				unknown = append(unknown, t.show(s))
				continue
			}
			f, ok := fieldOf(s.Lhs[0], recv)
			if !ok {
				unknown = append(unknown, t.show(s))
				continue
			}
			rhs := s.Rhs[0]
			if lo, hi, open, ok := t.inputSlice(rhs, buf); ok {
				fields = append(fields, decField{f, lo, hi, open, "RBytes"})
				continue
			}
			if ce, ok := rhs.(*ast.CallExpr); ok && len(ce.Args) == 1 {
				fn := t.show(ce.Fun)
				width := map[string]int64{"binary.BigEndian.Uint16": 2, "binary.BigEndian.Uint32": 4, "binary.BigEndian.Uint64": 8}[fn]
				if width > 0 {
					if lo, hi, open, ok := t.inputSlice(ce.Args[0], buf); ok && !open && hi-lo == width {
						fields = append(fields, decField{f, lo, hi, false, "RUint"})
						continue
					}
				}
				if fn == "math.NewIntFromBigInt" {
					if in, ok := ce.Args[0].(*ast.CallExpr); ok && len(in.Args) == 1 && t.show(in.Fun) == "new(big.Int).SetBytes" {
						if lo, hi, open, ok := t.inputSlice(in.Args[0], buf); ok && !open {
							fields = append(fields, decField{f, lo, hi, false, "RBig"})
							continue
						}
					}
				}
			}
			unknown = append(unknown, t.show(s))
		case *ast.ReturnStmt:
			if len(s.Results) != 2 || t.show(s.Results[0]) != recv || t.show(s.Results[1]) != "nil" {
				unknown = append(unknown, t.show(s))
			}
		default:
			unknown = append(unknown, t.show(st))
		}
	}
	sort.SliceStable(fields, func(i, j int) bool { return fields[i].lo < fields[j].lo })
	var fs []string
	for _, f := range fields {
		hi := "None"
		if !f.open {
			hi = fmt.Sprintf("Some %d", f.hi)
		}
		fs = append(fs, fmt.Sprintf("{| f_name := %s; f_lo := %d; f_hi := %s; f_rd := %s |}", coqStr(f.name), f.lo, hi, f.reader))
	}
	var us []string
	for _, u := range unknown {
		us = append(us, coqStr(u))
	}
	return fmt.Sprintf("{| d_guards := [%s];\n     d_fields := [%s];\n     d_unknown := [%s] |}", strings.Join(guards, "; "), strings.Join(fs, ";\n                  "), strings.Join(us, "; "))
}

type encBuf struct {
	length  int64  // constant part
	rest    string // field whose length is added (result buffer only)
	content string // Coq src term once filled (temporaries)
}

type encWrite struct {
	lo  int64
	len string // "Some n" | "None"
	src string
	seq int
}

func (t *codecTr) translateBytes(fd *ast.FuncDecl, recv string) string {
	var guards, unknown []string
	bufs := map[string]*encBuf{}
	var writes []encWrite
	result := ""
	// destination of a write: a temporary (by name) or a slice of some buffer with constant low bound
	type dest struct {
		temp   string
		buf    string
		lo, hi int64
		open   bool   // no high bound
		hiLen  string // high bound is lo + len(<this>)
	}
	destOf := func(e ast.Expr) (d dest, ok bool) {
		if id, isId := e.(*ast.Ident); isId {
			if _, known := bufs[id.Name]; known {
				return dest{temp: id.Name}, true
			}
			return
		}
		se, isSl := e.(*ast.SliceExpr)
		if !isSl || se.Slice3 {
			return
		}
		id, isId := se.X.(*ast.Ident)
		if !isId || bufs[id.Name] == nil {
			return
		}
		d.buf = id.Name
		if se.Low != nil {
			var k bool
			if d.lo, k = t.konst(se.Low); !k {
				return d, false
			}
		}
		if se.High == nil {
			d.open = true
			return d, true
		}
		if hi, k := t.konst(se.High); k {
			d.hi = hi
			return d, true
		}
		// lo + len(x)
		if be, isBin := se.High.(*ast.BinaryExpr); isBin && be.Op == token.ADD {
			if c, k := t.konst(be.X); k && c == d.lo {
				if nm, isLen := lenOf(be.Y, recv); isLen {
					d.hiLen = nm
					return d, true
				}
			}
		}
		return d, false
	}
	put := func(d dest, src string, srcLen int64, srcField string, what string) {
		// srcLen < 0: the source is a field of unknown constant length (srcField names it as recv.F)
		if d.temp != "" {
			b := bufs[d.temp]
			if srcLen >= 0 && b.rest == "" && b.length == srcLen && b.content == "" {
				b.content = src
			} else {
				unknown = append(unknown, what)
			}
			return
		}
		w := encWrite{lo: d.lo, src: src, seq: len(writes)}
		switch {
		case d.open:
			w.len = "None"
		case d.hiLen != "":
			if d.hiLen == srcField {
				w.len = "None"
			} else {
				unknown = append(unknown, what)
				return
			}
		default:
			w.len = fmt.Sprintf("Some %d", d.hi-d.lo)
		}
		if result == "" {
			result = d.buf
		} else if result != d.buf {
			unknown = append(unknown, what)
			return
		}
		writes = append(writes, w)
	}
	for _, st := range fd.Body.List {
		switch s := st.(type) {
		case *ast.IfStmt:
			be, ok := s.Cond.(*ast.BinaryExpr)
			nm, isLen := "", false
			if ok {
				nm, isLen = lenOf(be.X, recv)
			}
			c, isK := int64(0), false
			if ok {
				c, isK = t.konst(be.Y)
			}
			if !ok || !isLen || !strings.HasPrefix(nm, recv+".") || !isK || s.Init != nil || s.Else != nil || be.Op != token.NEQ {
				unknown = append(unknown, "if "+t.show(s.Cond))
				continue
			}
			guards = append(guards, fmt.Sprintf("(%s, %d)", coqStr(strings.TrimPrefix(nm, recv+".")), c))
			if len(s.Body.List) != 1 {
				unknown = append(unknown, "guard body")
			} else if rs, ok := s.Body.List[0].(*ast.ReturnStmt); !ok || len(rs.Results) != 2 || t.show(rs.Results[0]) != "nil" || t.show(rs.Results[1]) == "nil" {
				unknown = append(unknown, "guard does not return an error")
			}
		case *ast.AssignStmt:
			// x := make([]byte, n)   or   result := make([]byte, n + len(msg.F))
			if len(s.Lhs) == 1 && len(s.Rhs) == 1 && s.Tok == token.DEFINE {
				if id, ok := s.Lhs[0].(*ast.Ident); ok {
					if ce, ok := s.Rhs[0].(*ast.CallExpr); ok && t.show(ce.Fun) == "make" && len(ce.Args) == 2 && t.show(ce.Args[0]) == "[]byte" {
						if n, k := t.konst(ce.Args[1]); k {
							bufs[id.Name] = &encBuf{length: n}
							continue
						}
						if be, isBin := ce.Args[1].(*ast.BinaryExpr); isBin && be.Op == token.ADD {
							if n, k := t.konst(be.X); k {
								if nm, isLen := lenOf(be.Y, recv); isLen && strings.HasPrefix(nm, recv+".") {
									bufs[id.Name] = &encBuf{length: n, rest: strings.TrimPrefix(nm, recv+".")}
									continue
								}
							}
						}
					}
				}
			}
			unknown = append(unknown, t.show(s))
		case *ast.ExprStmt:
			ce, ok := s.X.(*ast.CallExpr)
			if !ok {
				unknown = append(unknown, t.show(s))
				continue
			}
			fn := t.show(ce.Fun)
			width := map[string]int64{"binary.BigEndian.PutUint16": 2, "binary.BigEndian.PutUint32": 4, "binary.BigEndian.PutUint64": 8}[fn]
			switch {
			case width > 0 && len(ce.Args) == 2:
				d, ok1 := destOf(ce.Args[0])
				f, ok2 := fieldOf(ce.Args[1], recv)
				if !ok1 || !ok2 || d.open || d.hiLen != "" || (d.temp == "" && d.hi-d.lo != width) {
					unknown = append(unknown, t.show(s))
					continue
				}
				put(d, fmt.Sprintf("SUint %s %d", coqStr(f), width), width, "", t.show(s))
			case strings.HasSuffix(fn, ".BigInt().FillBytes") && len(ce.Args) == 1:
				// msg.F.BigInt().FillBytes(dst)
				inner := ce.Fun.(*ast.SelectorExpr).X.(*ast.CallExpr).Fun.(*ast.SelectorExpr).X
				f, ok2 := fieldOf(inner, recv)
				d, ok1 := destOf(ce.Args[0])
				if !ok1 || !ok2 || d.open || d.hiLen != "" {
					unknown = append(unknown, t.show(s))
					continue
				}
				n := d.hi - d.lo
				if d.temp != "" {
					n = bufs[d.temp].length
				}
				put(d, fmt.Sprintf("SBig %s %d", coqStr(f), n), n, "", t.show(s))
			case fn == "copy" && len(ce.Args) == 2:
				d, ok1 := destOf(ce.Args[0])
				if !ok1 || d.temp != "" {
					unknown = append(unknown, t.show(s))
					continue
				}
				if id, isId := ce.Args[1].(*ast.Ident); isId && bufs[id.Name] != nil && bufs[id.Name].content != "" {
					b := bufs[id.Name]
					put(d, b.content, b.length, "", t.show(s))
					continue
				}
				if f, isF := fieldOf(ce.Args[1], recv); isF {
					put(d, "SBytes "+coqStr(f), -1, recv+"."+f, t.show(s))
					continue
				}
				unknown = append(unknown, t.show(s))
			default:
				unknown = append(unknown, t.show(s))
			}
		case *ast.ReturnStmt:
			if len(s.Results) != 2 || t.show(s.Results[1]) != "nil" || (result != "" && t.show(s.Results[0]) != result) {
				unknown = append(unknown, t.show(s))
			}
		default:
			unknown = append(unknown, t.show(st))
		}
	}
	sort.SliceStable(writes, func(i, j int) bool { return writes[i].lo < writes[j].lo })
	var ws, us []string
	for _, w := range writes {
		ws = append(ws, fmt.Sprintf("{| w_lo := %d; w_len := %s; w_src := %s |}", w.lo, w.len, w.src))
	}
	for _, u := range unknown {
		us = append(us, coqStr(u))
	}
	base, rest := int64(0), "None"
	if b := bufs[result]; b != nil {
		base = b.length
		if b.rest != "" {
			rest = "Some " + coqStr(b.rest)
		}
	}
	return fmt.Sprintf("{| e_guards := [%s]; e_base := %d; e_rest := %s;\n     e_writes := [%s];\n     e_unknown := [%s] |}",
		strings.Join(guards, "; "), base, rest, strings.Join(ws, ";\n                  "), strings.Join(us, "; "))
}

func translateCodecs(repo string, ints map[string]int64) (res string) {
	defer func() {
		if r := recover(); r != nil {
			noDec := `{| d_guards := []; d_fields := []; d_unknown := ["the translator failed"] |}`
			noEnc := `{| e_guards := []; e_base := 0; e_rest := None; e_writes := []; e_unknown := ["the translator failed"] |}`
			res = "From Cctp Require Import Gen.CodecIR.\n\nDefinition go_message_parse : dec_ir := " + noDec + ".\nDefinition go_message_bytes : enc_ir := " + noEnc +
				".\nDefinition go_burn_parse : dec_ir := " + noDec + ".\nDefinition go_burn_bytes : enc_ir := " + noEnc + ".\n"
		}
	}()
	t := &codecTr{fset: token.NewFileSet(), ints: ints}
	out := map[string]string{}
	for _, f := range []string{"x/cctp/types/message.go", "x/cctp/types/burn_message.go"} {
		af, err := parser.ParseFile(t.fset, filepath.Join(repo, f), nil, 0)
		if err != nil {
			continue
		}
		for _, d := range af.Decls {
			fd, ok := d.(*ast.FuncDecl)
			if !ok || fd.Recv == nil || len(fd.Recv.List) != 1 || fd.Body == nil || len(fd.Recv.List[0].Names) != 1 {
				continue
			}
			ty := strings.TrimPrefix(t.show(fd.Recv.List[0].Type), "*")
			recv := fd.Recv.List[0].Names[0].Name
			key := ty + "." + fd.Name.Name
			func() {
				defer func() {
					if r := recover(); r != nil {
						out[key] = ""
					}
				}()
				switch fd.Name.Name {
				case "Parse":
					out[key] = t.translateParse(fd, recv)
				case "Bytes":
					out[key] = t.translateBytes(fd, recv)
				}
			}()
		}
	}
	var sb strings.Builder
	sb.WriteString("(* GENERATED by tools/goextract (codec.go) from x/cctp/types/message.go and burn_message.go of /repo on every run. Do not edit. *)\n")
	sb.WriteString("From Cctp Require Import Gen.CodecIR.\n\n")
	emit := func(name, key, ty, empty string) {
		v := out[key]
		if v == "" {
			v = empty
		}
		fmt.Fprintf(&sb, "Definition %s : %s :=\n  %s.\n\n", name, ty, v)
	}
	noDec := `{| d_guards := []; d_fields := []; d_unknown := ["function not found or not translatable"] |}`
	noEnc := `{| e_guards := []; e_base := 0; e_rest := None; e_writes := []; e_unknown := ["function not found or not translatable"] |}`
	emit("go_message_parse", "Message.Parse", "dec_ir", noDec)
	emit("go_message_bytes", "Message.Bytes", "enc_ir", noEnc)
	emit("go_burn_parse", "BurnMessage.Parse", "dec_ir", noDec)
	emit("go_burn_bytes", "BurnMessage.Bytes", "enc_ir", noEnc)
	return sb.String()
}
