"""Monitors: the step-wise content of a property evaluated directly on the implementation's trace
(never on the model's output).  Each monitor takes (scripts, stats) and yields (script, step, message)
for every step on which the property fails for the real code; that step, with the script prefix leading
to it, is the concrete failing input written to the replay file."""
import re

ADMIN_ROLE = {
    'UpdateOwner': 'owner', 'UpdateAttesterManager': 'owner', 'UpdatePauser': 'owner', 'UpdateTokenController': 'owner',
    'UpdateMaxMessageBodySize': 'owner', 'AddRemoteTokenMessenger': 'owner', 'RemoveRemoteTokenMessenger': 'owner',
    'EnableAttester': 'attmgr', 'DisableAttester': 'attmgr', 'UpdateSignatureThreshold': 'attmgr',
    'PauseBurningAndMinting': 'pauser', 'UnpauseBurningAndMinting': 'pauser',
    'PauseSendingAndReceivingMessages': 'pauser', 'UnpauseSendingAndReceivingMessages': 'pauser',
    'LinkTokenPair': 'tokctl', 'UnlinkTokenPair': 'tokctl', 'SetMaxBurnAmountPerMessage': 'tokctl',
    'AcceptOwner': 'pending',
}
PRODUCERS = ('SendMessage', 'SendMessageWithCaller', 'DepositForBurn', 'DepositForBurnWithCaller')
FLOWS = PRODUCERS + ('ReplaceMessage', 'ReplaceDepositForBurn', 'ReceiveMessage')


def args_of(inp):
    a = {}
    for w in inp.split(' '):
        if '=' in w:
            k, v = w.split('=', 1)
            a[k] = v
    return a


def state_of(lines):
    """typed view of a list of state-dump lines"""
    st = {'role': {}, 'flag': {}, 'num': {}, 'attester': [], 'limit': [], 'pair': [], 'messenger': [], 'nonce': [], 'bal': {}, 'raw': sorted(lines)}
    for l in lines:
        ws = l.split(' ')
        a = args_of(l)
        k = ws[0]
        if k in ('role', 'flag', 'num'):
            st[k][a['name']] = a['v']
        elif k == 'bal':
            st['bal'][a['k']] = int(a['amt'])
        elif k in st and isinstance(st[k], list):
            st[k].append(a)
    return st


def walk(scripts):
    """yield (script, n, input line, type, args, pre-state lines, observations) for every step, in order"""
    for sc in scripts:
        cur = []
        order = sorted(sc.step_pos.items(), key=lambda kv: kv[1])
        # state produced by BAL lines (step id "0") is folded in lazily: BAL dumps come as I S 0 lines
        for n, _pos in order:
            inp = sc.step_input[n]
            ws = inp.split(' ')
            obs = sc.steps.get(n, {})
            ty = ws[2] if ws[0] in ('TX', 'Q', 'CODEC') and len(ws) > 2 else ws[0]
            pre = cur
            yield sc, n, inp, ws[0], ty, args_of(inp), pre, obs
            if ws[0] in ('TX', 'G-END') and ('S' in obs or ws[0] == 'TX'):
                cur = obs.get('S', [])
            bal = sc.bal_after.get(n)
            if bal is not None:
                cur = bal


def outcome(obs):
    r = obs.get('R', [''])[0]
    return r.split(' ')[0] if r else ''


def hexstr(h):
    return bytes.fromhex(h).decode('latin1')


# ---------------- C10 ----------------
def mon_c10(scripts, stats):
    for sc, n, inp, cmd, ty, a, pre, obs in walk(scripts):
        if cmd != 'TX' or ty not in ADMIN_ROLE:
            continue
        st = state_of(pre)
        if not all(r in st['role'] for r in ('owner', 'attmgr', 'pauser', 'tokctl')):
            continue
        holder = st['role'].get(ADMIN_ROLE[ty])
        if holder is not None and holder == a.get('from'):
            continue
        stats['mon_c10_unauthorised'] += 1
        if outcome(obs) != 'err':
            yield sc, n, 'C10: %s by a submitter who does not hold role %s returned %s' % (ty, ADMIN_ROLE[ty], outcome(obs))
        elif sorted(obs.get('S', [])) != sorted(pre):
            yield sc, n, 'C10: rejected unauthorised %s changed the state' % ty


# ---------------- C11 ----------------
def mon_c11(scripts, stats):
    names = ('owner', 'pending', 'attmgr', 'pauser', 'tokctl')
    slot = {'UpdateAttesterManager': 'attmgr', 'UpdatePauser': 'pauser', 'UpdateTokenController': 'tokctl'}
    for sc, n, inp, cmd, ty, a, pre, obs in walk(scripts):
        if cmd != 'TX':
            continue
        r0 = state_of(pre)['role']
        r1 = state_of(obs.get('S', []))['role']
        exp = dict(r0)
        ok = outcome(obs) == 'ok'
        frm = a.get('from')
        stats['mon_c11_steps'] += 1
        if ty == 'UpdateOwner' and ok:
            if r0.get('owner') != frm:
                yield sc, n, 'C11: update-owner accepted from a non-owner'
            exp['pending'] = a['new']
        elif ty == 'AcceptOwner' and ok:
            if r0.get('pending') != frm:
                yield sc, n, 'C11: accept-owner accepted from an account that is not the pending owner'
            exp['owner'] = r0.get('pending')
            exp.pop('pending', None)
        elif ty in slot and ok:
            if r0.get('owner') != frm:
                yield sc, n, 'C11: %s accepted from a non-owner' % ty
            exp[slot[ty]] = a['new']
        if exp != r1:
            diff = [k for k in names if exp.get(k) != r1.get(k)]
            yield sc, n, 'C11: role slots %s moved outside the lifecycle on %s (%s)' % (','.join(diff), ty, outcome(obs))
        # the documented lifecycle also says when the role transactions must succeed
        if ty == 'AcceptOwner' and not ok and r0.get('pending') == frm and 'owner' in r0:
            yield sc, n, 'C11: the pending owner could not accept'


# ---------------- C13 ----------------
def mon_c13(scripts, stats):
    for sc, n, inp, cmd, ty, a, pre, obs in walk(scripts):
        if cmd != 'TX':
            continue
        s0, s1 = state_of(pre), state_of(obs.get('S', []))
        def inv(s):
            t = s['num'].get('threshold')
            return t is not None and 1 <= int(t) <= len(s['attester'])
        if inv(s0):
            stats['mon_c13_steps'] += 1
            if not inv(s1):
                yield sc, n, 'C13: %s (%s) left threshold %s with %d enabled attesters' % (ty, outcome(obs), s1['num'].get('threshold'), len(s1['attester']))


# ---------------- C15 ----------------
def mon_c15(model):
    """writes recorded by the tracing store service must lie inside the documented write set that the
    extracted specification (Spec/WriteDoc.v) computes for the concrete request"""
    def mon(scripts, stats):
        for sc, n, inp, cmd, ty, a, pre, obs in walk(scripts):
            if cmd == 'TX':
                doc = set(model.get(n, {}).get('DW', []))
                w = set(obs.get('W', []))
                stats['mon_c15_tx'] += 1
                if outcome(obs) == 'ok':
                    extra = sorted(w - doc)
                    if extra:
                        yield sc, n, 'C15: %s wrote outside its documented set: %s' % (ty, ' ; '.join(extra)[:300])
                else:
                    if sorted(obs.get('S', [])) != sorted(pre):
                        yield sc, n, 'C15: failed %s changed the state' % ty
                # the typed state may only differ inside the documented set
                if outcome(obs) == 'ok':
                    changed = set(obs.get('S', [])) ^ set(pre)
                    for l in sorted(changed):
                        if not any(entry_matches(l, d) for d in doc):
                            yield sc, n, 'C15: %s changed an entry outside its documented set: %s' % (ty, l[:200])
                            break
            elif cmd in ('Q', 'EXPORT'):
                stats['mon_c15_readonly'] += 1
                if 'QW' in obs or 'XW' in obs:
                    yield sc, n, 'C15: %s wrote to the store' % ty
    return mon


def entry_matches(state_line, doc):
    ws = state_line.split(' ')
    a = args_of(state_line)
    d = doc.split(' ')
    if ws[0] in ('role', 'flag', 'num'):
        return d[0] == a.get('name')
    if ws[0] == 'bal':
        return True
    return d[0] == ws[0] and len(d) > 1 and d[1] == 'k=' + a.get('k', '')
