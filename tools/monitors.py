"""Monitors: the step-wise content of a property evaluated directly on the implementation's trace
(never on the model's output).  Each monitor takes (scripts, stats) and yields (script, step, message)
for every step on which the property fails for the real code; that step, with the script prefix leading
to it, is the concrete failing input written to the replay file."""
import re

ADMIN_ROLE = {
    'UpdateOwner': 'owner', 'UpdateAttesterManager': 'owner', 'UpdatePauser': 'owner', 'UpdateTokenController': 'owner',
    'UpdateMaxMessageBodySize': 'owner', 'AddRemoteTokenMessenger': 'owner', 'RemoveRemoteTokenMessenger': 'owner',
    'EnableAttester': 'attmgr', 'DisableAttester': 'attmgr', 'UpdateSignatureThreshold': 'attmgr',
    'PauseBurningAndMinting': 'pauser', 'UnpauseBurningAndMinting': 'pauser',
    'PauseSendingAndReceivingMessages': 'pauser', 'UnpauseSendingAndReceivingMessages': 'pauser',
    'LinkTokenPair': 'tokctl', 'UnlinkTokenPair': 'tokctl', 'SetMaxBurnAmountPerMessage': 'tokctl',
    'AcceptOwner': 'pending',
}
PRODUCERS = ('SendMessage', 'SendMessageWithCaller', 'DepositForBurn', 'DepositForBurnWithCaller')
FLOWS = PRODUCERS + ('ReplaceMessage', 'ReplaceDepositForBurn', 'ReceiveMessage')


def args_of(inp):
    a = {}
    for w in inp.split(' '):
        if '=' in w:
            k, v = w.split('=', 1)
            a[k] = v
    return a


def state_of(lines):
    """typed view of a list of state-dump lines"""
    st = {'role': {}, 'flag': {}, 'num': {}, 'attester': [], 'limit': [], 'pair': [], 'messenger': [], 'nonce': [], 'bal': {}, 'raw': sorted(lines)}
    for l in lines:
        ws = l.split(' ')
        a = args_of(l)
        k = ws[0]
        if k in ('role', 'flag', 'num'):
            st[k][a['name']] = a['v']
        elif k == 'bal':
            st['bal'][a['k']] = int(a['amt'])
        elif k in st and isinstance(st[k], list):
            st[k].append(a)
    return st


def walk(scripts):
    """yield (script, n, input line, type, args, pre-state lines, observations) for every step, in order"""
    for sc in scripts:
        cur = []
        order = sorted(sc.step_pos.items(), key=lambda kv: kv[1])
        # state produced by BAL lines (step id "0") is folded in lazily: BAL dumps come as I S 0 lines
        for n, _pos in order:
            inp = sc.step_input[n]
            ws = inp.split(' ')
            obs = sc.steps.get(n, {})
            ty = ws[2] if ws[0] in ('TX', 'Q', 'CODEC') and len(ws) > 2 else ws[0]
            pre = cur
            yield sc, n, inp, ws[0], ty, args_of(inp), pre, obs
            if ws[0] in ('TX', 'G-END') and ('S' in obs or ws[0] == 'TX'):
                cur = obs.get('S', [])
            bal = sc.bal_after.get(n)
            if bal is not None:
                cur = bal


def outcome(obs):
    r = obs.get('R', [''])[0]
    return r.split(' ')[0] if r else ''


def hexstr(h):
    return bytes.fromhex(h).decode('latin1')


# ---------------- C10 ----------------
def mon_c10(scripts, stats):
    for sc, n, inp, cmd, ty, a, pre, obs in walk(scripts):
        if cmd != 'TX' or ty not in ADMIN_ROLE:
            continue
        st = state_of(pre)
        if not all(r in st['role'] for r in ('owner', 'attmgr', 'pauser', 'tokctl')):
            continue
        holder = st['role'].get(ADMIN_ROLE[ty])
        if holder is not None and holder == a.get('from'):
            continue
        stats['mon_c10_unauthorised'] += 1
        if outcome(obs) != 'err':
            yield sc, n, 'C10: %s by a submitter who does not hold role %s returned %s' % (ty, ADMIN_ROLE[ty], outcome(obs))
        elif sorted(obs.get('S', [])) != sorted(pre):
            yield sc, n, 'C10: rejected unauthorised %s changed the state' % ty


# ---------------- C11 ----------------
def mon_c11(scripts, stats):
    names = ('owner', 'pending', 'attmgr', 'pauser', 'tokctl')
    slot = {'UpdateAttesterManager': 'attmgr', 'UpdatePauser': 'pauser', 'UpdateTokenController': 'tokctl'}
    for sc, n, inp, cmd, ty, a, pre, obs in walk(scripts):
        if cmd != 'TX':
            continue
        r0 = state_of(pre)['role']
        r1 = state_of(obs.get('S', []))['role']
        exp = dict(r0)
        ok = outcome(obs) == 'ok'
        frm = a.get('from')
        stats['mon_c11_steps'] += 1
        if ty == 'UpdateOwner' and ok:
            if r0.get('owner') != frm:
                yield sc, n, 'C11: update-owner accepted from a non-owner'
            exp['pending'] = a['new']
        elif ty == 'AcceptOwner' and ok:
            if r0.get('pending') != frm:
                yield sc, n, 'C11: accept-owner accepted from an account that is not the pending owner'
            exp['owner'] = r0.get('pending')
            exp.pop('pending', None)
        elif ty in slot and ok:
            if r0.get('owner') != frm:
                yield sc, n, 'C11: %s accepted from a non-owner' % ty
            exp[slot[ty]] = a['new']
        if exp != r1:
            diff = [k for k in names if exp.get(k) != r1.get(k)]
            yield sc, n, 'C11: role slots %s moved outside the lifecycle on %s (%s)' % (','.join(diff), ty, outcome(obs))
        # the documented lifecycle also says when the role transactions must succeed
        if ty == 'AcceptOwner' and not ok and r0.get('pending') == frm and 'owner' in r0:
            yield sc, n, 'C11: the pending owner could not accept'


# ---------------- C13 ----------------
def mon_c13(scripts, stats):
    for sc, n, inp, cmd, ty, a, pre, obs in walk(scripts):
        if cmd != 'TX':
            continue
        s0, s1 = state_of(pre), state_of(obs.get('S', []))
        def inv(s):
            t = s['num'].get('threshold')
            return t is not None and 1 <= int(t) <= len(s['attester'])
        if inv(s0):
            stats['mon_c13_steps'] += 1
            if not inv(s1):
                yield sc, n, 'C13: %s (%s) left threshold %s with %d enabled attesters' % (ty, outcome(obs), s1['num'].get('threshold'), len(s1['attester']))


# ---------------- C15 ----------------
def mon_c15(model):
    """writes recorded by the tracing store service must lie inside the documented write set that the
    extracted specification (Spec/WriteDoc.v) computes for the concrete request"""
    def mon(scripts, stats):
        for sc, n, inp, cmd, ty, a, pre, obs in walk(scripts):
            if cmd == 'TX':
                doc = set(model.get(n, {}).get('DW', []))
                w = set(obs.get('W', []))
                stats['mon_c15_tx'] += 1
                if outcome(obs) == 'ok':
                    extra = sorted(w - doc)
                    if extra:
                        yield sc, n, 'C15: %s wrote outside its documented set: %s' % (ty, ' ; '.join(extra)[:300])
                else:
                    if sorted(obs.get('S', [])) != sorted(pre):
                        yield sc, n, 'C15: failed %s changed the state' % ty
                # the typed state may only differ inside the documented set
                if outcome(obs) == 'ok':
                    changed = set(obs.get('S', [])) ^ set(pre)
                    for l in sorted(changed):
                        if not any(entry_matches(l, d) for d in doc):
                            yield sc, n, 'C15: %s changed an entry outside its documented set: %s' % (ty, l[:200])
                            break
            elif cmd in ('Q', 'EXPORT'):
                stats['mon_c15_readonly'] += 1
                if 'QW' in obs or 'XW' in obs:
                    yield sc, n, 'C15: %s wrote to the store' % ty
    return mon


def entry_matches(state_line, doc):
    ws = state_line.split(' ')
    a = args_of(state_line)
    d = doc.split(' ')
    if ws[0] in ('role', 'flag', 'num'):
        return d[0] == a.get('name')
    if ws[0] == 'bal':
        return True
    return d[0] == ws[0] and len(d) > 1 and d[1] == 'k=' + a.get('k', '')


def msg_header(hexmsg):
    b = bytes.fromhex(hexmsg)
    if len(b) < 116:
        return None
    return {'version': int.from_bytes(b[0:4], 'big'), 'src': int.from_bytes(b[4:8], 'big'), 'dst': int.from_bytes(b[8:12], 'big'),
            'nonce': int.from_bytes(b[12:20], 'big'), 'sender': b[20:52], 'recipient': b[52:84], 'caller': b[84:116], 'body': b[116:]}


def burn_body(b):
    if len(b) != 132:
        return None
    return {'version': int.from_bytes(b[0:4], 'big'), 'token': b[4:36], 'recipient': b[36:68], 'amount': int.from_bytes(b[68:100], 'big'), 'sender': b[100:132]}


def events(obs, name):
    out = []
    for e in obs.get('E', []):
        ws = e.split(' ')
        if len(ws) > 1 and ws[1] == name:
            out.append(args_of(e))
    return out


def nonce_set(st):
    return set((int(a['domain']), int(a['nonce'])) for a in st['nonce'])


# ---------------- C02 ----------------
def mon_c02(scripts, stats):
    for sc in scripts:
        received = set()
        for _sc, n, inp, cmd, ty, a, pre, obs in walk([sc]):
            if cmd == 'Q' and ty == 'UsedNonce':
                used = (int(a['domain']), int(a['nonce'])) in nonce_set(state_of(pre))
                stats['mon_c02_queries'] += 1
                got = obs.get('QR', [''])[0].startswith('ok')
                if got != used:
                    yield sc, n, 'C02: used-nonce query for (%s,%s) answered %s but the pair is %sin the store' % (a['domain'], a['nonce'], got, '' if used else 'not ')
                continue
            if cmd != 'TX':
                continue
            s0, s1 = nonce_set(state_of(pre)), nonce_set(state_of(obs.get('S', [])))
            stats['mon_c02_steps'] += 1
            if not s0 <= s1:
                yield sc, n, 'C02: %s (%s) made used pairs %s free again' % (ty, outcome(obs), sorted(s0 - s1)[:3])
            new = s1 - s0
            pair = None
            if ty == 'ReceiveMessage' and outcome(obs) == 'ok':
                h = msg_header(a['message'])
                pair = (h['src'], h['nonce']) if h else None
                if pair in s0 or pair in received:
                    yield sc, n, 'C02: second successful receive of pair %s' % (pair,)
                if pair not in s1:
                    yield sc, n, 'C02: successful receive of pair %s did not mark it used' % (pair,)
                received.add(pair)
            if new - ({pair} if pair else set()):
                yield sc, n, 'C02: %s (%s) marked pairs %s used without a successful receive of them' % (ty, outcome(obs), sorted(new)[:3])


# ---------------- C07 ----------------
def mon_c07(scripts, stats):
    M64 = 1 << 64
    for sc, n, inp, cmd, ty, a, pre, obs in walk(scripts):
        if cmd == 'Q' and ty == 'NextAvailableNonce':
            v = state_of(pre)['num'].get('nextnonce')
            q = obs.get('QR', [''])[0]
            stats['mon_c07_queries'] += 1
            if v is not None and q != 'ok v=' + v:
                yield sc, n, 'C07: next-available-nonce query returned %r, the counter is %s' % (q, v)
            continue
        if cmd != 'TX':
            continue
        nn0 = int(state_of(pre)['num'].get('nextnonce', '0'))
        nn1 = int(state_of(obs.get('S', []))['num'].get('nextnonce', '0'))
        ok = outcome(obs) == 'ok'
        stats['mon_c07_steps'] += 1
        sent = [msg_header(e['message']) for e in events(obs, 'MessageSent')]
        if ty in PRODUCERS and ok:
            r = args_of(obs['R'][0])
            if int(r.get('nonce', '-1')) != nn0:
                yield sc, n, 'C07: %s returned nonce %s, the counter was %d' % (ty, r.get('nonce'), nn0)
            if len(sent) != 1 or sent[0] is None or sent[0]['nonce'] != nn0:
                yield sc, n, 'C07: %s emitted nonce %s, the counter was %d' % (ty, [s and s['nonce'] for s in sent], nn0)
            if nn1 != (nn0 + 1) % M64:
                yield sc, n, 'C07: counter went %d -> %d on a successful %s' % (nn0, nn1, ty)
        else:
            if nn1 != nn0:
                yield sc, n, 'C07: counter went %d -> %d on %s (%s)' % (nn0, nn1, ty, outcome(obs))
            if ty in ('ReplaceMessage', 'ReplaceDepositForBurn') and ok:
                o = msg_header(a['orig'])
                if len(sent) != 1 or sent[0] is None or o is None or sent[0]['nonce'] != o['nonce']:
                    yield sc, n, 'C07: %s emitted nonce %s, the original carries %s' % (ty, [s and s['nonce'] for s in sent], o and o['nonce'])


# ---------------- C03 ----------------
def mon_c03(scripts, stats):
    for sc, n, inp, cmd, ty, a, pre, obs in walk(scripts):
        if cmd != 'TX' or ty != 'ReceiveMessage':
            continue
        stats['mon_c03_receives'] += 1
        ok = outcome(obs) == 'ok'
        s0, s1 = state_of(pre), state_of(obs.get('S', []))
        h = msg_header(a['message'])
        if not ok:
            if sorted(obs.get('S', [])) != sorted(pre):
                yield sc, n, 'C03: failed receive changed the state (nonce consumed or funds moved)'
            if obs.get('E'):
                yield sc, n, 'C03: failed receive emitted events'
            continue
        # accepted: every acceptance condition that can be read off the trace must hold
        if h is None:
            yield sc, n, 'C03: receive of a message shorter than 116 bytes succeeded'
            continue
        if s0['flag'].get('sr') == '1':
            yield sc, n, 'C03: receive succeeded while sending-and-receiving is paused'
        if h['dst'] != 4:
            yield sc, n, 'C03: receive succeeded for destination domain %d' % h['dst']
        if h['version'] != 0:
            yield sc, n, 'C03: receive succeeded for message version %d' % h['version']
        if (h['src'], h['nonce']) in nonce_set(s0):
            yield sc, n, 'C03: receive succeeded for an already used nonce'
        if (h['src'], h['nonce']) not in nonce_set(s1):
            yield sc, n, 'C03: successful receive did not consume its nonce'
        module = h['recipient'] == bytes(12) + bytes.fromhex(sc.env.get('module', '')) if sc.env.get('module') else None
        mints = [d for d in obs.get('D', []) if ' Mint ' in ' ' + d]
        if module:
            b = burn_body(h['body'])
            if s0['flag'].get('bm') == '1':
                yield sc, n, 'C03: module-addressed receive succeeded while burning-and-minting is paused'
            if b is None:
                yield sc, n, 'C03: module-addressed receive succeeded with a %d-byte body' % len(h['body'])
            elif b['version'] != 0:
                yield sc, n, 'C03: module-addressed receive succeeded with burn message version %d' % b['version']
            msgr = [m for m in s0['messenger'] if int(m['domain']) == h['src']]
            if not msgr or bytes.fromhex(msgr[0]['addr']) != h['sender']:
                yield sc, n, 'C03: module-addressed receive succeeded although the sender is not the registered token messenger'
            if b is not None and not [p for p in s0['pair'] if int(p['domain']) == h['src'] and bytes.fromhex(p['token']) == b['token']]:
                yield sc, n, 'C03: module-addressed receive succeeded without a linked token pair'
            if len(mints) != 1 or not mints[0].endswith('ok=1'):
                yield sc, n, 'C03: module-addressed receive succeeded without exactly one successful mint'
        elif module is False and mints:
            yield sc, n, 'C03: receive of a message not addressed to the module minted'
        # destination caller: all-zero or names the submitter (the harness passes the bech32 string; compare payloads)
        if any(h['caller']):
            sub = sc.accounts.get(a.get('from'))
            # the code names the account by the low 20 bytes of the field (bech32 of caller[12:]); the high 12 bytes are not read
            if sub is not None and h['caller'][12:] != sub:
                yield sc, n, 'C03: receive succeeded although the destination caller names another account'


# ---------------- C08 ----------------
def mon_c08(scripts, stats):
    for sc, n, inp, cmd, ty, a, pre, obs in walk(scripts):
        if cmd != 'TX' or ty not in ('DepositForBurn', 'DepositForBurnWithCaller'):
            continue
        stats['mon_c08_deposits'] += 1
        ok = outcome(obs) == 'ok'
        s0 = state_of(pre)
        if not ok:
            if sorted(obs.get('S', [])) != sorted(pre):
                yield sc, n, 'C08: rejected deposit changed the state'
            continue
        amt = a['amount']
        if amt == '-' or int(amt) <= 0:
            yield sc, n, 'C08: deposit of amount %s accepted' % amt
            continue
        tok = hexstr(a['burn_token'])
        for l in s0['limit']:
            if hexstr(l['denom']) == tok.lower() and int(amt) > int(l['amt']):
                yield sc, n, 'C08: deposit of %s accepted above the per-message limit %s' % (amt, l['amt'])
        if s0['flag'].get('bm') == '1' or s0['flag'].get('sr') == '1':
            yield sc, n, 'C08: deposit accepted while paused'
        mr = bytes.fromhex(a['mint_recipient'])
        if len(mr) != 32 or not any(mr):
            yield sc, n, 'C08: deposit accepted with mint recipient %s' % a['mint_recipient']
        msgr = [m for m in s0['messenger'] if m['domain'] == a['dest']]
        if not msgr or len(bytes.fromhex(msgr[0]['addr'])) != 32 or not any(bytes.fromhex(msgr[0]['addr'])):
            yield sc, n, 'C08: deposit accepted without a non-zero 32-byte token messenger for the destination'
        mb = s0['num'].get('maxbody')
        if mb is not None and int(mb) < 132:
            yield sc, n, 'C08: deposit accepted although the 132-byte body exceeds the maximum body size %s' % mb
        if tok.lower() != sc.env_denom.lower():
            yield sc, n, 'C08: deposit accepted for burn token %r' % tok
        if ty == 'DepositForBurnWithCaller':
            cl = bytes.fromhex(a['caller'])
            if len(cl) != 32 or not any(cl):
                yield sc, n, 'C08: deposit-with-caller accepted with destination caller %s' % a['caller']
        ds = obs.get('D', [])
        if len(ds) != 2 or not all(d.endswith('ok=1') for d in ds):
            yield sc, n, 'C08: deposit accepted without a successful debit and a successful burn'
