"""Monitors: the step-wise content of a property evaluated directly on the implementation's trace.
Each monitor takes (scripts, stats) and yields (script, step, message) for every failure."""
