"""Monitors: the step-wise content of a property evaluated directly on the implementation's trace
(never on the model's output).  Each monitor takes (scripts, stats) and yields (script, step, message)
for every step on which the property fails for the real code; that step, with the script prefix leading
to it, is the concrete failing input written to the replay file."""
import re

ADMIN_ROLE = {
    'UpdateOwner': 'owner', 'UpdateAttesterManager': 'owner', 'UpdatePauser': 'owner', 'UpdateTokenController': 'owner',
    'UpdateMaxMessageBodySize': 'owner', 'AddRemoteTokenMessenger': 'owner', 'RemoveRemoteTokenMessenger': 'owner',
    'EnableAttester': 'attmgr', 'DisableAttester': 'attmgr', 'UpdateSignatureThreshold': 'attmgr',
    'PauseBurningAndMinting': 'pauser', 'UnpauseBurningAndMinting': 'pauser',
    'PauseSendingAndReceivingMessages': 'pauser', 'UnpauseSendingAndReceivingMessages': 'pauser',
    'LinkTokenPair': 'tokctl', 'UnlinkTokenPair': 'tokctl', 'SetMaxBurnAmountPerMessage': 'tokctl',
    'AcceptOwner': 'pending',
}
PRODUCERS = ('SendMessage', 'SendMessageWithCaller', 'DepositForBurn', 'DepositForBurnWithCaller')
FLOWS = PRODUCERS + ('ReplaceMessage', 'ReplaceDepositForBurn', 'ReceiveMessage')


def args_of(inp):
    a = {}
    for w in inp.split(' '):
        if '=' in w:
            k, v = w.split('=', 1)
            a[k] = v
    return a


def state_of(lines):
    """typed view of a list of state-dump lines"""
    st = {'role': {}, 'flag': {}, 'num': {}, 'attester': [], 'limit': [], 'pair': [], 'messenger': [], 'nonce': [], 'bal': {}, 'raw': sorted(lines)}
    for l in lines:
        ws = l.split(' ')
        a = args_of(l)
        k = ws[0]
        if k in ('role', 'flag', 'num'):
            st[k][a['name']] = a['v']
        elif k == 'bal':
            st['bal'][a['k']] = int(a['amt'])
        elif k in st and isinstance(st[k], list):
            st[k].append(a)
    return st


def walk(scripts):
    """yield (script, n, input line, type, args, pre-state lines, observations) for every step, in order"""
    for sc in scripts:
        cur = []
        order = sorted(sc.step_pos.items(), key=lambda kv: kv[1])
        # state produced by BAL lines (step id "0") is folded in lazily: BAL dumps come as I S 0 lines
        for n, _pos in order:
            inp = sc.step_input[n]
            ws = inp.split(' ')
            obs = sc.steps.get(n, {})
            ty = ws[2] if ws[0] in ('TX', 'Q', 'CODEC') and len(ws) > 2 else ws[0]
            pre = cur
            yield sc, n, inp, ws[0], ty, args_of(inp), pre, obs
            if ws[0] in ('TX', 'G-END') and ('S' in obs or ws[0] == 'TX'):
                cur = obs.get('S', [])
            bal = sc.bal_after.get(n)
            if bal is not None:
                cur = bal


def outcome(obs):
    r = obs.get('R', [''])[0]
    return r.split(' ')[0] if r else ''


def hexstr(h):
    return bytes.fromhex(h).decode('latin1')


# ---------------- C10 ----------------
def mon_c10(scripts, stats):
    for sc, n, inp, cmd, ty, a, pre, obs in walk(scripts):
        if cmd != 'TX' or ty not in ADMIN_ROLE:
            continue
        st = state_of(pre)
        if not all(r in st['role'] for r in ('owner', 'attmgr', 'pauser', 'tokctl')):
            continue
        holder = st['role'].get(ADMIN_ROLE[ty])
        if holder is not None and holder == a.get('from'):
            continue
        stats['mon_c10_unauthorised'] += 1
        if outcome(obs) != 'err':
            yield sc, n, 'C10: %s by a submitter who does not hold role %s returned %s' % (ty, ADMIN_ROLE[ty], outcome(obs))
        elif sorted(obs.get('S', [])) != sorted(pre):
            yield sc, n, 'C10: rejected unauthorised %s changed the state' % ty


# ---------------- C11 ----------------
def mon_c11(scripts, stats):
    names = ('owner', 'pending', 'attmgr', 'pauser', 'tokctl')
    slot = {'UpdateAttesterManager': 'attmgr', 'UpdatePauser': 'pauser', 'UpdateTokenController': 'tokctl'}
    for sc, n, inp, cmd, ty, a, pre, obs in walk(scripts):
        if cmd != 'TX':
            continue
        r0 = state_of(pre)['role']
        r1 = state_of(obs.get('S', []))['role']
        exp = dict(r0)
        ok = outcome(obs) == 'ok'
        frm = a.get('from')
        stats['mon_c11_steps'] += 1
        if ty == 'UpdateOwner' and ok:
            if r0.get('owner') != frm:
                yield sc, n, 'C11: update-owner accepted from a non-owner'
            exp['pending'] = a['new']
        elif ty == 'AcceptOwner' and ok:
            if r0.get('pending') != frm:
                yield sc, n, 'C11: accept-owner accepted from an account that is not the pending owner'
            exp['owner'] = r0.get('pending')
            exp.pop('pending', None)
        elif ty in slot and ok:
            if r0.get('owner') != frm:
                yield sc, n, 'C11: %s accepted from a non-owner' % ty
            exp[slot[ty]] = a['new']
        if exp != r1:
            diff = [k for k in names if exp.get(k) != r1.get(k)]
            yield sc, n, 'C11: role slots %s moved outside the lifecycle on %s (%s)' % (','.join(diff), ty, outcome(obs))
        # the documented lifecycle also says when the role transactions must succeed
        if ty == 'AcceptOwner' and not ok and r0.get('pending') == frm and 'owner' in r0:
            yield sc, n, 'C11: the pending owner could not accept'


# ---------------- C13 ----------------
def mon_c13(scripts, stats):
    for sc, n, inp, cmd, ty, a, pre, obs in walk(scripts):
        if cmd != 'TX':
            continue
        s0, s1 = state_of(pre), state_of(obs.get('S', []))
        def inv(s):
            t = s['num'].get('threshold')
            return t is not None and 1 <= int(t) <= len(s['attester'])
        if inv(s0):
            stats['mon_c13_steps'] += 1
            if not inv(s1):
                yield sc, n, 'C13: %s (%s) left threshold %s with %d enabled attesters' % (ty, outcome(obs), s1['num'].get('threshold'), len(s1['attester']))


# ---------------- C15 ----------------
def mon_c15(model):
    """writes recorded by the tracing store service must lie inside the documented write set that the
    extracted specification (Spec/WriteDoc.v) computes for the concrete request"""
    def mon(scripts, stats):
        for sc, n, inp, cmd, ty, a, pre, obs in walk(scripts):
            if cmd == 'TX':
                doc = set(model.get(n, {}).get('DW', []))
                w = set(obs.get('W', []))
                stats['mon_c15_tx'] += 1
                if outcome(obs) == 'ok':
                    extra = sorted(w - doc)
                    if extra:
                        yield sc, n, 'C15: %s wrote outside its documented set: %s' % (ty, ' ; '.join(extra)[:300])
                else:
                    if sorted(obs.get('S', [])) != sorted(pre):
                        yield sc, n, 'C15: failed %s changed the state' % ty
                # the typed state may only differ inside the documented set
                if outcome(obs) == 'ok':
                    changed = set(obs.get('S', [])) ^ set(pre)
                    for l in sorted(changed):
                        if not any(entry_matches(l, d) for d in doc):
                            yield sc, n, 'C15: %s changed an entry outside its documented set: %s' % (ty, l[:200])
                            break
            elif cmd in ('Q', 'EXPORT'):
                stats['mon_c15_readonly'] += 1
                if 'QW' in obs or 'XW' in obs:
                    yield sc, n, 'C15: %s wrote to the store' % ty
    return mon


def entry_matches(state_line, doc):
    ws = state_line.split(' ')
    a = args_of(state_line)
    d = doc.split(' ')
    if ws[0] in ('role', 'flag', 'num'):
        return d[0] == a.get('name')
    if ws[0] == 'bal':
        return True
    return d[0] == ws[0] and len(d) > 1 and d[1] == 'k=' + a.get('k', '')


def msg_header(hexmsg):
    b = bytes.fromhex(hexmsg)
    if len(b) < 116:
        return None
    return {'version': int.from_bytes(b[0:4], 'big'), 'src': int.from_bytes(b[4:8], 'big'), 'dst': int.from_bytes(b[8:12], 'big'),
            'nonce': int.from_bytes(b[12:20], 'big'), 'sender': b[20:52], 'recipient': b[52:84], 'caller': b[84:116], 'body': b[116:]}


def burn_body(b):
    if len(b) != 132:
        return None
    return {'version': int.from_bytes(b[0:4], 'big'), 'token': b[4:36], 'recipient': b[36:68], 'amount': int.from_bytes(b[68:100], 'big'), 'sender': b[100:132]}


def events(obs, name):
    out = []
    for e in obs.get('E', []):
        ws = e.split(' ')
        if len(ws) > 1 and ws[1] == name:
            out.append(args_of(e))
    return out


def nonce_set(st):
    return set((int(a['domain']), int(a['nonce'])) for a in st['nonce'])


# ---------------- C02 ----------------
def mon_c02(scripts, stats):
    for sc in scripts:
        received = set()
        for _sc, n, inp, cmd, ty, a, pre, obs in walk([sc]):
            if cmd == 'Q' and ty == 'UsedNonce':
                used = (int(a['domain']), int(a['nonce'])) in nonce_set(state_of(pre))
                stats['mon_c02_queries'] += 1
                got = obs.get('QR', [''])[0].startswith('ok')
                if got != used:
                    yield sc, n, 'C02: used-nonce query for (%s,%s) answered %s but the pair is %sin the store' % (a['domain'], a['nonce'], got, '' if used else 'not ')
                continue
            if cmd != 'TX':
                continue
            s0, s1 = nonce_set(state_of(pre)), nonce_set(state_of(obs.get('S', [])))
            stats['mon_c02_steps'] += 1
            if not s0 <= s1:
                yield sc, n, 'C02: %s (%s) made used pairs %s free again' % (ty, outcome(obs), sorted(s0 - s1)[:3])
            new = s1 - s0
            pair = None
            if ty == 'ReceiveMessage' and outcome(obs) == 'ok':
                h = msg_header(a['message'])
                pair = (h['src'], h['nonce']) if h else None
                if pair in s0 or pair in received:
                    yield sc, n, 'C02: second successful receive of pair %s' % (pair,)
                if pair not in s1:
                    yield sc, n, 'C02: successful receive of pair %s did not mark it used' % (pair,)
                received.add(pair)
            if new - ({pair} if pair else set()):
                yield sc, n, 'C02: %s (%s) marked pairs %s used without a successful receive of them' % (ty, outcome(obs), sorted(new)[:3])


# ---------------- C07 ----------------
def mon_c07(scripts, stats):
    M64 = 1 << 64
    for sc, n, inp, cmd, ty, a, pre, obs in walk(scripts):
        if cmd == 'Q' and ty == 'NextAvailableNonce':
            v = state_of(pre)['num'].get('nextnonce')
            q = obs.get('QR', [''])[0]
            stats['mon_c07_queries'] += 1
            if v is not None and q != 'ok v=' + v:
                yield sc, n, 'C07: next-available-nonce query returned %r, the counter is %s' % (q, v)
            continue
        if cmd != 'TX':
            continue
        nn0 = int(state_of(pre)['num'].get('nextnonce', '0'))
        nn1 = int(state_of(obs.get('S', []))['num'].get('nextnonce', '0'))
        ok = outcome(obs) == 'ok'
        stats['mon_c07_steps'] += 1
        sent = [msg_header(e['message']) for e in events(obs, 'MessageSent')]
        if ty in PRODUCERS and ok:
            r = args_of(obs['R'][0])
            if int(r.get('nonce', '-1')) != nn0:
                yield sc, n, 'C07: %s returned nonce %s, the counter was %d' % (ty, r.get('nonce'), nn0)
            if len(sent) != 1 or sent[0] is None or sent[0]['nonce'] != nn0:
                yield sc, n, 'C07: %s emitted nonce %s, the counter was %d' % (ty, [s and s['nonce'] for s in sent], nn0)
            if nn1 != (nn0 + 1) % M64:
                yield sc, n, 'C07: counter went %d -> %d on a successful %s' % (nn0, nn1, ty)
        else:
            if nn1 != nn0:
                yield sc, n, 'C07: counter went %d -> %d on %s (%s)' % (nn0, nn1, ty, outcome(obs))
            if ty in ('ReplaceMessage', 'ReplaceDepositForBurn') and ok:
                o = msg_header(a['orig'])
                if len(sent) != 1 or sent[0] is None or o is None or sent[0]['nonce'] != o['nonce']:
                    yield sc, n, 'C07: %s emitted nonce %s, the original carries %s' % (ty, [s and s['nonce'] for s in sent], o and o['nonce'])


# ---------------- C03 ----------------
def mon_c03(scripts, stats):
    for sc, n, inp, cmd, ty, a, pre, obs in walk(scripts):
        if cmd != 'TX' or ty != 'ReceiveMessage':
            continue
        stats['mon_c03_receives'] += 1
        ok = outcome(obs) == 'ok'
        s0, s1 = state_of(pre), state_of(obs.get('S', []))
        h = msg_header(a['message'])
        if not ok:
            if sorted(obs.get('S', [])) != sorted(pre):
                yield sc, n, 'C03: failed receive changed the state (nonce consumed or funds moved)'
            if obs.get('E'):
                yield sc, n, 'C03: failed receive emitted events'
            continue
        # accepted: every acceptance condition that can be read off the trace must hold
        if h is None:
            yield sc, n, 'C03: receive of a message shorter than 116 bytes succeeded'
            continue
        if s0['flag'].get('sr') == '1':
            yield sc, n, 'C03: receive succeeded while sending-and-receiving is paused'
        if h['dst'] != 4:
            yield sc, n, 'C03: receive succeeded for destination domain %d' % h['dst']
        if h['version'] != 0:
            yield sc, n, 'C03: receive succeeded for message version %d' % h['version']
        if (h['src'], h['nonce']) in nonce_set(s0):
            yield sc, n, 'C03: receive succeeded for an already used nonce'
        if (h['src'], h['nonce']) not in nonce_set(s1):
            yield sc, n, 'C03: successful receive did not consume its nonce'
        module = h['recipient'] == bytes(12) + bytes.fromhex(sc.env.get('module', '')) if sc.env.get('module') else None
        mints = [d for d in obs.get('D', []) if ' Mint ' in ' ' + d]
        if module:
            b = burn_body(h['body'])
            if s0['flag'].get('bm') == '1':
                yield sc, n, 'C03: module-addressed receive succeeded while burning-and-minting is paused'
            if b is None:
                yield sc, n, 'C03: module-addressed receive succeeded with a %d-byte body' % len(h['body'])
            elif b['version'] != 0:
                yield sc, n, 'C03: module-addressed receive succeeded with burn message version %d' % b['version']
            msgr = [m for m in s0['messenger'] if int(m['domain']) == h['src']]
            if not msgr or bytes.fromhex(msgr[0]['addr']) != h['sender']:
                yield sc, n, 'C03: module-addressed receive succeeded although the sender is not the registered token messenger'
            if b is not None and not [p for p in s0['pair'] if int(p['domain']) == h['src'] and bytes.fromhex(p['token']) == b['token']]:
                yield sc, n, 'C03: module-addressed receive succeeded without a linked token pair'
            if len(mints) != 1 or not mints[0].endswith('ok=1'):
                yield sc, n, 'C03: module-addressed receive succeeded without exactly one successful mint'
        elif module is False and mints:
            yield sc, n, 'C03: receive of a message not addressed to the module minted'
        # destination caller: all-zero or names the submitter (the harness passes the bech32 string; compare payloads)
        if any(h['caller']):
            sub = acct(sc, a.get('from'))
            # the code names the account by the low 20 bytes of the field (bech32 of caller[12:]); the high 12 bytes are not read
            if sub is not None and h['caller'][12:] != sub:
                yield sc, n, 'C03: receive succeeded although the destination caller names another account'


# ---------------- C08 ----------------
def mon_c08(scripts, stats):
    for sc, n, inp, cmd, ty, a, pre, obs in walk(scripts):
        if cmd != 'TX' or ty not in ('DepositForBurn', 'DepositForBurnWithCaller'):
            continue
        stats['mon_c08_deposits'] += 1
        ok = outcome(obs) == 'ok'
        s0 = state_of(pre)
        if not ok:
            if sorted(obs.get('S', [])) != sorted(pre):
                yield sc, n, 'C08: rejected deposit changed the state'
            continue
        amt = a['amount']
        if amt == '-' or int(amt) <= 0:
            yield sc, n, 'C08: deposit of amount %s accepted' % amt
            continue
        tok = hexstr(a['burn_token'])
        for l in s0['limit']:
            if hexstr(l['denom']) == tok.lower() and int(amt) > int(l['amt']):
                yield sc, n, 'C08: deposit of %s accepted above the per-message limit %s' % (amt, l['amt'])
        if s0['flag'].get('bm') == '1' or s0['flag'].get('sr') == '1':
            yield sc, n, 'C08: deposit accepted while paused'
        mr = bytes.fromhex(a['mint_recipient'])
        if len(mr) != 32 or not any(mr):
            yield sc, n, 'C08: deposit accepted with mint recipient %s' % a['mint_recipient']
        msgr = [m for m in s0['messenger'] if m['domain'] == a['dest']]
        if not msgr or len(bytes.fromhex(msgr[0]['addr'])) != 32 or not any(bytes.fromhex(msgr[0]['addr'])):
            yield sc, n, 'C08: deposit accepted without a non-zero 32-byte token messenger for the destination'
        mb = s0['num'].get('maxbody')
        if mb is not None and int(mb) < 132:
            yield sc, n, 'C08: deposit accepted although the 132-byte body exceeds the maximum body size %s' % mb
        if tok.lower() != sc.env_denom.lower():
            yield sc, n, 'C08: deposit accepted for burn token %r' % tok
        if ty == 'DepositForBurnWithCaller':
            cl = bytes.fromhex(a['caller'])
            if len(cl) != 32 or not any(cl):
                yield sc, n, 'C08: deposit-with-caller accepted with destination caller %s' % a['caller']
        ds = obs.get('D', [])
        if len(ds) != 2 or not all(d.endswith('ok=1') for d in ds):
            yield sc, n, 'C08: deposit accepted without a successful debit and a successful burn'


# ---------------- independent helpers: Keccak-256 and bech32 (written from the specifications) ----------------
_RC = [0x0000000000000001, 0x0000000000008082, 0x800000000000808A, 0x8000000080008000, 0x000000000000808B, 0x0000000080000001,
       0x8000000080008081, 0x8000000000008009, 0x000000000000008A, 0x0000000000000088, 0x0000000080008009, 0x000000008000000A,
       0x000000008000808B, 0x800000000000008B, 0x8000000000008089, 0x8000000000008003, 0x8000000000008002, 0x8000000000000080,
       0x000000000000800A, 0x800000008000000A, 0x8000000080008081, 0x8000000000008080, 0x0000000080000001, 0x8000000080008008]
_ROT = [[0, 36, 3, 41, 18], [1, 44, 10, 45, 2], [62, 6, 43, 15, 61], [28, 55, 25, 21, 56], [27, 20, 39, 8, 14]]
_M = (1 << 64) - 1


def _rol(x, n):
    n %= 64
    return ((x << n) | (x >> (64 - n))) & _M if n else x


def _f(a):
    for rc in _RC:
        c = [a[x][0] ^ a[x][1] ^ a[x][2] ^ a[x][3] ^ a[x][4] for x in range(5)]
        d = [c[(x - 1) % 5] ^ _rol(c[(x + 1) % 5], 1) for x in range(5)]
        a = [[a[x][y] ^ d[x] for y in range(5)] for x in range(5)]
        b = [[0] * 5 for _ in range(5)]
        for x in range(5):
            for y in range(5):
                b[y][(2 * x + 3 * y) % 5] = _rol(a[x][y], _ROT[x][y])
        a = [[b[x][y] ^ ((~b[(x + 1) % 5][y]) & b[(x + 2) % 5][y]) for y in range(5)] for x in range(5)]
        a[0][0] ^= rc
    return a


def keccak256(data):
    rate = 136
    p = bytearray(data)
    p.append(0x01)
    while len(p) % rate:
        p.append(0)
    p[-1] |= 0x80
    a = [[0] * 5 for _ in range(5)]
    for off in range(0, len(p), rate):
        blk = p[off:off + rate]
        for i in range(rate // 8):
            a[i % 5][i // 5] ^= int.from_bytes(blk[8 * i:8 * i + 8], 'little')
        a = _f(a)
    out = b''
    for i in range(4):
        out += a[i % 5][i // 5].to_bytes(8, 'little')
    return out


_B32 = 'qpzry9x8gf2tvdw0s3jn54khce6mua7l'


def _polymod(values):
    gen = [0x3b6a57b2, 0x26508e6d, 0x1ea119fa, 0x3d4233dd, 0x2a1462b3]
    chk = 1
    for v in values:
        b = chk >> 25
        chk = ((chk & 0x1ffffff) << 5) ^ v
        for i in range(5):
            chk ^= gen[i] if (b >> i) & 1 else 0
    return chk


def bech32(hrp, data):
    acc, bits, out = 0, 0, []
    for b in data:
        acc = (acc << 8) | b
        bits += 8
        while bits >= 5:
            bits -= 5
            out.append((acc >> bits) & 31)
    if bits:
        out.append((acc << (5 - bits)) & 31)
    hv = [ord(c) >> 5 for c in hrp] + [0] + [ord(c) & 31 for c in hrp]
    pm = _polymod(hv + out + [0] * 6) ^ 1
    chk = [(pm >> 5 * (5 - i)) & 31 for i in range(6)]
    return hrp + '1' + ''.join(_B32[d] for d in out + chk)


def dcalls(obs):
    out = []
    for d in obs.get('D', []):
        ws = d.split(' ')
        a = args_of(d)
        a['kind'] = ws[1]
        out.append(a)
    return out


def acct(sc, fromhex):
    """20-byte payload of a submitter string (hex of the bech32 text), if it is one of the script's accounts"""
    if fromhex is None:
        return None
    v = sc.accounts.get(fromhex)
    if v is None:
        try:
            v = sc.accounts.get(bytes.fromhex(fromhex).decode('latin1').lower().encode('latin1').hex())
        except ValueError:
            v = None
    return v


def module_of(sc):
    return bytes.fromhex(sc.env.get('module', ''))


def hrp_of(sc):
    return bytes.fromhex(sc.env.get('hrp', '')).decode('latin1')


def sender32(addr):
    """Go: sender := make([]byte, 32); copy(sender[12:], addr) - the property quantifies over 20-byte accounts"""
    a = addr[:20]
    return bytes(12) + a + bytes(20 - len(a))


def pad32(b):
    return bytes(32 - len(b)) + b if len(b) <= 32 else b[-32:]


# ---------------- C04 ----------------
def mon_c04(scripts, stats):
    for sc, n, inp, cmd, ty, a, pre, obs in walk(scripts):
        if cmd != 'TX':
            continue
        ok = outcome(obs) == 'ok'
        mints = [d for d in dcalls(obs) if d['kind'] == 'Mint']
        s0, s1 = state_of(pre), state_of(obs.get('S', []))
        if ty != 'ReceiveMessage' or not ok:
            stats['mon_c04_other'] += 1
            if ok and mints:
                yield sc, n, 'C04: %s minted' % ty
            if not ok and s0['bal'] != s1['bal']:
                yield sc, n, 'C04: failed %s changed balances' % ty
            if [e for e in obs.get('E', []) if ' MintAndWithdraw' in e or ' MessageReceived' in e]:
                yield sc, n, 'C04: %s (%s) emitted a receive-side event' % (ty, outcome(obs))
            continue
        h = msg_header(a['message'])
        module = h['recipient'] == pad32(module_of(sc))
        mr = events(obs, 'MessageReceived')
        want_mr = {'caller': a['from'], 'src': str(h['src']), 'nonce': str(h['nonce']), 'sender': h['sender'].hex(), 'body': h['body'].hex()}
        if len(mr) != 1 or mr[0] != want_mr:
            yield sc, n, 'C04: MessageReceived event %s does not report the received message %s' % (mr[:1], want_mr)
        if not module:
            stats['mon_c04_nonmodule'] += 1
            if mints or events(obs, 'MintAndWithdraw') or s0['bal'] != s1['bal']:
                yield sc, n, 'C04: receive of a message not addressed to the module minted'
            continue
        stats['mon_c04_mints'] += 1
        b = burn_body(h['body'])
        pairs = [p for p in s0['pair'] if int(p['domain']) == h['src'] and bytes.fromhex(p['token']) == b['token']] if b else []
        if b is None or not pairs:
            yield sc, n, 'C04: module-addressed receive succeeded without a burn body / linked pair'
            continue
        denom = hexstr(pairs[0]['local']).lower()
        to = bech32(hrp_of(sc), b['recipient'][12:])
        want = {'kind': 'Mint', 'from': bech32(hrp_of(sc), module_of(sc)).encode().hex(), 'to': to.encode().hex(),
                'denom': denom.encode().hex(), 'amt': str(b['amount']), 'ok': '1'}
        if mints != [want]:
            yield sc, n, 'C04: mint request %s, the message says %s' % (mints, want)
        mw = events(obs, 'MintAndWithdraw')
        want_mw = {'mint_recipient': b['recipient'].hex(), 'amount': str(b['amount']), 'token': denom.encode().hex()}
        if mw != [want_mw]:
            yield sc, n, 'C04: MintAndWithdraw event %s, the message says %s' % (mw, want_mw)
        key = (b['recipient'][12:].hex() + '/' + denom).encode().hex()
        exp = dict(s0['bal'])
        exp[key] = exp.get(key, 0) + b['amount']
        if {k: v for k, v in exp.items() if v} != {k: v for k, v in s1['bal'].items() if v}:
            yield sc, n, 'C04: balances after the receive are not the balances before plus %d for the recipient' % b['amount']


# ---------------- C05 ----------------
def mon_c05(scripts, stats):
    issued = {}   # per script: outbound nonce -> (amount, step) of the deposit that was given it
    burnt = {}    # per script: total burnt through successful deposits
    for sc, n, inp, cmd, ty, a, pre, obs in walk(scripts):
        if cmd != 'TX':
            continue
        ok = outcome(obs) == 'ok'
        if ty in ('DepositForBurn', 'DepositForBurnWithCaller') and ok:
            # history level: the supply destroyed equals the sum of burn-message amounts over DISTINCT outbound nonces -
            # so no two deposits of a history may be given the same nonce (up to the 2^64 wrap of the counter)
            for e in events(obs, 'MessageSent'):
                m = msg_header(e['message'])
                b = burn_body(m['body']) if m else None
                if m is None or b is None:
                    continue
                seen = issued.setdefault(id(sc), {})
                burnt[id(sc)] = burnt.get(id(sc), 0) + b['amount']
                if m['nonce'] in seen and len(seen) < 2 ** 20:
                    yield sc, n, 'C05: this deposit of %d was given outbound nonce %d, which the deposit at step %s (amount %d) already carries: %d burnt so far, %d stated over distinct nonces' % (
                        b['amount'], m['nonce'], seen[m['nonce']][1], seen[m['nonce']][0], burnt[id(sc)], sum(v[0] for v in seen.values()))
                else:
                    seen[m['nonce']] = (b['amount'], n)
                stats['mon_c05_nonces_tracked'] += 1
        s0, s1 = state_of(pre), state_of(obs.get('S', []))
        calls = dcalls(obs)
        sent = [msg_header(e['message']) for e in events(obs, 'MessageSent')]
        modpad = pad32(module_of(sc))
        if ty in ('DepositForBurn', 'DepositForBurnWithCaller') and ok:
            stats['mon_c05_deposits'] += 1
            dep = acct(sc, a['from'])
            amt, tok = a['amount'], a['burn_token']
            want = [{'kind': 'Transfer', 'from': dep.hex() if dep else (calls[0].get('from') if calls else '?'), 'to': b'cctp'.hex(), 'denom': tok, 'amt': amt, 'ok': '1'},
                    {'kind': 'Burn', 'from': bech32(hrp_of(sc), module_of(sc)).encode().hex(), 'denom': tok, 'amt': amt, 'ok': '1'}]
            if calls != want:
                yield sc, n, 'C05: deposit made dependency calls %s, expected %s' % (calls, want)
            if len(sent) != 1 or sent[0] is None or sent[0]['sender'] != modpad:
                yield sc, n, 'C05: deposit did not emit exactly one message speaking as the module'
            else:
                b = burn_body(sent[0]['body'])
                if b is None or str(b['amount']) != amt:
                    yield sc, n, 'C05: emitted burn message states amount %s, %s was burnt' % (b and b['amount'], amt)
                if b is not None and dep is not None and b['sender'] != sender32(dep):
                    yield sc, n, 'C05: emitted burn message names depositor %s, the submitter is %s' % (b['sender'].hex(), dep.hex())
            if dep is not None:
                key = (dep.hex() + '/' + hexstr(tok)).encode().hex()
                exp = dict(s0['bal'])
                exp[key] = exp.get(key, 0) - int(amt)
                if {k: v for k, v in exp.items() if v} != {k: v for k, v in s1['bal'].items() if v}:
                    yield sc, n, 'C05: balances after the deposit are not the balances before minus %s for the depositor (somebody else debited, or funds left in the module account)' % amt
        else:
            stats['mon_c05_other'] += 1
            if ok and [c for c in calls if c['kind'] in ('Transfer', 'Burn')]:
                yield sc, n, 'C05: %s transferred or burnt' % ty
            if ty != 'ReceiveMessage' and s0['bal'] != s1['bal']:
                yield sc, n, 'C05: %s (%s) changed balances' % (ty, outcome(obs))
            sub = acct(sc, a.get('from'))
            for m in sent:
                if m is None:
                    continue
                if ty in ('SendMessage', 'SendMessageWithCaller') and sub is not None and m['sender'] != sender32(sub):
                    yield sc, n, 'C05: %s emitted a message whose sender %s is not the submitter' % (ty, m['sender'].hex())
                if ty == 'ReplaceMessage' and sub is not None and m['sender'] != sender32(sub):
                    yield sc, n, 'C05: replace-message emitted a message whose sender %s is not the submitter' % m['sender'].hex()
                if ty == 'ReplaceDepositForBurn':
                    o = msg_header(a['orig'])
                    ob = burn_body(o['body']) if o else None
                    nb = burn_body(m['body'])
                    if m['sender'] != modpad or ob is None or nb is None or nb['amount'] != ob['amount'] or (sub is not None and ob['sender'] != sender32(sub)):
                        yield sc, n, 'C05: replace-deposit-for-burn emitted a module message not backed by the submitter\'s own original burn'
            if not ok and sent:
                yield sc, n, 'C05: failed %s emitted a message' % ty


# ---------------- C06 ----------------
def mon_c06(scripts, stats):
    for sc, n, inp, cmd, ty, a, pre, obs in walk(scripts):
        if cmd != 'TX' or outcome(obs) != 'ok' or ty not in PRODUCERS + ('ReplaceMessage', 'ReplaceDepositForBurn'):
            continue
        stats['mon_c06_producers'] += 1
        s0 = state_of(pre)
        sent = [msg_header(e['message']) for e in events(obs, 'MessageSent')]
        if len(sent) != 1 or sent[0] is None:
            yield sc, n, 'C06: %s emitted %d well-formed messages' % (ty, len([s for s in sent if s]))
            continue
        m = sent[0]
        sub = acct(sc, a['from'])
        r = args_of(obs['R'][0])
        if ty in PRODUCERS:
            want = {'version': 0, 'src': 4, 'nonce': int(r.get('nonce', -1))}
            if ty in ('SendMessage', 'SendMessageWithCaller'):
                want.update(dst=int(a['dest']), recipient=bytes.fromhex(a['recipient']), body=bytes.fromhex(a['body']),
                            caller=bytes.fromhex(a['caller']) if ty == 'SendMessageWithCaller' else bytes(32))
                if sub is not None:
                    want['sender'] = sender32(sub)
            else:
                msgr = [x for x in s0['messenger'] if x['domain'] == a['dest']]
                want.update(dst=int(a['dest']), sender=pad32(module_of(sc)), recipient=bytes.fromhex(msgr[0]['addr']) if msgr else None,
                            caller=bytes.fromhex(a['caller']) if ty == 'DepositForBurnWithCaller' else bytes(32))
            bad = [k for k, v in want.items() if m[k] != v]
            if bad:
                yield sc, n, 'C06: %s emitted a message whose %s differ from the request (%s)' % (ty, ','.join(bad), {k: (m[k].hex() if isinstance(m[k], bytes) else m[k]) for k in bad})
            if ty in ('DepositForBurn', 'DepositForBurnWithCaller'):
                b = burn_body(m['body'])
                tokhash = keccak256(hexstr(a['burn_token']).lower().encode('latin1'))
                wb = {'version': 0, 'token': tokhash, 'recipient': bytes.fromhex(a['mint_recipient']), 'amount': int(a['amount'])}
                if sub is not None:
                    wb['sender'] = sender32(sub)
                if b is None or [k for k, v in wb.items() if b[k] != v]:
                    yield sc, n, 'C06: deposit emitted burn message %s, requested %s' % (b and {k: (v.hex() if isinstance(v, bytes) else v) for k, v in b.items()}, {k: (v.hex() if isinstance(v, bytes) else v) for k, v in wb.items()})
                ev = events(obs, 'DepositForBurn')
                msgr = [x for x in s0['messenger'] if x['domain'] == a['dest']]
                we = {'nonce': r.get('nonce'), 'burn_token': tokhash.hex().encode().hex(), 'amount': a['amount'], 'depositor': a['from'],
                      'mint_recipient': a['mint_recipient'], 'dest': a['dest'], 'messenger': msgr[0]['addr'] if msgr else None,
                      'caller': a.get('caller', '')}
                if ev != [we]:
                    yield sc, n, 'C06: DepositForBurn event %s, requested %s' % (ev, we)
        elif ty == 'ReplaceDepositForBurn':
            o = msg_header(a['orig'])
            ob = burn_body(o['body'])
            ev = events(obs, 'DepositForBurn')
            if len(ev) != 1 or ev[0]['burn_token'] != ob['token'].hex().encode().hex():
                yield sc, n, 'C06: replacement event names burn token %s, the original message carries %s' % (ev and bytes.fromhex(ev[0]['burn_token']), ob['token'].hex())


# ---------------- C09 ----------------
def mon_c09(scripts, stats):
    for sc, n, inp, cmd, ty, a, pre, obs in walk(scripts):
        if cmd != 'TX' or ty not in ('ReplaceMessage', 'ReplaceDepositForBurn'):
            continue
        stats['mon_c09_replacements'] += 1
        if sorted(obs.get('S', [])) != sorted(pre):
            yield sc, n, 'C09: %s (%s) changed stored state or balances' % (ty, outcome(obs))
        if obs.get('D'):
            yield sc, n, 'C09: %s made a dependency call' % ty
        if outcome(obs) != 'ok':
            continue
        s0 = state_of(pre)
        o = msg_header(a['orig'])
        sub = acct(sc, a['from'])
        sent = [msg_header(e['message']) for e in events(obs, 'MessageSent')]
        if o is None or len(sent) != 1 or sent[0] is None:
            yield sc, n, 'C09: %s succeeded without a well-formed original / replacement' % ty
            continue
        m = sent[0]
        if s0['flag'].get('sr') == '1' or (ty == 'ReplaceDepositForBurn' and s0['flag'].get('bm') == '1'):
            yield sc, n, 'C09: %s succeeded while paused' % ty
        if o['src'] != 4:
            yield sc, n, 'C09: %s succeeded for an original from domain %d' % (ty, o['src'])
        same = [k for k in ('version', 'src', 'dst', 'nonce', 'sender', 'recipient') if m[k] != o[k]]
        if same:
            yield sc, n, 'C09: replacement changed %s of the original' % ','.join(same)
        if m['caller'] != bytes.fromhex(a['new_caller']):
            yield sc, n, 'C09: replacement does not carry the requested destination caller'
        if ty == 'ReplaceMessage':
            if sub is not None and o['sender'] != sender32(sub):
                yield sc, n, 'C09: replace-message succeeded for an original whose sender is not the submitter'
            if m['body'] != bytes.fromhex(a['new_body']):
                yield sc, n, 'C09: replacement does not carry the requested body'
        else:
            ob, nb = burn_body(o['body']), burn_body(m['body'])
            if ob is None or nb is None:
                yield sc, n, 'C09: replace-deposit-for-burn succeeded without burn bodies'
                continue
            if o['sender'] != pad32(module_of(sc)):
                yield sc, n, 'C09: replace-deposit-for-burn succeeded for an original not sent by the module'
            if sub is not None and ob['sender'] != sender32(sub):
                yield sc, n, 'C09: replace-deposit-for-burn succeeded for a depositor who is not the submitter'
            kept = [k for k in ('version', 'token', 'amount', 'sender') if nb[k] != ob[k]]
            if kept:
                yield sc, n, 'C09: deposit replacement changed %s of the burn message' % ','.join(kept)
            if nb['recipient'] != bytes.fromhex(a['new_recipient']) or not any(nb['recipient']):
                yield sc, n, 'C09: deposit replacement does not carry the requested non-zero mint recipient'


# ---------------- C12 ----------------
def mon_c12(scripts, stats):
    for sc, n, inp, cmd, ty, a, pre, obs in walk(scripts):
        if cmd != 'TX':
            continue
        s0, s1 = state_of(pre), state_of(obs.get('S', []))
        ok = outcome(obs) == 'ok'
        sr, bm = s0['flag'].get('sr') == '1', s0['flag'].get('bm') == '1'
        if ty in FLOWS:
            stats['mon_c12_flows'] += 1
            if sr and ok:
                yield sc, n, 'C12: %s succeeded while sending-and-receiving is paused' % ty
            if bm and ok:
                named = ty in ('DepositForBurn', 'DepositForBurnWithCaller', 'ReplaceDepositForBurn')
                if ty == 'ReceiveMessage':
                    h = msg_header(a['message'])
                    named = h is not None and h['recipient'] == pad32(module_of(sc))
                if named:
                    yield sc, n, 'C12: %s succeeded while burning-and-minting is paused' % ty
        for flag, pause, unpause in (('bm', 'PauseBurningAndMinting', 'UnpauseBurningAndMinting'),
                                     ('sr', 'PauseSendingAndReceivingMessages', 'UnpauseSendingAndReceivingMessages')):
            before, after = s0['flag'].get(flag), s1['flag'].get(flag)
            by_pauser = s0['role'].get('pauser') == a.get('from')
            if ty == pause and by_pauser:
                if not ok or after != '1':
                    yield sc, n, 'C12: %s by the pauser did not set the flag (%s, flag=%s)' % (ty, outcome(obs), after)
            elif ty == unpause and by_pauser:
                if not ok or after != '0':
                    yield sc, n, 'C12: %s by the pauser did not clear the flag (%s, flag=%s)' % (ty, outcome(obs), after)
            elif before != after:
                yield sc, n, 'C12: flag %s changed from %s to %s on %s (%s)' % (flag, before, after, ty, outcome(obs))
        if ty in ADMIN_ROLE and (sr or bm):
            stats['mon_c12_admin_while_paused'] += 1


# ---------------- C14 ----------------
def mon_c14(scripts, stats):
    for sc, n, inp, cmd, ty, a, pre, obs in walk(scripts):
        if cmd != 'TX':
            continue
        ok = outcome(obs) == 'ok'
        calls = dcalls(obs)
        stats['mon_c14_steps'] += 1
        if any(c['ok'] == '0' for c in calls):
            stats['mon_c14_failed_calls'] += 1
            if ok:
                yield sc, n, 'C14: %s succeeded although a dependency call failed (%s)' % (ty, [c['kind'] for c in calls if c['ok'] == '0'])
        if not ok:
            if sorted(obs.get('S', [])) != sorted(pre):
                yield sc, n, 'C14: %s returned an error but balances, counters or used nonces changed' % ty
            if obs.get('E'):
                yield sc, n, 'C14: %s returned an error but events were emitted' % ty
            continue
        if ty in ('DepositForBurn', 'DepositForBurnWithCaller'):
            kinds = [(c['kind'], c['ok']) for c in calls]
            if kinds != [('Transfer', '1'), ('Burn', '1')] or len(events(obs, 'MessageSent')) != 1:
                yield sc, n, 'C14: deposit succeeded without debit, burn and message all having happened (%s, %d messages)' % (kinds, len(events(obs, 'MessageSent')))
            if int(state_of(obs.get('S', []))['num'].get('nextnonce', '0')) == int(state_of(pre)['num'].get('nextnonce', '0')):
                yield sc, n, 'C14: deposit succeeded without reserving a nonce'
        if ty == 'ReceiveMessage':
            h = msg_header(a['message'])
            if h is not None and h['recipient'] == pad32(module_of(sc)) and [(c['kind'], c['ok']) for c in calls] != [('Mint', '1')]:
                yield sc, n, 'C14: module-addressed receive succeeded without a successful mint'


# ---------------- C01 ----------------
def from_hex(s):
    """go-ethereum common.FromHex on a byte string: strip 0x/0X, left-pad odd length, decode up to the first bad pair"""
    if len(s) >= 2 and s[0:1] == b'0' and s[1:2] in (b'x', b'X'):
        s = s[2:]
    if len(s) % 2:
        s = b'0' + s
    out = bytearray()
    for i in range(0, len(s), 2):
        try:
            out.append(int(s[i:i + 2].decode('latin1'), 16) if all(c in b'0123456789abcdefABCDEF' for c in s[i:i + 2]) else int('zz', 16))
        except ValueError:
            break
    return bytes(out)


def expected_accept(sc, msg, att, attesters, thr):
    """the property's own acceptance rule, from the recovery oracle (go-ethereum's Ecrecover called by the harness)"""
    if thr == 0 or len(att) != 65 * thr:
        return False
    digest = keccak256(msg)
    enabled = set(from_hex(a) for a in attesters)
    prev = None
    for i in range(thr):
        sig = bytearray(att[65 * i:65 * i + 65])
        if sig[64] in (27, 28):
            sig[64] -= 27
        pk = sc.oracle.get((digest.hex(), bytes(sig).hex()))
        if pk is None or len(pk) != 65:
            return False
        addr = keccak256(pk[1:])[12:]
        if prev is not None and not prev < addr:
            return False
        if pk not in enabled:
            return False
        prev = addr
    return True


def mon_c01(scripts, stats):
    for sc, n, inp, cmd, ty, a, pre, obs in walk(scripts):
        if cmd == 'VERIFY':
            attesters = [bytes.fromhex(x) for x in a.get('attesters', '').split(',') if x]
            exp = expected_accept(sc, bytes.fromhex(a['msg']), bytes.fromhex(a['att']), attesters, int(a['thr']))
            got = obs.get('V', [''])[0]
            stats['mon_c01_verify_' + ('accept' if exp else 'reject')] += 1
            if got != ('accept' if exp else 'reject'):
                yield sc, n, 'C01: verifier answered %s, the quorum rule says %s' % (got, 'accept' if exp else 'reject')
        elif cmd == 'TX' and ty in ('ReceiveMessage', 'ReplaceMessage', 'ReplaceDepositForBurn') and outcome(obs) == 'ok':
            st = state_of(pre)
            msg = bytes.fromhex(a['message'] if ty == 'ReceiveMessage' else a['orig'])
            att = bytes.fromhex(a['attestation'] if ty == 'ReceiveMessage' else a['att'])
            attesters = [bytes.fromhex(x['v']) for x in st['attester']]
            thr = int(st['num'].get('threshold', '0'))
            stats['mon_c01_accepted_via_handlers'] += 1
            if not expected_accept(sc, msg, att, attesters, thr):
                yield sc, n, 'C01: %s accepted a message without a quorum of distinct enabled attesters in order (threshold %d)' % (ty, thr)


# ---------------- C17 ----------------
PENDING_KEY = b'pending-owner'.hex()


def mon_c17(scripts, stats):
    for sc, n, inp, cmd, ty, a, pre, obs in walk(scripts):
        if cmd == 'ROUNDTRIP':
            rt = obs.get('RT', [''])[0]
            stats['mon_c17_roundtrips'] += 1
            if rt == 'same':
                continue
            if rt.startswith('diff keys='):
                keys = rt[len('diff keys='):].split(',')
                if keys == [PENDING_KEY]:
                    yield sc, n, 'C17: pending owner is not exported: export then import loses the pending-owner entry'
                else:
                    yield sc, n, 'C17: export then import does not reproduce the store (raw keys %s)' % ','.join(keys)[:300]
            elif rt == 'panic':
                # export/import panics exactly when a role slot is unset or the threshold is 0 (not reachable from a valid genesis)
                st = state_of(pre)
                if all(r in st['role'] for r in ('owner', 'attmgr', 'pauser', 'tokctl')) and st['num'].get('threshold') not in (None, '0'):
                    yield sc, n, 'C17: export then import panicked on a complete state'
        elif cmd == 'G-END':
            stats['mon_c17_genesis'] += 1
            # validation accepted => no two entries of a keyed list share a store key: the state after init has as
            # many entries per collection as the genesis listed (nothing silently overwritten)
            if obs.get('GV', [''])[0] == 'ok' and obs.get('GI', [''])[0] == 'ok':
                listed = collections_of_genesis(sc, n)
                st = state_of(obs.get('S', []))
                for kind in ('attester', 'limit', 'pair', 'nonce', 'messenger'):
                    if listed is not None and len(st[kind]) != listed[kind]:
                        yield sc, n, 'C17: validation accepted a genesis whose %s list has %d entries but initialisation stored %d (an entry was silently overwritten)' % (kind, listed[kind], len(st[kind]))


def collections_of_genesis(sc, n):
    """count the G lines of the genesis block that ends at step n"""
    pos = sc.step_pos.get(n)
    if pos is None:
        return None
    cnt = {'attester': 0, 'limit': 0, 'pair': 0, 'nonce': 0, 'messenger': 0}
    i = pos - 2
    while i >= 0 and not sc.inputs[i].startswith('G-BEGIN'):
        ws = sc.inputs[i].split(' ')
        if ws[0] == 'G' and len(ws) > 1 and ws[1] in cnt:
            cnt[ws[1]] += 1
        i -= 1
    return cnt


# ---------------- C19 ----------------
class RefRegs:
    """reference maps maintained from genesis and from the OUTCOMES of transactions only"""

    def __init__(self, st):
        self.att = set(bytes.fromhex(a['v']) for a in st['attester'])
        self.lim = {bytes.fromhex(l['denom']): int(l['amt']) for l in st['limit']}
        self.pair = {(int(p['domain']), bytes.fromhex(p['token'])): bytes.fromhex(p['local']) for p in st['pair']}
        self.msgr = {int(m['domain']): bytes.fromhex(m['addr']) for m in st['messenger']}
        self.non = set((int(x['domain']), int(x['nonce'])) for x in st['nonce'])

    def apply(self, ty, a):
        if ty == 'EnableAttester':
            self.att.add(bytes.fromhex(a['attester']))
        elif ty == 'DisableAttester':
            self.att.discard(bytes.fromhex(a['attester']))
        elif ty == 'LinkTokenPair':
            self.pair[(int(a['domain']), bytes.fromhex(a['token']))] = bytes.fromhex(a['local']).decode('latin1').lower().encode('latin1')
        elif ty == 'UnlinkTokenPair':
            self.pair.pop((int(a['domain']), bytes.fromhex(a['token'])), None)
        elif ty == 'AddRemoteTokenMessenger':
            self.msgr[int(a['domain'])] = bytes.fromhex(a['address'])
        elif ty == 'RemoveRemoteTokenMessenger':
            self.msgr.pop(int(a['domain']), None)
        elif ty == 'SetMaxBurnAmountPerMessage':
            self.lim[bytes.fromhex(a['local']).decode('latin1').lower().encode('latin1')] = 0 if a['amount'] == '-' else int(a['amount'])
        elif ty == 'ReceiveMessage':
            h = msg_header(a['message'])
            self.non.add((h['src'], h['nonce']))

    def listing(self, ty):
        """(store key, rendered item) in key order"""
        if ty == 'Attesters':
            rows = [(x + b'/', x.hex()) for x in self.att]
        elif ty == 'PerMessageBurnLimits':
            rows = [(d + b'/', '%s:%d' % (d.hex(), v)) for d, v in self.lim.items()]
        elif ty == 'TokenPairs':
            rows = [(keccak256(d.to_bytes(4, 'big') + t) + b'/', '%d:%s:%s' % (d, t.hex(), l.hex())) for (d, t), l in self.pair.items()]
        elif ty == 'UsedNonces':
            rows = [(d.to_bytes(4, 'big') + n.to_bytes(8, 'big') + b'/', '%d:%d' % (d, n)) for (d, n) in self.non]
        else:
            rows = [(d.to_bytes(4, 'big') + b'/', '%d:%s' % (d, v.hex())) for d, v in self.msgr.items()]
        return sorted(rows)

    def dump(self):
        return (sorted(x.hex() for x in self.att), sorted((d.hex(), v) for d, v in self.lim.items()),
                sorted((d, t.hex(), l.hex()) for (d, t), l in self.pair.items()), sorted((d, v.hex()) for d, v in self.msgr.items()), sorted(self.non))


def dump_of_state(st):
    return (sorted(a['v'] for a in st['attester']), sorted((l['denom'], int(l['amt'])) for l in st['limit']),
            sorted((int(p['domain']), p['token'], p['local']) for p in st['pair']), sorted((int(m['domain']), m['addr']) for m in st['messenger']),
            sorted((int(x['domain']), int(x['nonce'])) for x in st['nonce']))


def mon_c19(scripts, stats):
    REG_TX = ('EnableAttester', 'DisableAttester', 'LinkTokenPair', 'UnlinkTokenPair', 'AddRemoteTokenMessenger',
              'RemoveRemoteTokenMessenger', 'SetMaxBurnAmountPerMessage', 'ReceiveMessage')
    for sc in scripts:
        ref = None
        for _sc, n, inp, cmd, ty, a, pre, obs in walk([sc]):
            if cmd == 'G-END':
                ref = RefRegs(state_of(obs.get('S', []))) if obs.get('GI', [''])[0] == 'ok' else None
                continue
            if ref is None:
                continue
            if cmd == 'TX':
                if outcome(obs) == 'ok' and ty in REG_TX:
                    ref.apply(ty, a)
                stats['mon_c19_tx'] += 1
                if dump_of_state(state_of(obs.get('S', []))) != ref.dump():
                    yield sc, n, 'C19: after %s (%s) the stored registries are not those established by the successful transactions' % (ty, outcome(obs))
                    ref = RefRegs(state_of(obs.get('S', [])))
                continue
            if cmd != 'Q':
                continue
            q = obs.get('QR', [''])[0]
            if q == 'panic':
                continue     # C20's subject
            stats['mon_c19_queries'] += 1
            exp = None
            if ty == 'Attester':
                x = bytes.fromhex(a['attester'])
                exp = 'ok attester=' + x.hex() if x in ref.att else 'err'
            elif ty == 'PerMessageBurnLimit':
                d = bytes.fromhex(a['denom'])
                exp = 'ok item=%s:%d' % (d.hex(), ref.lim[d]) if d in ref.lim else 'err'
            elif ty == 'RemoteTokenMessenger':
                d = int(a['domain'])
                exp = 'ok item=%d:%s' % (d, ref.msgr[d].hex()) if d in ref.msgr else 'err'
            elif ty == 'UsedNonce':
                p = (int(a['domain']), int(a['nonce']))
                exp = 'ok item=%d:%d' % p if p in ref.non else 'err'
            elif ty == 'TokenPair':
                sp = bytes.fromhex(a['token']).decode('latin1')
                if sp.startswith('0x'):
                    sp = sp[2:]
                try:
                    t = bytes.fromhex(sp) if all(c in '0123456789abcdefABCDEF' for c in sp) and len(sp) % 2 == 0 else None
                except ValueError:
                    t = None
                if t is None or len(t) > 32:
                    exp = 'err'
                else:
                    k = (int(a['domain']), pad32(t))
                    exp = 'ok item=%d:%s:%s' % (k[0], k[1].hex(), ref.pair[k].hex()) if k in ref.pair else 'err'
            elif ty in ('BurningAndMintingPaused', 'SendingAndReceivingMessagesPaused', 'MaxMessageBodySize', 'NextAvailableNonce', 'SignatureThreshold'):
                st = state_of(pre)
                v = {'BurningAndMintingPaused': st['flag'].get('bm'), 'SendingAndReceivingMessagesPaused': st['flag'].get('sr'),
                     'MaxMessageBodySize': st['num'].get('maxbody'), 'NextAvailableNonce': st['num'].get('nextnonce'),
                     'SignatureThreshold': st['num'].get('threshold')}[ty]
                exp = 'err' if v is None else 'ok v=' + v
            elif ty == 'Roles':
                r = state_of(pre)['role']
                if all(k in r for k in ('owner', 'attmgr', 'pauser', 'tokctl')):
                    exp = 'ok owner=%s attmgr=%s pauser=%s tokctl=%s' % (r['owner'], r['attmgr'], r['pauser'], r['tokctl'])
            elif ty in ('LocalDomain', 'LocalMessageVersion', 'BurnMessageVersion'):
                exp = 'ok v=4' if ty == 'LocalDomain' else 'ok v=0'
            elif ty in ('Attesters', 'PerMessageBurnLimits', 'TokenPairs', 'UsedNonces', 'RemoteTokenMessengers') and a['reverse'] == '0':
                rows = ref.listing(ty)
                limit, off, key = int(a['limit']), int(a['offset']), bytes.fromhex(a['key'])
                ct = a['count_total'] == '1'
                if limit == 0:
                    limit, ct = 100, True
                if key and off:
                    exp = 'err'
                elif key:
                    rows = [r for r in rows if r[0] >= key]
                    page, rest = rows[:limit], rows[limit:]
                    exp = 'ok items=%s next=%s total=-' % (';'.join(r[1] for r in page), rest[0][0].hex() if rest else '')
                elif off + limit < (1 << 64):
                    page, rest = rows[off:off + limit], rows[off + limit:]
                    exp = 'ok items=%s next=%s total=%s' % (';'.join(r[1] for r in page), rest[0][0].hex() if rest else '', len(rows) if ct else '-')
            if exp is not None and q != exp:
                yield sc, n, 'C19: query %s answered %r, the registries say %r' % (ty, q[:200], exp[:200])


# ---------------- C20 ----------------
def mon_c20(scripts, stats):
    for sc, n, inp, cmd, ty, a, pre, obs in walk(scripts):
        for kind in ('R', 'QR', 'C', 'A', 'V', 'GI', 'XR', 'RT'):
            for line in obs.get(kind, []):
                stats['mon_c20_calls'] += 1
                if line.split(' ')[0] == 'panic':
                    if kind == 'GI':
                        continue      # InitGenesis is specified to panic on a zero threshold; not an entry point of this property
                    if kind in ('XR', 'RT'):
                        continue      # export of an incomplete store: not reachable from an initialised genesis
                    if kind == 'QR' and a.get('reverse') == '1' and a.get('key'):
                        yield sc, n, 'C20: cosmos-sdk query.Paginate panics for a reverse page request whose cursor is the last key (query %s)' % ty
                    else:
                        yield sc, n, 'C20: %s %s panicked' % (cmd, ty)


# ---------------- C18 ----------------
def mon_c18(scripts, stats):
    for sc, n, inp, cmd, ty, a, pre, obs in walk(scripts):
        if cmd != 'DETCHECK':
            continue
        stats['mon_c18_replays'] += 1
        d = obs.get('DET', [''])[0]
        if d != 'same':
            yield sc, n, 'C18: replay (%s) of the same history differs from the first execution: %s' % (a.get('mode'), d[:300])


# ---------------- request immutability (C18, C09) ----------------
def mon_request_untouched(scripts, stats):
    """a handler must not write into the byte slices of its request: the same decoded request value may be executed again
    (simulation, a retry on another instance) and must then behave the same"""
    for sc, n, inp, cmd, ty, a, pre, obs in walk(scripts):
        if cmd not in ('TX', 'SIM'):
            continue
        stats['mon_request_checked'] += 1
        if 'MUT' in obs:
            yield sc, n, 'C18: %s wrote into its own request, and the same request value executed again from the same state behaves differently (%s)' % (inp.split(' ')[2], obs['MUT'][0][:120])
