#!/bin/bash
# usage: tools/ingest_mutant.sh <scratch worktree> <name>   copies _out of a sub-agent into seeded/<name>, confirms it, removes the worktree
W=$1; N=$2
mkdir -p /verif/seeded/$N
cp $W/_out/patch.diff $W/_out/demo_test.go $W/_out/meta.json /verif/seeded/$N/ || exit 2
/verif/tools/confirm_mutant.sh /verif/seeded/$N
git -C /repo worktree remove --force $W
