#!/bin/bash
# usage: tools/confirm_mutant.sh <dir with patch.diff demo_test.go meta.json>
# Confirms in a scratch worktree: the patch applies, the existing suite passes with it, the demonstration
# fails with it and passes without it.  Prints one summary line.
D=$1
export GOPROXY=off GOSUMDB=off GOTOOLCHAIN=local
W=/tmp/mutv/$(basename $D).$$
mkdir -p /tmp/mutv
git -C /repo worktree add -q --detach $W HEAD || exit 2
trap 'git -C /repo worktree remove --force $W' EXIT
cd $W
demo=$(python3 -c "import json;print(json.load(open('$D/meta.json'))['demo_path'])")
demo=${demo#$W/}; demo=${demo#/tmp/mut/*/}
case "$demo" in /*) demo=$(echo $demo | sed 's#^/tmp/mut/[^/]*/##');; esac
pkg=$(dirname $demo)
git apply $D/patch.diff || { echo "RESULT $(basename $D) patch-does-not-apply"; exit 1; }
suite=$( (go build ./... && go test -vet=off -count=1 ./... ) > $W/.suite.log 2>&1 && echo pass || echo FAIL)
cp $D/demo_test.go $W/$demo
with=$(go test -vet=off -count=1 ./$pkg/ -run 'Demo|ZZ' > $W/.with.log 2>&1 && echo pass || echo fail)
git apply -R $D/patch.diff
without=$(go test -vet=off -count=1 ./$pkg/ -run 'Demo|ZZ' > $W/.without.log 2>&1 && echo pass || echo fail)
ran=$(grep -c "^ok\|^---\|^FAIL" $W/.without.log)
echo "RESULT $(basename $D) suite_with_patch=$suite demo_with_patch=$with demo_without_patch=$without"
[ "$suite" = pass ] && [ "$with" = fail ] && [ "$without" = pass ] || { tail -5 $W/.suite.log $W/.with.log $W/.without.log; exit 1; }
