#!/bin/bash
# Regression over every seeded change: apply it to /repo, run its property's quick check, revert, record the verdict.
# usage: tools/run_seeded.sh [seeded/dir ...]    writes seeded/RESULTS.tsv
cd /verif
dirs=${@:-$(ls -d seeded/C*/)}
out=seeded/RESULTS.tsv
printf "seeded\tproperty\tverdict\tfirst report\n" > $out
for d in $dirs; do
  d=${d%/}; name=$(basename $d); prop=${name%%-*}
  git -C /repo apply /verif/$d/patch.diff || { printf "%s\t%s\tPATCH-DOES-NOT-APPLY\t\n" $name $prop >> $out; continue; }
  res=$(VERIF_NO_EVIDENCE=1 ./check $prop --tier quick 2>&1 | grep "^VIOLATION" | head -1 | sed 's/replay=[^ ]* //' | cut -c1-230)
  git -C /repo checkout -- . ; git -C /repo clean -fdq x/
  if [ -n "$res" ]; then v=reported; case "$res" in *no-failing-input-found) v=reported-no-failing-input;; esac; else v=MISSED; fi
  printf "%s\t%s\t%s\t%s\n" $name $prop $v "$res" >> $out
  echo "$name $v"
done
git -C /repo status --short | head -3
./tools/build.sh | tail -1
