#!/bin/bash
# Independent re-check of the compiled development with coqchk (slow: thorough tier only, once per tree).
# Also the hygiene grep: no Admitted / admit / Axiom / Parameter / Conjecture / disabled checks anywhere.
V=/verif
B=$V/build
cd $V/coq
# Variable / Hypothesis are allowed only inside Sections (indented in this development); at top level they would be axioms
if grep -rnE '^(Axiom|Parameter|Conjecture|Variable|Variables|Hypothesis|Hypotheses)\b|\bAdmitted\b|\badmit\b|Admit Obligations|Unset Guard|Unset Positivity|Unset Universe|bypass_check|type-in-type|impredicative-set' --include=*.v . > $B/logs/hygiene.log; then
  echo "HYGIENE-FAIL"; cat $B/logs/hygiene.log; exit 1
fi
echo HYGIENE-OK
mods=$(ls Properties/*.v | sed 's#Properties/\(.*\)\.v#Cctp.Properties.\1#')
timeout 7000 coqchk -silent -o -R . Cctp $mods > $B/logs/coqchk.log 2>&1
rc=$?
tail -40 $B/logs/coqchk.log
exit $rc
